import GoUefi.Gen
import GoUefi.Properties.C06
import GoUefi.Properties.C10g
import GoUefi.Lemmas.GenVarSign
/-!
# C06 (generated tie) — `signature.SignEFIVariable` as the source has it

Translated by `tools/go2lean` from efi/signature/varsign.go: `SignEFIVariable` (with its name loop
`SignEFIVariable.loop1`) and `NewEFIVariableAuthentication2`.  What is not translated is a parameter:

* `X : signature.Externals` — `util.NewEFITime` (the clock: the field `util_NewEFITime` is the value it
  returns for this call), `pkcs7.SignPKCS7` and `pkcs7.ParseContentInfo` (functions of their arguments;
  `ParseContentInfo` also returns the advanced `*cryptobyte.String`);
* `m : efivar.Marshallable` — the interface value: `m.Marshal k b` is the content of the buffer after
  the call at the `k`-th syntactic call site of `SignEFIVariable` when the buffer held `b` before.
  `SignEFIVariable` calls it twice (site 0: into the buffer that is signed, site 1: behind the
  descriptor in the result).  Nothing is assumed about it: not that it appends, not that the two
  calls do the same.  Where a theorem needs that, it is a hypothesis;
* `key : CryptoSigner`, `cert : X509Cert` are only handed on to `SignPKCS7`;
* `[]byte(v.Name)` is `strBytes v.Name` (the UTF-8 bytes of the name; every statement below holds for
  any byte list in its place).

All theorems hold for every `X`, `m`, `v`, `key`, `cert`.  "nil" results of the Go function are the zero
values `nilAuth` and `[]` (the translator's convention: callers look at the error first).
-/
namespace GoUefi.C06
open GoUefi GoUefi.Gen

/-- what the translation returns for a `nil` `*EFIVariableAuthentication2` -/
def nilAuth : signature.EFIVariableAuthentication2 :=
  ⟨⟨0, 0, 0, 0, 0, 0, 0, 0, 0, 0, 0⟩, ⟨⟨0, 0, 0, []⟩, ⟨0, 0, 0, [0, 0, 0, 0, 0, 0, 0, 0]⟩, []⟩⟩

/-- the buffer that `SignEFIVariable` hands to `SignPKCS7`: every byte of the name followed by 0x00
    (no terminator) ‖ the GUID's fields, little-endian ‖ the attributes, little-endian ‖ the 16 bytes
    of the EFI_TIME that `NewEFITime` returned ‖ what the first `Marshal` call left in its (empty) buffer -/
def gSignedBuffer (X : signature.Externals) (v : efivar.Efivar) (m : efivar.Marshallable) : List UInt8 :=
  ((strBytes v.Name).flatMap fun b => [b, 0]) ++
  (encLE32 v.GUID.Data1 ++ encLE16 v.GUID.Data2 ++ encLE16 v.GUID.Data3 ++ v.GUID.Data4) ++
  encLE32 v.Attributes ++
  encLE_util_EFITime X.util_NewEFITime ++
  m.Marshal 0 []

/-- the descriptor that is returned when the signature `sg` was obtained -/
def gDescriptor (X : signature.Externals) (sg : List UInt8) : signature.EFIVariableAuthentication2 :=
  { Time := X.util_NewEFITime,
    AuthInfo :=
      { Header := { Length := 24 + UInt32.ofNat sg.length, Revision := 0x0200, CertType := 0x0EF1, Certificate := [] },
        CertType := ⟨0x4aafd29d, 0x68df, 0x49ee, [0x8a, 0xa9, 0x34, 0x7d, 0x37, 0x56, 0x65, 0xa7]⟩,
        CertData := sg } }

/-- its encoding: EFI_TIME ‖ dwLength ‖ wRevision ‖ wCertificateType ‖ EFI_CERT_TYPE_PKCS7_GUID ‖ signature -/
def gDescriptorBytes (X : signature.Externals) (sg : List UInt8) : List UInt8 :=
  encLE_util_EFITime X.util_NewEFITime ++ encLE32 (24 + UInt32.ofNat sg.length) ++ encLE16 0x0200 ++ encLE16 0x0EF1 ++
  [0x9d, 0xd2, 0xaf, 0x4a, 0xdf, 0x68, 0xee, 0x49, 0x8a, 0xa9, 0x34, 0x7d, 0x37, 0x56, 0x65, 0xa7] ++ sg

/-- what happens after `SignPKCS7` returned `der` without error -/
def gFinish (X : signature.Externals) (m : efivar.Marshallable) (der : List UInt8) :
    signature.EFIVariableAuthentication2 × List UInt8 × GoErr :=
  match X.pkcs7_ParseContentInfo der with
  | (_, _, _, some e) => (nilAuth, [], some e)
  | (_, _, sg, none) => (gDescriptor X sg, m.Marshal 1 (gDescriptorBytes X sg), none)

theorem C06g_descriptor_marshal (X : signature.Externals) (sg b : List UInt8) :
    (gDescriptor X sg).Marshal b = b ++ gDescriptorBytes X sg := by
  simp only [signature.EFIVariableAuthentication2.Marshal, signature.WriteEFIVariableAuthencation2,
    signature.WriteWinCertificateUEFIGUID, signature.WriteWinCertificate, gDescriptor, gDescriptorBytes,
    decBytes, List.append_assoc, List.append_nil]
  rfl

/-- the translated function in closed form (everything below is read off from this) -/
theorem C06g_closed_form (X : signature.Externals) (v : efivar.Efivar) (m : efivar.Marshallable)
    (key : CryptoSigner) (cert : X509Cert) :
    signature.SignEFIVariable X v m key cert =
      if (X.pkcs7_SignPKCS7 key cert pkcs7.OIDData (gSignedBuffer X v m)).2.isSome then
        (nilAuth, [], (X.pkcs7_SignPKCS7 key cert pkcs7.OIDData (gSignedBuffer X v m)).2)
      else if (X.pkcs7_ParseContentInfo (X.pkcs7_SignPKCS7 key cert pkcs7.OIDData (gSignedBuffer X v m)).1).2.2.2.isSome then
        (nilAuth, [], (X.pkcs7_ParseContentInfo (X.pkcs7_SignPKCS7 key cert pkcs7.OIDData (gSignedBuffer X v m)).1).2.2.2)
      else
        (gDescriptor X (X.pkcs7_ParseContentInfo (X.pkcs7_SignPKCS7 key cert pkcs7.OIDData (gSignedBuffer X v m)).1).2.2.1,
         m.Marshal 1 ((gDescriptor X (X.pkcs7_ParseContentInfo
            (X.pkcs7_SignPKCS7 key cert pkcs7.OIDData (gSignedBuffer X v m)).1).2.2.1).Marshal []),
         none) := by
  unfold signature.SignEFIVariable
  simp only [GenVarSign.loop1_eq, List.nil_append, decBytes]
  rfl

/-- **The signed bytes.** `SignEFIVariable` is: call `SignPKCS7` with the key, the certificate,
    `pkcs7.OIDData` and exactly `gSignedBuffer X v m`; an error of it is returned, otherwise go on with
    the DER it returned.  (No assumption on `SignPKCS7`: the equation says which bytes it is given,
    whether or not it succeeds.) -/
theorem C06g_signed_buffer (X : signature.Externals) (v : efivar.Efivar) (m : efivar.Marshallable)
    (key : CryptoSigner) (cert : X509Cert) :
    signature.SignEFIVariable X v m key cert =
      match X.pkcs7_SignPKCS7 key cert pkcs7.OIDData (gSignedBuffer X v m) with
      | (_, some e) => (nilAuth, [], some e)
      | (der, none) => gFinish X m der := by
  rw [C06g_closed_form]
  rcases hs : X.pkcs7_SignPKCS7 key cert pkcs7.OIDData (gSignedBuffer X v m) with ⟨der, _ | e⟩
  · simp only [Option.isSome_none, Bool.false_eq_true, if_false, gFinish]
    rcases hp : X.pkcs7_ParseContentInfo der with ⟨cs, oid, sg, _ | e⟩
    · simp only [Option.isSome_none, Bool.false_eq_true, if_false, C06g_descriptor_marshal, List.nil_append]
    · simp only [Option.isSome_some, if_true]
  · simp only [Option.isSome_some, if_true]

/-- the layout of the signed buffer: 2·|name| bytes of name, then 16 + 4 + 16 bytes of GUID, attributes
    and timestamp (the GUID's last field has 8 bytes in Go: `[8]uint8`), then the payload of call 0 -/
theorem C06g_signed_buffer_layout (X : signature.Externals) (v : efivar.Efivar) (m : efivar.Marshallable)
    (h8 : v.GUID.Data4.length = 8) :
    ∃ nm gd at' tm, gSignedBuffer X v m = nm ++ gd ++ at' ++ tm ++ m.Marshal 0 [] ∧
      nm.length = 2 * (strBytes v.Name).length ∧ gd = encLE_util_EFIGUID v.GUID ∧ gd.length = 16 ∧
      at'.length = 4 ∧ tm.length = 16 ∧
      (gSignedBuffer X v m).length = 2 * (strBytes v.Name).length + 36 + (m.Marshal 0 []).length := by
  refine ⟨_, _, _, _, rfl, Impl.name_flat_length _, rfl, GenVarSign.encLE_guid_length _ h8, rfl, rfl, ?_⟩
  have hg := GenVarSign.encLE_guid_length _ h8
  have hn := Impl.name_flat_length (strBytes v.Name)
  have ht := GenVarSign.encLE_time_length X.util_NewEFITime
  have ha : (encLE32 v.Attributes).length = 4 := rfl
  unfold gSignedBuffer
  rw [List.length_append, List.length_append, List.length_append, List.length_append, hn, ht, ha]
  change 2 * (strBytes v.Name).length + (encLE_util_EFIGUID v.GUID).length + 4 + 16 + _ = _
  rw [hg]

/-- **Errors.** An error of `SignPKCS7`, or of `ParseContentInfo` on what `SignPKCS7` returned, is
    returned as it is, together with no descriptor and no value. -/
theorem C06g_error (X : signature.Externals) (v : efivar.Efivar) (m : efivar.Marshallable)
    (key : CryptoSigner) (cert : X509Cert) :
    (∀ der e, X.pkcs7_SignPKCS7 key cert pkcs7.OIDData (gSignedBuffer X v m) = (der, some e) →
      signature.SignEFIVariable X v m key cert = (nilAuth, [], some e)) ∧
    (∀ der cs oid sg e, X.pkcs7_SignPKCS7 key cert pkcs7.OIDData (gSignedBuffer X v m) = (der, none) →
      X.pkcs7_ParseContentInfo der = (cs, oid, sg, some e) →
      signature.SignEFIVariable X v m key cert = (nilAuth, [], some e)) := by
  constructor
  · intro der e hs
    rw [C06g_signed_buffer, hs]
  · intro der cs oid sg e hs hp
    rw [C06g_signed_buffer, hs]
    simp only [gFinish, hp]

/-- there is no other error: the call succeeds exactly when both external calls do -/
theorem C06g_error_iff (X : signature.Externals) (v : efivar.Efivar) (m : efivar.Marshallable)
    (key : CryptoSigner) (cert : X509Cert) :
    (signature.SignEFIVariable X v m key cert).2.2 = none ↔
      ∃ der cs oid sg, X.pkcs7_SignPKCS7 key cert pkcs7.OIDData (gSignedBuffer X v m) = (der, none) ∧
        X.pkcs7_ParseContentInfo der = (cs, oid, sg, none) := by
  rw [C06g_signed_buffer]
  rcases hs : X.pkcs7_SignPKCS7 key cert pkcs7.OIDData (gSignedBuffer X v m) with ⟨der, _ | e⟩
  · rcases hp : X.pkcs7_ParseContentInfo der with ⟨cs, oid, sg, _ | e⟩
    · simp only [gFinish, hp, true_iff]
      exact ⟨der, cs, oid, sg, rfl, hp⟩
    · simp only [gFinish, hp]
      constructor
      · intro h; cases h
      · rintro ⟨der', cs', oid', sg', h1, h2⟩
        cases h1
        rw [hp] at h2
        cases h2
  · simp only
    constructor
    · intro h; cases h
    · rintro ⟨der', cs', oid', sg', h1, h2⟩
      cases h1

/-- **The result.** When `SignPKCS7` returned `der` and `ParseContentInfo der` the bare SignedData `sg`:
    the descriptor has the timestamp that went into the signed buffer, `dwLength = 24 + |sg|` (in
    `uint32` arithmetic), revision 0x0200, type 0x0EF1, EFI_CERT_TYPE_PKCS7_GUID and `sg` as certificate
    data; the returned value holds what the second `Marshal` call made of a buffer holding the encoded
    descriptor — EFI_TIME ‖ dwLength ‖ 0x0200 ‖ 0x0EF1 ‖ GUID ‖ sg — and nothing else. -/
theorem C06g_result (X : signature.Externals) (v : efivar.Efivar) (m : efivar.Marshallable)
    (key : CryptoSigner) (cert : X509Cert) (der cs sg : List UInt8) (oid : List Int)
    (hs : X.pkcs7_SignPKCS7 key cert pkcs7.OIDData (gSignedBuffer X v m) = (der, none))
    (hp : X.pkcs7_ParseContentInfo der = (cs, oid, sg, none)) :
    signature.SignEFIVariable X v m key cert =
      (gDescriptor X sg, m.Marshal 1 (gDescriptorBytes X sg), none) ∧
    (gDescriptor X sg).Marshal [] = gDescriptorBytes X sg ∧
    (gDescriptor X sg).AuthInfo.CertType = signature.EFI_CERT_TYPE_PKCS7_GUID ∧
    (gDescriptorBytes X sg).length = 40 + sg.length := by
  refine ⟨?_, ?_, rfl, ?_⟩
  · rw [C06g_signed_buffer, hs]
    simp only [gFinish, hp]
  · rw [C06g_descriptor_marshal, List.nil_append]
  · unfold gDescriptorBytes
    rw [List.length_append, List.length_append, List.length_append, List.length_append, List.length_append,
      GenVarSign.encLE_time_length]
    rfl

/-- … and when the second `Marshal` call appends `p1` to the buffer it is given, the returned value is
    the encoded descriptor followed by `p1`. -/
theorem C06g_result_bytes (X : signature.Externals) (v : efivar.Efivar) (m : efivar.Marshallable)
    (key : CryptoSigner) (cert : X509Cert) (der cs sg p1 : List UInt8) (oid : List Int)
    (hs : X.pkcs7_SignPKCS7 key cert pkcs7.OIDData (gSignedBuffer X v m) = (der, none))
    (hp : X.pkcs7_ParseContentInfo der = (cs, oid, sg, none))
    (hm1 : m.Marshal 1 (gDescriptorBytes X sg) = gDescriptorBytes X sg ++ p1) :
    signature.SignEFIVariable X v m key cert =
      (gDescriptor X sg,
       encLE_util_EFITime X.util_NewEFITime ++ encLE32 (24 + UInt32.ofNat sg.length) ++ encLE16 0x0200 ++ encLE16 0x0EF1 ++
         [0x9d, 0xd2, 0xaf, 0x4a, 0xdf, 0x68, 0xee, 0x49, 0x8a, 0xa9, 0x34, 0x7d, 0x37, 0x56, 0x65, 0xa7] ++ sg ++ p1,
       none) := by
  rw [(C06g_result X v m key cert der cs sg oid hs hp).1, hm1]
  rfl

/-- **Decoding.** With no wrap-around in `dwLength` (24 + |sg| < 2^32) the library's own reader,
    applied to the returned value, gives back exactly the returned descriptor and leaves what the second
    `Marshal` call appended. -/
theorem C06g_decode (X : signature.Externals) (v : efivar.Efivar) (m : efivar.Marshallable)
    (key : CryptoSigner) (cert : X509Cert) (der cs sg p1 : List UInt8) (oid : List Int)
    (hs : X.pkcs7_SignPKCS7 key cert pkcs7.OIDData (gSignedBuffer X v m) = (der, none))
    (hp : X.pkcs7_ParseContentInfo der = (cs, oid, sg, none))
    (hm1 : m.Marshal 1 (gDescriptorBytes X sg) = gDescriptorBytes X sg ++ p1)
    (hlen : 24 + sg.length < 2^32) :
    signature.ReadEFIVariableAuthencation2 (signature.SignEFIVariable X v m key cert).2.1 =
      (p1, (signature.SignEFIVariable X v m key cert).1, none) := by
  rw [(C06g_result X v m key cert der cs sg oid hs hp).1, hm1]
  simp only
  rw [← (C06g_result X v m key cert der cs sg oid hs hp).2.1]
  apply GenVarSign.read_marshal
  refine ⟨rfl, rfl, rfl, ?_, rfl⟩
  show (24 + UInt32.ofNat sg.length).toNat = 24 + sg.length
  rw [UInt32.toNat_add, UInt32.toNat_ofNat']
  have : (24 : UInt32).toNat = 24 := rfl
  rw [this]
  simp only [Nat.reducePow] at hlen ⊢
  omega

/-! ### refinement: the hand-written model of C06 -/

/-- The translated signed buffer is the model's `Impl.signedBuffer` of the name bytes, the GUID's wire
    form (`C10.gwG`), the attributes as a number, the encoded timestamp and the payload of the first
    `Marshal` call. -/
theorem C06g_refines_buffer (X : signature.Externals) (v : efivar.Efivar) (m : efivar.Marshallable) :
    gSignedBuffer X v m =
      Impl.signedBuffer (strBytes v.Name) (C10.gwG v.GUID) v.Attributes.toNat
        (C10.timeWire X.util_NewEFITime) (m.Marshal 0 []) := rfl

/-- **Refinement.** Let the payload be deterministic (call 0 leaves `payload` in the empty buffer, call 1
    appends `payload`), let the clock value encode to the model's `efiTime t`, and let the two external
    functions agree with the model's `signPKCS7` (for these certificate fields, signing-time text, digest
    and RSA signature) on the signed buffer `B`, and with `unwrapContentInfo` on what that returns.  Then
    the translated function returns what `Impl.varSign` — the model that the C06 theorems are about —
    returns (`r`): the same bytes, or an error where the model has no output.  (`r` is a parameter so that
    the statement can be applied to closed inputs without evaluating the model during elaboration.) -/
theorem C06g_refines (X : signature.Externals) (v : efivar.Efivar) (m : efivar.Marshallable)
    (key : CryptoSigner) (cert : X509Cert) (t : Impl.Civil) (payload certRaw issuerRaw : Bytes) (serial : Nat)
    (timeText md sig B : Bytes)
    (hm0 : m.Marshal 0 [] = payload) (hm1 : ∀ b, m.Marshal 1 b = b ++ payload)
    (ht : encLE_util_EFITime X.util_NewEFITime = Impl.efiTime t)
    (hB : B = Impl.signedBuffer (strBytes v.Name) (C10.gwG v.GUID) v.Attributes.toNat (Impl.efiTime t) payload)
    (hsign : match Impl.signPKCS7 Impl.oidData B certRaw issuerRaw serial timeText md sig with
      | some der => X.pkcs7_SignPKCS7 key cert pkcs7.OIDData B = (der, none)
      | none => (X.pkcs7_SignPKCS7 key cert pkcs7.OIDData B).2 ≠ none)
    (hparse : ∀ der, Impl.signPKCS7 Impl.oidData B certRaw issuerRaw serial timeText md sig = some der →
      match Impl.unwrapContentInfo der with
      | some sd => ∃ cs oid, X.pkcs7_ParseContentInfo der = (cs, oid, sd, none)
      | none => (X.pkcs7_ParseContentInfo der).2.2.2 ≠ none)
    (r : Option Bytes)
    (hr : Impl.varSign (strBytes v.Name) (C10.gwG v.GUID) v.Attributes.toNat t payload certRaw issuerRaw serial
        timeText md sig = r) :
    match (generalizing := false) r with
    | some out => ∃ sd, signature.SignEFIVariable X v m key cert = (gDescriptor X sd, out, none)
    | none => (signature.SignEFIVariable X v m key cert).2.2 ≠ none := by
  have hb : gSignedBuffer X v m = B := by
    rw [C06g_refines_buffer, hm0, hB]
    show Impl.signedBuffer _ _ _ (encLE_util_EFITime X.util_NewEFITime) _ = _
    rw [ht]
  unfold Impl.varSign at hr
  rw [← hB] at hr
  cases h1 : Impl.signPKCS7 Impl.oidData B certRaw issuerRaw serial timeText md sig with
  | none =>
    rw [h1] at hsign hr
    simp only at hsign hr
    subst hr
    simp only
    intro hn
    rw [C06g_error_iff X v m key cert, hb] at hn
    obtain ⟨der, cs, oid, sg, h, _⟩ := hn
    rw [h] at hsign
    exact hsign rfl
  | some der =>
    rw [h1] at hsign hr
    simp only at hsign hr
    have hP := hparse der h1
    cases h2 : Impl.unwrapContentInfo der with
    | none =>
      rw [h2] at hP hr
      simp only at hP hr
      subst hr
      simp only
      intro hn
      rw [C06g_error_iff X v m key cert, hb] at hn
      obtain ⟨der', cs, oid, sg, h, h'⟩ := hn
      rw [hsign] at h
      cases h
      rw [h'] at hP
      exact hP rfl
    | some sd =>
      rw [h2] at hP hr
      simp only at hP hr
      subst hr
      simp only
      obtain ⟨cs, oid, hP⟩ := hP
      refine ⟨sd, ?_⟩
      rw [← hb] at hsign
      rw [C06g_result_bytes X v m key cert der cs sd payload oid hsign hP (hm1 _), ht]
      have hl : encLE32 (24 + UInt32.ofNat sd.length) = le32 ((24 + sd.length) % 2^32) := by
        rw [GenCodec.encLE32_eq, UInt32.toNat_add, UInt32.toNat_ofNat']
        have : (24 : UInt32).toNat = 24 := rfl
        rw [this, Impl.le32_mod, ← Impl.le32_mod (24 + sd.length % 2 ^ 32)]
        congr 1
        simp only [Nat.reducePow]
        omega
      rw [hl]
      simp only [Impl.writeWinCert, Impl.winCertRevision, Impl.winCertTypeEfiGuid, Impl.guidPkcs7_eq,
        List.append_nil, List.append_assoc]
      rfl

/-! ### non-vacuity: concrete externals and a concrete payload object -/

/-- toy externals: `SignPKCS7` fails on an empty buffer and otherwise wraps the reversed buffer,
    `ParseContentInfo` takes the wrapper off and fails on anything else -/
def exX : signature.Externals :=
  { util_NewEFITime := ⟨2026, 9, 29, 20, 30, 0, 0, 0, 0, 0, 0⟩,
    pkcs7_SignPKCS7 := fun _ _ _ buf => if buf = [] then ([], some "no content") else (0x30 :: buf.reverse, none),
    pkcs7_ParseContentInfo := fun der =>
      match der with
      | 0x30 :: body => ([], [1, 2, 840, 113549, 1, 7, 2], body, none)
      | _ => (der, [], [], some "no contentinfo") }

/-- a payload object that marshals the same three bytes at both call sites -/
def exM : efivar.Marshallable := { Bytes := fun _ => [7, 8, 9], Marshal := fun _ b => b ++ [7, 8, 9] }
/-- a payload object that is drained by its first `Marshal` call (a reader) -/
def exDrained : efivar.Marshallable :=
  { Bytes := fun _ => [7, 8, 9], Marshal := fun k b => if k = 0 then b ++ [7, 8, 9] else b }

def exV : efivar.Efivar :=
  ⟨"db", ⟨0xd719b2cb, 0x3d3a, 0x4596, [0xa3, 0xbc, 0xda, 0xd0, 0x0e, 0x67, 0x65, 0x6f]⟩, 0x27⟩

example : gSignedBuffer exX exV exM =
    [0x64, 0, 0x62, 0] ++
    [0xcb, 0xb2, 0x19, 0xd7, 0x3a, 0x3d, 0x96, 0x45, 0xa3, 0xbc, 0xda, 0xd0, 0x0e, 0x67, 0x65, 0x6f] ++
    [0x27, 0, 0, 0] ++ [0xea, 0x07, 9, 29, 20, 30, 0, 0, 0, 0, 0, 0, 0, 0, 0, 0] ++ [7, 8, 9] := by
  decide +kernel
/-- the hypotheses of `C06g_result`, `C06g_result_bytes` and `C06g_decode` hold for it … -/
example : exX.pkcs7_SignPKCS7 ⟨1⟩ ⟨[], [], [], 0⟩ pkcs7.OIDData (gSignedBuffer exX exV exM) =
    (0x30 :: (gSignedBuffer exX exV exM).reverse, none) := by decide +kernel
example : exX.pkcs7_ParseContentInfo (0x30 :: (gSignedBuffer exX exV exM).reverse) =
    ([], [1, 2, 840, 113549, 1, 7, 2], (gSignedBuffer exX exV exM).reverse, none) := by decide +kernel
example (b : List UInt8) : exM.Marshal 1 b = b ++ [7, 8, 9] := rfl
example : 24 + (gSignedBuffer exX exV exM).reverse.length < 2^32 := by decide +kernel
/-- … and the translated function, evaluated, returns the layout of `C06g_result_bytes` … -/
example : (signature.SignEFIVariable exX exV exM ⟨1⟩ ⟨[], [], [], 0⟩).2.1 =
    [0xea, 0x07, 9, 29, 20, 30, 0, 0, 0, 0, 0, 0, 0, 0, 0, 0] ++ [24 + 43, 0, 0, 0] ++ [0x00, 0x02] ++ [0xf1, 0x0e] ++
    [0x9d, 0xd2, 0xaf, 0x4a, 0xdf, 0x68, 0xee, 0x49, 0x8a, 0xa9, 0x34, 0x7d, 0x37, 0x56, 0x65, 0xa7] ++
    (gSignedBuffer exX exV exM).reverse ++ [7, 8, 9] := by decide +kernel
example : (signature.ReadEFIVariableAuthencation2 (signature.SignEFIVariable exX exV exM ⟨1⟩ ⟨[], [], [], 0⟩).2.1).1 =
    [7, 8, 9] := by decide +kernel
/-- … while for the drained payload object the signature covers a payload that the result does not
    carry (why the theorems keep the two `Marshal` calls apart) -/
example : gSignedBuffer exX exV exDrained = gSignedBuffer exX exV exM ∧
    (signature.SignEFIVariable exX exV exDrained ⟨1⟩ ⟨[], [], [], 0⟩).2.1 =
      gDescriptorBytes exX (gSignedBuffer exX exV exM).reverse := by decide +kernel
/-- what `C06g_signed_buffer` says about a name outside ASCII: the bytes of its UTF-8 encoding, each
    followed by 0x00 — for "é" c3 00 a9 00, where UTF-16LE (what the firmware hashes) is e9 00 -/
example : (gSignedBuffer exX { exV with Name := "é" } exM).take 4 = [0xc3, 0, 0xa9, 0] := by decide +kernel
/-- the error cases of `C06g_error` are reachable -/
example : signature.SignEFIVariable { exX with pkcs7_SignPKCS7 := fun _ _ _ _ => ([], some "no key") } exV exM ⟨1⟩
    ⟨[], [], [], 0⟩ = (nilAuth, [], some "no key") := by decide +kernel
example : signature.SignEFIVariable { exX with pkcs7_SignPKCS7 := fun _ _ _ _ => ([1], none) } exV exM ⟨1⟩
    ⟨[], [], [], 0⟩ = (nilAuth, [], some "no contentinfo") := by decide +kernel
/-- the hypothesis `ht` of `C06g_refines` is satisfiable: the model's timestamp of the same civil time -/
example : encLE_util_EFITime exX.util_NewEFITime = Impl.efiTime ⟨2026, 9, 29, 20, 30, 0⟩ := by decide +kernel
/-- externals that behave as the model does, for given certificate fields, signing-time text, digest
    and RSA signature: every hypothesis of `C06g_refines` about `X` holds for them by construction -/
def modelX (tm : util.EFITime) (certRaw issuerRaw : Bytes) (serial : Nat) (timeText md sig : Bytes) :
    signature.Externals :=
  { util_NewEFITime := tm,
    pkcs7_SignPKCS7 := fun _ _ _ buf =>
      match Impl.signPKCS7 Impl.oidData buf certRaw issuerRaw serial timeText md sig with
      | some der => (der, none)
      | none => ([], some "panic"),
    pkcs7_ParseContentInfo := fun der =>
      match Impl.unwrapContentInfo der with
      | some sd => ([], [], sd, none)
      | none => (der, [], [], some "no contentinfo") }

/-- the payload object of the model's sample: 76 bytes 0x5a at both call sites -/
def exM76 : efivar.Marshallable :=
  { Bytes := fun _ => List.replicate 76 0x5a, Marshal := fun _ b => b ++ List.replicate 76 0x5a }

/-- the sample inputs of `C06.lean` -/
def smp : Impl.VarSignInputs := Impl.VarSignInputs.sample

/-- the model's externals for the sample: its certificate fields, and the clock at the sample's time -/
def smpX : signature.Externals :=
  modelX exX.util_NewEFITime smp.certRaw smp.issuerRaw smp.serial smp.timeText smp.md smp.sig

/-- `C06g_refines` applied to the sample inputs of `C06.lean` (variable "db", 76-byte payload, the toy
    certificate): all its hypotheses hold, so the translated function returns the model's output —
    which `C06.lean` evaluates (`sample.run`) -/
example : ∃ sd, signature.SignEFIVariable smpX exV exM76 ⟨1⟩ ⟨[], [], [], 0⟩ =
    (gDescriptor smpX sd, Impl.efiTime smp.t ++ [0xbd, 0, 0, 0] ++ [0x00, 0x02] ++ [0xf1, 0x0e] ++ Impl.guidPkcs7 ++
      smp.sd ++ smp.payload, none) := by
  have e1 : strBytes exV.Name = smp.name := by decide +kernel
  have e2 : C10.gwG exV.GUID = smp.guid := by decide +kernel
  have e3 : exV.Attributes.toNat = smp.attrs := by decide +kernel
  have hv : Impl.varSign smp.name smp.guid smp.attrs smp.t smp.payload
      smp.certRaw smp.issuerRaw smp.serial smp.timeText smp.md smp.sig =
      some (Impl.efiTime smp.t ++ [0xbd, 0, 0, 0] ++ [0x00, 0x02] ++ [0xf1, 0x0e] ++ Impl.guidPkcs7 ++
        smp.sd ++ smp.payload) := by decide +kernel
  have hm0 : exM76.Marshal 0 [] = smp.payload := by decide +kernel
  have hm1 : ∀ b, exM76.Marshal 1 b = b ++ smp.payload := fun _ => rfl
  have ht : encLE_util_EFITime smpX.util_NewEFITime = Impl.efiTime smp.t := by decide +kernel
  have hB : smp.buf = Impl.signedBuffer (strBytes exV.Name) (C10.gwG exV.GUID) exV.Attributes.toNat
      (Impl.efiTime smp.t) smp.payload := by rw [e1, e2, e3]; rfl
  rw [← e1, ← e2, ← e3] at hv
  refine C06g_refines smpX exV exM76 ⟨1⟩ ⟨[], [], [], 0⟩ smp.t smp.payload smp.certRaw smp.issuerRaw smp.serial
    smp.timeText smp.md smp.sig smp.buf hm0 hm1 ht hB ?_ ?_ (some _) hv
  · simp only [smpX, modelX]; split <;> simp_all
  · intro der _; simp only [smpX, modelX]; split <;> simp_all

example : Gen.skipped.all (fun p => p.1 != "signature.SignEFIVariable" && p.1 != "signature.NewEFIVariableAuthentication2") = true := by
  decide +kernel

end GoUefi.C06

#print axioms GoUefi.C06.C06g_descriptor_marshal
#print axioms GoUefi.C06.C06g_closed_form
#print axioms GoUefi.C06.C06g_signed_buffer
#print axioms GoUefi.C06.C06g_signed_buffer_layout
#print axioms GoUefi.C06.C06g_error
#print axioms GoUefi.C06.C06g_error_iff
#print axioms GoUefi.C06.C06g_result
#print axioms GoUefi.C06.C06g_result_bytes
#print axioms GoUefi.C06.C06g_decode
#print axioms GoUefi.C06.C06g_refines_buffer
#print axioms GoUefi.C06.C06g_refines
