import GoUefi.Properties.C03g
import GoUefi.Properties.C04g
import GoUefi.Properties.C02
/-!
# C02 (generated tie) — `PECOFFBinary.Verify` and `(*Authenticode).verifyDigest`, as the source has them now

`authenticode.PECOFFBinary.Verify` (and `Signatures`, which it calls), its closure `imageDigest` with the memo map, AND
`(*Authenticode).verifyDigest` with the `pkcs7.PKCS7.Verify` it ends in are translated from the source on every run;
`ParseAuthenticode`, `makeSectionReader`, the digest function of the standard library and pkcs7's `signerinfo.verify` are
external parameters (modelling: top and section 5 of `Properties/C03g.lean`).  NO HYPOTHESIS ON AN EXTERNAL is left in
the characterisation: `C03g_verify` / `C02g_verify_true_iff` say which entry decides and what success means for ALL
values of the externals; `C02g_sound` transports the statement of `C02_sound` to the translated code for externals that
answer as the model's parser, SHA-256 and signer check do.
-/
namespace GoUefi.C02
open GoUefi GoUefi.Gen GoUefi.C03

/-- **`C02_sound` for the translated `Verify`**: when the bytes of `makeSectionReader(hashContent)` are the model's hash
    stream, the digest external under `crypto.SHA256` is the model's SHA-256, and `ParseAuthenticode` answers as
    `Impl.parseAuthenticode` does (an entry parses in the translation exactly when it does in the model; the parsed value
    carries the model's object identifier and digest, and its translated `Pkcs.Verify` gives the model's outcome — the
    hypotheses of `C03g_verify_refines`), the translated `Verify` returns `(true, nil)` only if some entry of the
    certificate table parses as Authenticode, names SHA-256, embeds the SHA-256 of this image's hash stream, and its
    PKCS#7 verifies under the certificate -/
theorem C02g_sound (fuel : Nat) (X : authenticode.Ext) (p : authenticode.PECOFFBinary) (cert : X509Cert)
    (C : Crypto) (certsOk : Bytes → Bool) (c : Cert) (parts : List Impl.Part) (regular : Bool)
    (hf : p.certTable.length < fuel)
    (hstream : (X.makeSectionReader p.hashContent).content = Impl.hashStream (absP p parts regular))
    (hsha : ∀ bs, X.crypto_Hash_Sum 5 bs = C.sha256 bs)
    (hparse : ∀ b : List UInt8,
      match Impl.parseAuthenticode certsOk b with
      | none => (X.ParseAuthenticode b).2.isSome
      | some a => (X.ParseAuthenticode b).2 = none ∧
          (X.ParseAuthenticode b).1.Algid.Algorithm = a.alg.map Int.ofNat ∧
          (X.ParseAuthenticode b).1.Digest = a.digest ∧
          outcomeOf ((X.ParseAuthenticode b).1.Pkcs.Verify X.pkcs7 cert) = a.pkcs.verify C c)
    (h : authenticode.PECOFFBinary.Verify fuel X p cert = (true, none)) :
    ∃ w ws', ((absP p parts regular).signatures = .ok ws' ∧ w ∈ ws') ∧
      ∃ a, Impl.parseAuthenticode certsOk w.cert = some a ∧ a.alg = Impl.oidSha256 ∧
        a.digest = C.sha256 (Impl.hashStream (absP p parts regular)) ∧ a.pkcs.verify C c = .ok true := by
  have hr := C03g_verify_refines fuel X p cert C certsOk c parts regular hf hstream hsha hparse
  rw [h] at hr
  exact C02_sound hr.symm

/-- **what success of the translated `Verify` means — for every receiver, every certificate and EVERY value of the
    externals**: `Verify` returns `(true, nil)` exactly when `Signatures()` succeeds and the table walks to an entry `w`
    that
    * parses as Authenticode (`ParseAuthenticode`, external),
    * names SHA-256 as its digest algorithm,
    * carries a 32-byte digest EQUAL to the SHA-256 (the digest external under `crypto.SHA256` = 5) of the image's hash
      stream (the bytes of `makeSectionReader(hashContent)`),
    * and whose PKCS#7 verifies under the certificate — `C04g_verify_true_iff`: some signer entry that names the
      certificate (issuer bytes and serial number) is accepted by `signerinfo.verify` (external) over the PKCS#7's content
      info, every earlier entry that names it having answered `(false, nil)` —
    while every entry in front of `w` parsed and answered `(false, nil)` (`C03.entryVerdict_none_iff`: the same first
    three facts, with a PKCS#7 that answers `(false, nil)`) -/
theorem C02g_verify_true_iff (fuel : Nat) (X : authenticode.Ext) (p : authenticode.PECOFFBinary) (cert : X509Cert) :
    authenticode.PECOFFBinary.Verify fuel X p cert = (true, none) ↔
      ∃ ws, p.Signatures fuel = (ws, none) ∧ ∃ pre w post, ws = pre ++ w :: post ∧
        (∀ x ∈ pre, entryVerdict X (imageDigest X p) cert x = none) ∧
        (X.ParseAuthenticode w.Certificate).2 = none ∧
        (X.ParseAuthenticode w.Certificate).1.Algid.Algorithm = pkcs7.OIDDigestAlgorithmSHA256 ∧
        (X.ParseAuthenticode w.Certificate).1.Digest.length = 32 ∧
        (X.ParseAuthenticode w.Certificate).1.Digest =
          X.crypto_Hash_Sum 5 (X.makeSectionReader p.hashContent).content ∧
        ∃ spre s spost, (X.ParseAuthenticode w.Certificate).1.Pkcs.SignerInfo = spre ++ s :: spost ∧
          s.isCertificate cert = true ∧
          X.pkcs7.signerinfo_verify s cert (X.ParseAuthenticode w.Certificate).1.Pkcs.ContentInfo = (true, none) ∧
          ∀ s' ∈ spre, s'.isCertificate cert = true →
            X.pkcs7.signerinfo_verify s' cert (X.ParseAuthenticode w.Certificate).1.Pkcs.ContentInfo = (false, none) := by
  rw [C03g_verify_true_iff fuel X p cert]
  simp only [C04.C04g_verify_true_iff]

example : authenticode.PECOFFBinary.Verify 17 X0 (p0.AppendSignature [1, 2, 3]).1 certA = (true, none) := by
  decide +kernel
/-- … and the right-hand side of `C02g_verify_true_iff` for it -/
example := (C02g_verify_true_iff 17 X0 (p0.AppendSignature [1, 2, 3]).1 certA).mp (by decide +kernel)

end GoUefi.C02

#print axioms GoUefi.C02.C02g_sound
#print axioms GoUefi.C02.C02g_verify_true_iff
