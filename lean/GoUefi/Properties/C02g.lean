import GoUefi.Properties.C03g
import GoUefi.Properties.C02
/-!
# C02 (generated tie) — the loop of `PECOFFBinary.Verify`, as the source has it now

`authenticode.PECOFFBinary.Verify` (and `Signatures`, which it calls) as translated from authenticode/checksum.go on
every run; `ParseAuthenticode`, `(*Authenticode).verifyDigest`, `makeSectionReader` and the digest function of the
standard library are external parameters, the closure `imageDigest` with its memo map is translated (modelling: top and
section 5 of `Properties/C03g.lean`).  `C03g_verify` says which entry decides for ALL values of the externals whose
`verifyDigest` reaches the closure's map only by calling the closure (`CallsOnly`); here the statement of `C02_sound` is
transported to the translated loop for externals that answer as the model's parser and verifier do.
-/
namespace GoUefi.C02
open GoUefi GoUefi.Gen GoUefi.C03

/-- **`C02_sound` for the translated `Verify`**: when `verifyDigest` reaches the closure's map only by calling the closure
    (`CallsOnly`) and the externals answer as `Impl.parseAuthenticode` / `Impl.Auth.verify` do (hypothesis `hext`, as in
    `C03g_verify_refines`: every parsed entry, verified against the digest function of this image, gives the model's
    outcome on the model's hash stream — `C03g_verifyDigest_model`), the translated `Verify` returns `(true, nil)` only
    if some entry of the certificate table parses as Authenticode, names SHA-256, embeds the SHA-256 of this image's
    hash stream, and its PKCS#7 verifies under the certificate -/
theorem C02g_sound (fuel : Nat) (X : authenticode.Ext) (p : authenticode.PECOFFBinary) (cert : X509Cert)
    (C : Crypto) (certsOk : Bytes → Bool) (c : Cert) (parts : List Impl.Part) (regular : Bool)
    (hX : CallsOnly X)
    (hf : p.certTable.length < fuel)
    (hext : ∀ b : List UInt8,
      match Impl.parseAuthenticode certsOk b with
      | none => (X.ParseAuthenticode b).2.isSome
      | some a => (X.ParseAuthenticode b).2 = none ∧
          outcomeOf (verifyDigestOf X (X.ParseAuthenticode b).1 cert (imageDigest X p)) =
            a.verify C c (Impl.hashStream (absP p parts regular)))
    (h : authenticode.PECOFFBinary.Verify fuel X p cert = (true, none)) :
    ∃ w ws', ((absP p parts regular).signatures = .ok ws' ∧ w ∈ ws') ∧
      ∃ a, Impl.parseAuthenticode certsOk w.cert = some a ∧ a.alg = Impl.oidSha256 ∧
        a.digest = C.sha256 (Impl.hashStream (absP p parts regular)) ∧ a.pkcs.verify C c = .ok true := by
  have hr := C03g_verify_refines fuel X p cert C certsOk c parts regular hX hf hext
  rw [h] at hr
  exact C02_sound hr.symm

/-- … and the first-entry-decides characterisation, for every value of the externals with `CallsOnly`
    (`C03g_verify_true_iff`): success means that some entry parses and `verifyDigest` accepts it against THE DIGEST
    FUNCTION OF THIS IMAGE (the digest, under the algorithm asked for, of the bytes of `makeSectionReader(hashContent)`)
    while every entry before it parsed and answered `(false, nil)` against that same function -/
theorem C02g_verify_true_iff (fuel : Nat) (X : authenticode.Ext) (p : authenticode.PECOFFBinary) (cert : X509Cert)
    (hX : CallsOnly X) :
    authenticode.PECOFFBinary.Verify fuel X p cert = (true, none) ↔
      ∃ ws, p.Signatures fuel = (ws, none) ∧ ∃ pre w post, ws = pre ++ w :: post ∧
        (∀ x ∈ pre, entryVerdict X (imageDigest X p) cert x = none) ∧
        (X.ParseAuthenticode w.Certificate).2 = none ∧
        verifyDigestOf X (X.ParseAuthenticode w.Certificate).1 cert (imageDigest X p) = (true, none) :=
  C03g_verify_true_iff fuel X p cert hX

example : authenticode.PECOFFBinary.Verify 17 X0 (p0.AppendSignature [1, 2, 3]).1 certA = (true, none) := by
  decide +kernel
/-- … and the right-hand side of `C02g_verify_true_iff` for it (`X0` satisfies `CallsOnly`) -/
example := (C02g_verify_true_iff 17 X0 (p0.AppendSignature [1, 2, 3]).1 certA X0_callsOnly).mp (by decide +kernel)

end GoUefi.C02

#print axioms GoUefi.C02.C02g_sound
#print axioms GoUefi.C02.C02g_verify_true_iff
