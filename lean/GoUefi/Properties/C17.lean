import GoUefi.Lemmas.Guid
import GoUefi.Lemmas.Utf16
import GoUefi.Fmt
/-!
# C17 — GUID and UTF-16 string conversions are lossless and use the EFI wire layout

Only the property theorems and their non-vacuity examples live here.
Models: `GoUefi/Model/Guid.lean` (efi/util/guid.go), `GoUefi/Model/Utf16.lean` (efi/util/util.go,
efivar.Efistring).  All statements quantify over *every* GUID (`Guid.WF` = the field ranges of the
Go struct) and every NUL-free list of Unicode scalar values.
-/
namespace GoUefi.C17
open GoUefi

/-- Formatting yields the canonical text: 8-4-4-4-12 lower-case hex digits separated by dashes
    (36 characters). -/
theorem C17_format_canonical (g : Guid) (h : g.WF) :
    ∃ a b c d e : List Char, g.format = a ++ '-' :: b ++ '-' :: c ++ '-' :: d ++ '-' :: e ∧
      a.length = 8 ∧ b.length = 4 ∧ c.length = 4 ∧ d.length = 4 ∧ e.length = 12 ∧
      (∀ x ∈ a ++ b ++ c ++ d ++ e, isLowerHex x = true) ∧ g.format.length = 36 := by
  obtain ⟨_, _, _, h4⟩ := h
  refine ⟨hexBytes (be32 g.d1), hexBytes (be16 g.d2), hexBytes (be16 g.d3), hexBytes (g.d4.take 2),
    hexBytes (g.d4.drop 2), rfl, by simp, by simp, by simp, by simp; omega, by simp; omega, ?_, ?_⟩
  · intro x hx
    simp only [List.mem_append] at hx
    rcases hx with (((hx | hx) | hx) | hx) | hx <;> exact hexBytes_all_lower _ x hx
  · simp [Guid.format]; omega

/-- Parsing the formatted text, in lower or in upper case, returns the same GUID. -/
theorem C17_text_roundtrip (g : Guid) (h : g.WF) :
    stringToGuid g.format = g ∧ stringToGuid (g.format.map upperChar) = g := by
  have hb : be32 g.d1 ++ be16 g.d2 ++ be16 g.d3 ++ g.d4.take 2 ++ g.d4.drop 2 = guidToBytes g := by
    simp [guidToBytes, List.append_assoc]
  constructor
  · unfold stringToGuid
    rw [filter_format, hb]
    have := decodeHex_hexBytes (guidToBytes g) []
    simp only [List.append_nil] at this
    rw [this]; simp only [decodeHex, List.append_nil]
    exact bytesToGuid_guidToBytes g h
  · unfold stringToGuid
    rw [filter_format_upper, hb]
    have := decodeHex_upper_hexBytes (guidToBytes g) []
    simp only [List.append_nil] at this
    rw [this]; simp only [decodeHex, List.append_nil]
    exact bytesToGuid_guidToBytes g h

/-- The 16-byte big-endian form round-trips in both directions. -/
theorem C17_bytes_roundtrip :
    (∀ g : Guid, g.WF → bytesToGuid (guidToBytes g) = g) ∧
    (∀ bs : Bytes, bs.length = 16 → guidToBytes (bytesToGuid bs) = bs ∧ (bytesToGuid bs).WF) :=
  ⟨bytesToGuid_guidToBytes, fun bs h => ⟨guidToBytes_bytesToGuid bs h, bytesToGuid_wf bs (by omega)⟩⟩

/-- Equality is field-wise. -/
theorem C17_cmp (a b : Guid) : cmpGuid a b = true ↔ a = b := by
  cases a; cases b
  simp [cmpGuid]
  constructor
  · rintro ⟨⟨⟨h1, h2⟩, h3⟩, h4⟩; exact ⟨h1, h2, h3, h4⟩
  · rintro ⟨h1, h2, h3, h4⟩; exact ⟨⟨⟨h1, h2⟩, h3⟩, h4⟩

/-- Inside encoded structures a GUID is Data1, Data2, Data3 little-endian followed by Data4,
    16 bytes, and decoding those bytes gives the GUID back. -/
theorem C17_wire (g : Guid) (h : g.WF) :
    guidWire g = le32 g.d1 ++ le16 g.d2 ++ le16 g.d3 ++ g.d4 ∧ (guidWire g).length = 16 ∧
    guidOfWire (guidWire g) = g :=
  ⟨rfl, by simp [guidWire, h.2.2.2], guidOfWire_guidWire g h⟩

/-- Encoding any NUL-free string yields UTF-16LE plus one NUL terminator, and decoding returns the
    original string — for every Unicode scalar value, surrogate pairs included; `Efistring`
    additionally ignores whatever follows the terminator. -/
theorem C17_utf16_roundtrip (s : List Char) (h : ∀ c ∈ s, c ≠ '\x00') :
    marshalUtf16 s = unitsToBytes (utf16enc s) ++ [0, 0] ∧
    parseUtf16 (marshalUtf16 s) = .ok s ∧
    ∀ tail, efistringUnmarshal (marshalUtf16 s ++ tail) = .ok s :=
  ⟨rfl, parseUtf16_marshal s h, efistring_marshal s h⟩

/-- Regenerated tie: the format string that `EFIGUID.Format` passes to `fmt.Sprintf` in the current
    source (extracted on every run) lies in the class of format strings whose meaning is
    `Guid.format`.  An absent fact (function renamed) makes this vacuous; the differential run then
    carries the tie alone. -/
theorem C17_format_string_in_class :
    ∀ s ∈ Fmt.formatsOf "efi/util" "EFIGUID.Format", Fmt.GuidFmtOk (Fmt.parse s.toList) = true := by
  decide

/-! ### non-vacuity: concrete values meeting the hypotheses -/
example : (⟨0x8be4df61, 0x93ca, 0x11d2, [0xaa, 0x0d, 0x00, 0xe0, 0x98, 0x03, 0x2b, 0x8c]⟩ : Guid).WF := by decide
example : String.ofList (⟨0x8be4df61, 0x93ca, 0x11d2, [0xaa, 0x0d, 0x00, 0xe0, 0x98, 0x03, 0x2b, 0x8c]⟩ : Guid).format
    = "8be4df61-93ca-11d2-aa0d-00e098032b8c" := by decide
example : ∀ c ∈ ['h', 'é', Char.ofNat 0x1F600], c ≠ '\x00' := by decide
example : marshalUtf16 ['h', Char.ofNat 0x1F600] = [0x68, 0, 0x3d, 0xd8, 0x00, 0xde, 0, 0] := by decide

end GoUefi.C17
