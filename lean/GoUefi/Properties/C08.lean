import GoUefi.Lemmas.SigDb
/-!
# C08 — the signature-database decoder is strict

`Impl.readDb` (model of `ReadSignatureDatabase` / `ReadSignatureList` / `ReadSignatureData`, see
`GoUefi/Model/SigDb.lean`) against the specification codec `GoUefi.Spec` (UEFI 2.8 §32.4.1, see
`GoUefi/Spec/SigDb.lean`).  Only the property theorems and their non-vacuity examples live here;
all helper lemmas are in `GoUefi/Lemmas/SigDb.lean`.
-/
namespace GoUefi.C08
open GoUefi

/-! ### sanity of the specification codec itself -/

/-- Specification sanity, encode then decode.  PARTIAL with respect to the requested statement
    `(∀ l ∈ ls, l.WF) → …`: `Spec.SList.WF` bounds `listSize` by 2^32 but that says nothing about
    the `size` field of a list *without entries*, whose 4-byte encoding then wraps (counterexample
    below).  The extra conjunct `l.size < 2^32` is exactly what is missing; every decoded value
    has it (`Spec_encode_decode`). -/
theorem Spec_decode_encode_partial {ls : List Spec.SList}
    (h : ∀ l ∈ ls, l.WF ∧ l.size < 2^32) : Spec.decodeDb (Spec.encDb ls) = some ls :=
  Spec.decodeDb_enc ls h

/-- the requested full-strength statement is false: an entry-less list with a 33-bit `size` -/
example : ∃ ls : List Spec.SList, (∀ l ∈ ls, l.WF) ∧ Spec.decodeDb (Spec.encDb ls) ≠ some ls :=
  ⟨[⟨List.replicate 16 0, [], 2^32 + 16, []⟩],
   by intro l hl
      simp only [List.mem_singleton] at hl; subst hl
      exact ⟨by decide, by decide, by decide, by simp⟩,
   by decide⟩

/-- Specification sanity, decode then encode: whatever decodes re-encodes to the input, and is
    well formed (with every field inside its 32 bits). -/
theorem Spec_encode_decode {bs : Bytes} {ls : List Spec.SList} (h : Spec.decodeDb bs = some ls) :
    Spec.encDb ls = bs ∧ ∀ l ∈ ls, l.WF ∧ l.size < 2^32 :=
  Spec.decodeDb_ok h

/-! ### the decoder -/

/-- Decoding succeeds only if the whole input is consumed as well-formed lists with
    `ListSize = 28 + HeaderSize + count·Size` (`HeaderSize = 0`), `Size ≥ 16`, SHA-256 lists of
    `Size` exactly 48; the returned database is exactly what the specification's layout defines,
    and it re-encodes to the input byte for byte. -/
theorem C08_strict {bs : Bytes} {db : Impl.Db} (h : Impl.readDb bs = some db) :
    Spec.decodeDb bs = some (db.map Impl.SList.toSpec) ∧
    (∀ l ∈ db, l.listSize = 28 + l.sigs.length * l.size ∧ l.hdrSize = 0 ∧ l.hdr = [] ∧
       16 ≤ l.size ∧ (l.type = Impl.guidSha256 → l.size = 48)) ∧
    Impl.encDb db = bs := by
  obtain ⟨e, w⟩ := Impl.readDb_ok h
  refine ⟨Impl.readDb_decodeDb h, ?_, e.symm⟩
  intro l hl
  obtain ⟨⟨_, hH, hhdr, hS, hLS, _⟩, _, _, hh⟩ := w l hl
  refine ⟨hLS, hH, hhdr, hS, ?_⟩
  intro ht
  rw [ht] at hh
  exact Impl.handled_sha hh

/-- An empty database is returned for the empty input only (no error is swallowed). -/
theorem C08_no_silent_empty {bs : Bytes} (h : Impl.readDb bs = some []) : bs = [] :=
  (Impl.readDb_ok h).1

/-- A proper prefix `p` of a well-formed stream decodes only if the cut is at a list boundary:
    then `p` is the encoding of the first `k` lists (`k` strictly less than the number of lists)
    and those are what is returned. -/
theorem C08_truncation {bs p q : Bytes} {ls : List Spec.SList} {db : Impl.Db}
    (h : Spec.decodeDb bs = some ls) (hpq : p ++ q = bs) (hq : q ≠ [])
    (hp : Impl.readDb p = some db) :
    ∃ k, k < ls.length ∧ p = Spec.encDb (ls.take k) ∧ db.map Impl.SList.toSpec = ls.take k := by
  obtain ⟨e, w⟩ := Spec.decodeDb_ok h
  obtain ⟨e', w'⟩ := Spec.decodeDb_ok (Impl.readDb_decodeDb hp)
  have hpre := Spec.encDb_prefix (db.map Impl.SList.toSpec) ls q w' w (by rw [e', hpq, e])
  obtain ⟨h1, h2⟩ := hpre
  refine ⟨(db.map Impl.SList.toSpec).length, ?_, by rw [← h1, e'], h1⟩
  have hle : (db.map Impl.SList.toSpec).length ≤ ls.length := by
    have := congrArg List.length h1
    rw [List.length_take] at this
    omega
  apply Nat.lt_of_le_of_ne hle
  intro heq
  rw [heq, List.drop_length] at h2
  exact hq h2

/-- Contrapositive reading: a cut that is not at a list boundary is rejected. -/
theorem C08_truncation_rejects {bs p q : Bytes} {ls : List Spec.SList}
    (h : Spec.decodeDb bs = some ls) (hpq : p ++ q = bs)
    (hcut : ∀ k ≤ ls.length, p ≠ Spec.encDb (ls.take k)) : Impl.readDb p = none := by
  cases hp : Impl.readDb p with
  | none => rfl
  | some db =>
    have hq : q ≠ [] := by
      intro hq
      rw [hq, List.append_nil] at hpq
      apply hcut ls.length (Nat.le_refl _)
      rw [List.take_length, (Spec.decodeDb_ok h).1, hpq]
    obtain ⟨k, hk, e, _⟩ := C08_truncation h hpq hq hp
    exact absurd e (hcut k (Nat.le_of_lt hk))

/-! ### non-vacuity: a concrete two-list stream (`Ex.bytes`, 144 bytes) -/

/-- the hypothesis of `C08_strict` holds for a non-trivial input … -/
example : Impl.readDb Ex.bytes = some Ex.db := by decide +kernel
/-- … of the expected length -/
example : Ex.bytes.length = 144 := by decide +kernel
/-- a stream with a 4-byte tail missing is rejected, so is one with a trailing byte -/
example : Impl.readDb (Ex.bytes.take 140) = none := by decide +kernel
example : Impl.readDb (Ex.bytes ++ [0]) = none := by decide +kernel
/-- the hypotheses of `C08_truncation` hold with the cut after the first list (76 bytes) -/
example : Spec.decodeDb Ex.bytes = some (Ex.db.map Impl.SList.toSpec) ∧
    Ex.bytes.take 76 ++ Ex.bytes.drop 76 = Ex.bytes ∧ Ex.bytes.drop 76 ≠ [] ∧
    Impl.readDb (Ex.bytes.take 76) = some [Ex.shaList] := by decide +kernel
/-- the hypothesis of `Spec_decode_encode_partial` holds for that database -/
example : ∀ l ∈ Ex.db.map Impl.SList.toSpec, l.WF ∧ l.size < 2^32 :=
  (Spec_encode_decode (C08_strict (bs := Ex.bytes) (db := Ex.db) (by decide +kernel)).1).2

end GoUefi.C08

#print axioms GoUefi.C08.Spec_decode_encode_partial
#print axioms GoUefi.C08.Spec_encode_decode
#print axioms GoUefi.C08.C08_strict
#print axioms GoUefi.C08.C08_no_silent_empty
#print axioms GoUefi.C08.C08_truncation
#print axioms GoUefi.C08.C08_truncation_rejects
