import GoUefi.Gen
import GoUefi.Lemmas.SigDb
import GoUefi.Lemmas.Guid
import GoUefi.Lemmas.GenSigDb
import GoUefi.Properties.C09
/-!
# C09 (generated tie) — the translated Go functions refine the hand-written Impl model

`GoUefi/Gen.lean` is regenerated from `/repo`'s working tree on every run by `tools/go2lean`
(`efi/signature/signature_list.go`, `signature_database.go`, `efi/util/guid.go`: `CmpEFIGUID`,
`SignatureList.{Exists, AppendBytes, RemoveBytes, …}`, `SignatureDatabase.{SigDataExists, Exists,
BytesExists, Append, Remove, AppendList, RemoveList, removeslice}`).  The theorems below state that
these definitions — what the Go source says *now* — compute exactly what `Impl.Db.append`,
`Impl.Db.remove`, `Impl.Db.has`, `Impl.Db.hasAll`, `Impl.Db.appendList` compute, through the
abstraction `absDb` (GUIDs to their 16 wire bytes, `uint32` fields to `Nat`).  Every C09 theorem
about the Impl model therefore holds of the translated code (corollaries at the end).

Hypotheses and why they are there:
* `GuidOK`: `Data4` has 8 bytes (a Go `[8]uint8` always has; the translation uses a list).
* `(absDb sd).Inv`: the C09 invariant (established by decoding, kept by every operation).
* `data.length + 16 < 2^32` and `ListSize + data.length + 16 < 2^32`: Go computes these sums in
  `uint32`; the Impl model in `Nat`.
Errors are compared up to their class: sentinel errors that callers test with `errors.Is` by name,
anonymous `errors.New` values only as "an error".
-/
namespace GoUefi.C09
open GoUefi GoUefi.Gen

/-- EFI wire form of a translated GUID value -/
def gw (g : util.EFIGUID) : Bytes := guidWire ⟨g.Data1.toNat, g.Data2.toNat, g.Data3.toNat, g.Data4⟩
def GuidOK (g : util.EFIGUID) : Prop := g.Data4.length = 8
def absSD (s : signature.SignatureData) : Impl.SData := ⟨gw s.Owner, s.Data⟩
def absL (l : signature.SignatureList) : Impl.SList :=
  ⟨gw l.SignatureType, l.ListSize.toNat, l.HeaderSize.toNat, l.Size.toNat, l.SignatureHeader,
    l.Signatures.map absSD⟩
def absDb (db : signature.SignatureDatabase) : Impl.Db := db.map absL
/-- the model's view of the external `pem.Decode` -/
def absE (E : Ext) : Impl.Env :=
  ⟨fun d => if (E.pemDecode d).1.isNil then none else some (E.pemDecode d).1.Bytes⟩
def ListOK (l : signature.SignatureList) : Prop :=
  GuidOK l.SignatureType ∧ ∀ s ∈ l.Signatures, GuidOK s.Owner
def DbOK (db : signature.SignatureDatabase) : Prop := ∀ l ∈ db, ListOK l

/-- result of a translated mutating call against the model's `Except`: success ⇒ abstraction of
    the new value; error ⇒ the value is unchanged and sentinel errors carry their Go name -/
def AppRel {α β : Type} (orig : α) (f : α → β) (g : α × GoErr) (m : Except Impl.AErr β) : Prop :=
  match g.2, m with
  | none, .ok b => f g.1 = b
  | some e, .error k => g.1 = orig ∧ (k = .exists → e = "ErrSigDataExists") ∧
      (k = .sizeMismatch → e = "ErrSigDataSize") ∧ (k = .noScheme → e = "ErrNoSuchSignatureScheme")
  | _, _ => False

def RmRel {α β : Type} (orig : α) (f : α → β) (g : α × GoErr) (m : Except Impl.RmErr β) : Prop :=
  match g.2, m with
  | none, .ok b => f g.1 = b
  | some e, .error k => g.1 = orig ∧ (k = .notFoundData → e = "ErrNotFoundSigData") ∧
      (k = .notFoundList → e = "ErrNotFoundSigList")
  | _, _ => False

/-! ### GUIDs -/

/-- `CmpEFIGUID` as translated from the source is equality of the four fields (C17: field-wise) -/
theorem C09g_cmp (a b : util.EFIGUID) : util.CmpEFIGUID a b = true ↔ a = b :=
  util.CmpEFIGUID_iff a b

theorem gw_wf {g : util.EFIGUID} (h : GuidOK g) :
    Guid.WF ⟨g.Data1.toNat, g.Data2.toNat, g.Data3.toNat, g.Data4⟩ :=
  ⟨g.Data1.toNat_lt, g.Data2.toNat_lt, g.Data3.toNat_lt, h⟩

theorem gw_length {g : util.EFIGUID} (h : GuidOK g) : (gw g).length = 16 := by
  have h' : g.Data4.length = 8 := h
  simp [gw, guidWire, h']

theorem C09g_gw_inj {a b : util.EFIGUID} (ha : GuidOK a) (hb : GuidOK b) : gw a = gw b ↔ a = b := by
  constructor
  · intro h
    have h' := congrArg guidOfWire h
    simp only [gw] at h'
    rw [guidOfWire_guidWire _ (gw_wf ha), guidOfWire_guidWire _ (gw_wf hb)] at h'
    cases a; cases b
    simp only [Guid.mk.injEq, UInt32.toNat_inj, UInt16.toNat_inj] at h'
    simp only [util.EFIGUID.mk.injEq]
    exact h'
  · rintro rfl; rfl

/-- the translated scheme table and GUID constants are the model's -/
theorem C09g_schemes :
    signature.ValidEFISignatureSchemes.map (fun p => gw p.1) = Impl.schemes ∧
    gw signature.CERT_X509_GUID = Impl.guidX509 ∧ gw signature.CERT_SHA256_GUID = Impl.guidSha256 ∧
    ∀ p ∈ signature.ValidEFISignatureSchemes, GuidOK p.1 := by
  refine ⟨by decide +kernel, by decide +kernel, by decide +kernel, ?_⟩
  intro p hp
  simp only [signature.ValidEFISignatureSchemes, List.mem_cons, List.not_mem_nil, or_false] at hp
  rcases hp with rfl | rfl | rfl | rfl | rfl | rfl | rfl | rfl | rfl | rfl | rfl <;> rfl

/-! ### membership queries -/

theorem absSD_inj {a b : signature.SignatureData} (ha : GuidOK a.Owner) (hb : GuidOK b.Owner) :
    absSD a = absSD b ↔ a = b := by
  cases a; cases b
  simp only [absSD, Impl.SData.mk.injEq, signature.SignatureData.mk.injEq]
  rw [C09g_gw_inj ha hb]

theorem mem_map_absSD {sigs : List signature.SignatureData} {s : signature.SignatureData}
    (hl : ∀ x ∈ sigs, GuidOK x.Owner) (hs : GuidOK s.Owner) :
    absSD s ∈ sigs.map absSD ↔ s ∈ sigs := by
  rw [List.mem_map]
  constructor
  · rintro ⟨x, hx, he⟩
    rw [(absSD_inj (hl x hx) hs).mp he] at hx; exact hx
  · intro h; exact ⟨s, h, rfl⟩

theorem map_absSD_erase {sigs : List signature.SignatureData} {s : signature.SignatureData}
    (hl : ∀ x ∈ sigs, GuidOK x.Owner) (hs : GuidOK s.Owner) :
    (sigs.erase s).map absSD = (sigs.map absSD).erase (absSD s) := by
  induction sigs with
  | nil => rfl
  | cons x rest ih =>
    have hx : GuidOK x.Owner := hl x (by simp)
    have ih' := ih (fun y hy => hl y (by simp [hy]))
    by_cases h : x = s
    · subst h; simp
    · have h' : ¬ absSD x = absSD s := fun he => h ((absSD_inj hx hs).mp he)
      have hb : (x == s) = false := by simpa using h
      have hb' : (absSD x == absSD s) = false := by simpa using h'
      rw [List.erase_cons, hb, List.map_cons, List.erase_cons, hb']
      simp only [Bool.false_eq_true, if_false, List.map_cons, ih']

theorem absL_has {l : signature.SignatureList} {o : util.EFIGUID} {d : List UInt8}
    (hl : ListOK l) (ho : GuidOK o) :
    (absL l).has (gw o) d = decide ((⟨o, d⟩ : signature.SignatureData) ∈ l.Signatures) := by
  rw [Bool.eq_iff_iff, Impl.SList.has_iff]
  have := mem_map_absSD (s := ⟨o, d⟩) hl.2 ho
  simpa [absL, absSD] using this

theorem absDb_has {sd : signature.SignatureDatabase} {t o : util.EFIGUID} {d : List UInt8}
    (hdb : DbOK sd) (ht : GuidOK t) (ho : GuidOK o) :
    (absDb sd).has (gw t) (gw o) d =
      sd.any (fun l => decide (l.SignatureType = t) &&
        decide ((⟨o, d⟩ : signature.SignatureData) ∈ l.Signatures)) := by
  induction sd with
  | nil => rfl
  | cons l rest ih =>
    have hl : ListOK l := hdb l (by simp)
    have ih' := ih (fun y hy => hdb y (by simp [hy]))
    simp only [absDb, Impl.Db.has, List.map_cons, List.any_cons] at ih' ⊢
    rw [ih', absL_has hl ho]
    congr 2
    rw [Bool.eq_iff_iff]
    simp only [beq_iff_eq, decide_eq_true_eq]
    exact C09g_gw_inj hl.1 ht

theorem C09g_list_exists {l : signature.SignatureList} {s : signature.SignatureData}
    (hl : ListOK l) (hs : GuidOK s.Owner) :
    (l.Exists s).1 = (absL l).has (gw s.Owner) s.Data := by
  rw [signature.SignatureList.Exists_fst, absL_has hl hs]

theorem C09g_sigDataExists {sd : signature.SignatureDatabase} {t : util.EFIGUID}
    {s : signature.SignatureData} (hdb : DbOK sd) (ht : GuidOK t) (hs : GuidOK s.Owner) :
    sd.SigDataExists t s = (absDb sd).has (gw t) (gw s.Owner) s.Data := by
  rw [signature.SignatureDatabase.SigDataExists_eq, absDb_has hdb ht hs]

theorem C09g_bytesExists {sd : signature.SignatureDatabase} {t o : util.EFIGUID} {d : List UInt8}
    (hdb : DbOK sd) (ht : GuidOK t) (ho : GuidOK o) :
    sd.BytesExists t o d = (absDb sd).has (gw t) (gw o) d := by
  rw [signature.SignatureDatabase.BytesExists, signature.SignatureDatabase.SigDataExists_eq,
    absDb_has hdb ht ho]

/-- the database-level `Exists` ignores its `certtype` argument and uses the list's own type -/
theorem C09g_exists {sd : signature.SignatureDatabase} {t : util.EFIGUID}
    {l : signature.SignatureList} (hdb : DbOK sd) (hl : ListOK l) :
    sd.Exists t l = (absDb sd).hasAll (gw l.SignatureType) (l.Signatures.map absSD) := by
  rw [signature.SignatureDatabase.Exists_eq, Impl.Db.hasAll, List.all_map, Bool.eq_iff_iff,
    List.all_eq_true, List.all_eq_true]
  constructor
  · intro h s hs
    have := h s hs
    rw [C09g_sigDataExists hdb hl.1 (hl.2 s hs)] at this
    exact this
  · intro h s hs
    rw [C09g_sigDataExists hdb hl.1 (hl.2 s hs)]
    exact h s hs

/-! ### edits -/

theorem guidOK_x509 : GuidOK signature.CERT_X509_GUID := rfl
theorem guidOK_sha256 : GuidOK signature.CERT_SHA256_GUID := rfl

theorem gw_x509_iff {t : util.EFIGUID} (ht : GuidOK t) :
    gw t = Impl.guidX509 ↔ t = signature.CERT_X509_GUID := by
  rw [← C09g_schemes.2.1, C09g_gw_inj ht guidOK_x509]

theorem gw_sha256_iff {t : util.EFIGUID} (ht : GuidOK t) :
    gw t = Impl.guidSha256 ↔ t = signature.CERT_SHA256_GUID := by
  rw [← C09g_schemes.2.2.1, C09g_gw_inj ht guidOK_sha256]

theorem guidOK_external : GuidOK signature.CERT_EXTERNAL_MANAGEMENT_GUID := rfl

/-- the translated constant of the externally-managed type is the model's (F37) -/
theorem C09g_gw_external : gw signature.CERT_EXTERNAL_MANAGEMENT_GUID = Impl.guidExternal := by
  decide +kernel

theorem gw_external_iff {t : util.EFIGUID} (ht : GuidOK t) :
    gw t = Impl.guidExternal ↔ t = signature.CERT_EXTERNAL_MANAGEMENT_GUID := by
  rw [← C09g_gw_external, C09g_gw_inj ht guidOK_external]

/-- the model's PEM normalisation through `absE` is the translated code's -/
theorem absE_norm (E : Ext) {t : util.EFIGUID} (ht : GuidOK t) (d : List UInt8) :
    (absE E).norm (gw t) d = normData E t d := by
  unfold Impl.Env.norm normData
  by_cases hx : t = signature.CERT_X509_GUID
  · rw [if_pos ((gw_x509_iff ht).mpr hx), if_pos hx]
    cases h : (E.pemDecode d).1.isNil <;> simp [absE, h]
  · rw [if_neg (fun h => hx ((gw_x509_iff ht).mp h)), if_neg hx]

theorem ofNat_add16_eq_iff {n : Nat} {s : UInt32} (h : n + 16 < 2^32) :
    UInt32.ofNat n + 16 = s ↔ n + 16 = s.toNat := by
  have h16 : (16 : UInt32) = UInt32.ofNat 16 := rfl
  rw [← UInt32.toNat_inj, h16, UInt32.ofNat_add_toNat h]

theorem ofNat_add16_toNat {n : Nat} (h : n + 16 < 2^32) : (UInt32.ofNat n + 16).toNat = n + 16 := by
  have h16 : (16 : UInt32) = UInt32.ofNat 16 := rfl
  rw [h16, UInt32.ofNat_add_toNat h]

/-- `AppendBytes` against the model, with the normalised data named -/
theorem appendBytes_rel {E : Ext} {l : signature.SignatureList} {o : util.EFIGUID}
    {d : List UInt8} (hl : ListOK l) (ho : GuidOK o)
    (hd' : (normData E l.SignatureType d).length + 16 < 2^32)
    (hls : l.ListSize.toNat + (normData E l.SignatureType d).length + 16 < 2^32) :
    AppRel l absL (l.AppendBytes E o d) ((absL l).appendBytes (absE E) (gw o) d) := by
  rw [signature.SignatureList.AppendBytes_eq]
  unfold Impl.SList.appendBytes
  have hn : (absE E).norm (absL l).type d = normData E l.SignatureType d := absE_norm E hl.1 d
  simp only [hn]
  generalize normData E l.SignatureType d = d' at hd' hls ⊢
  rw [absL_has hl ho]
  by_cases hm : (⟨o, d'⟩ : signature.SignatureData) ∈ l.Signatures
  · simp [hm, AppRel]
  · have hm' : ¬ (decide ((⟨o, d'⟩ : signature.SignatureData) ∈ l.Signatures) = true) := by
      simpa using hm
    rw [if_neg hm, if_neg hm']
    by_cases hs : l.SignatureType = signature.CERT_SHA256_GUID ∧ d'.length ≠ 32
    · have hs' : (absL l).type = Impl.guidSha256 ∧ d'.length ≠ 32 :=
        ⟨(gw_sha256_iff hl.1).mpr hs.1, hs.2⟩
      rw [if_pos hs, if_pos hs']
      simp [AppRel]
    · have hs' : ¬ ((absL l).type = Impl.guidSha256 ∧ d'.length ≠ 32) :=
        fun h => hs ⟨(gw_sha256_iff hl.1).mp h.1, h.2⟩
      rw [if_neg hs, if_neg hs']
      by_cases hx : l.SignatureType = signature.CERT_EXTERNAL_MANAGEMENT_GUID ∧ d'.length ≠ 1
      · have hx' : (absL l).type = Impl.guidExternal ∧ d'.length ≠ 1 :=
          ⟨(gw_external_iff hl.1).mpr hx.1, hx.2⟩
        rw [if_pos hx, if_pos hx']
        simp [AppRel]
      have hx' : ¬ ((absL l).type = Impl.guidExternal ∧ d'.length ≠ 1) :=
        fun h => hx ⟨(gw_external_iff hl.1).mp h.1, h.2⟩
      rw [if_neg hx, if_neg hx']
      by_cases hz : l.Signatures ≠ [] ∧ UInt32.ofNat d'.length + 16 ≠ l.Size
      · have hz' : (absL l).sigs ≠ [] ∧ d'.length + 16 ≠ (absL l).size := by
          refine ⟨by simpa [absL] using hz.1, fun h => hz.2 ((ofNat_add16_eq_iff hd').mpr h)⟩
        rw [if_pos hz, if_pos hz']
        simp [AppRel]
      · have hz' : ¬ ((absL l).sigs ≠ [] ∧ d'.length + 16 ≠ (absL l).size) := by
          intro h
          exact hz ⟨by simpa [absL] using h.1, fun h' => h.2 ((ofNat_add16_eq_iff hd').mp h')⟩
        rw [if_neg hz, if_neg hz']
        show absL _ = _
        have e1 := ofNat_add16_toNat hd'
        have e2 : (l.ListSize + (UInt32.ofNat d'.length + 16)).toNat
            = l.ListSize.toNat + (d'.length + 16) := by
          rw [UInt32.toNat_add, e1, Nat.mod_eq_of_lt (by omega)]
        simp only [absL, e1, e2, List.map_append, List.map_cons, List.map_nil, absSD]

theorem C09g_list_appendBytes {E : Ext} {l : signature.SignatureList} {o : util.EFIGUID}
    {d : List UInt8} (hl : ListOK l) (ho : GuidOK o)
    (hd : d.length + 16 < 2^32) (hd' : ((absE E).norm (gw l.SignatureType) d).length + 16 < 2^32)
    (hls : l.ListSize.toNat + ((absE E).norm (gw l.SignatureType) d).length + 16 < 2^32) :
    AppRel l absL (l.AppendBytes E o d) ((absL l).appendBytes (absE E) (gw o) d) := by
  have _ := hd
  rw [absE_norm E hl.1] at hd' hls
  exact appendBytes_rel hl ho hd' hls

theorem C09g_appendList (sd : signature.SignatureDatabase) (l : signature.SignatureList) :
    absDb (sd.AppendList l) = (absDb sd).appendList (absL l) := by
  simp [signature.SignatureDatabase.AppendList, absDb, Impl.Db.appendList]

/-- the rest of `SignatureDatabase.Append` after its list loop -/
def appendTail (E : Ext) (t o : util.EFIGUID) (d : List UInt8) :
    Loop (signature.SignatureDatabase × GoErr) signature.SignatureDatabase →
      signature.SignatureDatabase × GoErr
  | Loop.ret r => r
  | Loop.done m =>
    if ((signature.NewSignatureList t).AppendBytes E o d).2.isSome = true then
      (m, ((signature.NewSignatureList t).AppendBytes E o d).2)
    else (m ++ [((signature.NewSignatureList t).AppendBytes E o d).1], none)

theorem absL_new (t : util.EFIGUID) : absL (signature.NewSignatureList t) = Impl.newList (gw t) := rfl

theorem listOK_new {t : util.EFIGUID} (ht : GuidOK t) : ListOK (signature.NewSignatureList t) :=
  ⟨ht, fun s hs => by simp [signature.NewSignatureList] at hs⟩

theorem absDb_append (a b : signature.SignatureDatabase) : absDb (a ++ b) = absDb a ++ absDb b := by
  simp [absDb]

theorem absDb_cons (l : signature.SignatureList) (ls : signature.SignatureDatabase) :
    absDb (l :: ls) = absL l :: absDb ls := rfl

/-- the list loop of `Append` (followed by the new-list tail) against `Impl.appendInto`; `d` is the
    data after `Append`'s own normalisation, `pre` the lists already passed -/
theorem append_loop_rel {E : Ext} {t o : util.EFIGUID} {d : List UInt8} (ht : GuidOK t)
    (ho : GuidOK o) (hd : d.length + 16 < 2^32) (hd' : (normData E t d).length + 16 < 2^32)
    (hnew : 28 + (normData E t d).length + 16 < 2^32)
    (pre ls : signature.SignatureDatabase) (hdb : DbOK ls)
    (hls : ∀ l ∈ ls, l.ListSize.toNat + (normData E t d).length + 16 < 2^32) :
    AppRel (pre ++ ls) absDb
      (appendTail E t o d (signature.SignatureDatabase.Append.loop1 E t o d pre ls))
      ((Impl.appendInto (absE E) (gw t) (gw o) d (absDb ls)).map (absDb pre ++ ·)) := by
  induction ls generalizing pre with
  | nil =>
    have hrel := appendBytes_rel (E := E) (l := signature.NewSignatureList t) (o := o) (d := d)
      (listOK_new ht) ho hd' (by
        show (28 : UInt32).toNat + _ + 16 < 2^32
        have : (28 : UInt32).toNat = 28 := rfl
        rw [this]; exact hnew)
    rw [absL_new] at hrel
    simp only [signature.SignatureDatabase.Append.loop1, appendTail, absDb, List.map_nil,
      Impl.appendInto, List.append_nil]
    revert hrel
    generalize (signature.NewSignatureList t).AppendBytes E o d = x
    generalize (Impl.newList (gw t)).appendBytes (absE E) (gw o) d = y
    obtain ⟨x1, x2⟩ := x
    intro hrel
    cases x2 <;> cases y <;> simp [AppRel, Except.map] at hrel ⊢
    · rw [← hrel]; simp [absDb]
    · exact ⟨hrel.2.1, hrel.2.2.1, hrel.2.2.2⟩
  | cons l rest ih =>
    have hl : ListOK l := hdb l (by simp)
    have hrest : DbOK rest := fun y hy => hdb y (by simp [hy])
    rw [signature.SignatureDatabase.Append.loop1_cons]
    simp only [absDb_cons, Impl.appendInto]
    by_cases hc : l.SignatureType = t ∧ UInt32.ofNat d.length + 16 = l.Size
    · have hc' : (absL l).type = gw t ∧ (absL l).size = d.length + 16 :=
        ⟨congrArg gw hc.1, ((ofNat_add16_eq_iff hd).mp hc.2).symm⟩
      rw [if_pos hc, if_pos hc']
      have hrel := appendBytes_rel (E := E) (l := l) (o := o) (d := d) hl ho
        (by rw [hc.1]; exact hd') (by rw [hc.1]; exact hls l (by simp))
      simp only [appendTail]
      revert hrel
      generalize l.AppendBytes E o d = x
      generalize (absL l).appendBytes (absE E) (gw o) d = y
      obtain ⟨x1, x2⟩ := x
      intro hrel
      cases x2 <;> cases y <;> simp [AppRel, Except.map] at hrel ⊢
      · rw [← hrel]; simp [absDb]
      · exact ⟨hrel.1, hrel.2.1, hrel.2.2.1, hrel.2.2.2⟩
    · have hc' : ¬ ((absL l).type = gw t ∧ (absL l).size = d.length + 16) := by
        intro h
        exact hc ⟨(C09g_gw_inj hl.1 ht).mp h.1, (ofNat_add16_eq_iff hd).mpr h.2.symm⟩
      rw [if_neg hc, if_neg hc']
      have := ih (pre ++ [l]) hrest (fun y hy => hls y (by simp [hy]))
      revert this
      generalize appendTail E t o d (signature.SignatureDatabase.Append.loop1 E t o d (pre ++ [l]) rest) = x
      generalize Impl.appendInto (absE E) (gw t) (gw o) d (absDb rest) = y
      obtain ⟨x1, x2⟩ := x
      intro hrel
      cases x2 <;> cases y <;> simp [AppRel, Except.map] at hrel ⊢
      · rw [hrel]; simp [absDb]
      · exact hrel

theorem lookup_schemes_iff {t : util.EFIGUID} (ht : GuidOK t) :
    (signature.ValidEFISignatureSchemes.lookup t).isSome = Impl.schemes.contains (gw t) := by
  rw [← C09g_schemes.1, Bool.eq_iff_iff, List.contains_iff_mem, List.mem_map]
  have hok := C09g_schemes.2.2.2
  generalize signature.ValidEFISignatureSchemes = tbl at hok
  induction tbl with
  | nil => simp
  | cons p ps ih =>
    obtain ⟨k, v⟩ := p
    have hk : GuidOK k := hok (k, v) (by simp)
    have ih' := ih (fun q hq => hok q (by simp [hq]))
    by_cases h : t = k
    · subst h
      simp [List.lookup]
    · have hb : (t == k) = false := by simpa using h
      have hg : ¬ gw k = gw t := fun he => h ((C09g_gw_inj hk ht).mp he).symm
      rw [List.lookup_cons, hb]
      simp only [ih', List.mem_cons, exists_eq_or_imp, hg, false_or]

/- ORIGINAL STATEMENT (false as stated, see `C09g_append_counterexample` below):

theorem C09g_append {E : Ext} {sd : signature.SignatureDatabase} {t o : util.EFIGUID}
    {d : List UInt8} (hdb : DbOK sd) (hinv : (absDb sd).Inv) (ht : GuidOK t) (ho : GuidOK o)
    (hd : d.length + 16 < 2^32) (hd' : ((absE E).norm (gw t) d).length + 16 < 2^32)
    (hd'' : ((absE E).norm (gw t) ((absE E).norm (gw t) d)).length + 16 < 2^32)
    (hls : ∀ l ∈ sd, l.ListSize.toNat + ((absE E).norm (gw t) ((absE E).norm (gw t) d)).length + 16 < 2^32) :
    AppRel sd absDb (sd.Append E t o d) ((absDb sd).append (absE E) (gw t) (gw o) d)

When `sd = []` the hypothesis `hls` is vacuous, and the `ListSize` of the list that `Append` creates
(`28 + (|data| + 16)`, computed in `uint32`) wraps around for `2^32 - 44 ≤ |data| < 2^32 - 16`,
while the model computes it in `Nat`.  For a non-empty `sd` the invariant gives `28 ≤ ListSize`
for every list, so `hls` already implies the bound; the extra hypothesis `hnew` is only needed
for the empty database. -/

/-- `SignatureDatabase.Append` as it stands in the source refines `Impl.Db.append` -/
theorem C09g_append_partial {E : Ext} {sd : signature.SignatureDatabase} {t o : util.EFIGUID}
    {d : List UInt8} (hdb : DbOK sd) (hinv : (absDb sd).Inv) (ht : GuidOK t) (ho : GuidOK o)
    (hd : d.length + 16 < 2^32) (hd' : ((absE E).norm (gw t) d).length + 16 < 2^32)
    (hd'' : ((absE E).norm (gw t) ((absE E).norm (gw t) d)).length + 16 < 2^32)
    (hls : ∀ l ∈ sd, l.ListSize.toNat + ((absE E).norm (gw t) ((absE E).norm (gw t) d)).length + 16 < 2^32)
    (hnew : sd = [] → 28 + ((absE E).norm (gw t) ((absE E).norm (gw t) d)).length + 16 < 2^32) :
    AppRel sd absDb (sd.Append E t o d) ((absDb sd).append (absE E) (gw t) (gw o) d) := by
  have _ := hd
  rw [absE_norm E ht] at hd' hd'' hls hnew
  rw [absE_norm E ht] at hd'' hls hnew
  have hnew' : 28 + (normData E t (normData E t d)).length + 16 < 2^32 := by
    cases sd with
    | nil => exact hnew rfl
    | cons l rest =>
      have h1 := hls l (by simp)
      have h2 := (hinv (absL l) (by simp [absDb])).2.2.2.2.1
      have h3 : (absL l).listSize = l.ListSize.toNat := rfl
      omega
  rw [signature.SignatureDatabase.Append_eq]
  unfold Impl.Db.append
  rw [lookup_schemes_iff ht, absE_norm E ht, C09g_sigDataExists hdb ht ho]
  cases hs : Impl.schemes.contains (gw t)
  · simp [AppRel]
  · simp only [Bool.true_eq_false, if_false, Bool.not_true, Bool.false_eq_true]
    cases hh : (absDb sd).has (gw t) (gw o) (normData E t d)
    · simp only [Bool.false_eq_true, if_false]
      have := append_loop_rel (E := E) (o := o) ht ho hd' hd'' hnew' [] sd hdb hls
      simp only [List.nil_append, absDb, List.map_nil] at this
      have hid : ∀ y : Except Impl.AErr Impl.Db, Except.map (fun x => x) y = y := by
        intro y; cases y <;> rfl
      rw [hid] at this
      cases hlp : signature.SignatureDatabase.Append.loop1 E t o (normData E t d) [] sd <;>
        simpa [hlp, appendTail, absDb] using this
    · simp [AppRel]

/-- the rest of `SignatureDatabase.Remove` after its list loop -/
def rmTail : Loop (signature.SignatureDatabase × GoErr) (signature.SignatureDatabase × Bool) →
    signature.SignatureDatabase × GoErr
  | Loop.ret r => r
  | Loop.done m =>
    if m.2 = true then (m.1, some "ErrNotFoundSigData") else (m.1, some "ErrNotFoundSigList")

/-- the list loop of `Remove` against `Impl.removeFrom`; `pre` = the lists already passed (none of
    them can be mistaken for an emptied list: their `Size` is not 0) -/
theorem remove_loop_rel {t o : util.EFIGUID} {d : List UInt8} (ht : GuidOK t) (ho : GuidOK o)
    (hd : d.length + 16 < 2^32) (pre ls : signature.SignatureDatabase) (b : Bool)
    (hdb : DbOK ls) (hpre : ∀ x ∈ pre, x.Size ≠ 0) (hinv : (absDb ls).Inv) :
    RmRel (pre ++ ls) absDb
      (rmTail (signature.SignatureDatabase.Remove.loop1 t o d pre ls b))
      ((Impl.removeFrom (gw t) (gw o) d (absDb ls) b).map (absDb pre ++ ·)) := by
  induction ls generalizing pre b with
  | nil =>
    cases b <;>
      simp [signature.SignatureDatabase.Remove.loop1, rmTail, absDb, Impl.removeFrom, RmRel, Except.map]
  | cons l rest ih =>
    have hl : ListOK l := hdb l (by simp)
    have hrest : DbOK rest := fun y hy => hdb y (by simp [hy])
    obtain ⟨hli, hri⟩ := Impl.Db.inv_cons.mp (show Impl.Db.Inv (absL l :: absDb rest) from hinv)
    have hsz : l.Size ≠ 0 := by
      intro h0
      have h16 : 16 ≤ (absL l).size := hli.2.2.2.1
      have : (absL l).size = l.Size.toNat := rfl
      rw [this, h0] at h16
      exact absurd h16 (by decide)
    have hpre' : ∀ x ∈ pre ++ [l], x.Size ≠ 0 := by
      intro x hx
      rcases List.mem_append.mp hx with hx | hx
      · exact hpre x hx
      · rw [List.mem_singleton.mp hx]; exact hsz
    rw [signature.SignatureDatabase.Remove.loop1_cons]
    simp only [absDb_cons, Impl.removeFrom]
    by_cases hc : l.SignatureType = t ∧ UInt32.ofNat d.length + 16 = l.Size
    · have hc' : (absL l).type = gw t ∧ (absL l).size = d.length + 16 :=
        ⟨congrArg gw hc.1, ((ofNat_add16_eq_iff hd).mp hc.2).symm⟩
      rw [if_pos hc, if_pos hc', absL_has hl ho]
      by_cases hm : (⟨o, d⟩ : signature.SignatureData) ∈ l.Signatures
      · have hm' : decide ((⟨o, d⟩ : signature.SignatureData) ∈ l.Signatures) = true := by
          simpa using hm
        rw [if_pos hm, if_pos hm']
        have hlen : (absL l).sigs.length = l.Signatures.length := by simp [absL]
        by_cases h1 : l.Signatures.length = 1
        · rw [if_pos h1, if_pos (hlen.trans h1)]
          have hnot : signature.NewSignatureList l.SignatureType ∉ pre := by
            intro hmem
            exact hpre _ hmem rfl
          rw [signature.SignatureDatabase.RemoveList_new pre rest _ hnot]
          simp [rmTail, RmRel, Except.map, absDb]
        · rw [if_neg h1, if_neg (fun h => h1 (hlen.symm.trans h))]
          have hle : l.Size ≤ l.ListSize := by
            rw [UInt32.le_iff_toNat_le]
            have hLS : (absL l).listSize = 28 + (absL l).sigs.length * (absL l).size := hli.2.2.2.2.1
            have hpos := List.length_pos_of_mem hm
            have e1 : (absL l).listSize = l.ListSize.toNat := rfl
            have e2 : (absL l).size = l.Size.toNat := rfl
            rw [e1, e2, hlen] at hLS
            obtain ⟨k, hk⟩ : ∃ k, l.Signatures.length = k + 1 := ⟨l.Signatures.length - 1, by omega⟩
            rw [hk, Nat.succ_mul] at hLS
            omega
          have herase := map_absSD_erase (s := ⟨o, d⟩) hl.2 ho
          simp only [rmTail, RmRel, Except.map, absDb_append, absDb_cons]
          congr 2
          simp only [absL, UInt32.toNat_sub_of_le _ _ hle, herase, absSD]
      · have hm' : ¬ (decide ((⟨o, d⟩ : signature.SignatureData) ∈ l.Signatures) = true) := by
          simpa using hm
        rw [if_neg hm, if_neg hm']
        have := ih (pre ++ [l]) true hrest hpre' hri
        revert this
        generalize rmTail (signature.SignatureDatabase.Remove.loop1 t o d (pre ++ [l]) rest true) = x
        generalize Impl.removeFrom (gw t) (gw o) d (absDb rest) true = y
        obtain ⟨x1, x2⟩ := x
        intro hrel
        cases x2 <;> cases y <;> simp [RmRel, Except.map] at hrel ⊢
        · rw [hrel]; simp [absDb]
        · exact hrel
    · have hc' : ¬ ((absL l).type = gw t ∧ (absL l).size = d.length + 16) := by
        intro h
        exact hc ⟨(C09g_gw_inj hl.1 ht).mp h.1, (ofNat_add16_eq_iff hd).mpr h.2.symm⟩
      rw [if_neg hc, if_neg hc']
      have := ih (pre ++ [l]) b hrest hpre' hri
      revert this
      generalize rmTail (signature.SignatureDatabase.Remove.loop1 t o d (pre ++ [l]) rest b) = x
      generalize Impl.removeFrom (gw t) (gw o) d (absDb rest) b = y
      obtain ⟨x1, x2⟩ := x
      intro hrel
      cases x2 <;> cases y <;> simp [RmRel, Except.map] at hrel ⊢
      · rw [hrel]; simp [absDb]
      · exact hrel

/-- `SignatureDatabase.Remove` (with `RemoveBytes`, `RemoveList`, `removeslice`) refines
    `Impl.Db.remove` -/
theorem C09g_remove {sd : signature.SignatureDatabase} {t o : util.EFIGUID} {d : List UInt8}
    (hdb : DbOK sd) (hinv : (absDb sd).Inv) (ht : GuidOK t) (ho : GuidOK o)
    (hd : d.length + 16 < 2^32) :
    RmRel sd absDb (sd.Remove t o d) ((absDb sd).remove (gw t) (gw o) d) := by
  have h := remove_loop_rel ht ho hd [] sd false hdb (by simp) hinv
  have hid : ∀ y : Except Impl.RmErr Impl.Db, Except.map (fun x => [] ++ x) y = y := by
    intro y; cases y <;> rfl
  have e : absDb [] = [] := rfl
  rw [e, hid, List.nil_append] at h
  have e2 : sd.Remove t o d =
      rmTail (signature.SignatureDatabase.Remove.loop1 t o d [] sd false) := by
    unfold signature.SignatureDatabase.Remove rmTail
    dsimp only
    cases signature.SignatureDatabase.Remove.loop1 t o d [] sd false with
    | ret r => rfl
    | done m => rfl
  rw [e2]
  exact h

/-! ### the C09 statements, for the translated code -/

/- ORIGINAL STATEMENTS of `C09g_append_ok` (false as stated for `sd = []` and data of
   `2^32 - 44 … 2^32 - 17` bytes, for the same reason as `C09g_append`: the new list's `ListSize`
   wraps around in `uint32`, so `(absDb sd').Inv` fails; see `C09g_append_ok_counterexample`):

theorem C09g_append_ok {E : Ext} {sd sd' : signature.SignatureDatabase} {t o : util.EFIGUID}
    {d : List UInt8} (hdb : DbOK sd) (hinv : (absDb sd).Inv) (ht : GuidOK t) (ho : GuidOK o)
    (hd : d.length + 16 < 2^32) (hd' : ((absE E).norm (gw t) d).length + 16 < 2^32)
    (hidem : (absE E).norm (gw t) ((absE E).norm (gw t) d) = (absE E).norm (gw t) d)
    (hls : ∀ l ∈ sd, l.ListSize.toNat + ((absE E).norm (gw t) d).length + 16 < 2^32)
    (h : sd.Append E t o d = (sd', none)) :
    (absDb sd').Inv ∧ ∃ pre post, Impl.abs (absDb sd) = pre ++ post ∧
      Impl.abs (absDb sd') = pre ++ (gw t, gw o, (absE E).norm (gw t) d) :: post
-/

/-- A successful `Append` of the translated code inserts exactly one entry into the ordered
    collection and keeps the invariant. -/
theorem C09g_append_ok_partial {E : Ext} {sd sd' : signature.SignatureDatabase} {t o : util.EFIGUID}
    {d : List UInt8} (hdb : DbOK sd) (hinv : (absDb sd).Inv) (ht : GuidOK t) (ho : GuidOK o)
    (hd : d.length + 16 < 2^32) (hd' : ((absE E).norm (gw t) d).length + 16 < 2^32)
    (hidem : (absE E).norm (gw t) ((absE E).norm (gw t) d) = (absE E).norm (gw t) d)
    (hls : ∀ l ∈ sd, l.ListSize.toNat + ((absE E).norm (gw t) d).length + 16 < 2^32)
    (hnew : sd = [] → 28 + ((absE E).norm (gw t) d).length + 16 < 2^32)
    (h : sd.Append E t o d = (sd', none)) :
    (absDb sd').Inv ∧ ∃ pre post, Impl.abs (absDb sd) = pre ++ post ∧
      Impl.abs (absDb sd') = pre ++ (gw t, gw o, (absE E).norm (gw t) d) :: post := by
  have hrel := C09g_append_partial (E := E) (o := o) (d := d) hdb hinv ht ho hd hd'
    (by rw [hidem]; exact hd') (by rw [hidem]; exact hls) (by rw [hidem]; exact hnew)
  rw [h] at hrel
  cases hm : (absDb sd).append (absE E) (gw t) (gw o) d with
  | error k => rw [hm] at hrel; exact absurd hrel (by simp [AppRel])
  | ok b =>
    rw [hm] at hrel
    have e : absDb sd' = b := hrel
    rw [e]
    exact C09_append_ok hinv (gw_length ho) hidem hm

/-- An `Append` of the translated code that reports an error returns the database unchanged. -/
theorem C09g_append_err {E : Ext} {sd sd' : signature.SignatureDatabase} {t o : util.EFIGUID}
    {d : List UInt8} {e : String} (hdb : DbOK sd) (hinv : (absDb sd).Inv) (ht : GuidOK t) (ho : GuidOK o)
    (hd : d.length + 16 < 2^32) (hd' : ((absE E).norm (gw t) d).length + 16 < 2^32)
    (hidem : (absE E).norm (gw t) ((absE E).norm (gw t) d) = (absE E).norm (gw t) d)
    (hls : ∀ l ∈ sd, l.ListSize.toNat + ((absE E).norm (gw t) d).length + 16 < 2^32)
    (h : sd.Append E t o d = (sd', some e)) : sd' = sd := by
  -- holds of the translated code outright (none of the side conditions is needed)
  have _ := hdb; have _ := hinv; have _ := ht; have _ := ho; have _ := hd; have _ := hd'
  have _ := hidem; have _ := hls
  have := signature.SignatureDatabase.Append_err E sd t o d (by rw [h]; rfl)
  rw [h] at this
  exact this

/-- A successful `Remove` of the translated code deletes exactly one occurrence of the entry. -/
theorem C09g_remove_ok {sd sd' : signature.SignatureDatabase} {t o : util.EFIGUID} {d : List UInt8}
    (hdb : DbOK sd) (hinv : (absDb sd).Inv) (ht : GuidOK t) (ho : GuidOK o)
    (hd : d.length + 16 < 2^32) (h : sd.Remove t o d = (sd', none)) :
    (absDb sd').Inv ∧ ∃ pre post, Impl.abs (absDb sd) = pre ++ (gw t, gw o, d) :: post ∧
      Impl.abs (absDb sd') = pre ++ post := by
  have hrel := C09g_remove (o := o) (d := d) hdb hinv ht ho hd
  rw [h] at hrel
  cases hm : (absDb sd).remove (gw t) (gw o) d with
  | error k => rw [hm] at hrel; exact absurd hrel (by simp [RmRel])
  | ok b =>
    rw [hm] at hrel
    have e : absDb sd' = b := hrel
    rw [e]
    have := C09_remove_ok hinv hm
    exact ⟨this.1, this.2.1⟩

/-- … and one that reports an error leaves the database unchanged; it does so exactly when the
    entry is absent. -/
theorem C09g_remove_err_iff {sd : signature.SignatureDatabase} {t o : util.EFIGUID} {d : List UInt8}
    (hdb : DbOK sd) (hinv : (absDb sd).Inv) (ht : GuidOK t) (ho : GuidOK o)
    (hd : d.length + 16 < 2^32) :
    ((sd.Remove t o d).2.isSome ↔ (gw t, gw o, d) ∉ Impl.abs (absDb sd)) ∧
    ((sd.Remove t o d).2.isSome → (sd.Remove t o d).1 = sd) := by
  have hrel := C09g_remove (o := o) (d := d) hdb hinv ht ho hd
  have hiff := C09_remove_err_iff (t := gw t) (o := gw o) (d := d) hinv
  revert hrel
  generalize sd.Remove t o d = x
  obtain ⟨x1, x2⟩ := x
  intro hrel
  rw [← hiff]
  cases hm : (absDb sd).remove (gw t) (gw o) d with
  | error k =>
    rw [hm] at hrel
    cases x2 with
    | none => exact absurd hrel (by simp [RmRel])
    | some e =>
      have h1 : x1 = sd := by simp [RmRel] at hrel; exact hrel.1
      exact ⟨⟨fun _ => ⟨k, rfl⟩, fun _ => rfl⟩, fun _ => h1⟩
  | ok b =>
    rw [hm] at hrel
    cases x2 with
    | none =>
      refine ⟨⟨fun h => by simp at h, fun h => ?_⟩, fun h => by simp at h⟩
      obtain ⟨k, hk⟩ := h
      cases hk
    | some e => exact absurd hrel (by simp [RmRel])

/-! ### wrongly-sized appends, on the translated code outright (F37)

No refinement hypothesis is needed for these: no invariant, no `GuidOK`, no bound on the sizes, any
`pem.Decode`.  They are statements about what `AppendBytes` / `Append` in the source say now; without
the second `case` of the `switch` in `AppendBytes` the externally-managed half does not hold
(`[] .Append(EXTERNAL_MANAGEMENT, o, [1,2])` used to succeed). -/

/-- the list-level `AppendBytes` refuses SHA-256 data that is not 32 bytes and externally-managed data
    that is not one byte, and leaves the list as it was -/
theorem C09g_list_append_wrong_size (E : Ext) (l : signature.SignatureList) (o : util.EFIGUID)
    (d : List UInt8)
    (h : (l.SignatureType = signature.CERT_SHA256_GUID ∧ d.length ≠ 32) ∨
         (l.SignatureType = signature.CERT_EXTERNAL_MANAGEMENT_GUID ∧ d.length ≠ 1)) :
    (l.AppendBytes E o d).2.isSome = true ∧ (l.AppendBytes E o d).1 = l := by
  have hn : normData E l.SignatureType d = d := by
    unfold normData
    rcases h with h | h
    · rw [if_neg (by rw [h.1]; exact CERT_SHA256_ne_X509)]
    · rw [if_neg (by rw [h.1]; decide)]
  have h1 : (l.AppendBytes E o d).2.isSome = true := by
    rw [signature.SignatureList.AppendBytes_eq, hn]
    split
    · rfl
    · split
      · rfl
      · split
        · rfl
        · rename_i _ h2 h3
          rcases h with h | h
          · exact absurd h h2
          · exact absurd h h3
  exact ⟨h1, signature.SignatureList.AppendBytes_err E l o d h1⟩

/-- when every list of type `t` refuses the entry, the list loop of `Append` does not end in success -/
theorem append_loop_refuses (E : Ext) (t o : util.EFIGUID) (d : List UInt8)
    (hbad : ∀ l : signature.SignatureList, l.SignatureType = t → (l.AppendBytes E o d).2.isSome = true)
    (pre ls : List signature.SignatureList) :
    match signature.SignatureDatabase.Append.loop1 E t o d pre ls with
    | Loop.ret r => r.2.isSome = true
    | Loop.done _ => True := by
  induction ls generalizing pre with
  | nil => simp [signature.SignatureDatabase.Append.loop1]
  | cons l rest ih =>
    rw [signature.SignatureDatabase.Append.loop1_cons]
    by_cases hc : l.SignatureType = t ∧ UInt32.ofNat d.length + 16 = l.Size
    · rw [if_pos hc]; exact hbad l hc.1
    · rw [if_neg hc]; exact ih (pre ++ [l])

/-- **C09, "a wrongly-sized append reports an error and changes nothing", for the translated
    `SignatureDatabase.Append`**: every database value, every owner, every `pem.Decode`. -/
theorem C09g_append_wrong_size (E : Ext) (sd : signature.SignatureDatabase) (t o : util.EFIGUID)
    (d : List UInt8)
    (h : (t = signature.CERT_SHA256_GUID ∧ d.length ≠ 32) ∨
         (t = signature.CERT_EXTERNAL_MANAGEMENT_GUID ∧ d.length ≠ 1)) :
    (sd.Append E t o d).2.isSome = true ∧ (sd.Append E t o d).1 = sd := by
  have hn : normData E t d = d := by
    unfold normData
    rcases h with h | h
    · rw [if_neg (by rw [h.1]; exact CERT_SHA256_ne_X509)]
    · rw [if_neg (by rw [h.1]; decide)]
  have hbad : ∀ l : signature.SignatureList, l.SignatureType = t →
      (l.AppendBytes E o d).2.isSome = true := fun l hl =>
    (C09g_list_append_wrong_size E l o d (by rw [hl]; exact h)).1
  have h1 : (sd.Append E t o d).2.isSome = true := by
    rw [signature.SignatureDatabase.Append_eq, hn]
    split
    · rfl
    · split
      · rfl
      · have hl := append_loop_refuses E t o d hbad [] sd
        revert hl
        cases signature.SignatureDatabase.Append.loop1 E t o d [] sd with
        | ret r => exact fun hl => hl
        | done m =>
          intro _
          have hb := hbad (signature.NewSignatureList t) rfl
          simp only [hb, if_true]
  exact ⟨h1, signature.SignatureDatabase.Append_err E sd t o d h1⟩

/-! ### counterexamples to the two statements that had to be weakened

`Append` on the empty database with X.509 data of `2^32 - 30` bytes (not PEM): every hypothesis of
the original `C09g_append` / `C09g_append_ok` holds (`hls` vacuously), but the new list gets
`ListSize = (28 + (2^32 - 30 + 16)) mod 2^32 = 14` where the model has `2^32 + 14`.  (The lemmas
are stated for any `d` of that length so that nothing ever evaluates a 4 GiB list.) -/
section Counterexample

/-- a `pem.Decode` that never finds a PEM block -/
def cxE : Ext := ⟨fun d => (⟨true, []⟩, d)⟩

theorem cxE_norm (t : Bytes) (d : List UInt8) : (absE cxE).norm t d = d := by
  unfold Impl.Env.norm
  split <;> simp [absE, cxE]

theorem cx_model (d : List UInt8) :
    (absDb []).append (absE cxE) (gw signature.CERT_X509_GUID) (gw signature.CERT_X509_GUID) d
    = .ok [⟨gw signature.CERT_X509_GUID, 28 + (d.length + 16), 0, d.length + 16, [],
        [⟨gw signature.CERT_X509_GUID, d⟩]⟩] := by
  have h1 : gw signature.CERT_X509_GUID ∈ Impl.schemes := by decide +kernel
  have h2 : ¬ gw signature.CERT_X509_GUID = Impl.guidSha256 := by decide +kernel
  have h3 : ¬ gw signature.CERT_X509_GUID = Impl.guidExternal := by decide +kernel
  simp [Impl.Db.append, h1, cxE_norm, absDb, Impl.Db.has, Impl.appendInto, Impl.SList.appendBytes,
    Impl.SList.has, Impl.newList, h2, h3]

theorem cx_gen (d : List UInt8) (hlen : d.length = 2^32 - 30) :
    signature.SignatureDatabase.Append cxE [] signature.CERT_X509_GUID signature.CERT_X509_GUID d
    = ([⟨signature.CERT_X509_GUID, 14, 0, 4294967282, [], [⟨signature.CERT_X509_GUID, d⟩]⟩], none) := by
  have hn : normData cxE signature.CERT_X509_GUID d = d := by simp [normData, cxE]
  have h1 : (signature.ValidEFISignatureSchemes.lookup signature.CERT_X509_GUID).isSome = true := by
    decide +kernel
  have h2 : ¬ signature.CERT_X509_GUID = signature.CERT_SHA256_GUID := by decide
  have h3 : ¬ signature.CERT_X509_GUID = signature.CERT_EXTERNAL_MANAGEMENT_GUID := by decide
  have h4 : (28 : UInt32) + 4294967282 = 14 := by decide
  rw [signature.SignatureDatabase.Append_eq, hn, h1]
  simp [signature.SignatureDatabase.SigDataExists_eq, signature.SignatureDatabase.Append.loop1,
    signature.SignatureList.AppendBytes_eq, signature.NewSignatureList, hn, h2, h3, hlen, h4,
    signature.SizeofSignatureList]

theorem cx_append (d : List UInt8) (hlen : d.length = 2^32 - 30) :
      DbOK [] ∧ (absDb []).Inv ∧ GuidOK signature.CERT_X509_GUID ∧ GuidOK signature.CERT_X509_GUID ∧
      d.length + 16 < 2^32 ∧
      ((absE cxE).norm (gw signature.CERT_X509_GUID) d).length + 16 < 2^32 ∧
      ((absE cxE).norm (gw signature.CERT_X509_GUID)
        ((absE cxE).norm (gw signature.CERT_X509_GUID) d)).length + 16 < 2^32 ∧
      (absE cxE).norm (gw signature.CERT_X509_GUID) ((absE cxE).norm (gw signature.CERT_X509_GUID) d)
        = (absE cxE).norm (gw signature.CERT_X509_GUID) d ∧
      (∀ l ∈ ([] : signature.SignatureDatabase), l.ListSize.toNat +
        ((absE cxE).norm (gw signature.CERT_X509_GUID)
          ((absE cxE).norm (gw signature.CERT_X509_GUID) d)).length + 16 < 2^32) ∧
      (∀ l ∈ ([] : signature.SignatureDatabase), l.ListSize.toNat +
        ((absE cxE).norm (gw signature.CERT_X509_GUID) d).length + 16 < 2^32) := by
  have h : d.length + 16 < 2^32 := by rw [hlen]; decide
  refine ⟨fun l hl => by simp at hl, fun l hl => by simp [absDb] at hl, rfl, rfl, h, ?_, ?_, ?_,
    fun l hl => by simp at hl, fun l hl => by simp at hl⟩
  · rw [cxE_norm]; exact h
  · rw [cxE_norm, cxE_norm]; exact h
  · rw [cxE_norm]


theorem C09g_append_counterexample :
    ∃ (E : Ext) (sd : signature.SignatureDatabase) (t o : util.EFIGUID) (d : List UInt8),
      DbOK sd ∧ (absDb sd).Inv ∧ GuidOK t ∧ GuidOK o ∧ d.length + 16 < 2^32 ∧
      ((absE E).norm (gw t) d).length + 16 < 2^32 ∧
      ((absE E).norm (gw t) ((absE E).norm (gw t) d)).length + 16 < 2^32 ∧
      (∀ l ∈ sd, l.ListSize.toNat +
        ((absE E).norm (gw t) ((absE E).norm (gw t) d)).length + 16 < 2^32) ∧
      ¬ AppRel sd absDb (sd.Append E t o d) ((absDb sd).append (absE E) (gw t) (gw o) d) := by
  have hlen : (List.replicate (2^32 - 30) (0 : UInt8)).length = 2^32 - 30 := List.length_replicate
  generalize List.replicate (2^32 - 30) (0 : UInt8) = d at hlen
  obtain ⟨c1, c2, c3, c4, c5, c6, c7, _, c9, _⟩ := cx_append d hlen
  refine ⟨cxE, [], signature.CERT_X509_GUID, signature.CERT_X509_GUID, d,
    c1, c2, c3, c4, c5, c6, c7, c9, ?_⟩
  rw [cx_gen d hlen, cx_model]
  intro h
  have h' : absDb [(⟨signature.CERT_X509_GUID, 14, 0, 4294967282, [],
      [⟨signature.CERT_X509_GUID, d⟩]⟩ : signature.SignatureList)] = _ := h
  have h'' := congrArg (fun x => x.map (·.listSize)) h'
  simp [absDb, absL, hlen] at h''

theorem C09g_append_ok_counterexample :
    ∃ (E : Ext) (sd sd' : signature.SignatureDatabase) (t o : util.EFIGUID) (d : List UInt8),
      DbOK sd ∧ (absDb sd).Inv ∧ GuidOK t ∧ GuidOK o ∧ d.length + 16 < 2^32 ∧
      ((absE E).norm (gw t) d).length + 16 < 2^32 ∧
      (absE E).norm (gw t) ((absE E).norm (gw t) d) = (absE E).norm (gw t) d ∧
      (∀ l ∈ sd, l.ListSize.toNat + ((absE E).norm (gw t) d).length + 16 < 2^32) ∧
      sd.Append E t o d = (sd', none) ∧ ¬ (absDb sd').Inv := by
  have hlen : (List.replicate (2^32 - 30) (0 : UInt8)).length = 2^32 - 30 := List.length_replicate
  generalize List.replicate (2^32 - 30) (0 : UInt8) = d at hlen
  obtain ⟨c1, c2, c3, c4, c5, c6, _, c8, _, c10⟩ := cx_append d hlen
  refine ⟨cxE, [], _, signature.CERT_X509_GUID, signature.CERT_X509_GUID, d,
    c1, c2, c3, c4, c5, c6, c8, c10, cx_gen d hlen, ?_⟩
  intro h
  have := (h _ (List.mem_singleton.mpr rfl)).2.2.2.2.1
  simp [absL] at this

end Counterexample

/-! ### non-vacuity: the translated code on a concrete database -/
section Examples
def exOwner : util.EFIGUID := ⟨1, 2, 3, [1, 2, 3, 4, 5, 6, 7, 8]⟩
def exE : Ext := ⟨fun d => if d = [0x2d] then (⟨false, [0x30, 0x03, 0x02, 0x01]⟩, []) else (⟨true, []⟩, d)⟩
def exDb : signature.SignatureDatabase :=
  [⟨signature.CERT_X509_GUID, 48, 0, 20, [], [⟨exOwner, [1, 2, 3, 4]⟩]⟩]

example : DbOK exDb ∧ (absDb exDb).Inv := by
  constructor
  · intro l hl
    simp only [exDb, List.mem_singleton] at hl
    subst hl
    refine ⟨rfl, ?_⟩
    intro s hs
    simp only [List.mem_singleton] at hs
    subst hs
    rfl
  · intro l hl
    simp only [exDb, absDb, List.map_cons, List.map_nil, List.mem_singleton] at hl
    subst hl
    unfold Impl.SList.Inv
    decide +kernel
example : ((exDb.Append exE signature.CERT_X509_GUID exOwner [0x2d]).2 = none) ∧
    ((exDb.Append exE signature.CERT_X509_GUID exOwner [0x2d]).1.map (·.ListSize)) = [68] := by
  decide +kernel
example : (exDb.Append exE signature.CERT_X509_GUID exOwner [1, 2, 3, 4]).2 = some "ErrSigDataExists" := by
  decide +kernel
example : (exDb.Remove signature.CERT_X509_GUID exOwner [1, 2, 3, 4]) = ([], none) := by
  decide +kernel
/-- F37 on the translated code: the witness of the finding is refused, into the empty database and
    into one that holds a list; one byte is taken and gives a list of signature size 17 -/
example : (signature.SignatureDatabase.Append exE [] signature.CERT_EXTERNAL_MANAGEMENT_GUID exOwner [1, 2])
    = ([], some "errors.New") := by decide +kernel
example : (exDb.Append exE signature.CERT_EXTERNAL_MANAGEMENT_GUID exOwner [1, 2]) = (exDb, some "errors.New") := by
  decide +kernel
example : (signature.SignatureDatabase.Append exE [] signature.CERT_EXTERNAL_MANAGEMENT_GUID exOwner [1])
    = ([⟨signature.CERT_EXTERNAL_MANAGEMENT_GUID, 45, 0, 17, [], [⟨exOwner, [1]⟩]⟩], none) := by
  decide +kernel
end Examples

end GoUefi.C09

#print axioms GoUefi.C09.C09g_cmp
#print axioms GoUefi.C09.C09g_gw_inj
#print axioms GoUefi.C09.C09g_schemes
#print axioms GoUefi.C09.C09g_list_exists
#print axioms GoUefi.C09.C09g_sigDataExists
#print axioms GoUefi.C09.C09g_bytesExists
#print axioms GoUefi.C09.C09g_exists
#print axioms GoUefi.C09.C09g_list_appendBytes
#print axioms GoUefi.C09.C09g_appendList
#print axioms GoUefi.C09.C09g_append_partial
#print axioms GoUefi.C09.C09g_remove
#print axioms GoUefi.C09.C09g_append_ok_partial
#print axioms GoUefi.C09.C09g_append_err
#print axioms GoUefi.C09.C09g_remove_ok
#print axioms GoUefi.C09.C09g_remove_err_iff
#print axioms GoUefi.C09.C09g_list_append_wrong_size
#print axioms GoUefi.C09.C09g_append_wrong_size
#print axioms GoUefi.C09.C09g_append_counterexample
#print axioms GoUefi.C09.C09g_append_ok_counterexample
