import GoUefi.Extracted
/-! C01 — regenerated tie: the integer offsets `authenticode.Parse` adds in the current source -/
namespace GoUefi.C01
open GoUefi

def parseOffsetIs (name : String) (v : Nat) : Bool :=
  match Extracted.parseOffsets.find? (·.1 == name) with
  | none => true
  | some x => x.2 == v

/-- checksum at optional-header offset 64 and 4 bytes long; data directory 4 at 128 (PE32) / 144
    (PE32+) and 8 bytes long; the optional header starts 4 + 20 bytes after e_lfanew — the constants
    of `Spec.PE.Layout.ck/.dd` and `Impl.ddOffset` -/
theorem C01_extracted_offsets :
    parseOffsetIs "cksumStart" 64 = true ∧ parseOffsetIs "cksumEnd" 4 = true ∧
    parseOffsetIs "dd4start" 128 = true ∧ parseOffsetIs "dd4start'" 144 = true ∧
    parseOffsetIs "dd4end" 8 = true ∧ parseOffsetIs "offset" 4 = true := by
  decide

end GoUefi.C01
