import GoUefi.Lemmas.Total
import GoUefi.Properties.C04
/-!
# C13 — images and signatures: parsing and verification are total and bounded

For EVERY byte string handed to `authenticode.Parse` / `Signatures` / `Verify` and to
`pkcs7.ParsePKCS7` / `Verify` the call returns a value or an error: never a panic, never a process
exit, never a loop that runs out of fuel — and the work (bytes kept, bytes hashed) is linear in the
size of the file.

Only the property theorems and their non-vacuity examples live here.  Models:
`GoUefi/Model/{Pe,Authenticode,Pkcs7,Der}.lean`; helper lemmas: `GoUefi/Lemmas/Total.lean`,
`GoUefi/Lemmas/PeSign.lean`, `GoUefi/Lemmas/Pkcs7Verify.lean`; example images: `GoUefi.PeSignEx`.

The parsers `parseP7`, `parseAuthenticode` and the DER readers have result type `Option`: the Go
code they model (cryptobyte) has no crash path; for them the content is in the fuel theorems.
-/
namespace GoUefi.C13
open GoUefi GoUefi.Impl

/-! ### 1. outcome totality of `Parse` and `Signatures` -/

/-- `authenticode.Parse` returns (a value or an error) for every file content and whatever
    `debug/pe` reported about it (F5: no `Truncate` panic; F18: oversize headers are an error). -/
theorem C13_parse_total (img : Bytes) (f : PeFacts) : parse img f ≠ .panic ∧ parse img f ≠ .exit :=
  parse_returns img f

/-- `Signatures()` returns for every parsed image — in fact for every certificate table whatsoever
    (F6: `dwLength < 8` is an error, nothing is allocated from the declared length). -/
theorem C13_signatures_total (p : Parsed) : p.signatures ≠ .panic ∧ p.signatures ≠ .exit :=
  p.signatures_returns

/-- The loop of `Signatures()` returns for every amount of fuel and every table. -/
theorem C13_signaturesAux_total (fuel : Nat) (t : Bytes) :
    signaturesAux fuel t ≠ .panic ∧ signaturesAux fuel t ≠ .exit :=
  signaturesAux_returns fuel t

/-! ### 2. verification never exits and never panics -/

/-- `PECOFFBinary.Verify` never ends the process. -/
theorem C13_verify_never_exit (C : Crypto) (ok : Bytes → Bool) (p : Parsed) (c : Cert) :
    p.verify C ok c ≠ .exit :=
  (p.verify_returns C ok c).2

/-- `PECOFFBinary.Verify` never panics: every `Authenticode` value it verifies came out of
    `ParseAuthenticode`, whose signers carry their attributes as transmitted, so the only panicking
    branch of the PKCS#7 layer (`Attributes.Marshal` on an invalid OID) is unreachable. -/
theorem C13_verify_never_panic (C : Crypto) (ok : Bytes → Bool) (p : Parsed) (c : Cert) :
    p.verify C ok c ≠ .panic :=
  (p.verify_returns C ok c).1

/-- `PKCS7.Verify` on a parsed blob returns (re-export of `C04_parsed_never_panics`). -/
theorem C13_p7_total {C : Crypto} {ok : Bytes → Bool} {b : Bytes} {p : P7} {c : Cert}
    (h : parseP7 ok b = some p) : p.verify C c ≠ .panic ∧ p.verify C c ≠ .exit :=
  C04.C04_parsed_never_panics h

/-- `PKCS7.Verify` never exits, parsed or not (re-export of `C04_never_exit`). -/
theorem C13_p7_never_exit (C : Crypto) (p : P7) (c : Cert) : p.verify C c ≠ .exit :=
  C04.C04_never_exit C p c

/-- what `ParseAuthenticode` returns carries a *parsed* PKCS#7 value -/
theorem C13_auth_parsed {ok : Bytes → Bool} {b : Bytes} {a : Auth}
    (h : parseAuthenticode ok b = some a) : ∃ b', parseP7 ok b' = some a.pkcs :=
  ⟨b, (PeSign.parseAuthenticode_inv h).1⟩

/-- `Authenticode.Verify` on a parsed signature returns, whatever the stream that is hashed. -/
theorem C13_auth_verify_total {C : Crypto} {ok : Bytes → Bool} {b : Bytes} {a : Auth} (c : Cert)
    (stream : Bytes) (h : parseAuthenticode ok b = some a) :
    a.verify C c stream ≠ .panic ∧ a.verify C c stream ≠ .exit :=
  Auth.verify_parsed_returns c stream h

/-- The signature loop of `PECOFFBinary.Verify` returns for every list of certificates. -/
theorem C13_verifySigs_total (C : Crypto) (ok : Bytes → Bool) (c : Cert) (stream : Bytes)
    (ws : List WinCert) :
    verifySigs C ok c stream ws ≠ .panic ∧ verifySigs C ok c stream ws ≠ .exit :=
  verifySigs_returns C ok c stream ws

/-! ### 3. termination with linear fuel -/

/-- `Signatures()`: every turn consumes at least the 8 header bytes, so `t.length / 8` turns always
    suffice: with that much fuel the answer does not depend on the fuel. -/
theorem C13_signatures_fuel_sharp (t : Bytes) (fuel : Nat) (h : t.length / 8 ≤ fuel) :
    signaturesAux fuel t = signaturesAux t.length t :=
  signaturesAux_fuel_irrel fuel t.length t h (Nat.div_le_self _ _)

/-- `Signatures()`: more fuel than the entry point passes (`certTable.length`) does not change the
    answer: the loop never stops because the fuel ran out. -/
theorem C13_signatures_fuel (t : Bytes) (k : Nat) :
    signaturesAux t.length t = signaturesAux (t.length + k) t :=
  (C13_signatures_fuel_sharp t (t.length + k) (by have := Nat.div_le_self t.length 8; omega)).symm

/-- the same for a parsed image -/
theorem C13_parsed_signatures_fuel (p : Parsed) (k : Nat) :
    p.signatures = signaturesAux (p.certTable.length + k) p.certTable :=
  C13_signatures_fuel p.certTable k

/-- `parseSignerInfos`: every SignerInfo consumes at least 2 bytes; `s.length / 2` turns suffice. -/
theorem C13_signerLoop_fuel_sharp (s : Bytes) (fuel : Nat) (h : s.length / 2 ≤ fuel) :
    signerLoop fuel s = signerLoop s.length s :=
  signerLoop_fuel_irrel fuel s.length s h (Nat.div_le_self _ _)

/-- `parseSignerInfos`: more fuel than `ParsePKCS7` passes (`sis.length`) does not change the
    result (`none` is always a decoding error). -/
theorem C13_signerLoop_fuel (s : Bytes) (fuel : Nat) (h : s.length ≤ fuel) :
    signerLoop fuel s = signerLoop s.length s :=
  C13_signerLoop_fuel_sharp s fuel (by have := Nat.div_le_self s.length 2; omega)

/-- `parseAttributes`: every attribute consumes at least 2 bytes; `s.length / 2` turns suffice. -/
theorem C13_attrLoop_fuel_sharp (s : Bytes) (a : Attrs) (fuel : Nat) (h : s.length / 2 ≤ fuel) :
    attrLoop fuel s a = attrLoop s.length s a :=
  attrLoop_fuel_irrel fuel s.length s a h (Nat.div_le_self _ _)

/-- `parseAttributes`: more fuel than the entry point passes (`b.length`) does not change the
    result. -/
theorem C13_attrLoop_fuel (s : Bytes) (a : Attrs) (fuel : Nat) (h : s.length ≤ fuel) :
    attrLoop fuel s a = attrLoop s.length s a :=
  C13_attrLoop_fuel_sharp s a fuel (by have := Nat.div_le_self s.length 2; omega)

/-! ### 4. bounded size: everything kept or hashed is linear in the file size -/

/-- Every field of the parsed image is a slice of the file; `Bytes()` (F16: not pre-sized from
    header fields) is at most three slices, the 8-byte directory entry and less than 8 bytes of
    padding. -/
theorem C13_parse_size {img : Bytes} {f : PeFacts} {p : Parsed} (h : parse img f = .ok p) :
    p.first.length ≤ img.length ∧ p.last.length ≤ img.length ∧ p.optDataDir.length ≤ 8 ∧
    p.certTable.length ≤ img.length ∧ p.padding < 8 ∧ p.bytes.length ≤ 3 * img.length + 16 :=
  parse_size h

/-- The number of bytes that `Hash` digests is linear in the file size (F18: `Parse` rejects
    headers + sections larger than the file).  No assumption on the header fields (`regular` or
    not): the first two header ranges are disjoint (≤ `img.length` together), the third lies below
    `SizeOfHeaders`, the sections add `SUM − SizeOfHeaders`, the tail `img.length − SUM` plus less
    than 8 bytes of padding, and `SUM ≤ img.length`.  The factor 2 is attained by irregular layouts
    (example below): header ranges that overlap are hashed twice. -/
theorem C13_hashStream_size {img : Bytes} {f : PeFacts} {p : Parsed} (h : parse img f = .ok p) :
    (hashStream p).length ≤ 2 * img.length + 7 :=
  hashStream_size h

/-! ### 5. the certificates returned are disjoint pieces of the table -/

/-- `Signatures()`: the bodies returned, each with its 8-byte header, fit in the table. -/
theorem C13_signatures_size_sharp {p : Parsed} {ws : List WinCert} (h : p.signatures = .ok ws) :
    (ws.map fun w => 8 + w.cert.length).sum ≤ p.certTable.length :=
  signaturesAux_size _ _ _ h

/-- `Signatures()`: the total size of the certificate bodies returned is at most the table size,
    and there are at most `certTable.length / 8` of them. -/
theorem C13_signatures_size {p : Parsed} {ws : List WinCert} (h : p.signatures = .ok ws) :
    (ws.map fun w => w.cert.length).sum ≤ p.certTable.length ∧
    ws.length ≤ p.certTable.length / 8 := by
  have hs := C13_signatures_size_sharp h
  have key : ∀ l : List WinCert,
      (l.map fun w => 8 + w.cert.length).sum = 8 * l.length + (l.map fun w => w.cert.length).sum := by
    intro l
    induction l with
    | nil => rfl
    | cons w l ih => simp only [List.map_cons, List.sum_cons, List.length_cons, ih]; omega
  rw [key] at hs
  omega

/-! ### non-vacuity -/
section Examples
open GoUefi.PeExample GoUefi.PeSignEx

/-- shorter than the DOS header / headers and sections larger than the file (F18) / certificate
    table larger than what follows the sections (F5): errors -/
example : parse (zeros 95) ⟨0x40, 64, 95, 0, 0, []⟩ = .err := by decide
example : parse (zeros 96) ⟨0x40, 64, 400, 0, 0, []⟩ = .err := by decide
example : parse (zeros 96) ⟨0x40, 64, 64, 0, 0, [(64, 4000)]⟩ = .err := by decide
example : parse (zeros 96) ⟨0x40, 64, 96, 0, 8, []⟩ = .err := by decide
/-- well-formed images parse -/
example : parse img64 (factsOf img64) = .ok (parsed img64) := parse_img64
example : parse imgSigned (factsOf imgSigned) = .ok (parsed imgSigned) := parse_imgSigned
/-- certificate tables: garbage (wrong revision), declared length 3 < 8, declared length beyond the
    table: errors; a well-formed entry is returned -/
example : signaturesAux 16 (zeros 16) = .err := by decide
example : signaturesAux 16 (le32 3 ++ le16 0x0200 ++ le16 2 ++ zeros 8) = .err := by decide
example : signaturesAux 16 (le32 0xffffffff ++ le16 0x0200 ++ le16 2 ++ zeros 8) = .err := by decide
example : (parsed img64s).signatures = .ok [⟨16, 0x0200, 2, [1, 2, 3, 4, 5, 6, 7, 8]⟩] := by
  decide +kernel
/-- verification: no signature / a signature over another image: errors; the signed image verifies -/
example : (parsed img64).verify toy32 allOk cert = .err := by decide +kernel
example : (parsed imgSigned').verify toy32 allOk cert = .err := by decide +kernel
example : (parsed imgSigned).verify toy32 allOk cert = .ok true := verify_imgSigned
/-- a table entry that is not PKCS#7 at all: an error, not a crash -/
example : verifySigs toy32 allOk cert [] [⟨16, 0x0200, 2, [1, 2, 3, 4, 5, 6, 7, 8]⟩] = .err := by
  decide +kernel
/-- DER loops: trailing garbage is an error from the reader, with any fuel -/
example : signerLoop 0 [5] = none ∧ signerLoop 100 [5] = none ∧ signerLoop 0 [] = some [] := by decide
/-- an irregular layout (unknown optional-header kind, so the directory offset is 0) on a 96-byte
    file: the header ranges [0, 188) and [8, 96) overlap and 184 = 2·96 − 8 bytes are hashed -/
example : (match parse (zeros 96) ⟨100, 0, 96, 0, 0, []⟩ with
           | .ok p => (hashStream p).length
           | _ => 0) = 184 := by decide +kernel

end Examples

end GoUefi.C13

#print axioms GoUefi.C13.C13_parse_total
#print axioms GoUefi.C13.C13_signatures_total
#print axioms GoUefi.C13.C13_signaturesAux_total
#print axioms GoUefi.C13.C13_verify_never_exit
#print axioms GoUefi.C13.C13_verify_never_panic
#print axioms GoUefi.C13.C13_p7_total
#print axioms GoUefi.C13.C13_p7_never_exit
#print axioms GoUefi.C13.C13_auth_parsed
#print axioms GoUefi.C13.C13_auth_verify_total
#print axioms GoUefi.C13.C13_verifySigs_total
#print axioms GoUefi.C13.C13_signatures_fuel_sharp
#print axioms GoUefi.C13.C13_signatures_fuel
#print axioms GoUefi.C13.C13_parsed_signatures_fuel
#print axioms GoUefi.C13.C13_signerLoop_fuel_sharp
#print axioms GoUefi.C13.C13_signerLoop_fuel
#print axioms GoUefi.C13.C13_attrLoop_fuel_sharp
#print axioms GoUefi.C13.C13_attrLoop_fuel
#print axioms GoUefi.C13.C13_parse_size
#print axioms GoUefi.C13.C13_hashStream_size
#print axioms GoUefi.C13.C13_signatures_size_sharp
#print axioms GoUefi.C13.C13_signatures_size
