import GoUefi.Properties.C10g
import GoUefi.Properties.C10
/-!
# C10 (generated tie, second part) — encode, then decode, for the translated code

`C10g_decode_encode` is the direction "what the translated reader consumed re-encodes to the input".
This file adds the other direction for the code as the source has it now: the bytes the translated
`EFIVariableAuthentication2.Marshal` / `WriteEFIVariableAuthencation2` produce for a well-formed
descriptor (`dwLength = 24 + |CertData|`, revision 0x0200, type 0x0EF1 — `Impl.AuthDesc.WF` of its
abstraction), followed by ANY payload, are decoded by the translated `ReadEFIVariableAuthencation2` /
`Unmarshal` to a descriptor with the same fields, and exactly the payload is left.
-/
namespace GoUefi.C10
open GoUefi GoUefi.Gen

theorem readAuth_ok_tie (f : List UInt8) (d : Impl.AuthDesc) (r : List UInt8)
    (hf : Impl.readAuth f = .ok (d, r)) :
    ∃ ga', signature.ReadEFIVariableAuthencation2 f = (r, ga', none) ∧ absAuth ga' = d := by
  have h := C10g_readAuth f
  rw [hf] at h
  exact h

theorem unmarshal_ok_tie (e : signature.EFIVariableAuthentication2) (f : List UInt8) (d : Impl.AuthDesc)
    (r : List UInt8) (hf : Impl.readAuth f = .ok (d, r)) :
    ∃ ga', e.Unmarshal f = (ga', r, none) ∧ absAuth ga' = d := by
  have h := C10g_unmarshal e f
  rw [hf] at h
  exact h

theorem C10h_encode_decode (ga : signature.EFIVariableAuthentication2) (rest : List UInt8)
    (h8 : ga.AuthInfo.CertType.Data4.length = 8) (hwf : (absAuth ga).WF) :
    ∃ ga', signature.ReadEFIVariableAuthencation2 (ga.Marshal [] ++ rest) = (rest, ga', none) ∧
      absAuth ga' = absAuth ga := by
  have hw := (C10g_writeAuth [] ga h8).2
  have hm : ga.Marshal [] = Impl.writeAuth (absAuth ga) := by rw [hw, List.nil_append]
  rw [hm]
  exact readAuth_ok_tie _ _ _ (C10_encode_decode (absAuth ga) rest hwf).2

/-- the same through the method `Unmarshal`, whatever receiver it is called on -/
theorem C10h_marshal_unmarshal (e ga : signature.EFIVariableAuthentication2) (rest : List UInt8)
    (h8 : ga.AuthInfo.CertType.Data4.length = 8) (hwf : (absAuth ga).WF) :
    ∃ ga', e.Unmarshal (ga.Marshal [] ++ rest) = (ga', rest, none) ∧ absAuth ga' = absAuth ga := by
  have hw := (C10g_writeAuth [] ga h8).2
  have hm : ga.Marshal [] = Impl.writeAuth (absAuth ga) := by rw [hw, List.nil_append]
  rw [hm]
  exact unmarshal_ok_tie e _ _ _ (C10_encode_decode (absAuth ga) rest hwf).2

/-- and the length the reader consumes is the length the writer produced: 16 + dwLength -/
theorem C10h_encoded_length (ga : signature.EFIVariableAuthentication2)
    (h8 : ga.AuthInfo.CertType.Data4.length = 8) (hwf : (absAuth ga).WF) :
    (ga.Marshal []).length = 16 + ga.AuthInfo.Header.Length.toNat := by
  have hw := (C10g_writeAuth [] ga h8).2
  have he := (C10_encode_decode (absAuth ga) [] hwf).1
  rw [hw, List.nil_append, he]
  obtain ⟨h1, h2, _, h4, _, _, _⟩ := hwf
  simp only [Spec.encAuth, List.length_append, le32_length, le16_length, h1, h2]
  have : (absAuth ga).auth.hdr.length = ga.AuthInfo.Header.Length.toNat := rfl
  rw [← this, h4]
  omega

/-- non-vacuity: the descriptor decoded from a specification-built encoding meets both hypotheses -/
example : ((signature.ReadEFIVariableAuthencation2
      (Spec.encAuth ⟨zeros 16, 27, 0x0200, 0x0EF1, zeros 16, [1, 2, 3]⟩)).2.1).AuthInfo.CertType.Data4.length = 8 ∧
    (absAuth (signature.ReadEFIVariableAuthencation2
      (Spec.encAuth ⟨zeros 16, 27, 0x0200, 0x0EF1, zeros 16, [1, 2, 3]⟩)).2.1).WF := by
  decide +kernel

end GoUefi.C10

#print axioms GoUefi.C10.C10h_encode_decode
#print axioms GoUefi.C10.C10h_marshal_unmarshal
#print axioms GoUefi.C10.C10h_encoded_length
