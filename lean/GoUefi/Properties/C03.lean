import GoUefi.Lemmas.PeSign
/-!
# C03 — signing yields a well-formed signed image

Only the property theorems and their non-vacuity examples live here.
Model of `PECOFFBinary.AppendSignature` / `Bytes()` / `Signatures()`: `GoUefi/Model/Pe.lean`;
specification of the image layout, of the hash input and the strict certificate-table walker:
`GoUefi/Spec/Pe.lean`.  Helper lemmas and the example values: `GoUefi/Lemmas/PeSign.lean`.

Common hypotheses: `b` a well-formed image, `p` what `Parse` returned for it, `sig` a signature
blob such that every number written to the directory entry fits in a uint32.
-/
namespace GoUefi.C03
open GoUefi GoUefi.Spec.PE GoUefi.Impl GoUefi.PeSign

/-- The file written after `AppendSignature`: every original byte except the 8-byte Certificate
    Table directory entry is kept in place, the file is zero-padded to a multiple of 8, and the
    certificate table (the old table followed by the new 8-aligned WIN_CERTIFICATE) ends the file.
    The new directory entry is 8-aligned, its size is a multiple of 8, and it spans exactly to the
    end of the (8-aligned) file.  For an already signed image there is no padding and the old
    table was the tail of the file. -/
theorem C03_layout (b : Bytes) (h : WF b) (p : Parsed) (hp : parse b (factsOf b) = .ok p)
    (sig : Bytes) (h32 : 8 + sig.length < 2^32) (hfit : b.length + 8 + sig.length + 16 < 2^32) :
    let entry := writeWinCert ⟨8 + sig.length, 0x0200, 2, sig⟩ ++ zeros (pad8 (8 + sig.length))
    let va' := if certSize b ≠ 0 then certAddr b else b.length + pad8 b.length
    let sz' := if certSize b ≠ 0 then certSize b + entry.length else entry.length
    let out := (p.appendSignature sig).bytes
    out = slice b 0 (layout b).dd ++ le32 va' ++ le32 sz' ++
            slice b ((layout b).dd + 8) (b.length - certSize b) ++ zeros (pad8 b.length) ++
            slice b (certAddr b) (certAddr b + certSize b) ++ entry ∧
    va' % 8 = 0 ∧ sz' % 8 = 0 ∧ va' + sz' = out.length ∧ out.length % 8 = 0 ∧
    out.length = b.length + pad8 b.length + entry.length ∧
    (certSize b ≠ 0 → pad8 b.length = 0 ∧ certAddr b + certSize b = b.length) := by
  intro entry va' sz' out
  have sg := signed_of_append h hp sig h32 hfit
  obtain ⟨n1, n2, n3, n4, _, _⟩ := sg.nums h
  refine ⟨?_, n1, n2, n3, n4, sg.len, ?_⟩
  · have := bytes_appendSignature h hp sig h32 hfit
    simp only [List.append_assoc]
    exact this
  · intro hc
    obtain ⟨ha, h8, _, _⟩ := WF.certAddr_eq h hc
    exact ⟨PeAux.pad8_eq_zero h8, ha⟩

/-- The independent strict walker of the specification sees, in the signed file, the old entries
    followed by exactly one new revision-2.0 PKCS#7 entry with the correct length and body; an
    unsigned image has no old entries. -/
theorem C03_entries (b : Bytes) (h : WF b) (p : Parsed) (hp : parse b (factsOf b) = .ok p)
    (sig : Bytes) (h32 : 8 + sig.length < 2^32) (hfit : b.length + 8 + sig.length + 16 < 2^32)
    (es : List CertEntry) (he : certEntries b = some es) :
    certEntries (p.appendSignature sig).bytes = some (es ++ [⟨8 + sig.length, 0x0200, 2, sig⟩]) ∧
    (certSize b = 0 → es = []) := by
  refine ⟨(signed_of_append h hp sig h32 hfit).entries h h32 he, fun hc => ?_⟩
  rw [certEntries_unsigned hc] at he
  cases he; rfl

/-- The signed file is again a well-formed image: C01 applies to it, and every statement of this
    file extends to histories of signatures by induction. -/
theorem C03_wf_preserved (b : Bytes) (h : WF b) (p : Parsed) (hp : parse b (factsOf b) = .ok p)
    (sig : Bytes) (h32 : 8 + sig.length < 2^32) (hfit : b.length + 8 + sig.length + 16 < 2^32) :
    WF (p.appendSignature sig).bytes :=
  (signed_of_append h hp sig h32 hfit).wf h

/-- Signing does not change the hash input (hence, for any digest function, the digest); as the
    signed file is 8-aligned, this is also the unpadded specification hash input of the signed
    file itself. -/
theorem C03_digest_invariant (b : Bytes) (h : WF b) (p : Parsed) (hp : parse b (factsOf b) = .ok p)
    (sig : Bytes) (h32 : 8 + sig.length < 2^32) (hfit : b.length + 8 + sig.length + 16 < 2^32) :
    authInputPadded (p.appendSignature sig).bytes = authInputPadded b ∧
    authInput (p.appendSignature sig).bytes = authInputPadded b := by
  have sg := signed_of_append h hp sig h32 hfit
  refine ⟨sg.digest h, ?_⟩
  have := sg.digest h
  unfold authInputPadded at this
  rw [sg.padded_eq h] at this
  exact this

/-- Serialising and parsing again between two signing steps changes nothing: the signed file
    parses, `Bytes()` of the result is the file, the hash stream is the one of the original image,
    the certificate table and the directory entry are the ones `AppendSignature` left in memory,
    and signing the re-parsed value writes the same file as signing the in-memory value again. -/
theorem C03_reparse (b : Bytes) (h : WF b) (p : Parsed) (hp : parse b (factsOf b) = .ok p)
    (sig : Bytes) (h32 : 8 + sig.length < 2^32) (hfit : b.length + 8 + sig.length + 16 < 2^32) :
    let entry := writeWinCert ⟨8 + sig.length, 0x0200, 2, sig⟩ ++ zeros (pad8 (8 + sig.length))
    let va' := if certSize b ≠ 0 then certAddr b else b.length + pad8 b.length
    let sz' := if certSize b ≠ 0 then certSize b + entry.length else entry.length
    let out := (p.appendSignature sig).bytes
    ∃ p', parse out (factsOf out) = .ok p' ∧ p'.bytes = out ∧ hashStream p' = hashStream p ∧
      p'.certTable = (p.appendSignature sig).certTable ∧ p'.ddVA = va' ∧ p'.ddSize = sz' ∧
      ∀ sig2, (p'.appendSignature sig2).bytes =
        ((p.appendSignature sig).appendSignature sig2).bytes := by
  intro entry va' sz' out
  obtain ⟨p', a1, a2, a3, a4, a5, a6, a7, a8⟩ := reparse h hp sig h32 hfit
  exact ⟨p', a1, a2, a3, a4, a5, a6, sign_again h hp sig h32 hfit a4 a5 a6 a7 a8⟩

/-- `Signatures()` after `AppendSignature` lists the old signatures followed by the new one.

    Hypotheses added (both needed, see the examples at the end): the new signature is not empty,
    and the old table is consumed exactly by the walk — it walks strictly (`certEntries`) and every
    old entry has a body (dwLength > 8).  `Signatures()` stops as soon as at most 8 bytes remain,
    so it never lists a trailing entry with an empty body. -/
theorem C03_signatures (b : Bytes) (h : WF b) (p : Parsed) (hp : parse b (factsOf b) = .ok p)
    (sig : Bytes) (h32 : 8 + sig.length < 2^32) (hfit : b.length + 8 + sig.length + 16 < 2^32)
    (hne : sig ≠ []) (es : List CertEntry) (he : certEntries b = some es)
    (hbody : ∀ x ∈ es, 8 < x.length) (ws : List WinCert) (hs : p.signatures = .ok ws) :
    (p.appendSignature sig).signatures = .ok (ws ++ [⟨8 + sig.length, 0x0200, 2, sig⟩]) :=
  signatures_appendSignature h hp sig h32 hfit hne he hbody hs

/-! ### non-vacuity: concrete images (`PeExample` in Lemmas/Pe.lean, `PeSignEx` in Lemmas/PeSign.lean) -/
section NonVacuity
open GoUefi.PeExample GoUefi.PeSignEx

/-- the hypotheses hold for the unsigned 349-byte image and for the signed 368-byte image -/
example : parse img64 (factsOf img64) = .ok (parsed img64) := parse_img64
example : parse img64s (factsOf img64s) = .ok (parsed img64s) := parse_img64s
example : 8 + sig3.length < 2^32 ∧ img64.length + 8 + sig3.length + 16 < 2^32 ∧
    img64s.length + 8 + sig3.length + 16 < 2^32 := by decide +kernel

/-- `C03_layout`, … instantiated -/
example := C03_layout img64 wf_img64 _ parse_img64 sig3 (by decide) (by decide +kernel)
example := C03_layout img64s wf_img64s _ parse_img64s sig3 (by decide) (by decide +kernel)
example : WF ((parsed img64).appendSignature sig3).bytes :=
  C03_wf_preserved img64 wf_img64 _ parse_img64 sig3 (by decide) (by decide +kernel)
example : authInputPadded ((parsed img64).appendSignature sig3).bytes = authInputPadded img64 :=
  (C03_digest_invariant img64 wf_img64 _ parse_img64 sig3 (by decide) (by decide +kernel)).1

/-- … and evaluated.  Unsigned image: 349 bytes + 3 of padding + a 16-byte entry; the directory
    entry points to offset 352 and has size 16 -/
example : (((parsed img64).appendSignature sig3).bytes).length = 368 ∧
    certAddr ((parsed img64).appendSignature sig3).bytes = 352 ∧
    certSize ((parsed img64).appendSignature sig3).bytes = 16 ∧
    wfCheck ((parsed img64).appendSignature sig3).bytes = true ∧
    certEntries img64 = some [] ∧
    certEntries ((parsed img64).appendSignature sig3).bytes = some [⟨11, 0x0200, 2, sig3⟩] ∧
    (parsed img64).signatures = .ok [] ∧
    ((parsed img64).appendSignature sig3).signatures = .ok [⟨11, 0x0200, 2, sig3⟩] := by
  decide +kernel
/-- signed image: 368 bytes, table [352, 368); afterwards the table is [352, 384) with two entries -/
example : (((parsed img64s).appendSignature sig3).bytes).length = 384 ∧
    certAddr ((parsed img64s).appendSignature sig3).bytes = 352 ∧
    certSize ((parsed img64s).appendSignature sig3).bytes = 32 ∧
    certEntries img64s = some [⟨16, 0x0200, 2, [1, 2, 3, 4, 5, 6, 7, 8]⟩] ∧
    certEntries ((parsed img64s).appendSignature sig3).bytes =
      some [⟨16, 0x0200, 2, [1, 2, 3, 4, 5, 6, 7, 8]⟩, ⟨11, 0x0200, 2, sig3⟩] ∧
    (parsed img64s).signatures = .ok [⟨16, 0x0200, 2, [1, 2, 3, 4, 5, 6, 7, 8]⟩] ∧
    ((parsed img64s).appendSignature sig3).signatures =
      .ok [⟨16, 0x0200, 2, [1, 2, 3, 4, 5, 6, 7, 8]⟩, ⟨11, 0x0200, 2, sig3⟩] := by
  decide +kernel
/-- the hash input is unchanged, evaluated -/
example : authInput ((parsed img64).appendSignature sig3).bytes = authInputPadded img64 := by
  decide +kernel

/-- `C03_signatures` needs `hbody`: the only old entry of `img8` has an empty body (dwLength = 8);
    `Signatures()` does not list it before signing, but lists it afterwards -/
example : WF img8 ∧ certEntries img8 = some [⟨8, 0x0200, 2, []⟩] ∧
    (parsed img8).signatures = .ok [] ∧
    ((parsed img8).appendSignature sig3).signatures =
      .ok [⟨8, 0x0200, 2, []⟩, ⟨11, 0x0200, 2, sig3⟩] :=
  ⟨wf_img8, by decide +kernel, by decide +kernel, by decide +kernel⟩
/-- … and `hne`: an empty signature is written as an 8-byte entry, which `Signatures()` skips -/
example : ((parsed img64).appendSignature []).signatures = .ok [] ∧
    certEntries ((parsed img64).appendSignature []).bytes = some [⟨8, 0x0200, 2, []⟩] := by
  decide +kernel

end NonVacuity

#print axioms C03_layout
#print axioms C03_entries
#print axioms C03_wf_preserved
#print axioms C03_digest_invariant
#print axioms C03_reparse
#print axioms C03_signatures

end GoUefi.C03
