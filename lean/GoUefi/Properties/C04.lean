import GoUefi.Lemmas.Pkcs7Verify
/-!
# C04 — PKCS#7 verification succeeds only for a valid signature bound to the content

Only the property theorems and their non-vacuity examples live here.
Model: `GoUefi/Model/Pkcs7.lean` (pkcs7/pkcs7.go after the fix commits), cryptography abstract
(`GoUefi/Model/Crypto.lean`), specification `GoUefi/Spec/Cms.lean`.  Helper lemmas:
`GoUefi/Lemmas/DerInv.lean` (the reader accepts only canonical DER headers; `Der.Sub x b` = `x` is a
contiguous sub-slice of `b`) and `GoUefi/Lemmas/Pkcs7Verify.lean`; example values `GoUefi.P7Ex`.

"The first signer naming `c`" is `p.signers.find? (fun s => s.isCertificate c)`.
The outcomes of `p.verify C c` are characterised exactly:
`.ok true` ⇔ `C04_verify_iff`; `.ok false` ⇔ no signer names `c` (`C04_ok_false_iff`);
`.panic` only for locally constructed attributes (`C04_panic_only_unparsed`), never after parsing
(`C04_parsed_never_panics`); never `.exit` (`C04_never_exit`); everything else is `.err`.
-/
namespace GoUefi.C04
open GoUefi GoUefi.Impl

/-- Verification answers `true` only through the whole chain of commitments: some signer names the
    certificate (issuer bytes and serial), carries signed attributes, the RSA signature under the
    certificate's key is valid over those attributes (as transmitted; re-encoded only for values
    constructed locally, which have no `raw`), and — when content is encapsulated — the
    messageDigest attribute is the SHA-256 of the content's value octets. -/
theorem C04_sound {C : Crypto} {p : P7} {c : Cert} (h : p.verify C c = .ok true) :
    ∃ s ∈ p.signers, s.issuer = c.rawIssuer ∧ s.serial = c.serial ∧
      ∃ a, s.attrs = some a ∧
        (∃ sigdata, (a.raw = some sigdata ∨ (a.raw = none ∧ a.marshal = .ok sigdata)) ∧
          C.rsaVerify c.pub sigdata s.sig = true) ∧
        (p.content ≠ [] →
          ∃ t v r, Der.readAny p.content = some (t, v, r) ∧ C.sha256 v = a.md) := by
  unfold P7.verify at h
  rw [verifySigners_eq_find] at h
  cases hf : p.signers.find? (fun s => s.isCertificate c) with
  | none => simp [hf] at h
  | some s =>
    simp only [hf] at h
    have hcert : s.isCertificate c = true := by simpa using List.find?_some hf
    obtain ⟨hi, hs⟩ := isCertificate_iff.mp hcert
    exact ⟨s, List.mem_of_find?_eq_some hf, hi, hs, Signer.verify_ok_true_iff.mp h⟩

/-- The first signer that names the certificate decides alone: signers before it do not name the
    certificate and are skipped, signers after it are never looked at. -/
theorem C04_first_matching_signer_decides {C : Crypto} {p : P7} {c : Cert} {pre post : List Signer}
    {s : Signer} (hp : p.signers = pre ++ s :: post)
    (hpre : ∀ x ∈ pre, x.isCertificate c = false) (hs : s.isCertificate c = true) :
    p.verify C c = s.verify C c p.content := by
  unfold P7.verify
  rw [hp]
  clear hp
  induction pre with
  | nil => simp [verifySigners, hs]
  | cons x xs ih =>
    have hx := hpre x List.mem_cons_self
    simp only [List.cons_append, verifySigners, hx, Bool.false_eq_true, if_false]
    exact ih fun y hy => hpre y (List.mem_cons_of_mem _ hy)

/-- The same with `List.find?`: the verdict is the verdict of the first matching signer, and a
    negative answer when there is none. -/
theorem C04_verify_eq_first_match (C : Crypto) (p : P7) (c : Cert) :
    p.verify C c =
      match p.signers.find? (fun s => s.isCertificate c) with
      | none => .ok false
      | some s => s.verify C c p.content :=
  verifySigners_eq_find C c p.content p.signers

/-- Exact characterisation of success (`C04_sound` is its left-to-right direction, weakened). -/
theorem C04_verify_iff {C : Crypto} {p : P7} {c : Cert} :
    p.verify C c = .ok true ↔
      ∃ s, p.signers.find? (fun s => s.isCertificate c) = some s ∧
        ∃ a, s.attrs = some a ∧
          (∃ sigdata, (a.raw = some sigdata ∨ (a.raw = none ∧ a.marshal = .ok sigdata)) ∧
            C.rsaVerify c.pub sigdata s.sig = true) ∧
          (p.content ≠ [] →
            ∃ t v r, Der.readAny p.content = some (t, v, r) ∧ C.sha256 v = a.md) := by
  rw [C04_verify_eq_first_match]
  cases hf : p.signers.find? (fun s => s.isCertificate c) with
  | none => simp
  | some s =>
    simp only [Option.some.injEq, exists_eq_left']
    exact Signer.verify_ok_true_iff

/-- No signer names the certificate: a negative answer, not an error. -/
theorem C04_no_matching_signer {C : Crypto} {p : P7} {c : Cert}
    (h : ∀ s ∈ p.signers, s.isCertificate c = false) : p.verify C c = .ok false :=
  verifySigners_ok_false_iff.mpr h

/-- … and that is the only way to get a negative answer. -/
theorem C04_ok_false_iff {C : Crypto} {p : P7} {c : Cert} :
    p.verify C c = .ok false ↔ ∀ s ∈ p.signers, s.isCertificate c = false :=
  verifySigners_ok_false_iff

/-- The first signer naming the certificate has no signed attributes: an error (F3), whatever its
    signature and whatever signers follow. -/
theorem C04_no_attrs_is_error {C : Crypto} {p : P7} {c : Cert} {s : Signer}
    (hf : p.signers.find? (fun s => s.isCertificate c) = some s) (ha : s.attrs = none) :
    p.verify C c = .err := by
  rw [C04_verify_eq_first_match, hf]
  exact Signer.verify_no_attrs ha

/-- Content is encapsulated but the messageDigest attribute of the first signer naming the
    certificate is not its SHA-256 (or the content is not a DER element at all): an error (F1),
    whatever the signature. -/
theorem C04_bad_digest_is_error {C : Crypto} {p : P7} {c : Cert} {s : Signer} {a : Attrs}
    (hf : p.signers.find? (fun s => s.isCertificate c) = some s) (ha : s.attrs = some a)
    (hne : p.content ≠ [])
    (hbad : ∀ t v r, Der.readAny p.content = some (t, v, r) → C.sha256 v ≠ a.md) :
    p.verify C c = .err := by
  rw [C04_verify_eq_first_match, hf]
  exact Signer.verify_bad_digest ha hne hbad

/-- The RSA signature of the first signer naming the certificate does not verify over the signed
    attributes: an error, whatever the digest. -/
theorem C04_bad_signature_is_error {C : Crypto} {p : P7} {c : Cert} {s : Signer} {a : Attrs}
    {sigdata : Bytes} (hf : p.signers.find? (fun s => s.isCertificate c) = some s)
    (ha : s.attrs = some a)
    (hd : a.raw = some sigdata ∨ (a.raw = none ∧ a.marshal = .ok sigdata))
    (hbad : C.rsaVerify c.pub sigdata s.sig = false) :
    p.verify C c = .err := by
  rw [C04_verify_eq_first_match, hf]
  exact Signer.verify_bad_signature ha hd hbad

/-- `Verify` never exits the process. -/
theorem C04_never_exit (C : Crypto) (p : P7) (c : Cert) : p.verify C c ≠ .exit := by
  rw [C04_verify_eq_first_match]
  cases p.signers.find? (fun s => s.isCertificate c) with
  | none => simp
  | some s => exact Signer.verify_ne_exit C s c p.content

/-- A panic needs attributes that were constructed locally (no `raw`) with an invalid OID. -/
theorem C04_panic_only_unparsed {C : Crypto} {p : P7} {c : Cert} (h : p.verify C c = .panic) :
    ∃ s ∈ p.signers, ∃ a, s.attrs = some a ∧ a.raw = none ∧ attrsBody a = none := by
  rw [C04_verify_eq_first_match] at h
  cases hf : p.signers.find? (fun s => s.isCertificate c) with
  | none => simp [hf] at h
  | some s =>
    simp only [hf] at h
    exact ⟨s, List.mem_of_find?_eq_some hf, Signer.verify_panic h⟩

/-- Parsed attributes always carry `raw`, so the panicking branch of `Marshal` is unreachable:
    verifying a parsed blob returns (a verdict or an error). -/
theorem C04_parsed_never_panics {C : Crypto} {ok : Bytes → Bool} {b : Bytes} {p : P7} {c : Cert}
    (h : parseP7 ok b = some p) : p.verify C c ≠ .panic ∧ p.verify C c ≠ .exit := by
  refine verifySigners_parsed_total ?_
  intro s hs a ha hr
  obtain ⟨body, hraw, _⟩ := parseP7_attrs h hs ha
  rw [hraw] at hr
  cases hr

/-- The bytes the signature is verified over are literally the `[0]` element that occurs in the
    blob, with only the tag byte replaced by 0x31 (SET): `raw` is the canonical encoding of the
    same body under tag SET, and the canonical encoding under tag `[0]` is a contiguous sub-slice of
    the input — the reader accepts only DER-minimal headers, so nothing is re-encoded. -/
theorem C04_attrs_as_transmitted {ok : Bytes → Bool} {b : Bytes} {p : P7}
    (h : parseP7 ok b = some p) :
    ∀ s ∈ p.signers, ∀ a, s.attrs = some a →
      ∃ body pre post, a.raw = some (Der.addASN1 Der.tSET body) ∧
        b = pre ++ Der.addASN1 Der.tCtx0 body ++ post := by
  intro s hs a ha
  obtain ⟨body, hraw, ⟨pre, post, hb⟩, _⟩ := parseP7_attrs h hs ha
  exact ⟨body, pre, post, hraw, hb⟩

/-- the two encodings differ in the first byte only -/
theorem C04_retag (body : Bytes) :
    Der.addASN1 Der.tSET body = 0x31 :: (Der.addASN1 Der.tCtx0 body).drop 1 :=
  (retag body).symm

/-- Whatever the implementation accepts, the independent specification `Spec.cmsVerify` accepts.

    PARTIAL: the hypothesis `hsha` (the digest function never returns the empty string — true of
    SHA-256, whose digests have 32 bytes) is added; everything else is as requested.  Without it
    the statement is false for an abstract `Crypto`: a signer *without* a messageDigest attribute
    is parsed with the default `md = []`, which `signerinfo.verify` compares with the digest of the
    content, whereas the specification requires the attribute to be present.  Counterexample
    below (`P7Ex.nilC`, `P7Ex.blobNoMd`). -/
theorem C04_refines_spec_partial {C : Crypto} {ok : Bytes → Bool} {b : Bytes} {p : P7} {c : Cert}
    (hsha : ∀ x, C.sha256 x ≠ []) (h : parseP7 ok b = some p) (hv : p.verify C c = .ok true) :
    Spec.cmsVerify C b c none = true :=
  cmsVerify_of_verify hsha h hv

/-! ### non-vacuity: concrete blobs (toy cryptography: digest = identity, a signature is valid
    iff it equals the signed bytes) -/
section Examples
open GoUefi.P7Ex

/-- the sample blob is what the model of `SignPKCS7` writes -/
example : signPKCS7 oid content [] issuer 5 time content (Der.addASN1 Der.tSET body) = some blob := by
  decide +kernel
/-- it parses, and verifies against the right certificate -/
example : (parseP7 allOk blob).isSome = true := by decide +kernel
example : run toy blob cert = some (.ok true) := by decide +kernel
/-- … with one signer whose `raw` is the re-tagged `[0]` element -/
example : (parseP7 allOk blob).map (fun p => p.signers.map fun s => s.attrs.map (·.raw)) =
    some [some (some (Der.addASN1 Der.tSET body))] := by decide +kernel
/-- the specification agrees -/
example : Spec.cmsVerify toy blob cert none = true := by decide +kernel
/-- another certificate (other serial): negative answer -/
example : run toy blob otherCert = some (.ok false) := by decide +kernel
/-- no signed attributes / wrong digest / wrong signature: errors -/
example : run toy blobNoAttrs cert = some .err := by decide +kernel
example : run toy blobBadMd cert = some .err := by decide +kernel
example : run toy blobBadSig cert = some .err := by decide +kernel
/-- a value constructed locally with an invalid content-type OID panics (not reachable by parsing) -/
example : (⟨oid, [], none, [⟨1, issuer, 5, some { contentType := some [9] }, []⟩]⟩ : P7).verify
    toy cert = .panic := by decide +kernel
/-- the digest hypothesis of `C04_refines_spec_partial` holds for a toy digest … -/
example : ∀ x, (⟨fun m => 0 :: m, fun _ m s => s == m⟩ : Crypto).sha256 x ≠ [] := by
  intro x; simp
/-- … and cannot be dropped: with the always-empty digest `nilC`, a signer without messageDigest
    attribute is accepted by the implementation and refused by the specification. -/
example : run nilC blobNoMd cert = some (.ok true) ∧ Spec.cmsVerify nilC blobNoMd cert none = false := by
  decide +kernel
/-- hence the refinement statement without `hsha` is false -/
example : ¬ ∀ (C : Crypto) (ok : Bytes → Bool) (b : Bytes) (p : P7) (c : Cert),
    parseP7 ok b = some p → p.verify C c = .ok true → Spec.cmsVerify C b c none = true := by
  intro H
  have h1 : run nilC blobNoMd cert = some (.ok true) := by decide +kernel
  have h2 : Spec.cmsVerify nilC blobNoMd cert none = false := by decide +kernel
  unfold run at h1
  cases hp : parseP7 allOk blobNoMd with
  | none => rw [hp] at h1; simp at h1
  | some p =>
    rw [hp] at h1
    simp at h1
    have h3 := H nilC allOk blobNoMd p cert hp h1
    rw [h2] at h3
    cases h3

end Examples

end GoUefi.C04

#print axioms GoUefi.C04.C04_sound
#print axioms GoUefi.C04.C04_first_matching_signer_decides
#print axioms GoUefi.C04.C04_verify_eq_first_match
#print axioms GoUefi.C04.C04_verify_iff
#print axioms GoUefi.C04.C04_no_matching_signer
#print axioms GoUefi.C04.C04_ok_false_iff
#print axioms GoUefi.C04.C04_no_attrs_is_error
#print axioms GoUefi.C04.C04_bad_digest_is_error
#print axioms GoUefi.C04.C04_bad_signature_is_error
#print axioms GoUefi.C04.C04_never_exit
#print axioms GoUefi.C04.C04_panic_only_unparsed
#print axioms GoUefi.C04.C04_parsed_never_panics
#print axioms GoUefi.C04.C04_attrs_as_transmitted
#print axioms GoUefi.C04.C04_retag
#print axioms GoUefi.C04.C04_refines_spec_partial
