import GoUefi.Lemmas.MultiFault
/-!
# C15 (reader part) — a failing or short read never yields a digest of something else

`PECOFFBinary.Hash` streams the parts through `io.Copy(h, io.NewSectionReader(multi, 0, size))`
and returns nil when `io.Copy` fails.  The caller's `io.ReaderAt` is the dependency; the
environment `env : Impl.RdEnv` answers the k-th `ReadAt` issued on it (how many of the requested
bytes it delivers, and which error it reports), and the theorems quantify over EVERY environment,
i.e. over every pattern of errors, short counts (with an error, with `io.EOF`, or — breaking the
`io.ReaderAt` contract — with a nil error) and early `io.EOF`s.

Model: `GoUefi/Model/MultiFault.lean` (`multiReadAtE`, `copyAllE`, `hashInputE`; the code before
the F21 repair as `multiReadAtOld`, `copyAllOld`).  Helper lemmas: `GoUefi/Lemmas/MultiFault.lean`.
Only the property theorems and their non-vacuity examples live here.

Remark on `Impl.RdEnv.Contract` (fewer bytes than requested only together with an error): earlier
versions of these statements carried it as a hypothesis, because before the F25 repair
`multi.ReadAt` restarted a part at offset 0 after a short count with a nil error (a wrong digest,
reproduced by the C15 check) while the model answered with an error.  The repaired code reports
`io.ErrUnexpectedEOF` there, the model is faithful for every reader, and the hypothesis is gone.
-/
namespace GoUefi.C15
open GoUefi GoUefi.Impl

set_option linter.unusedVariables false in
/-- Whatever the caller's reader does (errors, short counts with any error or with none, early
    `io.EOF`, at any read), if `Hash` returns a digest at all it is the digest of the complete,
    unaltered stream. -/
theorem C15_hash_no_wrong_digest (env : Impl.RdEnv) (parts : List Bytes)
    (chunk : Nat) (hpos : 0 < chunk) (out : Bytes)
    (h : Impl.hashInputE env parts chunk = some out) : out = (Impl.multiParts parts).flatten := by
  rw [Impl.hashInputE_eq_some_iff] at h
  have h2 := Impl.copyAllE_ok' env (Impl.multiParts parts) chunk hpos
    ((Impl.multiParts parts).flatten.length + 1) 0 0 (by omega)
    (by rw [h])
  rw [h, List.drop_zero] at h2
  exact h2

/-- One positional read: if `multi.ReadAt` reports no error, it delivered exactly the requested
    window of the concatenation. -/
theorem C15_readAt_ok_is_exact (env : Impl.RdEnv) (ps : List Bytes)
    (off len k : Nat) (h : off + len ≤ ps.flatten.length)
    (he : (Impl.multiReadAtE env ps off len k).2.1 = .none) :
    (Impl.multiReadAtE env ps off len k).1 = (ps.flatten.drop off).take len :=
  Impl.multiReadAtE_ok' env ps off len k h he

/-- `io.Copy` from any offset, any amount of fuel that suffices: nil means that everything from
    `off` on was written, unaltered. -/
theorem C15_copy_ok_is_complete (env : Impl.RdEnv) (ps : List Bytes)
    (chunk : Nat) (hpos : 0 < chunk) (fuel off k : Nat) (hf : ps.flatten.length - off + 1 ≤ fuel)
    (he : (Impl.copyAllE env ps chunk fuel off k).2 = .none) :
    (Impl.copyAllE env ps chunk fuel off k).1 = ps.flatten.drop off :=
  Impl.copyAllE_ok' env ps chunk hpos fuel off k (by omega) he

/-- A first read that comes back short — whatever it was asked for, whatever error (or none) it
    reports, whatever the reader does afterwards — makes `Hash` return nothing. -/
theorem C15_first_read_short (env : Impl.RdEnv) (parts : List Bytes) (chunk : Nat)
    (hpos : 0 < chunk) (hne : Impl.multiParts parts ≠ [])
    (h0 : ∀ want, 0 < want → (env 0 want).n < want) : Impl.hashInputE env parts chunk = none := by
  rw [Impl.hashInputE_eq_none_iff]
  have hmem := Impl.mem_multiParts_ne_nil parts
  revert hne hmem
  generalize Impl.multiParts parts = ps
  intro hne hmem
  match ps, hne, hmem with
  | p :: rest, _, hmem =>
    exact Impl.copyAllE_first_short env p rest (hmem p (List.mem_cons_self ..)) chunk hpos _ 0 h0

/-- A short read makes `Hash` return nothing: the very first read fails in one of the six ways
    (`kind` 0: error without data; 1: one byte short with `io.ErrUnexpectedEOF`; 2: one byte short
    with `io.EOF`; 3: nothing with `io.EOF`; 4: one byte short with a nil error; ≥ 5: nothing with a
    nil error), the reader is healthy otherwise. -/
theorem C15_short_read_is_failure (kind : Nat) (parts : List Bytes) (chunk : Nat)
    (hpos : 0 < chunk) (hne : Impl.multiParts parts ≠ []) :
    Impl.hashInputE (Impl.envFault 0 kind) parts chunk = none :=
  C15_first_read_short _ parts chunk hpos hne (Impl.envFault_short 0 kind)

/-- The fault-injecting readers of kinds 0–3 are inside the `io.ReaderAt` contract (4 and 5 are
    deliberately outside). -/
theorem C15_envFault_contract (j kind : Nat) (hk : kind ≤ 3) : (Impl.envFault j kind).Contract :=
  Impl.envFault_contract j kind hk

/-- The fault at ANY read: either the faulty read was issued and `Hash` fails, or it was never
    issued and the result is the complete stream.  Never a digest of anything else. -/
theorem C15_fault_any_position (parts : List Bytes) (chunk : Nat) (hpos : 0 < chunk) :
    ∀ j kind, Impl.hashInputE (Impl.envFault j kind) parts chunk = none ∨
      Impl.hashInputE (Impl.envFault j kind) parts chunk = some (Impl.multiParts parts).flatten := by
  intro j kind
  rcases Impl.hashInputE_none_or_some (Impl.envFault j kind) parts chunk with h | ⟨out, h⟩
  · exact Or.inl h
  · right
    rw [h, C15_hash_no_wrong_digest _ parts chunk hpos out h]

/-! ### non-vacuity: concrete readers and streams -/

/-- hypothesis of `C15_hash_no_wrong_digest` met with a digest returned: the healthy reader -/
example : Impl.envOk.Contract := Impl.envOk_delivers.contract
example : Impl.hashInputE Impl.envOk [[1, 2, 3, 4, 5], [], [6]] 3 = some [1, 2, 3, 4, 5, 6] := by
  decide +kernel
/-- hypotheses of `C15_short_read_is_failure` met -/
example : Impl.multiParts [[1, 2, 3, 4, 5], [], [6]] ≠ [] := by decide +kernel
example : (List.range 7).all (fun kind =>
    Impl.hashInputE (Impl.envFault 0 kind) [[1, 2, 3, 4, 5], [], [6]] 3 == none) = true := by
  decide +kernel
/-- a reader whose every read is one byte short and reports nothing at all is OUTSIDE the contract,
    and still covered by `C15_first_read_short` -/
example : Impl.hashInputE (fun _ want => ⟨want - 1, .none⟩) [[1, 2, 3, 4, 5], [], [6]] 3 = none :=
  C15_first_read_short _ _ 3 (by decide) (by decide +kernel) (fun want h => by
    show want - 1 < want
    omega)

/-- Repaired code: one byte short with `io.EOF` at read 1 (the second read, which asks for the
    rest `[4, 5]` of the first part and gets `[4]`): `io.ErrUnexpectedEOF`, no digest. -/
example : Impl.copyAllE (Impl.envFault 1 2) [[1, 2, 3, 4, 5], [6]] 3 7 0 0 =
    ([1, 2, 3, 4], .unexpected) := by decide +kernel
example : Impl.hashInputE (Impl.envFault 1 2) [[1, 2, 3, 4, 5], [6]] 3 = none := by decide +kernel
/-- every kind of fault at every read that is issued (0 … 2): no digest; at a read that is never
    issued (3 …): the complete stream — both alternatives of `C15_fault_any_position` occur -/
example : (List.range 7).all (fun kind => (List.range 3).all fun j =>
    Impl.hashInputE (Impl.envFault j kind) [[1, 2, 3, 4, 5], [6]] 3 == none) = true := by
  decide +kernel
example : (List.range 7).all (fun kind => (List.range 3).all fun j =>
    Impl.hashInputE (Impl.envFault (3 + j) kind) [[1, 2, 3, 4, 5], [6]] 3 ==
      some [1, 2, 3, 4, 5, 6]) = true := by decide +kernel

/-! ### regression: defect F21 (kernel-checked) -/

/-- Before the F21 repair the same reader — one byte short with `io.EOF` at read 1 — makes
    `multi.ReadAt` return `io.EOF` without the bytes of that read; `io.Copy` takes it for the end
    of the stream and returns nil: the digest of the proper prefix `[1, 2, 3]` was returned. -/
example : Impl.copyAllOld (Impl.envFault 1 2) [[1, 2, 3, 4, 5], [6]] 3 7 0 0 = ([1, 2, 3], .none) ∧
    [1, 2, 3] ++ [4, 5, 6] = [[1, 2, 3, 4, 5], [6]].flatten ∧
    [1, 2, 3] ≠ [[1, 2, 3, 4, 5], [6]].flatten := by decide +kernel
/-- … and likewise for "nothing with `io.EOF`" (kind 3) at any read but the first: a non-empty
    proper prefix, no error -/
example : (List.range 2).all (fun j =>
    let r := Impl.copyAllOld (Impl.envFault (1 + j) 3) [[1, 2, 3, 4, 5], [6]] 3 7 0 0
    r.2 == .none && 0 < r.1.length && r.1.length < 6 &&
      r.1 == [1, 2, 3, 4, 5, 6].take r.1.length) = true := by decide +kernel

#print axioms C15_hash_no_wrong_digest
#print axioms C15_readAt_ok_is_exact
#print axioms C15_copy_ok_is_complete
#print axioms C15_first_read_short
#print axioms C15_short_read_is_failure
#print axioms C15_envFault_contract
#print axioms C15_fault_any_position

end GoUefi.C15
