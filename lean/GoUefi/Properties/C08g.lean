import GoUefi.Properties.C09g
import GoUefi.Lemmas.GenReaders
import GoUefi.Properties.C08
import GoUefi.Properties.C07
/-!
# C07 / C08 (generated tie) — the signature-database decoder and encoder of the current source

`GoUefi/Gen.lean` (regenerated from `/repo` on every run by `tools/go2lean`) holds the translation of
`ReadSignatureData`, `ReadSignatureList` (with its closure `parseList` and the unrolled header loop),
`ReadSignatureDatabase`, `SignatureDatabase.Unmarshal`, and of the encoders `WriteSignatureData`,
`WriteSignatureList`, `WriteSignatureDatabase`, `SignatureList.Bytes`, `SignatureDatabase.Bytes`,
`SignatureDatabase.Marshal`.  A reader is the list of bytes still to be read (what a `bytes.Reader`
delivers); unbounded `for` loops take a fuel argument.

The theorems state that, given enough fuel (`f.length + 1`), the translated decoder computes exactly
what the hand-written Impl model computes — `Impl.readList` / `Impl.readDb`, through the abstraction
`absL` / `absDb` of `C09g.lean` — including the distinction the property is about: a clean end of
input is reported as `io.EOF` itself, every other failure as an error that `errors.Is(err, io.EOF)`
does NOT match, so a truncated list can never be mistaken for the end of the database.  The encoder
is `Impl.encList` / `Impl.encDb`.  The C07 / C08 statements then hold for the translated code.
-/
namespace GoUefi.C08
open GoUefi GoUefi.Gen GoUefi.C09

/-- every GUID the decoder produces has an 8-byte `Data4` (it decodes 16 bytes) -/
theorem C08g_decoded_guid_ok (b : List UInt8) (h : b.length = 16) :
    GuidOK (decLE_util_EFIGUID b) ∧ gw (decLE_util_EFIGUID b) = b :=
  decGuid_ok b h

/-- `ReadSignatureData` against `Impl.readSig` (for `16 ≤ size`, the case the list decoder calls it in) -/
theorem C08g_readSignatureData (f : List UInt8) (size : UInt32) (hs : 16 ≤ size.toNat) :
    match Impl.readSig size.toNat f with
    | .ok (s, rest) => ∃ sd, signature.ReadSignatureData f size = (rest, sd, none) ∧ absSD sd = s ∧ GuidOK sd.Owner
    | .error _ => ∃ f' sd e, signature.ReadSignatureData f size = (f', sd, some e) := by
  have h := RSD_spec f size hs
  cases hr : Impl.readSig size.toNat f with
  | ok p =>
    obtain ⟨s, rest⟩ := p
    rw [hr] at h
    obtain ⟨sd, e, ha, hok, _⟩ := h
    exact ⟨sd, e, ha, hok⟩
  | error _ =>
    rw [hr] at h
    obtain ⟨e, he, _⟩ := h
    exact ⟨_, _, e, he⟩

/-- `ReadSignatureList` (enough fuel) against `Impl.readList` -/
theorem C08g_readList (fuel : Nat) (f : List UInt8) (hf : f.length + 1 ≤ fuel) :
    match Impl.readList f with
    | .cleanEof => ∃ f' l, signature.ReadSignatureList fuel f = (f', l, some "io.EOF")
    | .bad => ∃ f' l e, signature.ReadSignatureList fuel f = (f', l, some e) ∧ errIs (some e) "io.EOF" = false
    | .ok l rest => ∃ gl, signature.ReadSignatureList fuel f = (rest, gl, none) ∧ absL gl = l ∧ ListOK gl := by
  have h := RSL_spec fuel f (by omega)
  cases hr : Impl.readList f with
  | cleanEof => rw [hr] at h; exact ⟨_, _, h⟩
  | bad =>
    rw [hr] at h
    obtain ⟨f', e, he, hne⟩ := h
    exact ⟨f', _, e, he, hne⟩
  | ok l rest =>
    rw [hr] at h
    obtain ⟨gl, e, ha, hok, _⟩ := h
    exact ⟨gl, e, ha, hok⟩

/-- `ReadSignatureDatabase` (enough fuel) against `Impl.readDb`: success with the same database and
    nothing left unread, or an error -/
theorem C08g_readDb (fuel : Nat) (f : List UInt8) (hf : f.length + 1 ≤ fuel) :
    match Impl.readDb f with
    | some db => ∃ gdb, signature.ReadSignatureDatabase fuel f = ([], gdb, none) ∧ absDb gdb = db ∧ DbOK gdb
    | none => ∃ f' gdb e, signature.ReadSignatureDatabase fuel f = (f', gdb, some e) := by
  have h := dbLoop_spec fuel f [] hf
  rw [Impl.readDb, Impl_readDbAux_fuel (f.length + 1) fuel f (Nat.le_refl _) hf]
  cases hr : Impl.readDbAux fuel f with
  | some db =>
    rw [hr] at h
    obtain ⟨gdb, e, ha, hok⟩ := h
    exact ⟨gdb, by rw [RSDB_eq, e]; rfl, ha, hok⟩
  | none =>
    rw [hr] at h
    obtain ⟨f', g, e, he⟩ := h
    exact ⟨f', g, e, by rw [RSDB_eq, he]⟩

/-- the fuel is never the reason for an answer: any two sufficient amounts give the same result -/
theorem C08g_fuel_irrelevant (fuel fuel' : Nat) (f : List UInt8) (hf : f.length + 1 ≤ fuel)
    (hf' : f.length + 1 ≤ fuel') :
    signature.ReadSignatureDatabase fuel f = signature.ReadSignatureDatabase fuel' f := by
  rw [RSDB_eq, RSDB_eq, dbLoop_fuel fuel fuel' f [] hf hf']

/-- `Unmarshal`: on success the receiver is replaced by the decoded database, on error it is kept -/
theorem C08g_unmarshal (fuel : Nat) (sd : signature.SignatureDatabase) (b : List UInt8)
    (hf : b.length + 1 ≤ fuel) :
    match Impl.readDb b with
    | some db => ∃ gdb, sd.Unmarshal fuel b = (gdb, [], none) ∧ absDb gdb = db
    | none => ∃ b' e, sd.Unmarshal fuel b = (sd, b', some e) := by
  have h := C08g_readDb fuel b hf
  cases hr : Impl.readDb b with
  | some db =>
    rw [hr] at h
    obtain ⟨gdb, e, ha, _⟩ := h
    exact ⟨gdb, by simp [signature.SignatureDatabase.Unmarshal, e], ha⟩
  | none =>
    rw [hr] at h
    obtain ⟨f', g, e, he⟩ := h
    exact ⟨f', e, by simp [signature.SignatureDatabase.Unmarshal, he]⟩

/-! ### the encoder -/

theorem C07g_listBytes (l : signature.SignatureList) (hl : ListOK l) :
    l.Bytes = Impl.encList (absL l) := by
  simp [signature.SignatureList.Bytes, WSL_eq]

theorem C07g_dbBytes (sd : signature.SignatureDatabase) (h : DbOK sd) :
    sd.Bytes = Impl.encDb (absDb sd) ∧ sd.Marshal [] = Impl.encDb (absDb sd) := by
  simp [signature.SignatureDatabase.Bytes, signature.SignatureDatabase.Marshal, WSDB_eq]

/-- `Marshal` appends to what the buffer already holds -/
theorem C07g_marshal_appends (sd : signature.SignatureDatabase) (b : List UInt8) (h : DbOK sd) :
    sd.Marshal b = b ++ Impl.encDb (absDb sd) := by
  simp [signature.SignatureDatabase.Marshal, WSDB_eq]

/-! ### C08 and C07, for the translated code -/

/-- C08 for the translated decoder: it succeeds only on input that the specification's strict codec
    accepts, returns exactly the lists the specification's layout defines, and its result re-encodes
    (with the translated encoder) to the input byte for byte. -/
theorem C08g_strict (fuel : Nat) (f : List UInt8) (hf : f.length + 1 ≤ fuel)
    (gdb : signature.SignatureDatabase) (f' : List UInt8)
    (h : signature.ReadSignatureDatabase fuel f = (f', gdb, none)) :
    f' = [] ∧ Spec.decodeDb f = some ((absDb gdb).map Impl.SList.toSpec) ∧ gdb.Bytes = f := by
  have hr := C08g_readDb fuel f hf
  split at hr
  · rename_i db hdb
    obtain ⟨gdb', e, ha, hok⟩ := hr
    rw [h] at e
    simp only [Prod.mk.injEq, and_true] at e
    obtain ⟨rfl, rfl⟩ := e
    obtain ⟨s1, _, s3⟩ := C08_strict hdb
    refine ⟨rfl, by rw [ha]; exact s1, ?_⟩
    rw [(C07g_dbBytes gdb hok).1, ha]; exact s3
  · obtain ⟨f'', g, e, he⟩ := hr
    rw [h] at he
    simp at he

/-- C08, the other direction: whatever the strict specification rejects, the translated decoder
    answers with an error (never with a shorter or empty database). -/
theorem C08g_rejects (fuel : Nat) (f : List UInt8) (hf : f.length + 1 ≤ fuel)
    (h : Spec.decodeDb f = none) : (signature.ReadSignatureDatabase fuel f).2.2 ≠ none := by
  have hr := C08g_readDb fuel f hf
  split at hr
  · rename_i db hdb
    rw [Impl.readDb_decodeDb hdb] at h
    simp at h
  · obtain ⟨f', g, e, he⟩ := hr
    rw [he]; simp

/-- C07 for the translated code: on a well-formed stream of handled list types the decoder returns
    the specified value and the encoder reproduces the input. -/
theorem C07g_decode_exact (fuel : Nat) (f : List UInt8) (hf : f.length + 1 ≤ fuel)
    {ls : List Spec.SList} (h : Spec.decodeDb f = some ls)
    (hh : ∀ l ∈ ls, Impl.handled l.type l.hdr.length l.size = true) :
    ∃ gdb, signature.ReadSignatureDatabase fuel f = ([], gdb, none) ∧
      absDb gdb = ls.map Impl.ofSpec ∧ gdb.Bytes = f := by
  obtain ⟨h1, h2⟩ := C07.C07_decode_exact h hh
  have hr := C08g_readDb fuel f hf
  rw [h1] at hr
  obtain ⟨gdb, e, ha, hok⟩ := hr
  exact ⟨gdb, e, ha, by rw [(C07g_dbBytes gdb hok).1, ha]; exact h2⟩

/-! ### non-vacuity: the translated decoder run on the 144-byte two-list database of C08 -/
example : (signature.ReadSignatureDatabase 145 Ex.bytes).2.2 = none ∧
    (signature.ReadSignatureDatabase 145 Ex.bytes).1 = [] ∧
    ((signature.ReadSignatureDatabase 145 Ex.bytes).2.1.map fun l => l.Signatures.length) = [1, 2] := by
  decide +kernel
example : signature.SignatureDatabase.Bytes (signature.ReadSignatureDatabase 145 Ex.bytes).2.1 = Ex.bytes := by
  decide +kernel
/-- a truncated stream is an error that does not look like the end of the database -/
example : (signature.ReadSignatureDatabase 145 (Ex.bytes.take 100)).2.2 = some "%w:io.ErrUnexpectedEOF" := by
  decide +kernel
/-- the empty input is the empty database -/
example : signature.ReadSignatureDatabase 1 [] = ([], [], none) := by decide +kernel

end GoUefi.C08

#print axioms GoUefi.C08.C08g_decoded_guid_ok
#print axioms GoUefi.C08.C08g_readSignatureData
#print axioms GoUefi.C08.C08g_readList
#print axioms GoUefi.C08.C08g_readDb
#print axioms GoUefi.C08.C08g_fuel_irrelevant
#print axioms GoUefi.C08.C08g_unmarshal
#print axioms GoUefi.C08.C07g_listBytes
#print axioms GoUefi.C08.C07g_dbBytes
#print axioms GoUefi.C08.C07g_marshal_appends
#print axioms GoUefi.C08.C08g_strict
#print axioms GoUefi.C08.C08g_rejects
#print axioms GoUefi.C08.C07g_decode_exact
