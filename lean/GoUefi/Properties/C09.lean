import GoUefi.Lemmas.SigDb
/-!
# C09 — database operations are edits of an ordered collection of (type, owner, data) entries

Model: `GoUefi/Model/SigDb.lean` (`Db.append`, `Db.remove`, `Db.appendList`, `Db.has`,
`Db.hasAll`; abstraction `Impl.abs`).  Invariant `Impl.SList.Inv` / `Impl.Db.Inv`, idempotence
`Impl.Env.Idem` and `Impl.Reachable` are defined in `GoUefi/Lemmas/SigDb.lean` together with all
helper lemmas; only the property theorems and their non-vacuity examples live here.

The invariant is the one proposed, unchanged:
  type of 16 bytes, no header (`hdrSize = 0`, `hdr = []`), `16 ≤ size`,
  `listSize = 28 + count·size`, every entry has a 16-byte owner and `size − 16` bytes of data,
  no duplicate entry inside a list.
`16 ≤ size` needs no weakening: `newList` (size 0) never escapes `Db.append` without its first
entry, which sets `size = |data| + 16`; `Db.remove` drops a list instead of emptying it.
-/
namespace GoUefi.C09
open GoUefi

/-! ### membership -/

/-- `SigDataExists` answers membership in the abstract entry collection (type honoured). -/
theorem C09_membership {db : Impl.Db} {t o d : Bytes} :
    db.has t o d = true ↔ (t, o, d) ∈ Impl.abs db :=
  Impl.has_iff db t o d

/-- `Exists`: all entries of a list are present under the list's type. -/
theorem C09_hasAll {db : Impl.Db} {t : Bytes} {sigs : List Impl.SData} :
    db.hasAll t sigs = true ↔ ∀ s ∈ sigs, (t, s.owner, s.data) ∈ Impl.abs db :=
  Impl.hasAll_iff db t sigs

/-! ### append -/

/-- A successful `Append` keeps the invariant and inserts exactly one entry — the given type and
    owner with the PEM-normalised data — leaving all other entries and their order untouched.

    Hypotheses: the owner GUID has 16 bytes (always true of the Go struct); `hidem`: normalising
    the normalised data again changes nothing (`Db.append` normalises, then the list-level
    `appendBytes` normalises a second time, as the Go code does).  No hypothesis on `t`: success
    implies `t ∈ schemes`, all of which have 16 bytes. -/
theorem C09_append_ok {E : Impl.Env} {db db' : Impl.Db} {t o d : Bytes} (hinv : db.Inv)
    (ho : o.length = 16) (hidem : E.norm t (E.norm t d) = E.norm t d)
    (h : db.append E t o d = .ok db') :
    db'.Inv ∧ ∃ pre post, Impl.abs db = pre ++ post ∧
      Impl.abs db' = pre ++ (t, o, E.norm t d) :: post := by
  refine ⟨Impl.Db.append_inv hinv ho hidem h, ?_⟩
  obtain ⟨pre, post, e1, e2⟩ := Impl.appendInto_abs (Impl.Db.append_ok h).2.2
  rw [hidem] at e2
  exact ⟨pre, post, e1, e2⟩

/-- The same without the idempotence hypothesis: what is stored is the data normalised *twice*.
    Only the edit of the abstract collection is claimed here.  (Before the F27 repair the invariant
    could break without `hidem`, because the list looked duplicates up under `E.norm t d` while
    `E.norm t (E.norm t d)` was stored.  Since the repair the list looks up what it stores, and the
    invariant survives as well: `Impl.Db.append_inv_raw`, see the examples below.) -/
theorem C09_append_ok_raw {E : Impl.Env} {db db' : Impl.Db} {t o d : Bytes}
    (h : db.append E t o d = .ok db') :
    ∃ pre post, Impl.abs db = pre ++ post ∧
      Impl.abs db' = pre ++ (t, o, E.norm t (E.norm t d)) :: post :=
  Impl.appendInto_abs (Impl.Db.append_ok h).2.2

/-- the new entry of a successful `Append` is of a known scheme and was not present before -/
theorem C09_append_fresh {E : Impl.Env} {db db' : Impl.Db} {t o d : Bytes}
    (h : db.append E t o d = .ok db') : t ∈ Impl.schemes ∧ (t, o, E.norm t d) ∉ Impl.abs db :=
  ⟨(Impl.Db.append_ok h).1, (Impl.Db.append_ok h).2.1⟩

/-- An error returns no database: the caller keeps the old value, which no operation mutates. -/
theorem C09_append_err_unchanged {E : Impl.Env} {db : Impl.Db} {t o d : Bytes} {e : Impl.AErr}
    (h : db.append E t o d = .error e) : ∀ db', db.append E t o d ≠ .ok db' := by
  intro db' h'
  rw [h] at h'
  nomatch h'

/-- `Append` fails exactly for: a type outside `ValidEFISignatureSchemes`, an entry that is
    already present (after normalisation), a SHA-256 entry whose data is not 32 bytes, an
    externally-managed entry whose data is not one byte (F37: `SignatureSize` is 16+1 for
    `EFI_CERT_EXTERNAL_MANAGEMENT_GUID`, and the decoder accepts nothing else).
    The invariant is not needed (hypothesis dropped); with `hidem`, `sizeMismatch` cannot occur
    because the list is chosen by `size = |E.norm t d| + 16`. -/
theorem C09_append_err_iff {E : Impl.Env} {db : Impl.Db} {t o d : Bytes}
    (hidem : E.norm t (E.norm t d) = E.norm t d) :
    (∃ e, db.append E t o d = .error e) ↔
      (t ∉ Impl.schemes ∨ (t, o, E.norm t d) ∈ Impl.abs db ∨
        (t = Impl.guidSha256 ∧ (E.norm t d).length ≠ 32) ∨
        (t = Impl.guidExternal ∧ (E.norm t d).length ≠ 1)) :=
  Impl.Db.append_error_iff hidem

/-- "a wrongly-sized append reports an error and changes nothing", with no hypothesis at all (no
    invariant, any normalisation function, whatever lists are present): SHA-256 data that is not 32
    bytes and externally-managed data that is not one byte (F37) are refused. -/
theorem C09_append_wrong_size {E : Impl.Env} {db : Impl.Db} {t o d : Bytes}
    (h : (t = Impl.guidSha256 ∧ d.length ≠ 32) ∨ (t = Impl.guidExternal ∧ d.length ≠ 1)) :
    ∃ e, db.append E t o d = .error e := by
  have hn : E.norm t d = d := by
    rcases h with h | h
    · simp [Impl.Env.norm, h.1, Impl.guidSha256_ne_guidX509]
    · simp [Impl.Env.norm, h.1, Impl.guidExternal_ne_guidX509]
  apply (Impl.Db.append_error_iff (by rw [hn, hn])).mpr
  rw [hn]
  exact Or.inr (Or.inr h)

/-- Conversely, every entry of a successful `Append` — and of a successful list-level
    `AppendBytes` — has the size the specification fixes for its type, so every list that holds it
    obeys the size rule of its type (`Impl.SList.Sized`: SHA-256 lists have signature size 48,
    externally-managed lists 17), whatever the list looked like before. -/
theorem C09_append_sized {E : Impl.Env} {db db' : Impl.Db} {t o d : Bytes}
    (hs : Impl.Db.Sized db) (h : db.append E t o d = .ok db') : Impl.Db.Sized db' :=
  Impl.appendInto_sized hs (Impl.Db.append_ok h).2.2

theorem C09_list_append_sized {E : Impl.Env} {l l' : Impl.SList} {o d : Bytes}
    (h : l.appendBytes E o d = .ok l') :
    l'.Sized ∧ (l.type = Impl.guidSha256 → (E.norm l.type d).length = 32) ∧
      (l.type = Impl.guidExternal → (E.norm l.type d).length = 1) :=
  ⟨Impl.appendBytes_sized h, Impl.appendBytes_ok_sized h⟩

/-- F27 repair: the list-level `AppendBytes` rejects data whose PEM-decoded form is already in the
    list (it used to look for the undecoded bytes and then store the decoded ones a second time). -/
theorem C09_list_append_no_duplicate {E : Impl.Env} {l l' : Impl.SList} {o d : Bytes}
    (h : l.appendBytes E o d = .ok l') : l.has o (E.norm l.type d) = false ∧
      l'.sigs = l.sigs ++ [⟨o, E.norm l.type d⟩] := by
  obtain ⟨hn, _, _, e⟩ := Impl.appendBytes_ok h
  refine ⟨?_, by rw [e]⟩
  cases hh : l.has o (E.norm l.type d) with
  | false => rfl
  | true => exact absurd ((Impl.SList.has_iff _ _ _).mp hh) hn

/-! ### remove -/

/-- A successful `Remove` keeps the invariant and deletes exactly one occurrence of the entry,
    leaving the others and their order untouched; no list is left behind empty (an empty list in
    the result was already there). -/
theorem C09_remove_ok {db db' : Impl.Db} {t o d : Bytes} (hinv : db.Inv)
    (h : db.remove t o d = .ok db') :
    db'.Inv ∧
    (∃ pre post, Impl.abs db = pre ++ (t, o, d) :: post ∧ Impl.abs db' = pre ++ post) ∧
    ∀ l ∈ db', l.sigs = [] → l ∈ db :=
  Impl.removeFrom_ok hinv h

/-- `Remove` fails exactly when the entry is absent. -/
theorem C09_remove_err_iff {db : Impl.Db} {t o d : Bytes} (hinv : db.Inv) :
    (∃ e, db.remove t o d = .error e) ↔ (t, o, d) ∉ Impl.abs db := by
  constructor
  · rintro ⟨e, he⟩ hm
    obtain ⟨db', h'⟩ := Impl.removeFrom_of_mem false hinv hm
    unfold Impl.Db.remove at he
    rw [he] at h'
    nomatch h'
  · intro hn
    cases hr : db.remove t o d with
    | error e => exact ⟨e, rfl⟩
    | ok db' =>
      obtain ⟨_, ⟨pre, post, e1, _⟩, _⟩ := Impl.removeFrom_ok hinv hr
      exact absurd (by rw [e1]; simp) hn

/-! ### append a whole list -/

/-- `AppendList` puts the entries of the list, in order, behind all existing entries. -/
theorem C09_appendList {db : Impl.Db} {l : Impl.SList} (hdb : db.Inv) (hl : l.Inv) :
    (db.appendList l).Inv ∧
    Impl.abs (db.appendList l) = Impl.abs db ++ l.sigs.map fun s => (l.type, s.owner, s.data) := by
  refine ⟨Impl.appendList_inv hdb hl, ?_⟩
  rw [Impl.Db.appendList, Impl.abs_append, Impl.abs_cons, Impl.abs_nil, List.append_nil]

/-! ### where the invariant comes from -/

/-- Decoding establishes the invariant, except for duplicate-freedom, which the input must have. -/
theorem C09_decoded_inv {bs : Bytes} {db : Impl.Db} (h : Impl.readDb bs = some db)
    (hnd : ∀ l ∈ db, l.sigs.Nodup) : db.Inv :=
  Impl.readDb_inv h hnd

/-- Every database reachable from the empty one or from a decoded duplicate-free stream by
    successful `Append` (16-byte owner), `Remove` and `AppendList` (of a list satisfying the
    invariant) satisfies the invariant — provided PEM normalisation is idempotent.
    (Since the F27 repair `hidem` is no longer needed for this: `Impl.Db.append_inv_raw`.  The
    statement is kept as it was.) -/
theorem C09_reachable_wf {E : Impl.Env} (hidem : E.Idem) {db : Impl.Db}
    (h : Impl.Reachable E db) : db.Inv :=
  h.inv hidem

/-- The same at full strength: for EVERY PEM-normalisation function `E.norm` (idempotent or not —
    nested PEM, a decoder that is not a projection) every reachable database satisfies the invariant:
    no list holds one entry twice, every entry has its list's size, sizes add up. -/
theorem C09_reachable_wf_any_norm {E : Impl.Env} {db : Impl.Db}
    (h : Impl.Reachable E db) : db.Inv :=
  h.inv_raw

/-! ### non-vacuity -/
section Examples
open GoUefi.Ex   -- brings the (scoped) `DecidableEq (Except _ _)` used by `decide` below

/-- the invariant holds for the two-list database `Ex.db` (by decoding its wire form) -/
example : Ex.db.Inv := C09_decoded_inv (bs := Ex.bytes) (by decide +kernel) (by decide +kernel)

/-- `Append` succeeds into an existing list (still 2 lists), into a new list (3 lists), and with
    PEM input (the decoded bytes are what is stored) -/
example : (Ex.db.append Ex.env Impl.guidX509 Ex.owner1 [9, 9, 9, 9]).toOption.map List.length
    = some 2 := by decide +kernel
example : Ex.db.append Ex.env Impl.guidX509 Ex.owner1 [9, 9, 9] = .ok
    (Ex.db ++ [⟨Impl.guidX509, 47, 0, 19, [], [⟨Ex.owner1, [9, 9, 9]⟩]⟩]) := by decide +kernel
example : (Ex.db.append Ex.pemEnv Impl.guidX509 Ex.owner1 [0x2d]).toOption.map
    (fun db' => decide ((Impl.guidX509, Ex.owner1, [0x30, 0x03, 0x02, 0x01]) ∈ Impl.abs db'))
    = some true := by decide +kernel
/-- … and fails for each of the four reasons of `C09_append_err_iff` -/
example : Ex.db.append Ex.env (List.replicate 16 0) Ex.owner1 [1] = .error .noScheme := by
  decide +kernel
example : Ex.db.append Ex.env Impl.guidX509 Ex.owner1 [1, 2, 3, 4] = .error .exists := by
  decide +kernel
example : Ex.db.append Ex.env Impl.guidSha256 Ex.owner1 [1, 2, 3, 4] = .error .notSha256 := by
  decide +kernel
/-- F37: the witness of the finding — two bytes of externally-managed data, into the empty database
    and into one that holds lists — and the empty value; one byte is taken -/
example : Impl.Db.append Ex.env [] Impl.guidExternal Ex.owner1 [1, 2] = .error .notExternal := by
  decide +kernel
example : Ex.db.append Ex.env Impl.guidExternal Ex.owner1 [1, 2] = .error .notExternal := by
  decide +kernel
example : Ex.db.append Ex.env Impl.guidExternal Ex.owner1 [] = .error .notExternal := by
  decide +kernel
example : Impl.Db.append Ex.env [] Impl.guidExternal Ex.owner1 [1]
    = .ok [⟨Impl.guidExternal, 45, 0, 17, [], [⟨Ex.owner1, [1]⟩]⟩] := by decide +kernel
/-- idempotence holds for both example environments -/
example : Ex.env.Idem ∧ Ex.pemEnv.Idem := ⟨Ex.env_idem, Ex.pemEnv_idem⟩

/-- `Remove` succeeds (shrinking a list, dropping a list) and fails -/
example : Ex.db.remove Impl.guidX509 Ex.owner2 [5, 6, 7, 8] = .ok
    [Ex.shaList, ⟨Impl.guidX509, 48, 0, 20, [], [⟨Ex.owner1, [1, 2, 3, 4]⟩]⟩] := by decide +kernel
example : Ex.db.remove Impl.guidSha256 Ex.owner1 (List.replicate 32 0xAA) = .ok [Ex.x509List] := by
  decide +kernel
example : Ex.db.remove Impl.guidX509 Ex.owner2 [1, 2, 3, 4] = .error .notFoundData := by
  decide +kernel

/-- a reachable database that is not just decoded -/
example : Impl.Reachable Ex.env
    (Ex.db ++ [⟨Impl.guidX509, 47, 0, 19, [], [⟨Ex.owner1, [9, 9, 9]⟩]⟩]) :=
  .append (t := Impl.guidX509) (o := Ex.owner1) (d := [9, 9, 9])
    (.decoded (bs := Ex.bytes) (db := Ex.db) (by decide +kernel) (by decide +kernel))
    (by decide) (by decide +kernel)

/-- F27 repair, list level: the DER form is in the list, the same certificate arrives as PEM —
    rejected (it used to be stored a second time) -/
example : (⟨Impl.guidX509, 48, 0, 20, [], [⟨Ex.owner1, [0x30, 0x03, 0x02, 0x01]⟩]⟩ : Impl.SList).appendBytes
    Ex.pemEnv Ex.owner1 [0x2d] = .error .exists := by decide +kernel
/-- … while a PEM certificate that is not there yet is stored as DER -/
example : (⟨Impl.guidX509, 48, 0, 20, [], [⟨Ex.owner1, [0x30, 0x03, 0x02, 0x02]⟩]⟩ : Impl.SList).appendBytes
    Ex.pemEnv Ex.owner1 [0x2d] = .ok ⟨Impl.guidX509, 68, 0, 20, [],
      [⟨Ex.owner1, [0x30, 0x03, 0x02, 0x02]⟩, ⟨Ex.owner1, [0x30, 0x03, 0x02, 0x01]⟩]⟩ := by
  decide +kernel

/- Before the F27 repair this example held (statement kept for the record; it is FALSE now):

     Without idempotence the invariant can break (so `C09_append_ok_raw` cannot claim it): with a
     decoder mapping `[0] ↦ [1] ↦ [2]`, appending `[0]` to a list that holds `[2]` looks up `[1]`,
     finds nothing, and stores `[2]` a second time.

     example : ∃ (E : Impl.Env) (db db' : Impl.Db), db.Inv ∧
         db.append E Impl.guidX509 Ex.owner1 [0] = .ok db' ∧ ¬ db'.Inv

   With the repaired `appendBytes` the list looks up `[2]`, the very bytes it is about to store, and
   refuses; and no environment at all can break the invariant through `Append` any more. -/
example : Impl.Db.append ⟨fun d => if d = [0] then some [1] else if d = [1] then some [2] else none⟩
    [⟨Impl.guidX509, 45, 0, 17, [], [⟨Ex.owner1, [2]⟩]⟩] Impl.guidX509 Ex.owner1 [0]
    = .error .exists := by decide +kernel
example : ¬ ∃ (E : Impl.Env) (db db' : Impl.Db), db.Inv ∧
    db.append E Impl.guidX509 Ex.owner1 [0] = .ok db' ∧ ¬ db'.Inv := by
  rintro ⟨E, db, db', hinv, h, hn⟩
  exact hn (Impl.Db.append_inv_raw hinv (by decide) h)
/-- What non-idempotent normalisation still costs: `Append` looks `E.norm t d` up in the database
    but the list stores `E.norm t (E.norm t d)`, so the entry that `C09_append_ok_raw` reports can
    already be present in another list (here `[1] ↦ [2, 2]`; the list of size 18 holds `[2, 2]`, the
    new list gets it again).  The invariant does not speak about different lists. -/
example : Impl.Db.append ⟨fun d => if d = [0] then some [1] else if d = [1] then some [2, 2] else none⟩
    [⟨Impl.guidX509, 46, 0, 18, [], [⟨Ex.owner1, [2, 2]⟩]⟩] Impl.guidX509 Ex.owner1 [0]
    = .ok [⟨Impl.guidX509, 46, 0, 18, [], [⟨Ex.owner1, [2, 2]⟩]⟩,
           ⟨Impl.guidX509, 46, 0, 18, [], [⟨Ex.owner1, [2, 2]⟩]⟩] := by decide +kernel

end Examples

end GoUefi.C09

#print axioms GoUefi.C09.C09_membership
#print axioms GoUefi.C09.C09_hasAll
#print axioms GoUefi.C09.C09_append_ok
#print axioms GoUefi.C09.C09_append_ok_raw
#print axioms GoUefi.C09.C09_append_fresh
#print axioms GoUefi.C09.C09_append_err_unchanged
#print axioms GoUefi.C09.C09_append_err_iff
#print axioms GoUefi.C09.C09_remove_ok
#print axioms GoUefi.C09.C09_remove_err_iff
#print axioms GoUefi.C09.C09_appendList
#print axioms GoUefi.C09.C09_decoded_inv
#print axioms GoUefi.C09.C09_reachable_wf
#print axioms GoUefi.C09.C09_reachable_wf_any_norm
#print axioms GoUefi.C09.C09_list_append_no_duplicate
#print axioms GoUefi.C09.C09_append_wrong_size
#print axioms GoUefi.C09.C09_append_sized
#print axioms GoUefi.C09.C09_list_append_sized
