import GoUefi.Gen
import GoUefi.Properties.C03
import GoUefi.Properties.C01g
import GoUefi.Properties.C10g
import GoUefi.Properties.C04g
import GoUefi.Model.Authenticode
import GoUefi.Lemmas.GenPe
/-!
# C03 (generated tie) — the signature-table half of `authenticode.PECOFFBinary`, as the source has it now

Translated by `tools/go2lean` from authenticode/checksum.go on every run: `AppendSignature`, `Signatures`,
`signatureBytes`, `Sign`, `Verify`, `Bytes`, `Open` (and the helpers `sectionReaderFromBytes`,
`copySectionReader`; `PaddingBytes`, `signature.ReadWinCertificate` / `WriteWinCertificate` were targets already).

## Modelling (every assumption; also DESIGN §3 and tools/go2lean/sect.go)

The receiver is the generated structure `authenticode.PECOFFBinary`:
* `Datadir : pe.DataDirectory` — the struct of `debug/pe` itself (two `uint32` fields), loaded from the standard library;
* `certTable : List UInt8` — a `*bytes.Buffer` is the bytes written to it so far (nothing reads from this one);
* `length : Int` (Go `int`, no overflow modelled), `padding : List UInt8`;
* `optDataDir`, `firstSection`, `lastSection : SectionReader` — a `*io.SectionReader` is represented by THE BYTES THAT
  READING THE SECTION FROM ITS START DELIVERS (`GenPrelude.SectionReader`).  `sectionReaderFromBytes(b)` is `⟨b⟩`,
  `copySectionReader(sr)` is `sr` (the same bytes again from the start).  `firstSection` / `lastSection` are sections of
  the CALLER'S `io.ReaderAt`: they are arbitrary values here (the theorems quantify over all of them); assumed is that
  that reader does not fail and delivers the same bytes whenever it is read — the harness exercises readers that do
  not.  This matters for `Bytes`/`Open` only;
* `hashContent : ReaderAtRef` — a `SizeReaderAt` over the caller's reader: a reference that the translated code can
  only hand to the external `makeSectionReader`.
Externals (fields of `authenticode.Ext`, universally quantified in every theorem): `SignAuthenticode`,
`ParseAuthenticode`, `makeSectionReader`, the digest function of the standard library `crypto_Hash_Sum` (what
`alg.New()` + writes + `Sum(nil)` compute), and `pkcs7 : pkcs7.Ext` — the Ext structure of package pkcs7 (its one field:
`signerinfo.verify`), which the translated `(*Authenticode).verifyDigest` hands to the translated `pkcs7.PKCS7.Verify`.
They are functions of their arguments AS THE TRANSLATION REPRESENTS THEM: an `Authenticode` value keeps `Pkcs`, `Digest`
and `Algid : pkix.AlgorithmIdentifier` (the standard-library struct, loaded: `Algorithm` the list of the identifier's
components, `Parameters` opaque); a reader argument is the bytes it delivers, and what the callee leaves of a reader made
for that one call is dropped.  `(*Authenticode).verifyDigest(cert, imageDigest)` IS TRANSLATED (section 5): its
function-typed parameter is the triple state type / step function / state, it returns the state it leaves in front of
its results, and a call `imageDigest(alg)` is the step function applied to the current state — that it reaches the
closure's state only by calling the closure is visible in `Gen.lean` and proved (`C03g_verifyDigest`,
`C03g_verifyDigest_callsOnly`), no longer a hypothesis.  `crypto.Hash.Size()` is the prelude's table `cryptoHashSize`
(`crypto.SHA256` = 5: 32; the panic for an unregistered identifier is not modelled), `ObjectIdentifier.Equal` is
equality of the lists, the three `errors.New(…)` of `verifyDigest` are the one value `some "errors.New"` (messages of
fresh errors are not modelled, as everywhere in the translation).  The exported `(*Authenticode).Verify(cert, img)` is
translated too (its function literal is the closure `authenticode.Authenticode.Verify.imageDigest1` over the reader).
`binary.Write` into a `bytes.Buffer` cannot fail (its error is `nil` in the translation, so the `fmt.Errorf` branch of
`AppendSignature` is dead code there, as it is in Go).  Aliasing is not modelled (the harness checks that `Bytes()` results
stay intact).

`Signatures()` has an unbounded `for` loop: the translated function takes a fuel argument; `C03g_signatures` and
`C03g_signatures_fuel` show that any fuel above the table length gives the same answer and is never used up.
-/
namespace GoUefi.C03
open GoUefi GoUefi.Gen GoUefi.GenPe
open GoUefi.C10 (absWC)

-- (for the `decide +kernel` examples about the loop helper)
deriving instance DecidableEq for Loop

/-! ### abstraction of the receiver -/

/-- the receiver as the hand-written model sees it (`Impl.Parsed`, Model/Pe.lean).  The model keeps the hash parts and
    the `regular` flag, of which the translated structure has only the reference `hashContent`: they are parameters.
    The model's `padding` is a number of zero bytes. -/
def absP (p : authenticode.PECOFFBinary) (parts : List Impl.Part) (regular : Bool) : Impl.Parsed :=
  { ddVA := p.Datadir.VirtualAddress.toNat, ddSize := p.Datadir.Size.toNat, parts := parts,
    length := p.length.toNat, padding := p.padding.length, first := p.firstSection.content,
    optDataDir := p.optDataDir.content, last := p.lastSection.content, certTable := p.certTable,
    regular := regular }

/-- the WIN_CERTIFICATE that `AppendSignature sig` builds: `dwLength = uint32(8 + len(sig))`, revision 2.0, PKCS#7 -/
def newEntry (sig : List UInt8) : signature.WINCertificate :=
  ⟨UInt32.ofInt (8 + (sig.length : Int)), 0x0200, 0x0002, sig⟩

/-- its bytes in the table, with the zero padding to 8 behind them -/
def newEntryBytes (sig : List UInt8) : List UInt8 :=
  le32 (newEntry sig).Length.toNat ++ le16 0x0200 ++ le16 0x0002 ++ sig ++ zeros (pad8 (newEntry sig).Length.toNat)

/-- the directory entry that `AppendSignature sig` leaves, in `uint32` arithmetic -/
def newDatadir (p : authenticode.PECOFFBinary) (sig : List UInt8) : pe.DataDirectory :=
  let L := (newEntry sig).Length
  if p.Datadir.VirtualAddress ≠ 0 ∧ p.Datadir.Size ≠ 0 then
    ⟨p.Datadir.VirtualAddress, p.Datadir.Size + L + UInt32.ofNat (pad8 L.toNat)⟩
  else ⟨UInt32.ofInt p.length, L + UInt32.ofNat (pad8 L.toNat)⟩

/-! ### 1. `AppendSignature` -/

/-- **what `AppendSignature sig` does to the receiver — every receiver, every signature, one equation**:
    * `certTable' = certTable ++ WIN_CERTIFICATE(dwLength = uint32(8 + |sig|), wRevision 0x0200, wCertificateType
      0x0002, sig) ++ zero padding of dwLength to 8`;
    * `Datadir' = (VirtualAddress, Size + dwLength + pad)` when both fields were non-zero, else
      `(uint32(length), dwLength + pad)`, in `uint32` arithmetic (wrap-around);
    * `optDataDir'` = the 8 little-endian bytes of `Datadir'`;
    * nothing else changes (`hashContent`, `length`, `padding`, `firstSection`, `lastSection`); the error is `nil`. -/
theorem C03g_append (p : authenticode.PECOFFBinary) (sig : List UInt8) :
    p.AppendSignature sig =
      ({ p with Datadir := newDatadir p sig,
                certTable := p.certTable ++ newEntryBytes sig,
                optDataDir := ⟨le32 (newDatadir p sig).VirtualAddress.toNat ++ le32 (newDatadir p sig).Size.toNat⟩ },
       none) := by
  have h := append_eq p sig
  simp only [] at h
  rw [h]
  simp only [newDatadir, newEntry, newEntryBytes, Impl.writeWinCert, List.append_assoc]

/-- the numbers in it: `dwLength` is `(8 + |sig|) mod 2^32`; the padding has fewer than 8 bytes and completes `dwLength`
    to a multiple of 8; the table grows by exactly `8 + |sig| + pad` bytes -/
theorem C03g_append_numbers (p : authenticode.PECOFFBinary) (sig : List UInt8) :
    (newEntry sig).Length.toNat = (8 + sig.length) % 2 ^ 32 ∧
    pad8 (newEntry sig).Length.toNat < 8 ∧ ((newEntry sig).Length.toNat + pad8 (newEntry sig).Length.toNat) % 8 = 0 ∧
    (p.AppendSignature sig).1.certTable.length =
      p.certTable.length + 8 + sig.length + pad8 (newEntry sig).Length.toNat := by
  refine ⟨sigLen_toNat sig, PeSign.pad8_lt _, PeSign.add_pad8_mod _, ?_⟩
  rw [C03g_append]
  simp [newEntryBytes, le32, le16, zeros]
  omega

/-- without overflow (`|sig| + 8 < 2^32`, old `Size` + the new entry `< 2^32`) the directory entry is what one expects:
    the address is kept (or becomes `length`), the size grows by the length of what was appended to the table, so
    `Size' = |certTable'|` whenever `Size = |certTable|` -/
theorem C03g_append_no_overflow (p : authenticode.PECOFFBinary) (sig : List UInt8)
    (h32 : 8 + sig.length < 2 ^ 32)
    (hfit : p.Datadir.Size.toNat + 8 + sig.length + pad8 (8 + sig.length) < 2 ^ 32)
    (hlen : 0 ≤ p.length ∧ p.length < 2 ^ 32) :
    let p' := (p.AppendSignature sig).1
    p'.Datadir.VirtualAddress.toNat =
      (if p.Datadir.VirtualAddress ≠ 0 ∧ p.Datadir.Size ≠ 0 then p.Datadir.VirtualAddress.toNat else p.length.toNat) ∧
    p'.Datadir.Size.toNat =
      (if p.Datadir.VirtualAddress ≠ 0 ∧ p.Datadir.Size ≠ 0 then p.Datadir.Size.toNat else 0) +
        (8 + sig.length + pad8 (8 + sig.length)) ∧
    p'.certTable.length = p.certTable.length + (8 + sig.length + pad8 (8 + sig.length)) := by
  intro p'
  have hL : (newEntry sig).Length.toNat = 8 + sig.length := by
    rw [(C03g_append_numbers p sig).1]; exact Nat.mod_eq_of_lt h32
  have hp8 := PeSign.pad8_lt (8 + sig.length)
  have hpad : (UInt32.ofNat (pad8 (8 + sig.length))).toNat = pad8 (8 + sig.length) := by
    rw [UInt32.toNat_ofNat']; exact Nat.mod_eq_of_lt (by omega)
  have hct := (C03g_append_numbers p sig).2.2.2
  rw [hL] at hct
  have hp' : p' = (p.AppendSignature sig).1 := rfl
  rw [C03g_append] at hp'
  refine ⟨?_, ?_, by rw [hct]; omega⟩
  · rw [hp']; simp only [newDatadir]
    split
    · rfl
    · simp only [toNat_ofInt]; omega
  · rw [hp']; simp only [newDatadir, hL]
    split
    · simp only [UInt32.toNat_add, hL, hpad]; omega
    · simp only [UInt32.toNat_add, hL, hpad]; omega

/-- **refinement**: through `absP` the translated `AppendSignature` is the hand-written model's
    `Impl.Parsed.appendSignature` (Model/Pe.lean, about which `C03_layout … C03_signatures` are proved) — every
    receiver with a non-negative `length`, every signature, no size hypothesis (both sides wrap alike) -/
theorem C03g_append_refines (p : authenticode.PECOFFBinary) (sig : List UInt8) (parts : List Impl.Part)
    (regular : Bool) (h0 : 0 ≤ p.length) :
    absP (p.AppendSignature sig).1 parts regular = (absP p parts regular).appendSignature sig := by
  rw [C03g_append]
  have hL := sigLen_toNat sig
  have hp8 : pad8 ((8 + sig.length) % 2 ^ 32) < 8 := PeSign.pad8_lt _
  have hpad : (UInt32.ofNat (pad8 ((8 + sig.length) % 2 ^ 32))).toNat = pad8 ((8 + sig.length) % 2 ^ 32) := by
    rw [UInt32.toNat_ofNat']; exact Nat.mod_eq_of_lt (by omega)
  have hva : (p.Datadir.VirtualAddress ≠ 0) ↔ p.Datadir.VirtualAddress.toNat ≠ 0 := by
    constructor
    · intro h e; exact h (UInt32.toNat_inj.mp e)
    · intro h e; rw [e] at h; exact h rfl
  have hsz : (p.Datadir.Size ≠ 0) ↔ p.Datadir.Size.toNat ≠ 0 := by
    constructor
    · intro h e; exact h (UInt32.toNat_inj.mp e)
    · intro h e; rw [e] at h; exact h rfl
  have hlen : (UInt32.ofInt p.length).toNat = p.length.toNat % 2 ^ 32 := by
    rw [toNat_ofInt]; omega
  unfold Impl.Parsed.appendSignature absP
  simp only [newDatadir, newEntry, newEntryBytes, hL, Impl.winCertTypePkcs, Impl.writeWinCert, List.append_assoc]
  by_cases hc : p.Datadir.VirtualAddress ≠ 0 ∧ p.Datadir.Size ≠ 0
  · have hc' : p.Datadir.VirtualAddress.toNat ≠ 0 ∧ p.Datadir.Size.toNat ≠ 0 := ⟨hva.mp hc.1, hsz.mp hc.2⟩
    simp only [if_pos hc, if_pos hc', UInt32.toNat_add, hL, hpad]
  · have hc' : ¬ (p.Datadir.VirtualAddress.toNat ≠ 0 ∧ p.Datadir.Size.toNat ≠ 0) := by
      intro h; exact hc ⟨hva.mpr h.1, hsz.mpr h.2⟩
    simp only [if_neg hc, if_neg hc', UInt32.toNat_add, hL, hpad, hlen]

/-! ### 2. `Signatures()` -/

/-- `Signatures()` looks at the certificate table only -/
theorem C03g_signatures_table (fuel : Nat) (p q : authenticode.PECOFFBinary) (h : p.certTable = q.certTable) :
    p.Signatures fuel = q.Signatures fuel := by
  unfold authenticode.PECOFFBinary.Signatures authenticode.PECOFFBinary.signatureBytes
  rw [h]

/-- **frame** (what C19 needs of `Signatures`, `Verify`, `Bytes`, `Open`, `signatureBytes`): the translator returns a
    new receiver from a method exactly when the method — or anything it calls — writes through its receiver (also through
    a buffer that is a field: `p.certTable.Write/Read/Next/ReadFrom`, or by handing `p.certTable` to a function that
    consumes its reader argument).  These five return their Go results ONLY: the types below are the statement.  A change
    that makes one of them consume or rebuild the table changes the type and this theorem (and every one below) stops
    compiling. -/
theorem C03g_frame :
    (∃ f : Nat → authenticode.PECOFFBinary → List signature.WINCertificate × GoErr,
        f = authenticode.PECOFFBinary.Signatures) ∧
    (∃ f : Nat → authenticode.Ext → authenticode.PECOFFBinary → X509Cert → Bool × GoErr,
        f = authenticode.PECOFFBinary.Verify) ∧
    (∃ f : authenticode.PECOFFBinary → List UInt8, f = authenticode.PECOFFBinary.Bytes) ∧
    (∃ f : authenticode.PECOFFBinary → List UInt8, f = authenticode.PECOFFBinary.Open) ∧
    (∃ f : authenticode.PECOFFBinary → List UInt8, f = authenticode.PECOFFBinary.signatureBytes) :=
  ⟨⟨_, rfl⟩, ⟨_, rfl⟩, ⟨_, rfl⟩, ⟨_, rfl⟩, ⟨_, rfl⟩⟩

/-- the walk, step by step.  With `t` the table and any fuel `f + 1`:
    * at most 8 bytes: no entries, no error;
    * more than 8 bytes and `ReadWinCertificate` fails: an EMPTY list and that error (wrapped);
    * more than 8 bytes and `ReadWinCertificate` returns `w`, leaving `rest` (it consumed exactly `dwLength` bytes):
      `w` is listed and the walk goes on behind `pad8 dwLength` further bytes (or at the end when fewer are left). -/
theorem C03g_signatures_step (f : Nat) (p : authenticode.PECOFFBinary) :
    (p.certTable.length ≤ 8 → p.Signatures (f + 1) = ([], none)) ∧
    (∀ rest w e, 8 < p.certTable.length → signature.ReadWinCertificate p.certTable = (rest, w, some e) →
      p.Signatures (f + 1) = ([], goWrap (some e))) ∧
    (∀ rest w, 8 < p.certTable.length → signature.ReadWinCertificate p.certTable = (rest, w, none) →
      rest = p.certTable.drop w.Length.toNat ∧ 8 ≤ w.Length.toNat ∧ w.Length.toNat ≤ p.certTable.length ∧
      p.Signatures (f + 1) =
        match ({ p with certTable := rest.drop (pad8 w.Length.toNat) } : authenticode.PECOFFBinary).Signatures f with
        | (ws, none) => (w :: ws, none)
        | (ws, some e) => (ws, some e)) := by
  refine ⟨fun h => ?_, fun rest w e h8 hr => ?_, fun rest w h8 hr => ?_⟩
  · unfold authenticode.PECOFFBinary.Signatures authenticode.PECOFFBinary.signatureBytes
    simp only [loop_short f [] h]
  · unfold authenticode.PECOFFBinary.Signatures authenticode.PECOFFBinary.signatureBytes
    simp only [loop_err f [] h8 hr]
  · obtain ⟨_, hL8, hLt, hrest, _⟩ := read_ok_rest hr
    refine ⟨hrest, hL8, hLt, ?_⟩
    unfold authenticode.PECOFFBinary.Signatures authenticode.PECOFFBinary.signatureBytes
    simp only [loop_ok f [] h8 hr, loop_shift f ([] ++ [w])]
    cases hw : walk f (rest.drop (pad8 w.Length.toNat)) with
    | ret r =>
      -- a `return` inside the loop: `([], err)` with `err ≠ nil`
      obtain ⟨e, rfl⟩ := walk_ret_shape _ _ _ hw
      have hw' : authenticode.PECOFFBinary.Signatures.loop1 f [] (rest.drop (pad8 w.Length.toNat)) = _ := hw
      simp [shift, hw']
    | done m =>
      have hw' : authenticode.PECOFFBinary.Signatures.loop1 f [] (rest.drop (pad8 w.Length.toNat)) = _ := hw
      simp [shift, hw']

/-- **refinement**: with any fuel above the table length the translated `Signatures()` computes what the model's
    walker `Impl.Parsed.signatures` computes (`Impl.signaturesAux`, about which `C03_signatures` is proved): the same
    entries in the same order (through `absWC`), an error — the wrapped error of `ReadWinCertificate` on the entry
    where the walk stopped, with an EMPTY list — exactly when the model reports one.  The fuel is never used up. -/
theorem C03g_signatures (fuel : Nat) (p : authenticode.PECOFFBinary) (parts : List Impl.Part) (regular : Bool)
    (hf : p.certTable.length < fuel) :
    match (absP p parts regular).signatures with
    | .ok ws => ∃ gws, p.Signatures fuel = (gws, none) ∧ gws.map absWC = ws
    | _ => ∃ t' r w e, signature.ReadWinCertificate t' = (r, w, some e) ∧
        p.Signatures fuel = ([], goWrap (some e)) ∧ goWrap (some e) ≠ some "go2lean:out-of-fuel" := by
  have h := walk_model fuel p.certTable.length p.certTable hf (Nat.le_refl _)
  unfold Impl.Parsed.signatures absP
  simp only
  unfold authenticode.PECOFFBinary.Signatures authenticode.PECOFFBinary.signatureBytes
  cases hm : Impl.signaturesAux p.certTable.length p.certTable with
  | ok ws =>
    rw [hm] at h
    obtain ⟨gws, rest, hw, hmap, _⟩ := h
    have hw' : authenticode.PECOFFBinary.Signatures.loop1 fuel [] p.certTable = _ := hw
    exact ⟨gws, by simp only [hw'], hmap⟩
  | err =>
    rw [hm] at h
    obtain ⟨t', r, w, e, hre, hw⟩ := h
    have hw' : authenticode.PECOFFBinary.Signatures.loop1 fuel [] p.certTable = _ := hw
    exact ⟨t', r, w, e, hre, by simp only [hw'], goWrap_ne_fuel e⟩
  | panic =>
    rw [hm] at h
    obtain ⟨t', r, w, e, hre, hw⟩ := h
    have hw' : authenticode.PECOFFBinary.Signatures.loop1 fuel [] p.certTable = _ := hw
    exact ⟨t', r, w, e, hre, by simp only [hw'], goWrap_ne_fuel e⟩
  | exit =>
    rw [hm] at h
    obtain ⟨t', r, w, e, hre, hw⟩ := h
    have hw' : authenticode.PECOFFBinary.Signatures.loop1 fuel [] p.certTable = _ := hw
    exact ⟨t', r, w, e, hre, by simp only [hw'], goWrap_ne_fuel e⟩

/-- the model's walker returns (`.ok` or `.err`), so the second case above is `.err` -/
theorem C03g_signatures_model_returns (p : Impl.Parsed) : p.signatures ≠ .panic ∧ p.signatures ≠ .exit := by
  unfold Impl.Parsed.signatures
  generalize p.certTable.length = f
  generalize p.certTable = t
  induction f generalizing t with
  | zero => exact ⟨by simp [Impl.signaturesAux], by simp [Impl.signaturesAux]⟩
  | succ f ih =>
    unfold Impl.signaturesAux
    split
    · exact ⟨by simp, by simp⟩
    · have hr := GenAuthDesc.readWinCert_returns t
      split
      · rename_i w rest _
        have := ih (rest.drop (pad8 w.length))
        split <;> simp_all
      · exact ⟨by simp, by simp⟩
      · simp_all
      · simp_all

/-- the fuel is irrelevant: any two amounts above the table length give the same answer -/
theorem C03g_signatures_fuel (f1 f2 : Nat) (p : authenticode.PECOFFBinary)
    (h1 : p.certTable.length < f1) (h2 : p.certTable.length < f2) :
    p.Signatures f1 = p.Signatures f2 := by
  -- both agree with the walk that is cut at nothing: compare through the step equations, by induction on the table
  have key : ∀ (n : Nat) (t : List UInt8) (f1 f2 : Nat), t.length ≤ n → t.length < f1 → t.length < f2 →
      walk f1 t = walk f2 t := by
    intro n
    induction n with
    | zero =>
      intro t f1 f2 hn h1 h2
      obtain ⟨g1, rfl⟩ : ∃ k, f1 = k + 1 := ⟨f1 - 1, by omega⟩
      obtain ⟨g2, rfl⟩ : ∃ k, f2 = k + 1 := ⟨f2 - 1, by omega⟩
      rw [GenPe.walk, GenPe.walk, loop_short g1 [] (by omega), loop_short g2 [] (by omega)]
    | succ n ih =>
      intro t f1 f2 hn h1 h2
      obtain ⟨g1, rfl⟩ : ∃ k, f1 = k + 1 := ⟨f1 - 1, by omega⟩
      obtain ⟨g2, rfl⟩ : ∃ k, f2 = k + 1 := ⟨f2 - 1, by omega⟩
      by_cases hs : t.length ≤ 8
      · rw [GenPe.walk, GenPe.walk, loop_short g1 [] hs, loop_short g2 [] hs]
      · rcases hr : signature.ReadWinCertificate t with ⟨rest, w, e⟩
        cases e with
        | some e => rw [GenPe.walk, GenPe.walk, loop_err g1 [] (by omega) hr, loop_err g2 [] (by omega) hr]
        | none =>
          obtain ⟨_, hL8, hLt, hrest, _⟩ := read_ok_rest hr
          have hl : (rest.drop (pad8 w.Length.toNat)).length ≤ t.length - 8 := by
            rw [List.length_drop, hrest, List.length_drop]; omega
          rw [GenPe.walk, GenPe.walk, loop_ok g1 [] (by omega) hr, loop_ok g2 [] (by omega) hr, loop_shift g1,
            loop_shift g2, ih _ g1 g2 (by omega) (by omega) (by omega)]
  unfold authenticode.PECOFFBinary.Signatures authenticode.PECOFFBinary.signatureBytes
  have := key p.certTable.length p.certTable f1 f2 (Nat.le_refl _) h1 h2
  simp only [GenPe.walk] at this
  simp only [this]

/-! ### 3. `AppendSignature` then `Signatures()` -/

/-- **after `AppendSignature sig`, `Signatures()` lists the old entries followed by the new one.**
    Hypotheses (each needed, see the examples at the end):
    * the walk of the old table lists `es` and leaves NOTHING over, and the old table is a multiple of 8 bytes long
      (so every old entry, the last one included, is followed by its full padding);
    * `sig` is not empty (an entry without a body at the end of the table is not listed: the loop stops at 8 bytes);
    * no overflow of `dwLength`: `8 + |sig| < 2^32`.
    Any fuel above the respective table length. -/
theorem C03g_append_then_signatures (p : authenticode.PECOFFBinary) (sig : List UInt8)
    (es : List signature.WINCertificate) (f0 fuel : Nat)
    (hwalk : authenticode.PECOFFBinary.Signatures.loop1 f0 [] p.certTable = Loop.done (es, []))
    (h8 : p.certTable.length % 8 = 0) (hne : sig ≠ []) (h32 : 8 + sig.length < 2 ^ 32)
    (hf : (p.AppendSignature sig).1.certTable.length < fuel) :
    (p.AppendSignature sig).1.Signatures fuel = (es ++ [newEntry sig], none) := by
  have hw0 := walksTo_of_walk f0 p.certTable es hwalk h8
  have hL : (newEntry sig).Length.toNat = 8 + sig.length := by
    rw [(C03g_append_numbers p sig).1]; exact Nat.mod_eq_of_lt h32
  have hE : newEntry sig = ⟨UInt32.ofNat (8 + sig.length), 0x0200, 2, sig⟩ := by
    unfold newEntry; rw [sigLen_ofNat]
  have hw1 := hw0.append (walksTo_entry sig hne h32)
  have ht : (p.AppendSignature sig).1.certTable =
      p.certTable ++ (Impl.writeWinCert ⟨8 + sig.length, 0x0200, 2, sig⟩ ++ zeros (pad8 (8 + sig.length))) := by
    rw [C03g_append]
    simp only [newEntryBytes, hL, Impl.writeWinCert, List.append_assoc]
  have hlen : es.length + 1 < fuel := by
    -- every listed entry took at least 8 bytes of the table
    have : ∀ (t : List UInt8) (ws : List signature.WINCertificate), WalksTo t ws → 8 * ws.length ≤ t.length := by
      intro t ws h
      induction h with
      | nil => simp
      | cons h8 hr hp _ ih =>
        rename_i t rest w ws
        obtain ⟨_, hL8, hLt, hrest, _⟩ := read_ok_rest hr
        rw [List.length_drop, hrest, List.length_drop] at ih
        simp only [List.length_cons]
        omega
    have := this _ _ hw1
    rw [← ht] at this
    simp only [List.length_append, List.length_cons, List.length_nil] at this
    omega
  have hwk := hw1.walk fuel (by simpa using hlen)
  unfold authenticode.PECOFFBinary.Signatures authenticode.PECOFFBinary.signatureBytes
  rw [ht]
  simp only [GenPe.walk] at hwk
  simp only [hwk, hE]

/-! ### 4. `Sign` -/

/-- **`Sign key cert`**: the external `SignAuthenticode` is handed the key, the certificate, the bytes of
    `makeSectionReader(p.hashContent)` and `crypto.SHA256` (= 5).  When it reports an error the receiver is UNCHANGED and
    the results are `(nil, error)` (what C15 asks); otherwise the receiver is exactly what `AppendSignature` of the
    returned signature makes of it (`C03g_append`), the signature is returned and the error is `nil`. -/
theorem C03g_sign (X : authenticode.Ext) (p : authenticode.PECOFFBinary) (key : CryptoSigner) (cert : X509Cert) :
    let r := X.SignAuthenticode key cert (X.makeSectionReader p.hashContent).content (5 : crypto.Hash)
    authenticode.PECOFFBinary.Sign X p key cert =
      if r.2.2.isSome then (p, [], some "fmt.Errorf")
      else ((p.AppendSignature r.2.1).1, r.2.1, none) := by
  intro r
  unfold authenticode.PECOFFBinary.Sign
  simp only []
  by_cases he : r.2.2.isSome
  · have he' : (X.SignAuthenticode key cert (X.makeSectionReader p.hashContent).content (5 : crypto.Hash)).2.2.isSome = true := he
    simp only [he', if_true, he]
  · have he' : ¬ (X.SignAuthenticode key cert (X.makeSectionReader p.hashContent).content (5 : crypto.Hash)).2.2.isSome = true := he
    simp only [he', if_false, he, C03g_append, Option.isSome_none, Bool.false_eq_true]
    rfl

/-- a failed signing leaves the receiver as it was (C15, for every value of the externals) -/
theorem C03g_sign_failed_unchanged (X : authenticode.Ext) (p : authenticode.PECOFFBinary) (key : CryptoSigner)
    (cert : X509Cert) (h : (authenticode.PECOFFBinary.Sign X p key cert).2.2.isSome) :
    (authenticode.PECOFFBinary.Sign X p key cert).1 = p := by
  have hs := C03g_sign X p key cert
  simp only [] at hs
  rw [hs] at h ⊢
  split
  · rfl
  · rename_i hn; rw [if_neg hn] at h; simp at h

/-- … and a successful one is `AppendSignature` of what is returned -/
theorem C03g_sign_ok (X : authenticode.Ext) (p : authenticode.PECOFFBinary) (key : CryptoSigner)
    (cert : X509Cert) (h : (authenticode.PECOFFBinary.Sign X p key cert).2.2 = none) :
    (authenticode.PECOFFBinary.Sign X p key cert).1 =
      (p.AppendSignature (authenticode.PECOFFBinary.Sign X p key cert).2.1).1 := by
  have hs := C03g_sign X p key cert
  simp only [] at hs
  rw [hs] at h ⊢
  split
  · rename_i hy; rw [if_pos hy] at h; simp at h
  · rfl

/-! ### 5. `Verify`

Since the library hashes the image once per `Verify` call (commit "PECOFFBinary.Verify hashes the image once per call")
the loop hands every parsed entry to `(*Authenticode).verifyDigest(cert, imageDigest)`, where `imageDigest` is a LOCAL
CLOSURE that memoises the digest per algorithm in a local `map[crypto.Hash][]byte`.  In the translation
(tools/go2lean/fnarg.go):
* the map is the association list `Memo`; the closure is the helper `authenticode.PECOFFBinary.Verify.imageDigest X p`,
  a STATE MACHINE `Memo → crypto.Hash → Memo × List UInt8 × GoErr` (it returns the map it leaves);
* `alg.New()`, `io.Copy(h, makeSectionReader(p.hashContent))`, `h.Sum(nil)` are `X.crypto_Hash_Sum alg bytes` — the digest
  function of the standard library is the field `crypto_Hash_Sum` of `authenticode.Ext`, a function of the algorithm and
  the bytes (so: deterministic, as is `X.makeSectionReader`); `io.Copy` from a reader that does not fail into a
  `hash.Hash` (whose `Write` never fails) reports no error, so the closure's error branch is dead in the translation;
* `verifyDigest` IS TRANSLATED: `authenticode.Authenticode.verifyDigest X' a cert σ step s : σ × Bool × GoErr` (X' the Ext
  structure of pkcs7) takes the state type, the step function and the current state and returns the state it leaves.
  What it does with them is in `Gen.lean`: `C03g_verifyDigest` says it for EVERY state machine — no hypothesis on an
  external is left in this section. -/

/-- the local `map[crypto.Hash][]byte` of one `Verify` call: at most one entry per algorithm (`List.lookup`, `mapSet`) -/
abbrev Memo := List (crypto.Hash × List UInt8)

/-- **the UNMEMOISED digest function**: the digest, under `alg`, of the bytes that `makeSectionReader(p.hashContent)`
    delivers; no error -/
def imageDigest (X : authenticode.Ext) (p : authenticode.PECOFFBinary) (alg : crypto.Hash) : List UInt8 × GoErr :=
  (X.crypto_Hash_Sum alg (X.makeSectionReader p.hashContent).content, none)

/-- **what the translated closure does**: an algorithm that is in the map answers the stored digest and leaves the map as
    it is; one that is not is hashed, stored, and answered -/
theorem C03g_imageDigest_step (X : authenticode.Ext) (p : authenticode.PECOFFBinary) (m : Memo) (alg : crypto.Hash) :
    authenticode.PECOFFBinary.Verify.imageDigest X p m alg =
      match m.lookup alg with
      | some d => (m, d, none)
      | none => (mapSet m alg (imageDigest X p alg).1, (imageDigest X p alg).1, none) := by
  unfold authenticode.PECOFFBinary.Verify.imageDigest imageDigest
  cases h : List.lookup alg m with
  | some d => simp
  | none => simp [lookup_mapSet]

/-- the invariant of the map: whatever it holds for an algorithm is the unmemoised digest under that algorithm -/
def MemoOk (X : authenticode.Ext) (p : authenticode.PECOFFBinary) (m : Memo) : Prop :=
  ∀ alg d, m.lookup alg = some d → d = (imageDigest X p alg).1

theorem memoOk_nil (X : authenticode.Ext) (p : authenticode.PECOFFBinary) : MemoOk X p [] := by
  intro alg d h; simp at h

/-- **the memoisation is invisible**: from a map that satisfies the invariant the closure ANSWERS WHAT THE UNMEMOISED
    FUNCTION ANSWERS, and leaves a map that satisfies the invariant — because the digest external and
    `makeSectionReader` are functions of their arguments (the same bytes hash to the same digest every time) -/
theorem C03g_imageDigest_memo (X : authenticode.Ext) (p : authenticode.PECOFFBinary) (m : Memo) (alg : crypto.Hash)
    (h : MemoOk X p m) :
    MemoOk X p (authenticode.PECOFFBinary.Verify.imageDigest X p m alg).1 ∧
    (authenticode.PECOFFBinary.Verify.imageDigest X p m alg).2 = imageDigest X p alg := by
  rw [C03g_imageDigest_step]
  cases hl : List.lookup alg m with
  | some d =>
    refine ⟨h, ?_⟩
    have := h alg d hl
    simp only [this]
    rfl
  | none =>
    refine ⟨?_, rfl⟩
    intro alg' d' hd'
    simp only [] at hd'
    rw [lookup_mapSet] at hd'
    by_cases he : (alg' == alg) = true
    · rw [if_pos he] at hd'
      have := eq_of_beq he
      subst this
      exact (Option.some.inj hd').symm
    · rw [if_neg he] at hd'
      exact h alg' d' hd'

/-! #### `(*Authenticode).verifyDigest`, translated -/

/-- `crypto.SHA256.Size()` -/
theorem cryptoHashSize_sha256 : cryptoHashSize 5 = 32 := by decide

/-- **`verifyDigest(cert, imageDigest)`, for every receiver, every certificate, every value of pkcs7's externals and
    EVERY STATE MACHINE `step` / state `s` standing for the closure** — the checks of the source, in their order:
    1. the digest algorithm of the signature is not SHA-256 (`a.Algid.Algorithm.Equal(pkcs7.OIDDigestAlgorithmSHA256)`
       fails) → `(false, error)`, THE CLOSURE IS NOT CALLED (the state comes back as it was handed);
    2. the embedded digest does not have the length of SHA-256 (`crypto.SHA256.Size()` = 32) → `(false, error)`, the
       closure is not called;
    3. otherwise the closure is called EXACTLY ONCE, for `crypto.SHA256` (5), from the state that was handed, and the
       state it leaves is the one returned; its error → `(false, that error)`;
    4. the digest it answers is not the embedded digest → `(false, error)` ("incorrect digest");
    5. otherwise the answer is `a.Pkcs.Verify(cert)` (the translated `pkcs7.PKCS7.Verify`, theorems `C04g_*`). -/
theorem C03g_verifyDigest (X : pkcs7.Ext) (a : authenticode.Authenticode) (c : X509Cert) (σ : Type)
    (step : σ → crypto.Hash → σ × List UInt8 × GoErr) (s : σ) :
    authenticode.Authenticode.verifyDigest X a c σ step s =
      if a.Algid.Algorithm ≠ pkcs7.OIDDigestAlgorithmSHA256 then (s, false, some "errors.New")
      else if a.Digest.length ≠ 32 then (s, false, some "errors.New")
      else if (step s 5).2.2.isSome then ((step s 5).1, false, (step s 5).2.2)
      else if (step s 5).2.1 ≠ a.Digest then ((step s 5).1, false, some "errors.New")
      else ((step s 5).1, a.Pkcs.Verify X c) := by
  unfold authenticode.Authenticode.verifyDigest
  simp only [lenI_eq, cryptoHashSize_sha256]
  by_cases h1 : a.Algid.Algorithm = pkcs7.OIDDigestAlgorithmSHA256
  · simp only [h1, beq_self_eq_true, if_true, ne_eq, not_true_eq_false, if_false]
    by_cases h2 : a.Digest.length = 32
    · have h2' : ((32 : Int) != (a.Digest.length : Int)) = false := by simp [h2]
      simp only [h2', Bool.false_eq_true, if_false]
      simp only [h2, not_true_eq_false, if_false]
      by_cases h3 : (step s 5).2.2.isSome
      · simp only [h3, if_true]
      · simp only [h3, Bool.false_eq_true, if_false]
        by_cases h4 : (step s 5).2.1 = a.Digest
        · simp [h4]
        · simp [h4]
    · have h2' : ((32 : Int) != (a.Digest.length : Int)) = true := by
        simp only [bne_iff_ne, ne_eq]; omega
      simp only [h2', if_true]
      simp only [h2, not_false_eq_true, if_true]
  · have h1' : (a.Algid.Algorithm == pkcs7.OIDDigestAlgorithmSHA256) = false := by simp [h1]
    simp only [h1', Bool.false_eq_true, if_false, ne_eq, h1, not_false_eq_true, if_true]

/-- **what `verifyDigest` returns on a PURE digest function `f`** (a closure without state): the same five cases -/
def verifyDigestOf (X : pkcs7.Ext) (a : authenticode.Authenticode) (c : X509Cert)
    (f : crypto.Hash → List UInt8 × GoErr) : Bool × GoErr :=
  if a.Algid.Algorithm ≠ pkcs7.OIDDigestAlgorithmSHA256 then (false, some "errors.New")   -- unsupported hashing function
  else if a.Digest.length ≠ 32 then (false, some "errors.New")                              -- wrong block size
  else if (f 5).2.isSome then (false, (f 5).2)                                              -- the closure's error
  else if (f 5).1 ≠ a.Digest then (false, some "errors.New")                                -- incorrect digest
  else a.Pkcs.Verify X c

theorem verifyDigestOf_eq (X : pkcs7.Ext) (a : authenticode.Authenticode) (c : X509Cert)
    (f : crypto.Hash → List UInt8 × GoErr) :
    verifyDigestOf X a c f = (authenticode.Authenticode.verifyDigest X a c Unit (fun _ alg => ((), f alg)) ()).2 := by
  rw [C03g_verifyDigest]
  unfold verifyDigestOf
  repeat' split <;> try rfl

/-- **`verifyDigest` reaches the state of the closure it is handed ONLY BY CALLING THE CLOSURE — a theorem about the
    translated function** (it was the hypothesis `CallsOnly` on the external while `verifyDigest` was one): for every
    state machine `step` that from the states of an invariant `I` answers what a pure function `f` answers and stays
    inside `I`, `verifyDigest` started inside `I` ends inside `I` and answers what it answers on `f` -/
theorem C03g_verifyDigest_callsOnly (X : pkcs7.Ext) (a : authenticode.Authenticode) (c : X509Cert) (σ : Type)
    (step : σ → crypto.Hash → σ × List UInt8 × GoErr) (f : crypto.Hash → List UInt8 × GoErr) (I : σ → Prop) (s : σ)
    (hs : I s) (hstep : ∀ s alg, I s → I (step s alg).1 ∧ (step s alg).2 = f alg) :
    I (authenticode.Authenticode.verifyDigest X a c σ step s).1 ∧
      (authenticode.Authenticode.verifyDigest X a c σ step s).2 = verifyDigestOf X a c f := by
  rw [C03g_verifyDigest]
  unfold verifyDigestOf
  have h5 := hstep s 5 hs
  have e1 : (step s 5).2.1 = (f 5).1 := by rw [h5.2]
  have e2 : (step s 5).2.2 = (f 5).2 := by rw [h5.2]
  rw [e1, e2]
  repeat' split
  all_goals first | exact ⟨hs, rfl⟩ | exact ⟨h5.1, rfl⟩

/-- success of `verifyDigest`, spelled out: SHA-256 is named, the embedded digest has 32 bytes and IS the digest that the
    closure answers for SHA-256 (without an error), and the PKCS#7 verifies under the certificate -/
theorem verifyDigestOf_true_iff (X : pkcs7.Ext) (a : authenticode.Authenticode) (c : X509Cert)
    (f : crypto.Hash → List UInt8 × GoErr) :
    verifyDigestOf X a c f = (true, none) ↔
      a.Algid.Algorithm = pkcs7.OIDDigestAlgorithmSHA256 ∧ a.Digest.length = 32 ∧ (f 5).2 = none ∧
        a.Digest = (f 5).1 ∧ a.Pkcs.Verify X c = (true, none) := by
  unfold verifyDigestOf
  by_cases h1 : a.Algid.Algorithm = pkcs7.OIDDigestAlgorithmSHA256
  · by_cases h2 : a.Digest.length = 32
    · cases h3 : (f 5).2 with
      | some e => simp [h1, h2, h3]
      | none =>
        by_cases h4 : (f 5).1 = a.Digest
        · simp [h1, h2, h3, h4]
        · have h4' : ¬ a.Digest = (f 5).1 := fun h => h4 h.symm
          simp [h1, h2, h3, h4, h4']
    · simp [h1, h2]
  · simp [h1]

/-- … and of "(false, nil)" (the only answer that lets the loop go on): all four checks pass and the PKCS#7 answers
    `(false, nil)` — no signer entry that names the certificate is accepted -/
theorem verifyDigestOf_false_iff (X : pkcs7.Ext) (a : authenticode.Authenticode) (c : X509Cert)
    (f : crypto.Hash → List UInt8 × GoErr) :
    verifyDigestOf X a c f = (false, none) ↔
      a.Algid.Algorithm = pkcs7.OIDDigestAlgorithmSHA256 ∧ a.Digest.length = 32 ∧ (f 5).2 = none ∧
        a.Digest = (f 5).1 ∧ a.Pkcs.Verify X c = (false, none) := by
  unfold verifyDigestOf
  by_cases h1 : a.Algid.Algorithm = pkcs7.OIDDigestAlgorithmSHA256
  · by_cases h2 : a.Digest.length = 32
    · cases h3 : (f 5).2 with
      | some e => simp [h1, h2, h3]
      | none =>
        by_cases h4 : (f 5).1 = a.Digest
        · simp [h1, h2, h3, h4]
        · have h4' : ¬ a.Digest = (f 5).1 := fun h => h4 h.symm
          simp [h1, h2, h3, h4, h4']
    · simp [h1, h2]
  · simp [h1]

/-- **the exported `(*Authenticode).Verify(cert, img)`** (translated as well; `PECOFFBinary.Verify` does not call it): the
    same five checks against the SHA-256 of everything `img` delivers; `img` is read to the end exactly when the first
    two checks pass, and left untouched otherwise -/
theorem C03g_authenticode_verify (X : authenticode.Ext) (a : authenticode.Authenticode) (c : X509Cert) (img : List UInt8) :
    authenticode.Authenticode.Verify X a c img =
      if a.Algid.Algorithm ≠ pkcs7.OIDDigestAlgorithmSHA256 then (img, false, some "errors.New")
      else if a.Digest.length ≠ 32 then (img, false, some "errors.New")
      else if X.crypto_Hash_Sum 5 img ≠ a.Digest then ([], false, some "errors.New")
      else ([], a.Pkcs.Verify X.pkcs7 c) := by
  unfold authenticode.Authenticode.Verify
  rw [C03g_verifyDigest]
  unfold authenticode.Authenticode.Verify.imageDigest1
  simp only [List.nil_append, Option.isSome_none, Bool.false_eq_true, if_false]
  repeat' split <;> try rfl

/-! #### the loop -/

/-- the loop with the map threaded through it: the entries are asked in table order, every parsed entry is handed, with
    the certificate, THE SAME closure and the map as the previous entries left it -/
def verifyFrom (X : authenticode.Ext) (p : authenticode.PECOFFBinary) (cert : X509Cert) :
    List signature.WINCertificate → Memo → Bool × GoErr
  | [], _ => (false, some "ErrNoValidSignatures")
  | w :: ws, m =>
    let a := X.ParseAuthenticode w.Certificate
    if a.2.isSome then (false, some "fmt.Errorf")
    else
      let v := authenticode.Authenticode.verifyDigest X.pkcs7 a.1 cert Memo
        (authenticode.PECOFFBinary.Verify.imageDigest X p) m
      if v.2.2.isSome then (false, v.2.2)
      else if v.2.1 then (true, none)
      else verifyFrom X p cert ws v.1

theorem verify_loop (X : authenticode.Ext) (p : authenticode.PECOFFBinary) (cert : X509Cert) :
    ∀ (ws : List signature.WINCertificate) (m : Memo),
    (match authenticode.PECOFFBinary.Verify.loop1 X p cert ws m with
      | Loop.ret r => r
      | Loop.done _ => (false, some "ErrNoValidSignatures")) = verifyFrom X p cert ws m := by
  intro ws
  induction ws with
  | nil => intro m; rfl
  | cons w ws ih =>
    intro m
    unfold authenticode.PECOFFBinary.Verify.loop1 verifyFrom
    by_cases h1 : (X.ParseAuthenticode w.Certificate).2.isSome
    · simp only [h1, if_true]
    · simp only [h1, Bool.false_eq_true, if_false]
      by_cases h2 : (authenticode.Authenticode.verifyDigest X.pkcs7 (X.ParseAuthenticode w.Certificate).1 cert Memo
          (authenticode.PECOFFBinary.Verify.imageDigest X p) m).2.2.isSome
      · simp only [h2, if_true]
      · simp only [h2, Bool.false_eq_true, if_false]
        by_cases h3 : (authenticode.Authenticode.verifyDigest X.pkcs7 (X.ParseAuthenticode w.Certificate).1 cert Memo
            (authenticode.PECOFFBinary.Verify.imageDigest X p) m).2.1
        · simp only [h3, Bool.not_true, Bool.false_eq_true, if_false, if_true]
        · simp only [h3, Bool.not_false, if_true, Bool.false_eq_true, if_false]
          exact ih _

/-- **`Verify cert`, with the map threaded** (the shape of the source):
    * an error of `Signatures()` → `(false, error)`;
    * no entries → `(false, ErrNoSignatures)`;
    * otherwise `verifyFrom` over the listed entries, started with the EMPTY map: the first entry that does not answer
      "(false, nil)" decides — an entry that does not parse ends the loop with an error (entries behind it are not looked
      at), an error of `verifyDigest` is returned as it is, `true` is success; when every entry answers `(false, nil)`
      the result is `(false, ErrNoValidSignatures)`.  The map lives in this call only; the receiver is not written
      (`C03g_frame`). -/
theorem C03g_verify_threaded (fuel : Nat) (X : authenticode.Ext) (p : authenticode.PECOFFBinary) (cert : X509Cert) :
    authenticode.PECOFFBinary.Verify fuel X p cert =
      match p.Signatures fuel with
      | (_, some _) => (false, some "fmt.Errorf")
      | ([], none) => (false, some "ErrNoSignatures")
      | (ws, none) => verifyFrom X p cert ws [] := by
  unfold authenticode.PECOFFBinary.Verify
  simp only [lenI_eq]
  rcases hs : p.Signatures fuel with ⟨ws, e⟩
  cases e with
  | some e => simp
  | none =>
    cases ws with
    | nil => simp
    | cons w ws =>
      have h := verify_loop X p cert (w :: ws) []
      simp only [Option.isSome_none, Bool.false_eq_true, if_false, List.length_cons]
      have hne : ¬ (((ws.length + 1 : Nat) : Int) == 0) = true := by
        simp; omega
      simp only [hne]
      rw [← h]
      rfl

/-- what one table entry says when it is verified against the digest function `f`: `some verdict` ends the loop, `none`
    ("parsed, verified without error, not signed by this certificate") lets it go on -/
def entryVerdict (X : authenticode.Ext) (f : crypto.Hash → List UInt8 × GoErr) (cert : X509Cert)
    (w : signature.WINCertificate) : Option (Bool × GoErr) :=
  let a := X.ParseAuthenticode w.Certificate
  if a.2.isSome then some (false, some "fmt.Errorf")        -- does not parse: an error, the later entries are not looked at
  else
    let v := verifyDigestOf X.pkcs7 a.1 cert f
    if v.2.isSome then some (false, v.2)                      -- `verifyDigest` of the entry reports an error: that error
    else if v.1 then some (true, none)                        -- verified
    else none                                                 -- `(false, nil)`: next entry

/-- from any map that satisfies the invariant, the threaded loop is "the first entry that does not answer (false, nil)
    decides", every entry verified against THE SAME UNMEMOISED digest function -/
theorem verifyFrom_eq (X : authenticode.Ext) (p : authenticode.PECOFFBinary) (cert : X509Cert) :
    ∀ (ws : List signature.WINCertificate) (m : Memo), MemoOk X p m →
    verifyFrom X p cert ws m =
      (ws.findSome? (entryVerdict X (imageDigest X p) cert)).getD (false, some "ErrNoValidSignatures") := by
  intro ws
  induction ws with
  | nil => intro m _; rfl
  | cons w ws ih =>
    intro m hm
    have hc := C03g_verifyDigest_callsOnly X.pkcs7 (X.ParseAuthenticode w.Certificate).1 cert Memo
      (authenticode.PECOFFBinary.Verify.imageDigest X p)
      (imageDigest X p) (MemoOk X p) m hm (fun s alg hs => C03g_imageDigest_memo X p s alg hs)
    unfold verifyFrom
    simp only [List.findSome?_cons, entryVerdict]
    by_cases h1 : (X.ParseAuthenticode w.Certificate).2.isSome
    · simp only [h1, if_true, Option.getD_some]
    · simp only [h1, Bool.false_eq_true, if_false]
      rw [hc.2]
      by_cases h2 : (verifyDigestOf X.pkcs7 (X.ParseAuthenticode w.Certificate).1 cert (imageDigest X p)).2.isSome
      · simp only [h2, if_true, Option.getD_some]
      · simp only [h2, Bool.false_eq_true, if_false]
        by_cases h3 : (verifyDigestOf X.pkcs7 (X.ParseAuthenticode w.Certificate).1 cert (imageDigest X p)).1
        · simp only [h3, if_true, Option.getD_some]
        · simp only [h3, Bool.false_eq_true, if_false]
          exact ih _ hc.1

/-- **`Verify cert` in terms of the unmemoised digest function** — for every receiver and EVERY value of the externals
    (no hypothesis):
    * an error of `Signatures()` → `(false, error)`;
    * no entries → `(false, ErrNoSignatures)`;
    * otherwise the entries are asked in table order and THE FIRST ENTRY THAT DOES NOT ANSWER "(false, nil)" DECIDES
      (`entryVerdict`), EVERY ENTRY BEING VERIFIED — by the five checks of `verifyDigestOf` — AGAINST THE SAME DIGEST
      FUNCTION `imageDigest X p`: the digest, under the algorithm asked for, of the bytes of
      `makeSectionReader(p.hashContent)`.  That the library computes that digest once and keeps it in a map cannot be
      observed in the result (`C03g_imageDigest_memo`, `C03g_verifyDigest_callsOnly`). -/
theorem C03g_verify (fuel : Nat) (X : authenticode.Ext) (p : authenticode.PECOFFBinary) (cert : X509Cert) :
    authenticode.PECOFFBinary.Verify fuel X p cert =
      match p.Signatures fuel with
      | (_, some _) => (false, some "fmt.Errorf")
      | ([], none) => (false, some "ErrNoSignatures")
      | (ws, none) => (ws.findSome? (entryVerdict X (imageDigest X p) cert)).getD
          (false, some "ErrNoValidSignatures") := by
  rw [C03g_verify_threaded]
  rcases hs : p.Signatures fuel with ⟨ws, e⟩
  cases e with
  | some e => rfl
  | none =>
    cases ws with
    | nil => rfl
    | cons w ws => exact verifyFrom_eq X p cert (w :: ws) [] (memoOk_nil X p)

/-- an entry lets the loop go on exactly when it parses, names SHA-256, carries the 32-byte SHA-256 digest of the image's
    hash stream, and its PKCS#7 answers `(false, nil)` for the certificate -/
theorem entryVerdict_none_iff (X : authenticode.Ext) (p : authenticode.PECOFFBinary) (cert : X509Cert)
    (w : signature.WINCertificate) :
    entryVerdict X (imageDigest X p) cert w = none ↔
      (X.ParseAuthenticode w.Certificate).2 = none ∧
      (X.ParseAuthenticode w.Certificate).1.Algid.Algorithm = pkcs7.OIDDigestAlgorithmSHA256 ∧
      (X.ParseAuthenticode w.Certificate).1.Digest.length = 32 ∧
      (X.ParseAuthenticode w.Certificate).1.Digest = X.crypto_Hash_Sum 5 (X.makeSectionReader p.hashContent).content ∧
      (X.ParseAuthenticode w.Certificate).1.Pkcs.Verify X.pkcs7 cert = (false, none) := by
  have hf := verifyDigestOf_false_iff X.pkcs7 (X.ParseAuthenticode w.Certificate).1 cert (imageDigest X p)
  have e1 : (imageDigest X p 5).1 = X.crypto_Hash_Sum 5 (X.makeSectionReader p.hashContent).content := rfl
  have e2 : (imageDigest X p 5).2 = none := rfl
  rw [e1, e2] at hf
  simp only [true_and] at hf
  rw [← hf]
  unfold entryVerdict
  simp only []
  rcases hp : X.ParseAuthenticode w.Certificate with ⟨a, pe⟩
  cases pe with
  | some e => simp
  | none =>
    rcases hq : verifyDigestOf X.pkcs7 a cert (imageDigest X p) with ⟨ok, ve⟩
    cases ve with
    | some e => simp
    | none => cases ok <;> simp

/-- **success, spelled out**: `Verify` returns `(true, nil)` exactly when `Signatures()` succeeds and some entry `w` of
    the table
    * parses as Authenticode,
    * names SHA-256 as its digest algorithm,
    * carries a 32-byte digest that IS the SHA-256 (the digest external under `crypto.SHA256`) of the image's hash stream
      (the bytes of `makeSectionReader(hashContent)`),
    * and its PKCS#7 verifies under the certificate (`pkcs7.PKCS7.Verify`: `C04g_verify_true_iff`),
    while every entry before it parsed and answered `(false, nil)` (`entryVerdict_none_iff`: the same four facts with a
    PKCS#7 that answers `(false, nil)`) -/
theorem C03g_verify_true_iff (fuel : Nat) (X : authenticode.Ext) (p : authenticode.PECOFFBinary) (cert : X509Cert) :
    authenticode.PECOFFBinary.Verify fuel X p cert = (true, none) ↔
      ∃ ws, p.Signatures fuel = (ws, none) ∧ ∃ pre w post, ws = pre ++ w :: post ∧
        (∀ x ∈ pre, entryVerdict X (imageDigest X p) cert x = none) ∧
        (X.ParseAuthenticode w.Certificate).2 = none ∧
        (X.ParseAuthenticode w.Certificate).1.Algid.Algorithm = pkcs7.OIDDigestAlgorithmSHA256 ∧
        (X.ParseAuthenticode w.Certificate).1.Digest.length = 32 ∧
        (X.ParseAuthenticode w.Certificate).1.Digest =
          X.crypto_Hash_Sum 5 (X.makeSectionReader p.hashContent).content ∧
        (X.ParseAuthenticode w.Certificate).1.Pkcs.Verify X.pkcs7 cert = (true, none) := by
  rw [C03g_verify fuel X p cert]
  have hv : ∀ w, entryVerdict X (imageDigest X p) cert w = some (true, none) ↔
      ((X.ParseAuthenticode w.Certificate).2 = none ∧
        (X.ParseAuthenticode w.Certificate).1.Algid.Algorithm = pkcs7.OIDDigestAlgorithmSHA256 ∧
        (X.ParseAuthenticode w.Certificate).1.Digest.length = 32 ∧
        (X.ParseAuthenticode w.Certificate).1.Digest =
          X.crypto_Hash_Sum 5 (X.makeSectionReader p.hashContent).content ∧
        (X.ParseAuthenticode w.Certificate).1.Pkcs.Verify X.pkcs7 cert = (true, none)) := by
    intro w
    have hf := verifyDigestOf_true_iff X.pkcs7 (X.ParseAuthenticode w.Certificate).1 cert (imageDigest X p)
    have e1 : (imageDigest X p 5).1 = X.crypto_Hash_Sum 5 (X.makeSectionReader p.hashContent).content := rfl
    have e2 : (imageDigest X p 5).2 = none := rfl
    rw [e1, e2] at hf
    simp only [true_and] at hf
    rw [← hf]
    unfold entryVerdict
    simp only []
    rcases hp : X.ParseAuthenticode w.Certificate with ⟨a, pe⟩
    cases pe with
    | some e => simp
    | none =>
      rcases hq : verifyDigestOf X.pkcs7 a cert (imageDigest X p) with ⟨ok, ve⟩
      cases ve with
      | some e => simp
      | none => cases ok <;> simp
  have hfind : ∀ ws : List signature.WINCertificate,
      (ws.findSome? (entryVerdict X (imageDigest X p) cert)).getD
        (false, some "ErrNoValidSignatures") = (true, none) ↔
      ∃ pre w post, ws = pre ++ w :: post ∧
        (∀ x ∈ pre, entryVerdict X (imageDigest X p) cert x = none) ∧
        entryVerdict X (imageDigest X p) cert w = some (true, none) := by
    intro ws
    induction ws with
    | nil => simp
    | cons x xs ih =>
      rw [List.findSome?_cons]
      cases hx : entryVerdict X (imageDigest X p) cert x with
      | some v =>
        simp only [Option.getD_some]
        constructor
        · intro hvt; exact ⟨[], x, xs, rfl, by simp, by rw [hx, hvt]⟩
        · rintro ⟨pre, w, post, heq, hpre, hw⟩
          cases pre with
          | nil =>
            simp only [List.nil_append, List.cons.injEq] at heq
            rw [← heq.1, hx] at hw
            exact Option.some.inj hw
          | cons y ys =>
            simp only [List.cons_append, List.cons.injEq] at heq
            have := hpre y (by simp)
            rw [← heq.1, hx] at this
            cases this
      | none =>
        simp only []
        rw [ih]
        constructor
        · rintro ⟨pre, w, post, heq, hpre, hw⟩
          refine ⟨x :: pre, w, post, by rw [heq]; rfl, ?_, hw⟩
          intro y hy
          cases hy with
          | head => exact hx
          | tail _ hy => exact hpre y hy
        · rintro ⟨pre, w, post, heq, hpre, hw⟩
          cases pre with
          | nil =>
            simp only [List.nil_append, List.cons.injEq] at heq
            rw [← heq.1, hx] at hw
            cases hw
          | cons y ys =>
            simp only [List.cons_append, List.cons.injEq] at heq
            exact ⟨ys, w, post, heq.2, fun z hz => hpre z (List.mem_cons_of_mem _ hz), hw⟩
  rcases hs : p.Signatures fuel with ⟨ws, e⟩
  cases e with
  | some e => simp
  | none =>
    cases ws with
    | nil => simp
    | cons w0 ws0 =>
      simp only []
      rw [hfind]
      constructor
      · rintro ⟨pre, w, post, heq, hpre, hw⟩
        exact ⟨w0 :: ws0, rfl, pre, w, post, heq, hpre, (hv w).mp hw⟩
      · rintro ⟨ws, hws, pre, w, post, heq, hpre, hw⟩
        simp only [Prod.mk.injEq, and_true] at hws
        exact ⟨pre, w, post, by rw [hws, heq], hpre, (hv w).mpr hw⟩

/-- an entry that does not parse ends the loop with an error when every entry before it answered `(false, nil)` —
    whatever stands behind it -/
theorem C03g_verify_unparsable_entry (fuel : Nat) (X : authenticode.Ext) (p : authenticode.PECOFFBinary)
    (cert : X509Cert) (pre post : List signature.WINCertificate) (w : signature.WINCertificate)
    (hs : p.Signatures fuel = (pre ++ w :: post, none))
    (hpre : ∀ x ∈ pre, entryVerdict X (imageDigest X p) cert x = none)
    (hw : (X.ParseAuthenticode w.Certificate).2.isSome) :
    authenticode.PECOFFBinary.Verify fuel X p cert = (false, some "fmt.Errorf") := by
  rw [C03g_verify fuel X p cert, hs]
  have hv : entryVerdict X (imageDigest X p) cert w = some (false, some "fmt.Errorf") := by
    unfold entryVerdict; simp only [hw, if_true]
  have hf : ∀ pre : List signature.WINCertificate,
      (∀ x ∈ pre, entryVerdict X (imageDigest X p) cert x = none) →
      (pre ++ w :: post).findSome? (entryVerdict X (imageDigest X p) cert) =
      some (false, some "fmt.Errorf") := by
    intro pre
    induction pre with
    | nil => intro _; simp [hv]
    | cons y ys ih =>
      intro hpre
      rw [List.cons_append, List.findSome?_cons, hpre y (by simp)]
      exact ih (fun x hx => hpre x (List.mem_cons_of_mem _ hx))
  have hf := hf pre hpre
  cases hpw : pre ++ w :: post with
  | nil => simp at hpw
  | cons a as =>
    rw [hpw] at hf
    simp only [hf, Option.getD_some]

/-- … in particular the very first entry: if it does not parse, `Verify` fails -/
theorem C03g_verify_first_unparsable (fuel : Nat) (X : authenticode.Ext) (p : authenticode.PECOFFBinary)
    (cert : X509Cert) (w : signature.WINCertificate) (post : List signature.WINCertificate)
    (hs : p.Signatures fuel = (w :: post, none)) (hw : (X.ParseAuthenticode w.Certificate).2.isSome) :
    authenticode.PECOFFBinary.Verify fuel X p cert = (false, some "fmt.Errorf") := by
  rw [C03g_verify_threaded, hs]
  simp only [verifyFrom, hw, if_true]

/-- how a `(Bool, error)` result is read by the model -/
def outcomeOf (r : Bool × GoErr) : Outcome Bool := if r.2.isSome then .err else .ok r.1

/-- the generated constant is the model's object identifier -/
theorem oidSha256_eq : pkcs7.OIDDigestAlgorithmSHA256 = Impl.oidSha256.map Int.ofNat := by decide

/-- **the translated `verifyDigest` is the model's `Auth.verify`** on a parsed value that carries the model's fields: the
    same object identifier, the same embedded digest, and a PKCS#7 whose translated `Verify` gives the model's outcome —
    when the digest external under `crypto.SHA256` is the model's SHA-256 and the bytes of
    `makeSectionReader(hashContent)` are the model's hash stream -/
theorem C03g_verifyDigest_model (X : authenticode.Ext) (p : authenticode.PECOFFBinary) (cert : X509Cert)
    (C : Crypto) (c : Cert) (parts : List Impl.Part) (regular : Bool) (a : Impl.Auth) (ga : authenticode.Authenticode)
    (hstream : (X.makeSectionReader p.hashContent).content = Impl.hashStream (absP p parts regular))
    (hsha : ∀ bs, X.crypto_Hash_Sum 5 bs = C.sha256 bs)
    (halg : ga.Algid.Algorithm = a.alg.map Int.ofNat)
    (hdig : ga.Digest = a.digest)
    (hpk : outcomeOf (ga.Pkcs.Verify X.pkcs7 cert) = a.pkcs.verify C c) :
    outcomeOf (verifyDigestOf X.pkcs7 ga cert (imageDigest X p)) =
      a.verify C c (Impl.hashStream (absP p parts regular)) := by
  unfold verifyDigestOf Impl.Auth.verify imageDigest
  rw [hstream, hsha, halg, hdig, oidSha256_eq]
  have hinj : (List.map Int.ofNat a.alg = List.map Int.ofNat Impl.oidSha256) ↔ a.alg = Impl.oidSha256 :=
    List.map_inj_right (fun x y h => Int.ofNat.inj h)
  by_cases h1 : a.alg = Impl.oidSha256
  · have h1' : List.map Int.ofNat a.alg = List.map Int.ofNat Impl.oidSha256 := hinj.mpr h1
    by_cases h2 : a.digest.length = 32
    · by_cases h4 : C.sha256 (Impl.hashStream (absP p parts regular)) = a.digest
      · simp [h1, h2, h4, hpk]
      · simp [h1, h2, h4, outcomeOf]
    · simp [h1, h2, outcomeOf]
  · have h1' : ¬ List.map Int.ofNat a.alg = List.map Int.ofNat Impl.oidSha256 := fun h => h1 (hinj.mp h)
    simp [h1, h1', outcomeOf]

/-- **refinement of the loop**: when
    * the bytes of `makeSectionReader(hashContent)` are the model's hash stream and the digest external under
      `crypto.SHA256` is the model's SHA-256,
    * `ParseAuthenticode` answers as the model's `parseAuthenticode` does — an entry body parses in the translation
      exactly when it does in the model, and the parsed value carries the model's object identifier and embedded digest
      and a PKCS#7 whose translated `Verify` (with pkcs7's external `signerinfo.verify`) gives the model's outcome —
    the translated `Verify` — loop, closure, memo map, `verifyDigest` — is the model's `Impl.Parsed.verify`
    (Model/Authenticode.lean, about which `C02_sound … C02_refines_spec` are proved), for any fuel above the table length -/
theorem C03g_verify_refines (fuel : Nat) (X : authenticode.Ext) (p : authenticode.PECOFFBinary) (cert : X509Cert)
    (C : Crypto) (certsOk : Bytes → Bool) (c : Cert) (parts : List Impl.Part) (regular : Bool)
    (hf : p.certTable.length < fuel)
    (hstream : (X.makeSectionReader p.hashContent).content = Impl.hashStream (absP p parts regular))
    (hsha : ∀ bs, X.crypto_Hash_Sum 5 bs = C.sha256 bs)
    (hparse : ∀ b : List UInt8,
      match Impl.parseAuthenticode certsOk b with
      | none => (X.ParseAuthenticode b).2.isSome
      | some a => (X.ParseAuthenticode b).2 = none ∧
          (X.ParseAuthenticode b).1.Algid.Algorithm = a.alg.map Int.ofNat ∧
          (X.ParseAuthenticode b).1.Digest = a.digest ∧
          outcomeOf ((X.ParseAuthenticode b).1.Pkcs.Verify X.pkcs7 cert) = a.pkcs.verify C c) :
    outcomeOf (authenticode.PECOFFBinary.Verify fuel X p cert) = (absP p parts regular).verify C certsOk c := by
  have hext : ∀ b : List UInt8,
      match Impl.parseAuthenticode certsOk b with
      | none => (X.ParseAuthenticode b).2.isSome
      | some a => (X.ParseAuthenticode b).2 = none ∧
          outcomeOf (verifyDigestOf X.pkcs7 (X.ParseAuthenticode b).1 cert (imageDigest X p)) =
            a.verify C c (Impl.hashStream (absP p parts regular)) := by
    intro b
    have h := hparse b
    cases hm : Impl.parseAuthenticode certsOk b with
    | none => rw [hm] at h; exact h
    | some a =>
      rw [hm] at h
      exact ⟨h.1, C03g_verifyDigest_model X p cert C c parts regular a _ hstream hsha h.2.1 h.2.2.1 h.2.2.2⟩
  rw [C03g_verify fuel X p cert]
  have hloop : ∀ gws : List signature.WINCertificate,
      outcomeOf ((gws.findSome? (entryVerdict X (imageDigest X p) cert)).getD
        (false, some "ErrNoValidSignatures")) =
      Impl.verifySigs C certsOk c (Impl.hashStream (absP p parts regular)) (gws.map absWC) := by
    intro gws
    induction gws with
    | nil => rfl
    | cons w ws ih =>
      have he := hext w.Certificate
      rw [List.findSome?_cons, List.map_cons]
      unfold Impl.verifySigs
      have hc : (absWC w).cert = w.Certificate := rfl
      rw [hc]
      cases hm : Impl.parseAuthenticode certsOk w.Certificate with
      | none =>
        rw [hm] at he
        simp only [entryVerdict, he, if_true, Option.getD_some]
        rfl
      | some a =>
        rw [hm] at he
        obtain ⟨hp, hv⟩ := he
        simp only [entryVerdict, hp, Option.isSome_none, Bool.false_eq_true, if_false]
        rcases hq : verifyDigestOf X.pkcs7 (X.ParseAuthenticode w.Certificate).1 cert (imageDigest X p) with ⟨ok, ve⟩
        rw [hq] at hv
        rw [← hv]
        cases ve with
        | some e => simp [outcomeOf]
        | none =>
          cases ok with
          | true => simp [outcomeOf]
          | false => simpa [outcomeOf] using ih
  have hsig := C03g_signatures fuel p parts regular hf
  unfold Impl.Parsed.verify
  cases hm : (absP p parts regular).signatures with
  | ok ws =>
    rw [hm] at hsig
    obtain ⟨gws, hg, hmap⟩ := hsig
    rw [hg]
    cases gws with
    | nil => simp at hmap; subst hmap; rfl
    | cons w gws =>
      have := hloop (w :: gws)
      rw [hmap] at this
      rw [← hmap] at this ⊢
      simp only [List.map_cons] at this ⊢
      exact this
  | err =>
    rw [hm] at hsig
    obtain ⟨_, _, _, e, _, hg, _⟩ := hsig
    rw [hg]
    cases hw : goWrap (some e) with
    | none => simp [goWrap] at hw
    | some e' => rfl
  | panic => exact absurd hm (C03g_signatures_model_returns _).1
  | exit => exact absurd hm (C03g_signatures_model_returns _).2

/-! ### `Bytes()` / `Open()` -/

/-- **`Bytes()` and `Open()`** (readers that do not fail): the bytes of `firstSection`, the 8 bytes of `optDataDir`, the
    bytes of `lastSection`, the padding, the certificate table — in this order, nothing else -/
theorem C03g_bytes (p : authenticode.PECOFFBinary) :
    p.Bytes = p.firstSection.content ++ p.optDataDir.content ++ p.lastSection.content ++ p.padding ++ p.certTable ∧
    p.Open = p.Bytes := by
  unfold authenticode.PECOFFBinary.Bytes authenticode.PECOFFBinary.Open authenticode.copySectionReader
  simp

/-- the certificate table is the tail of `Bytes()` — what the harness observes of the real object -/
theorem C03g_bytes_tail (p : authenticode.PECOFFBinary) :
    p.Bytes.drop (p.Bytes.length - p.certTable.length) = p.certTable := by
  rw [(C03g_bytes p).1]
  simp only [List.length_append]
  rw [List.drop_append_of_le_length (by simp only [List.length_append]; omega)]
  have : p.firstSection.content.length + p.optDataDir.content.length + p.lastSection.content.length +
      p.padding.length + p.certTable.length - p.certTable.length =
      (p.firstSection.content ++ p.optDataDir.content ++ p.lastSection.content ++ p.padding).length := by
    simp only [List.length_append]; omega
  rw [this, List.drop_length, List.nil_append]

/-- refinement: `Bytes()` is the model's `Impl.Parsed.bytes` when the padding bytes are zero (as `Parse` makes them) -/
theorem C03g_bytes_refines (p : authenticode.PECOFFBinary) (parts : List Impl.Part) (regular : Bool)
    (hz : p.padding = zeros p.padding.length) :
    p.Bytes = (absP p parts regular).bytes := by
  rw [(C03g_bytes p).1]
  unfold Impl.Parsed.bytes absP
  simp only
  rw [← hz]

/-- after `AppendSignature`: the file is the old file with the 8 bytes of the directory entry replaced and the new entry
    (with its padding) appended; the prefix up to the entry, the bytes between the entry and the table, and the padding
    are untouched -/
theorem C03g_bytes_after_append (p : authenticode.PECOFFBinary) (sig : List UInt8) :
    (p.AppendSignature sig).1.Bytes =
      p.firstSection.content ++
        (le32 (newDatadir p sig).VirtualAddress.toNat ++ le32 (newDatadir p sig).Size.toNat) ++
        p.lastSection.content ++ p.padding ++ p.certTable ++ newEntryBytes sig := by
  rw [(C03g_bytes _).1, C03g_append]
  simp only [List.append_assoc]

/-! ### non-vacuity: a small concrete receiver -/
section NonVacuity

/-- an unsigned object: empty table, directory entry (0, 0), `length` 352, three bytes of padding -/
def p0 : authenticode.PECOFFBinary :=
  ⟨⟨0, 0⟩, ⟨7⟩, 352, [0, 0, 0], ⟨[0, 0, 0, 0, 0, 0, 0, 0]⟩, [], ⟨[0x4d, 0x5a]⟩, ⟨[9, 9]⟩⟩
/-- the digest that `X0`'s digest external answers for algorithm `alg` on the image's hash input `[0xaa]`: 32 bytes -/
def dig0 (alg : UInt8) : List UInt8 := List.replicate 31 alg ++ [0xaa]
/-- externals: signing yields `[1, 2, 3]`; an entry body parses unless it is empty, as a value that names SHA-256, embeds
    `dig0 5` (the digest of the image under SHA-256: the digest external puts 31 copies of the algorithm in front of the
    bytes, the image's hash input is `[0xaa]`) and holds a PKCS#7 over the entry body with two signer entries, naming
    serial numbers 1 and 2; `signerinfo.verify` accepts iff the content starts with the first byte of the certificate's
    `Raw` -/
def X0 : authenticode.Ext :=
  { pkcs7 := { signerinfo_verify := fun _ c content => (content.head? == c.Raw.head?, none) },
    SignAuthenticode := fun _ _ r _ => (r, [1, 2, 3], none),
    ParseAuthenticode := fun b =>
      (⟨⟨⟨⟩, [⟨1, [], ⟨⟩, ⟨⟨⟩, [], ⟨⟩, [], []⟩, ⟨⟩, ⟨[], 1⟩⟩, ⟨1, [], ⟨⟩, ⟨⟨⟩, [], ⟨⟩, [], []⟩, ⟨⟩, ⟨[], 2⟩⟩], b, [], ⟨⟩⟩,
        ⟨pkcs7.OIDDigestAlgorithmSHA256, ⟨⟩⟩, dig0 5⟩, if b.isEmpty then some "parse" else none),
    makeSectionReader := fun _ => ⟨[0xaa]⟩,
    crypto_Hash_Sum := fun alg bs => List.replicate 31 alg.toUInt8 ++ bs }
def certA : X509Cert := ⟨[1], [], [], 1⟩
def certB : X509Cert := ⟨[5], [], [], 2⟩

example : (p0.AppendSignature [1, 2, 3]).1.certTable = [11, 0, 0, 0, 0, 2, 2, 0, 1, 2, 3, 0, 0, 0, 0, 0] ∧
    (p0.AppendSignature [1, 2, 3]).1.Datadir = ⟨352, 16⟩ ∧
    (p0.AppendSignature [1, 2, 3]).1.optDataDir = ⟨[0x60, 1, 0, 0, 16, 0, 0, 0]⟩ ∧
    (p0.AppendSignature [1, 2, 3]).2 = none := by decide +kernel
/-- a second signature: the address is kept, the size grows to 40 -/
example : ((p0.AppendSignature [1, 2, 3]).1.AppendSignature [5, 6, 7, 8, 9, 10, 11, 12, 13]).1.Datadir = ⟨352, 40⟩ ∧
    (((p0.AppendSignature [1, 2, 3]).1.AppendSignature [5, 6, 7, 8, 9, 10, 11, 12, 13]).1.Signatures 41).1.map
      (fun w => (w.Length, w.Certificate)) = [(11, [1, 2, 3]), (17, [5, 6, 7, 8, 9, 10, 11, 12, 13])] := by
  decide +kernel
example : (authenticode.PECOFFBinary.Sign X0 p0 ⟨0⟩ certA).1 = (p0.AppendSignature [1, 2, 3]).1 :=
  C03g_sign_ok X0 p0 ⟨0⟩ certA (by decide +kernel)
example : (authenticode.PECOFFBinary.Sign X0 p0 ⟨0⟩ certA).1.Bytes =
    [0x4d, 0x5a, 0x60, 1, 0, 0, 16, 0, 0, 0, 9, 9, 0, 0, 0, 11, 0, 0, 0, 0, 2, 2, 0, 1, 2, 3, 0, 0, 0, 0, 0] := by
  decide +kernel
/-- the closure: the first call hashes and stores, the second answers from the map and leaves it as it is; another
    algorithm gets its own entry -/
example : authenticode.PECOFFBinary.Verify.imageDigest X0 p0 [] 5 = ([(5, dig0 5)], dig0 5, none) ∧
    authenticode.PECOFFBinary.Verify.imageDigest X0 p0 [(5, dig0 5)] 5 = ([(5, dig0 5)], dig0 5, none) ∧
    authenticode.PECOFFBinary.Verify.imageDigest X0 p0 [(5, dig0 5)] 7 =
      ([(7, dig0 7), (5, dig0 5)], dig0 7, none) ∧
    imageDigest X0 p0 5 = (dig0 5, none) := by decide +kernel
/-- a map that does NOT satisfy the invariant is answered from (why `MemoOk` is a hypothesis of `C03g_imageDigest_memo`;
    `Verify` starts from the empty map) -/
example : (authenticode.PECOFFBinary.Verify.imageDigest X0 p0 [(5, [0])] 5).2 = ([0], none) := by decide +kernel
/-- two entries, neither by B: the map the second entry is handed holds the digest that the first one asked for -/
example : verifyFrom X0 p0 certB [newEntry [1, 2, 3], newEntry [1]] [] =
      verifyFrom X0 p0 certB [newEntry [1]] [(5, dig0 5)] ∧
    verifyFrom X0 p0 certB [newEntry [1, 2, 3], newEntry [1]] [] = (false, some "ErrNoValidSignatures") := by
  decide +kernel
/-- the five cases of `verifyDigest` on the closure of `p0` (`C03g_verifyDigest`), the map it leaves in front: another
    algorithm and a digest of the wrong length leave the map EMPTY (the closure is not called); a wrong digest and the
    two PKCS#7 verdicts leave the digest under SHA-256 in it -/
def a0 : authenticode.Authenticode := (X0.ParseAuthenticode [1, 2, 3]).1
def vd0 (a : authenticode.Authenticode) (c : X509Cert) : Memo × Bool × GoErr :=
  authenticode.Authenticode.verifyDigest X0.pkcs7 a c Memo (authenticode.PECOFFBinary.Verify.imageDigest X0 p0) []
example : vd0 ⟨a0.Pkcs, ⟨[1, 2], ⟨⟩⟩, a0.Digest⟩ certA = ([], false, some "errors.New") := by decide +kernel
example : vd0 ⟨a0.Pkcs, a0.Algid, [5, 0xaa]⟩ certA = ([], false, some "errors.New") := by decide +kernel
example : vd0 ⟨a0.Pkcs, a0.Algid, dig0 4⟩ certA = ([(5, dig0 5)], false, some "errors.New") := by decide +kernel
example : vd0 a0 certA = ([(5, dig0 5)], true, none) := by decide +kernel
example : vd0 a0 certB = ([(5, dig0 5)], false, none) := by decide +kernel
/-- the exported `(*Authenticode).Verify` on a reader that delivers the hash input / something else -/
example : authenticode.Authenticode.Verify X0 (X0.ParseAuthenticode [1, 2, 3]).1 certA [0xaa] = ([], true, none) ∧
    authenticode.Authenticode.Verify X0 (X0.ParseAuthenticode [1, 2, 3]).1 certA [0xab] =
      ([], false, some "errors.New") := by decide +kernel
/-- `Verify`: no signatures; signed by A; the second of two entries decides for B; a failed signing changes nothing -/
example : authenticode.PECOFFBinary.Verify 1 X0 p0 certA = (false, some "ErrNoSignatures") := by decide +kernel
example : authenticode.PECOFFBinary.Verify 17 X0 (p0.AppendSignature [1, 2, 3]).1 certA = (true, none) ∧
    authenticode.PECOFFBinary.Verify 17 X0 (p0.AppendSignature [1, 2, 3]).1 certB =
      (false, some "ErrNoValidSignatures") := by decide +kernel
example : authenticode.PECOFFBinary.Verify 41 X0
    ((p0.AppendSignature [1, 2, 3]).1.AppendSignature [5, 6, 7, 8, 9, 10, 11, 12, 13]).1 certB = (true, none) := by
  decide +kernel
example : (authenticode.PECOFFBinary.Sign { X0 with SignAuthenticode := fun _ _ r _ => (r, [], some "hsm") } p0 ⟨0⟩ certA)
    = (p0, [], some "fmt.Errorf") := by decide +kernel
/-- the hypotheses of `C03g_append_then_signatures` hold for `p0` and for the signed `p0` -/
example := C03g_append_then_signatures p0 [1, 2, 3] [] 1 17 (by decide +kernel) (by decide +kernel) (by decide)
  (by decide) (by decide +kernel)
example := C03g_append_then_signatures (p0.AppendSignature [1, 2, 3]).1 [5, 6, 7, 8, 9, 10, 11, 12, 13]
  [newEntry [1, 2, 3]] 17 41 (by decide +kernel) (by decide +kernel) (by decide) (by decide) (by decide +kernel)

/-! #### what the hypotheses of `C03g_append_then_signatures` exclude — how the library behaves there

(a) AN EMPTY SIGNATURE is written as an 8-byte entry that `Signatures()` does not list (it stops at 8 bytes). -/
example : ((p0.AppendSignature []).1.Signatures 9) = ([], none) ∧
    (p0.AppendSignature []).1.certTable = [8, 0, 0, 0, 0, 2, 2, 0] := by decide +kernel
/-- (b) A TABLE THAT IS NOT 8-ALIGNED (its last entry lacks its padding: 11 bytes).  `Signatures()` lists the entry and
    is at the end.  `AppendSignature` does not re-align: the new entry starts at offset 11, `Signatures()` then skips
    the 5 padding bytes that the OLD entry should have had — which are the first 5 bytes of the NEW entry — and reads a
    header out of the middle of it: an error here (in general: garbage).  `Datadir.Size` still is the length of the
    table (11 + 16 = 27), which is no longer a multiple of 8: `Parse` refuses what `Bytes()` then returns. -/
def pCut : authenticode.PECOFFBinary := { p0 with Datadir := ⟨352, 11⟩, certTable := [11, 0, 0, 0, 0, 2, 2, 0, 1, 2, 3] }
example : (pCut.Signatures 12).1.map (fun w => w.Certificate) = [[1, 2, 3]] ∧ (pCut.Signatures 12).2 = none ∧
    ((pCut.AppendSignature [4, 5, 6]).1.Signatures 28) = ([], some "%w:ErrParse") ∧
    (pCut.AppendSignature [4, 5, 6]).1.Datadir = ⟨352, 27⟩ := by decide +kernel
/-- (c) EIGHT BYTES LEFT OVER at the end of an aligned table (here: an entry with an empty body, which the walk does not
    list) become the header of an entry as soon as something is appended -/
def pTail : authenticode.PECOFFBinary := { p0 with Datadir := ⟨352, 8⟩, certTable := [8, 0, 0, 0, 0, 2, 2, 0] }
example : (pTail.Signatures 9) = ([], none) ∧
    ((pTail.AppendSignature [1, 2, 3]).1.Signatures 25).1.map (fun w => w.Certificate) = [[], [1, 2, 3]] := by
  decide +kernel
/-- (d) `uint32` WRAP-AROUND of the directory size: nothing checks it.  With `Size = 2^32 - 8` the size after appending
    a 16-byte entry is 8. -/
example : (({ p0 with Datadir := ⟨352, 4294967288⟩ } : authenticode.PECOFFBinary).AppendSignature [1, 2, 3]).1.Datadir =
    ⟨352, 8⟩ := by decide +kernel
/-- (e) an unparsable entry in front of a valid one: `Verify` fails although the second entry verifies for A -/
def pTwo : authenticode.PECOFFBinary :=
  { p0 with Datadir := ⟨352, 32⟩,
            certTable := [9, 0, 0, 0, 0, 2, 2, 0, 7, 0, 0, 0, 0, 0, 0, 0] ++ [9, 0, 0, 0, 0, 2, 2, 0, 1, 0, 0, 0, 0, 0, 0, 0] }
example : authenticode.PECOFFBinary.Verify 33 X0 pTwo certA = (true, none) ∧
    authenticode.PECOFFBinary.Verify 33
      { X0 with ParseAuthenticode := fun b => ((X0.ParseAuthenticode b).1, if b == [7] then some "parse" else none) }
      pTwo certA = (false, some "fmt.Errorf") := by decide +kernel

end NonVacuity

end GoUefi.C03

#print axioms GoUefi.C03.C03g_append
#print axioms GoUefi.C03.C03g_append_numbers
#print axioms GoUefi.C03.C03g_append_no_overflow
#print axioms GoUefi.C03.C03g_append_refines
#print axioms GoUefi.C03.C03g_signatures_table
#print axioms GoUefi.C03.C03g_frame
#print axioms GoUefi.C03.C03g_signatures_step
#print axioms GoUefi.C03.C03g_signatures
#print axioms GoUefi.C03.C03g_signatures_model_returns
#print axioms GoUefi.C03.C03g_signatures_fuel
#print axioms GoUefi.C03.C03g_append_then_signatures
#print axioms GoUefi.C03.C03g_sign
#print axioms GoUefi.C03.C03g_sign_failed_unchanged
#print axioms GoUefi.C03.C03g_sign_ok
#print axioms GoUefi.C03.C03g_imageDigest_step
#print axioms GoUefi.C03.C03g_imageDigest_memo
#print axioms GoUefi.C03.C03g_verifyDigest
#print axioms GoUefi.C03.C03g_verifyDigest_callsOnly
#print axioms GoUefi.C03.verifyDigestOf_true_iff
#print axioms GoUefi.C03.verifyDigestOf_false_iff
#print axioms GoUefi.C03.entryVerdict_none_iff
#print axioms GoUefi.C03.C03g_authenticode_verify
#print axioms GoUefi.C03.C03g_verify_threaded
#print axioms GoUefi.C03.C03g_verify
#print axioms GoUefi.C03.C03g_verify_true_iff
#print axioms GoUefi.C03.C03g_verify_unparsable_entry
#print axioms GoUefi.C03.C03g_verify_first_unparsable
#print axioms GoUefi.C03.C03g_verify_refines
#print axioms GoUefi.C03.C03g_verifyDigest_model
#print axioms GoUefi.C03.C03g_bytes
#print axioms GoUefi.C03.C03g_bytes_tail
#print axioms GoUefi.C03.C03g_bytes_refines
#print axioms GoUefi.C03.C03g_bytes_after_append
