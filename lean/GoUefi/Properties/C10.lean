import GoUefi.Lemmas.AuthDesc
/-!
# C10 — authentication descriptors and WIN_CERTIFICATEs decode by declared length and round-trip

Only the property theorems and their non-vacuity examples live here.
Model: `GoUefi/Model/AuthDesc.lean` (efi/signature/varsign.go); helper lemmas and the
well-formedness predicate `Impl.AuthDesc.WF`: `GoUefi/Lemmas/AuthDesc.lean`.
-/
namespace GoUefi.C10
open GoUefi

/-- A WIN_CERTIFICATE whose dwLength is 8 + |body| decodes to exactly its fields: the reader
    consumes dwLength bytes, and whatever follows (`rest`) is handed back untouched. -/
theorem C10_wincert_decode (body rest : Bytes) (ctype : Nat)
    (h : body.length + 8 < 2^32) (hc : ctype < 2^16) :
    Impl.readWinCert (le32 (8 + body.length) ++ le16 0x0200 ++ le16 ctype ++ body ++ rest) =
      .ok (⟨8 + body.length, 0x0200, ctype, body⟩, rest) :=
  Impl.readWinCert_enc body rest ctype h hc

/-- Writing back a decoded WIN_CERTIFICATE, followed by the unread rest, reproduces the input. -/
theorem C10_wincert_decode_encode (bs : Bytes) (w : Impl.WinCert) (rest : Bytes)
    (h : Impl.readWinCert bs = .ok (w, rest)) : Impl.writeWinCert w ++ rest = bs :=
  Impl.writeWinCert_readWinCert h

/-- Decoding the specified layout of an EFI_VARIABLE_AUTHENTICATION_2 recovers every field; the
    descriptor occupies exactly 16 + dwLength bytes and the payload `rest` that follows is returned
    untouched. -/
theorem C10_decode (a : Spec.Auth) (rest : Bytes) (h : a.WF) (hrev : a.rev = 0x0200)
    (hct : a.ctype = 0x0EF1) :
    (Spec.encAuth a).length = 16 + a.dwLength ∧
    Impl.readAuth (Spec.encAuth a ++ rest) =
      .ok (⟨a.time, ⟨⟨a.dwLength, a.rev, a.ctype, []⟩, a.guid, a.data⟩⟩, rest) := by
  refine ⟨?_, readAuth_encAuth a rest h hrev hct⟩
  obtain ⟨ht, hg, hdw, _⟩ := h
  simp [Spec.encAuth, ht, hg, hdw]; omega

/-- The writer emits the specified layout, and decoding what it wrote returns the value, for every
    well-formed descriptor. -/
theorem C10_encode_decode (d : Impl.AuthDesc) (rest : Bytes) (h : d.WF) :
    Impl.writeAuth d = Spec.encAuth ⟨d.time, d.auth.hdr.length, d.auth.hdr.rev, d.auth.hdr.ctype,
      d.auth.certType, d.auth.data⟩ ∧
    Impl.readAuth (Impl.writeAuth d ++ rest) = .ok (d, rest) :=
  ⟨writeAuth_eq_encAuth d h.2.2.1, readAuth_writeAuth d rest h⟩

/-- Every successfully decoded descriptor is well-formed (so `C10_encode_decode` applies to it). -/
theorem C10_decoded_wf (bs : Bytes) (d : Impl.AuthDesc) (rest : Bytes)
    (h : Impl.readAuth bs = .ok (d, rest)) : d.WF :=
  Impl.readAuth_wf h

/-- Writing back a decoded descriptor, followed by the payload, reproduces the input bytes. -/
theorem C10_decode_encode (bs : Bytes) (d : Impl.AuthDesc) (rest : Bytes)
    (h : Impl.readAuth bs = .ok (d, rest)) : Impl.writeAuth d ++ rest = bs :=
  writeAuth_readAuth h

/-- Whenever the reader succeeds it agrees with the specification's decode-by-declared-length. -/
theorem C10_refines_spec (bs : Bytes) (d : Impl.AuthDesc) (rest : Bytes)
    (h : Impl.readAuth bs = .ok (d, rest)) :
    Spec.decodeAuth bs = some (⟨d.time, d.auth.hdr.length, d.auth.hdr.rev, d.auth.hdr.ctype,
      d.auth.certType, d.auth.data⟩, rest) :=
  decodeAuth_readAuth h

/-! ### non-vacuity: concrete values meeting the hypotheses -/
example : (⟨zeros 16, 27, 0x0200, 0x0EF1, zeros 16, [1, 2, 3]⟩ : Spec.Auth).WF := by decide
example : Impl.readAuth (Spec.encAuth ⟨zeros 16, 27, 0x0200, 0x0EF1, zeros 16, [1, 2, 3]⟩ ++ [9, 9]) =
    .ok (⟨zeros 16, ⟨⟨27, 0x0200, 0x0EF1, []⟩, zeros 16, [1, 2, 3]⟩⟩, [9, 9]) := by decide
example : (⟨zeros 16, ⟨⟨27, 0x0200, 0x0EF1, []⟩, zeros 16, [1, 2, 3]⟩⟩ : Impl.AuthDesc).WF := by decide
example : Impl.readWinCert (le32 (8 + 2) ++ le16 0x0200 ++ le16 2 ++ [7, 8] ++ [5]) =
    .ok (⟨10, 0x0200, 2, [7, 8]⟩, [5]) := by decide
/-- a header that declares more than is present is rejected (nothing is read past the input) -/
example : Impl.readWinCert (le32 100 ++ le16 0x0200 ++ le16 2 ++ [7, 8]) = .err := by decide

#print axioms C10_wincert_decode
#print axioms C10_wincert_decode_encode
#print axioms C10_decode
#print axioms C10_encode_decode
#print axioms C10_decoded_wf
#print axioms C10_decode_encode
#print axioms C10_refines_spec

end GoUefi.C10
