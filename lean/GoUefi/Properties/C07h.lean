import GoUefi.Properties.C08g
import GoUefi.Properties.C09h
/-!
# C07 (generated tie, second part) — the encoding is a homomorphism of the list sequence

For the encoder as translated from the source (`SignatureDatabase.Bytes` / `SignatureList.Bytes`,
`efi/signature`), and the translated `AppendList` / `AppendDatabase` / `RemoveList`: the encoding of a
database is the concatenation of the encodings of its lists, in order — so joining two databases
joins their encodings, handing over a list appends its encoding, and removing a list cuts exactly
its bytes out of the stream and moves nothing else.  Every database whose GUID values have their
eight `Data4` bytes (`DbOK`, what a Go `[8]uint8` always has); no invariant, no size hypothesis.
-/
namespace GoUefi.C07
open GoUefi GoUefi.Gen GoUefi.C09 GoUefi.C08

theorem encDb_append (a b : Impl.Db) : Impl.encDb (a ++ b) = Impl.encDb a ++ Impl.encDb b := by
  simp [Impl.encDb]

theorem dbOK_append {a b : signature.SignatureDatabase} : DbOK (a ++ b) ↔ DbOK a ∧ DbOK b := by
  unfold DbOK
  constructor
  · intro h
    exact ⟨fun l hl => h l (List.mem_append_left _ hl), fun l hl => h l (List.mem_append_right _ hl)⟩
  · rintro ⟨h1, h2⟩ l hl
    rcases List.mem_append.mp hl with h | h
    · exact h1 l h
    · exact h2 l h

theorem C07h_empty_bytes : signature.SignatureDatabase.Bytes [] = [] := by
  rw [(C07g_dbBytes [] (by intro l hl; cases hl)).1]; rfl

/-- the encoding of a database is the concatenation of its lists' encodings, in order -/
theorem C07h_bytes_flatten (sd : signature.SignatureDatabase) (h : DbOK sd) :
    sd.Bytes = (sd.map fun l => l.Bytes).flatten := by
  rw [(C07g_dbBytes sd h).1]
  induction sd with
  | nil => rfl
  | cons l rest ih =>
    have hl : ListOK l := h l (by simp)
    have hr : DbOK rest := fun y hy => h y (by simp [hy])
    have := ih hr
    simp only [absDb, Impl.encDb, List.map_cons, List.flatten_cons] at this ⊢
    rw [this, C07g_listBytes l hl]

/-- `AppendDatabase` joins the encodings -/
theorem C07h_appendDatabase_bytes (sd s : signature.SignatureDatabase) (h1 : DbOK sd) (h2 : DbOK s) :
    (sd.AppendDatabase s).Bytes = sd.Bytes ++ s.Bytes := by
  rw [C09h_appendDatabase, (C07g_dbBytes _ (dbOK_append.mpr ⟨h1, h2⟩)).1, (C07g_dbBytes _ h1).1,
    (C07g_dbBytes _ h2).1, absDb_append, encDb_append]

/-- `AppendList` appends the list's encoding and leaves the bytes in front as they were -/
theorem C07h_appendList_bytes (sd : signature.SignatureDatabase) (l : signature.SignatureList)
    (h1 : DbOK sd) (hl : ListOK l) :
    (sd.AppendList l).Bytes = sd.Bytes ++ l.Bytes := by
  have hl' : DbOK [l] := by intro x hx; simp at hx; subst hx; exact hl
  have e : sd.AppendList l = sd ++ [l] := by simp [signature.SignatureDatabase.AppendList]
  rw [e, (C07g_dbBytes _ (dbOK_append.mpr ⟨h1, hl'⟩)).1, (C07g_dbBytes _ h1).1, absDb_append,
    encDb_append, C07g_listBytes l hl]
  simp [absDb, Impl.encDb]

/-- `RemoveList` cuts exactly the removed list's bytes out of the stream: what stood in front and
    what stood behind keep their bytes and their order -/
theorem C07h_removeList_bytes (sd : signature.SignatureDatabase) (sl : signature.SignatureList)
    (h : DbOK sd) (hm : sl ∈ sd) :
    ∃ pre rest : signature.SignatureDatabase, sd = pre ++ sl :: rest ∧
      sd.Bytes = pre.Bytes ++ sl.Bytes ++ rest.Bytes ∧
      (sd.RemoveList sl).1.Bytes = pre.Bytes ++ rest.Bytes := by
  obtain ⟨pre, rest, hsd, _, hr⟩ := C09h_removeList_split sd sl hm
  have hok : DbOK (pre ++ sl :: rest) := hsd ▸ h
  have hpre : DbOK pre := (dbOK_append.mp hok).1
  have hsr : DbOK (sl :: rest) := (dbOK_append.mp hok).2
  have hsl : ListOK sl := hsr sl (by simp)
  have hrest : DbOK rest := fun y hy => hsr y (by simp [hy])
  refine ⟨pre, rest, hsd, ?_, ?_⟩
  · have e : sd = (pre.AppendList sl).AppendDatabase rest := by
      rw [C09h_appendDatabase, hsd]; simp [signature.SignatureDatabase.AppendList]
    have hpl : DbOK (pre.AppendList sl) := by
      have : pre.AppendList sl = pre ++ [sl] := by simp [signature.SignatureDatabase.AppendList]
      rw [this]; exact dbOK_append.mpr ⟨hpre, by intro x hx; simp at hx; subst hx; exact hsl⟩
    rw [e, C07h_appendDatabase_bytes _ _ hpl hrest, C07h_appendList_bytes _ _ hpre hsl]
  · rw [hr]
    have := C07h_appendDatabase_bytes pre rest hpre hrest
    rw [C09h_appendDatabase] at this
    exact this

/-- so the length of the stream drops by exactly the length of the removed list's encoding -/
theorem C07h_removeList_length (sd : signature.SignatureDatabase) (sl : signature.SignatureList)
    (h : DbOK sd) (hm : sl ∈ sd) :
    (sd.RemoveList sl).1.Bytes.length + sl.Bytes.length = sd.Bytes.length := by
  obtain ⟨pre, rest, _, h1, h2⟩ := C07h_removeList_bytes sd sl h hm
  rw [h1, h2]; simp; omega

end GoUefi.C07

#print axioms GoUefi.C07.C07h_empty_bytes
#print axioms GoUefi.C07.C07h_bytes_flatten
#print axioms GoUefi.C07.C07h_appendDatabase_bytes
#print axioms GoUefi.C07.C07h_appendList_bytes
#print axioms GoUefi.C07.C07h_removeList_bytes
#print axioms GoUefi.C07.C07h_removeList_length
