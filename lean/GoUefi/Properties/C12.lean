import GoUefi.Lemmas.Store
/-!
# C12 — the in-memory store is a register per variable

Model: `GoUefi/Model/Store.lean` (efivarfs/testfs after the repair: a write replaces the
variable).  Operations `Impl.Op` (`write v b`, `signed v desc payload`, `read v`), their effect
`Impl.step`, `Impl.lastWrite` / `Impl.lastValue` (the most recent write to a variable and its value
argument), the well-formedness `Impl.Op.WF` / `Impl.History.WF` and all helper lemmas are in
`GoUefi/Lemmas/Store.lean`; only the property theorems and their non-vacuity examples live here.

`History.WF ops` = every operation of the history is well formed:
  * `write v b`: if `v` is PK/KEK/db/dbx then `b` decodes as a signature database
    (then `encDb db = b` by C08);
  * `signed v desc payload`: `v` is PK/KEK/db/dbx, `desc ++ payload` parses as an authentication
    descriptor leaving exactly `payload` (what C06/C10 establish for library-produced updates), and
    `payload` decodes as a signature database;
  * nothing about the initial store (it is not a parameter), nothing about other variables.
-/
namespace GoUefi.C12
open GoUefi GoUefi.Impl

/-- A signature-database encoding never parses as an authentication descriptor (the empty database
    is too short; otherwise bytes 20–21 — the low half of the first list's HeaderSize — are 0 where
    a descriptor needs wRevision 0x0200), so the store keeps a written database exactly as it is,
    under every variable name. -/
theorem C12_db_is_not_a_descriptor {b : Bytes} {db : Db} (h : readDb b = some db) :
    (∀ x, readAuth b ≠ .ok x) ∧ readAuth b = .err ∧ ∀ v, storedValue v b = b := by
  refine ⟨fun x hx => ?_, readAuth_of_readDb h, fun v => storedValue_of_readDb v h⟩
  rw [readAuth_of_readDb h] at hx
  nomatch hx

/-- The store is one register per variable: after a well-formed history run from ANY store, a
    typed read of `v` returns the value argument of the most recent write to `v` — for secure-boot
    variables the database encoding that was written, resp. the signed update's payload with the
    descriptor removed — and the initial content when no operation wrote `v`. -/
theorem C12_register (ops : List Op) (s : Store) (v : String) (hwf : History.WF ops) :
    (∀ b, lastValue ops v = some b → (ops.foldl step s).read v = .ok b) ∧
    ((∀ op ∈ ops, op.target ≠ some v) → (ops.foldl step s).read v = s.read v) := by
  constructor
  · intro b hb
    unfold lastValue at hb
    cases hl : lastWrite ops v with
    | none => rw [hl] at hb; nomatch hb
    | some op =>
      rw [hl] at hb
      simp only [Option.map_some, Option.some.injEq] at hb
      rw [← hb]
      exact read_foldl_of_lastWrite hl (hwf op (lastWrite_mem hl).1)
  · intro hno
    exact read_foldl_of_none ((lastWrite_eq_none_iff ops v).2 hno)

/-- The same with the weakest hypothesis that works: only the LAST write to `v` has to be well
    formed; everything before it, and every operation on other variables, is arbitrary. -/
theorem C12_register_last (ops : List Op) (s : Store) (v : String) (op : Op)
    (hl : lastWrite ops v = some op) (hwf : op.WF) :
    op ∈ ops ∧ op.target = some v ∧ lastValue ops v = some op.value ∧
    (ops.foldl step s).read v = .ok op.value :=
  ⟨(lastWrite_mem hl).1, (lastWrite_mem hl).2, by rw [lastValue, hl]; rfl,
   read_foldl_of_lastWrite hl hwf⟩

/-- `lastValue` is "most recent": appending an operation that writes `v` makes its value the last
    one; any other operation leaves it alone; and there is none iff no operation wrote `v`. -/
theorem C12_lastValue_spec (ops : List Op) (op : Op) (v : String) :
    lastValue (ops ++ [op]) v = (if op.target = some v then some op.value else lastValue ops v) ∧
    (lastValue ops v = none ↔ ∀ o ∈ ops, o.target ≠ some v) := by
  refine ⟨?_, lastValue_eq_none_iff ops v⟩
  unfold lastValue
  rw [lastWrite_append]
  by_cases h : op.target = some v <;> simp [h]

/-- Writes (plain or signed, well formed or not) to another variable do not change what is read
    from `v`. -/
theorem C12_independent (s : Store) (v w : String) (h : w ≠ v) (b desc payload : Bytes) :
    (s.writeVar w b).read v = s.read v ∧ (s.writeSigned w desc payload).read v = s.read v :=
  ⟨Store.read_congr (Store.get_put_ne s h _), Store.read_congr (Store.get_put_ne s h _)⟩

/-- Writing a shorter value after a longer one reads back the shorter value, not the shorter
    value followed by the tail of the longer one (the case that failed before the repair).
    Nothing is assumed about the first value. -/
theorem C12_shrink (s : Store) (v : String) (b1 b2 : Bytes) (_hlen : b2.length < b1.length)
    (h2 : isSecureBootVar v = true → ∃ db, readDb b2 = some db) :
    ((s.writeVar v b1).writeVar v b2).read v = .ok b2 :=
  (C12_register_last [.write v b1, .write v b2] s v (.write v b2)
    (by simp [lastWrite, Op.target]) h2).2.2.2

/-- F23 repair: a signed update stores the bytes behind the descriptor as they are — whatever
    they are (a database with list types the decoder does not handle, or no database at all).
    No decodability hypothesis: the store no longer decodes and re-encodes the payload. -/
theorem C12_signed_keeps_payload (s : Store) (v : String) (desc payload : Bytes) (d : AuthDesc)
    (hv : isSecureBootVar v = true) (ha : readAuth (desc ++ payload) = .ok (d, payload)) :
    (s.writeSigned v desc payload).get v = some payload := by
  unfold Store.writeSigned
  rw [Store.get_put_same, storedValue_signed hv ha]

/-! ### non-vacuity: concrete values (`Ex.bytes`: the 144-byte two-list database of C08) -/

/-- a decodable database, and a descriptor in front of it that parses leaving exactly it -/
example : readDb Ex.bytes = some Ex.db := by decide +kernel
example : ∃ d, readAuth (Spec.encAuth ⟨zeros 16, 27, 0x0200, 0x0EF1, zeros 16, [1, 2, 3]⟩ ++ Ex.bytes) =
    .ok (d, Ex.bytes) :=
  ⟨(⟨zeros 16, ⟨⟨27, 0x0200, 0x0EF1, []⟩, zeros 16, [1, 2, 3]⟩⟩ : AuthDesc), by decide +kernel⟩
/-- a well-formed history with all three kinds of operation, on secure-boot and other variables -/
example : History.WF
    [.write "db" Ex.bytes, .write "Boot0001" [1, 2, 3], .read "db",
     .signed "db" (Spec.encAuth ⟨zeros 16, 27, 0x0200, 0x0EF1, zeros 16, [1, 2, 3]⟩) (Ex.bytes.take 76),
     .write "Boot0001" [9]] := by
  intro op hop
  simp only [List.mem_cons, List.not_mem_nil, or_false] at hop
  rcases hop with rfl | rfl | rfl | rfl | rfl
  · exact fun _ => ⟨Ex.db, by decide +kernel⟩
  · intro h; exact absurd h (by decide)
  · trivial
  · exact ⟨by decide, ⟨(⟨zeros 16, ⟨⟨27, 0x0200, 0x0EF1, []⟩, zeros 16, [1, 2, 3]⟩⟩ : AuthDesc), by decide +kernel⟩,
      ⟨[Ex.shaList], by decide +kernel⟩⟩
  · intro h; exact absurd h (by decide)
/-- … whose last values are what one expects -/
example : lastValue [.write "db" Ex.bytes, .write "Boot0001" [1, 2, 3], .read "db",
     .signed "db" (Spec.encAuth ⟨zeros 16, 27, 0x0200, 0x0EF1, zeros 16, [1, 2, 3]⟩) (Ex.bytes.take 76),
     .write "Boot0001" [9]] "db" = some (Ex.bytes.take 76) := by decide +kernel
example : lastValue [.write "db" Ex.bytes, .write "Boot0001" [1, 2, 3], .write "Boot0001" [9]] "Boot0001" =
    some [9] := by decide
example : lastValue [.write "db" Ex.bytes, .read "KEK"] "KEK" = none := by decide
/-- the store computes: shrink on a raw variable, starting from a store that already holds it -/
example : ((Store.writeVar [("Boot0001", [7, 7, 7, 7, 7])] "Boot0001" [1, 2, 3]).writeVar "Boot0001" [9]).read "Boot0001" =
    .ok [9] := by decide
/-- the hypothesis of `C12_register` on secure-boot variables is needed: a plain write of bytes
    that are not a database reads back as an error, not as the bytes -/
example : (Store.writeVar [] "db" [1, 2, 3]).read "db" = .err := by decide
/-- … and a signed write to a variable that is not a secure-boot variable keeps the descriptor -/
example : (Store.writeSigned [] "Boot0001" [1, 2] [3]).read "Boot0001" = .ok [1, 2, 3] := by decide

end GoUefi.C12

#print axioms GoUefi.C12.C12_db_is_not_a_descriptor
#print axioms GoUefi.C12.C12_register
#print axioms GoUefi.C12.C12_register_last
#print axioms GoUefi.C12.C12_lastValue_spec
#print axioms GoUefi.C12.C12_independent
#print axioms GoUefi.C12.C12_shrink
#print axioms GoUefi.C12.C12_signed_keeps_payload
