import GoUefi.Gen
import GoUefi.Properties.C12
import GoUefi.Properties.C10g
/-!
# C12 (generated tie) — `testfs.TestFS.WriteVar` as the source has it

Translated by `tools/go2lean` from efivarfs/testfs/testfs.go: `TestFS.WriteVar`, the methods
`payload.Marshal` / `payload.Bytes` and `payload.as_efivar_Marshallable` (the structure that stands for a
`payload` value stored in an `efivar.Marshallable` variable, built from the two translated methods).
What is not translated is a parameter:

* `X : testfs.Externals` — `X.efivarfs_EFIFS_WriteVar` is `(*efivarfs.EFIFS).WriteVar`, the method behind the
  embedded field `f.EFIFS`: a function of that receiver, the variable and the `Marshallable` it is handed.
  Nothing is assumed about it; the theorems say *what it is handed*;
* `t : efivar.Marshallable` — the interface value: `t.Marshal k b` is the content of the buffer after the
  call at the `k`-th syntactic call site of `WriteVar` (there is one: site 0, the probe for a descriptor)
  when the buffer held `b` before.  Nothing is assumed about it: not that it appends, not that a second
  call (the one `EFIFS.WriteVar` makes) does the same.  Where a theorem needs that, it is a hypothesis.

All theorems hold for every `X`, `f`, `v`, `t`.
-/
namespace GoUefi.C12
open GoUefi GoUefi.Gen

/-- the four names for which `WriteVar` probes for an authentication descriptor -/
def gSecure (name : String) : Bool := name == "PK" || name == "KEK" || name == "db" || name == "dbx"

/-- the same predicate as the model's -/
theorem C12g_secure_names (name : String) : gSecure name = Impl.isSecureBootVar name := rfl

theorem C12g_secure_iff (name : String) :
    gSecure name = true ↔ name = "PK" ∨ name = "KEK" ∨ name = "db" ∨ name = "dbx" := by
  simp only [gSecure, Bool.or_eq_true, beq_iff_eq, or_assoc]

/-- a `payload` value `r` stored in the interface: marshals by appending `r`, and its `Bytes` is `r` —
    at every call site -/
def gPayload (r : List UInt8) : efivar.Marshallable := { Bytes := fun _ => r, Marshal := fun _ b => b ++ r }

/-- … which is what the translator builds from the translated methods of `payload` -/
theorem C12g_payload (r : List UInt8) : testfs.payload.as_efivar_Marshallable r = gPayload r := rfl

/-- the value that `WriteVar` hands to `EFIFS.WriteVar` for a secure-boot variable: with `bs` what the
    probe `t.Marshal(&b)` left in its empty buffer — the payload object of the bytes behind the descriptor
    when the (translated) descriptor reader accepts `bs`, `t` itself when it does not -/
def gUnwrapped (t : efivar.Marshallable) : efivar.Marshallable :=
  match signature.ReadEFIVariableAuthencation2 (t.Marshal 0 []) with
  | (r, _, none) => gPayload r
  | (_, _, some _) => t

/-- the value handed to `EFIFS.WriteVar`, for every name -/
def gHandedOn (name : String) (t : efivar.Marshallable) : efivar.Marshallable :=
  if gSecure name then gUnwrapped t else t

/-- **Other names.** For a name outside {PK, KEK, db, dbx} `WriteVar` is `EFIFS.WriteVar` on exactly the
    same variable and the same value object: no `Marshal` call is made on it before (the right-hand side
    mentions `t` only as the argument that is handed on), and the error returned is the one that
    `EFIFS.WriteVar` returns. -/
theorem C12g_plain (X : testfs.Externals) (f : testfs.TestFS) (v : efivar.Efivar) (t : efivar.Marshallable)
    (h : v.Name ≠ "PK" ∧ v.Name ≠ "KEK" ∧ v.Name ≠ "db" ∧ v.Name ≠ "dbx") :
    testfs.TestFS.WriteVar X f v t = X.efivarfs_EFIFS_WriteVar f.EFIFS v t := by
  obtain ⟨h1, h2, h3, h4⟩ := h
  unfold testfs.TestFS.WriteVar
  simp only [beq_eq_false_iff_ne.2 h1, beq_eq_false_iff_ne.2 h2, beq_eq_false_iff_ne.2 h3,
    beq_eq_false_iff_ne.2 h4, Bool.or_self, Bool.false_eq_true, if_false]

/-- **The four names.** For PK, KEK, db, dbx, with `bs := t.Marshal 0 []` (the one `Marshal` call that
    `WriteVar` itself makes, into an empty buffer): when the translated `ReadEFIVariableAuthencation2 bs`
    succeeds with rest `r`, `EFIFS.WriteVar` is handed a value that marshals to exactly `r` appended to
    whatever buffer it is given, at every call site, and whose `Bytes` is `r`; otherwise it is handed `t`
    itself.  The variable and the receiver are handed on as they are, the error is the one returned. -/
theorem C12g_secure (X : testfs.Externals) (f : testfs.TestFS) (v : efivar.Efivar) (t : efivar.Marshallable)
    (h : v.Name = "PK" ∨ v.Name = "KEK" ∨ v.Name = "db" ∨ v.Name = "dbx") :
    testfs.TestFS.WriteVar X f v t =
      X.efivarfs_EFIFS_WriteVar f.EFIFS v
        (match signature.ReadEFIVariableAuthencation2 (t.Marshal 0 []) with
         | (r, _, none) => { Bytes := fun _ => r, Marshal := fun _ b => b ++ r }
         | (_, _, some _) => t) := by
  have hs : (v.Name == "PK" || v.Name == "KEK" || v.Name == "db" || v.Name == "dbx") = true :=
    (C12g_secure_iff v.Name).2 h
  unfold testfs.TestFS.WriteVar
  simp only [hs, if_true, signature.EFIVariableAuthentication2.Unmarshal, C12g_payload, List.nil_append]
  rcases hr : signature.ReadEFIVariableAuthencation2 (t.Marshal 0 []) with ⟨r, ga, _ | e⟩
  · simp only [Option.isSome_none, Bool.false_eq_true, if_false, Option.isNone_none, if_true, gPayload]
  · simp only [Option.isSome_some, if_true, Option.isNone_some, Bool.false_eq_true, if_false]

/-- both cases in one equation, for every name -/
theorem C12g_handedOn (X : testfs.Externals) (f : testfs.TestFS) (v : efivar.Efivar) (t : efivar.Marshallable) :
    testfs.TestFS.WriteVar X f v t = X.efivarfs_EFIFS_WriteVar f.EFIFS v (gHandedOn v.Name t) := by
  unfold gHandedOn
  by_cases h : gSecure v.Name = true
  · rw [if_pos h, C12g_secure X f v t ((C12g_secure_iff _).1 h)]
    rfl
  · rw [if_neg h]
    apply C12g_plain
    have h' := fun hh => h ((C12g_secure_iff _).2 hh)
    exact ⟨fun e => h' (.inl e), fun e => h' (.inr (.inl e)), fun e => h' (.inr (.inr (.inl e))),
      fun e => h' (.inr (.inr (.inr e)))⟩

/-- the payload object in words: appends its bytes to any buffer, at any call site; `Bytes` gives them -/
theorem C12g_payload_marshal (r b : List UInt8) (k : Nat) :
    (gPayload r).Marshal k b = b ++ r ∧ (gPayload r).Bytes k = r ∧
    testfs.payload.Marshal r b = b ++ r ∧ testfs.payload.Bytes r = r := ⟨rfl, rfl, rfl, rfl⟩

/-- the descriptor probe in terms of the model's reader (through `C10g_readAuth`): the model's rest is the
    translated reader's rest, and the two fail together -/
theorem C12g_unwrapped_model (t : efivar.Marshallable) :
    gUnwrapped t =
      match Impl.readAuth (t.Marshal 0 []) with
      | .ok (_, rest) => gPayload rest
      | _ => t := by
  have h := C10.C10g_readAuth (t.Marshal 0 [])
  unfold gUnwrapped
  cases hm : Impl.readAuth (t.Marshal 0 []) with
  | ok p =>
    rw [hm] at h
    obtain ⟨ga, hg, _⟩ := h
    rw [hg]
  | err => rw [hm] at h; obtain ⟨f', ga, e, hg⟩ := h; rw [hg]
  | panic => rw [hm] at h; obtain ⟨f', ga, e, hg⟩ := h; rw [hg]
  | exit => rw [hm] at h; obtain ⟨f', ga, e, hg⟩ := h; rw [hg]

/-- **Refinement.** For a value object that is deterministic — every `Marshal` call, at whatever call site
    and into whatever buffer, appends the same `bytes` — the bytes that a `Marshal` of the handed-on value
    appends (what `EFIFS.WriteVar` writes to the variable's file behind the attributes) are the model's
    `Impl.storedValue name bytes`, for every name: the store model that the C12 theorems are about is what
    the source does. -/
theorem C12g_refines (v : efivar.Efivar) (t : efivar.Marshallable) (bytes : Bytes)
    (hdet : ∀ k b, t.Marshal k b = b ++ bytes) :
    ∀ k b, (gHandedOn v.Name t).Marshal k b = b ++ Impl.storedValue v.Name bytes := by
  intro k b
  have h0 : t.Marshal 0 [] = bytes := by rw [hdet, List.nil_append]
  unfold gHandedOn Impl.storedValue
  rw [C12g_secure_names]
  by_cases hv : Impl.isSecureBootVar v.Name = true
  · rw [if_pos hv, if_pos hv, C12g_unwrapped_model, h0]
    cases hm : Impl.readAuth bytes with
    | ok p => rfl
    | err => exact hdet k b
    | panic => exact hdet k b
    | exit => exact hdet k b
  · rw [if_neg hv, if_neg hv]
    exact hdet k b

/-- … as one statement about `WriteVar`: it is `EFIFS.WriteVar` on a value that marshals to the model's
    stored value -/
theorem C12g_refines_writeVar (X : testfs.Externals) (f : testfs.TestFS) (v : efivar.Efivar)
    (t : efivar.Marshallable) (bytes : Bytes) (hdet : ∀ k b, t.Marshal k b = b ++ bytes) :
    ∃ t', testfs.TestFS.WriteVar X f v t = X.efivarfs_EFIFS_WriteVar f.EFIFS v t' ∧
      ∀ k b, t'.Marshal k b = b ++ Impl.storedValue v.Name bytes :=
  ⟨gHandedOn v.Name t, C12g_handedOn X f v t, C12g_refines v t bytes hdet⟩

/-- **C12 for the source.** A signed update `desc ++ payload` whose descriptor decodes (leaving exactly
    `payload`) is stored as `payload` for PK, KEK, db, dbx — whatever the payload is — and as
    `desc ++ payload`, descriptor included, for any other name. -/
theorem C12g_signed_update (v : efivar.Efivar) (t : efivar.Marshallable) (desc payload : Bytes) (d : Impl.AuthDesc)
    (hdet : ∀ k b, t.Marshal k b = b ++ (desc ++ payload))
    (ha : Impl.readAuth (desc ++ payload) = .ok (d, payload)) :
    (gSecure v.Name = true → ∀ k, (gHandedOn v.Name t).Marshal k [] = payload) ∧
    (gSecure v.Name = false → ∀ k, (gHandedOn v.Name t).Marshal k [] = desc ++ payload) := by
  constructor
  · intro hs k
    rw [C12g_refines v t _ hdet, List.nil_append, Impl.storedValue_signed (by rw [← C12g_secure_names]; exact hs) ha]
  · intro hs k
    rw [C12g_refines v t _ hdet, List.nil_append, Impl.storedValue_plain (by rw [← C12g_secure_names]; exact hs)]

/-- … and a value that is a decodable signature database is handed on as its own bytes under every name
    (with `C12_db_is_not_a_descriptor`: a database never parses as a descriptor) -/
theorem C12g_database (v : efivar.Efivar) (t : efivar.Marshallable) (bytes : Bytes) (db : Impl.Db)
    (hdet : ∀ k b, t.Marshal k b = b ++ bytes) (hdb : Impl.readDb bytes = some db) :
    ∀ k, (gHandedOn v.Name t).Marshal k [] = bytes := by
  intro k
  rw [C12g_refines v t _ hdet, List.nil_append, (C12_db_is_not_a_descriptor hdb).2.2]

/-! ### non-vacuity: concrete externals and value objects -/

/-- a toy `EFIFS.WriteVar`: marshals what it is handed into an empty buffer (as the real one does) and
    reports the bytes and the variable's name through its error -/
def exX : testfs.Externals :=
  { efivarfs_EFIFS_WriteVar := fun _ v e => some (v.Name ++ ":" ++ toString ((e.Marshal 7 []).map UInt8.toNat)) }

def exF : testfs.TestFS := ⟨⟨⟨false, false, ⟨⟩⟩⟩, ⟨⟩⟩
def exGuid : util.EFIGUID := ⟨0xd719b2cb, 0x3d3a, 0x4596, [0xa3, 0xbc, 0xda, 0xd0, 0x0e, 0x67, 0x65, 0x6f]⟩
/-- a 43-byte descriptor (3 bytes of certificate data) -/
def exDesc : Bytes := Spec.encAuth ⟨zeros 16, 27, 0x0200, 0x0EF1, zeros 16, [1, 2, 3]⟩
/-- a deterministic value object holding a signed update: that descriptor followed by `[9, 8]` -/
def exSigned : efivar.Marshallable :=
  { Bytes := fun _ => exDesc ++ [9, 8], Marshal := fun _ b => b ++ (exDesc ++ [9, 8]) }
/-- a value object that is drained by its first `Marshal` call and holds no descriptor -/
def exOnce : efivar.Marshallable :=
  { Bytes := fun _ => [5, 6], Marshal := fun k b => if k = 0 then b ++ [5, 6] else b }

/-- the hypotheses of `C12g_signed_update` hold for it … -/
example (k : Nat) (b : List UInt8) : exSigned.Marshal k b = b ++ (exDesc ++ [9, 8]) := rfl
example : ∃ d, Impl.readAuth (exDesc ++ [9, 8]) = .ok (d, [9, 8]) :=
  ⟨(⟨zeros 16, ⟨⟨27, 0x0200, 0x0EF1, []⟩, zeros 16, [1, 2, 3]⟩⟩ : Impl.AuthDesc), by decide +kernel⟩
example : (signature.ReadEFIVariableAuthencation2 (exSigned.Marshal 0 [])).1 = [9, 8] ∧
    (signature.ReadEFIVariableAuthencation2 (exSigned.Marshal 0 [])).2.2 = none := by decide +kernel
/-- … and the translated function, evaluated: "db" stores the payload, "Boot0001" the whole update -/
example : testfs.TestFS.WriteVar exX exF ⟨"db", exGuid, 0x27⟩ exSigned = some "db:[9, 8]" := by decide +kernel
example : testfs.TestFS.WriteVar exX exF ⟨"PK", exGuid, 0x27⟩ exSigned = some "PK:[9, 8]" := by decide +kernel
example : testfs.TestFS.WriteVar exX exF ⟨"Boot0001", exGuid, 7⟩ exSigned =
    exX.efivarfs_EFIFS_WriteVar exF.EFIFS ⟨"Boot0001", exGuid, 7⟩ exSigned := by decide +kernel
example : (gHandedOn "Boot0001" exSigned).Marshal 3 [] = exDesc ++ [9, 8] := by decide +kernel
example : (gHandedOn "KEK" exSigned).Marshal 3 [0xaa] = [0xaa, 9, 8] ∧ (gHandedOn "KEK" exSigned).Bytes 1 = [9, 8] := by
  decide +kernel
/-- the names are compared exactly: "DB" and "db " are ordinary variables -/
example : gSecure "DB" = false ∧ gSecure "db " = false ∧ gSecure "dbx" = true ∧ gSecure "" = false := by decide
/-- why `C12g_secure` hands on `t` *itself* and `C12g_refines` needs a deterministic object: for a name of
    the four, a value without descriptor has been marshalled once (the probe) when `EFIFS.WriteVar`
    marshals it again — an object that is drained by its first `Marshal` reaches the file empty, while
    under any other name it reaches the file complete -/
example : testfs.TestFS.WriteVar exX exF ⟨"db", exGuid, 0x27⟩ exOnce = some "db:[]" ∧
    testfs.TestFS.WriteVar { efivarfs_EFIFS_WriteVar := fun _ _ e => some (toString ((e.Marshal 0 []).map UInt8.toNat)) }
      exF ⟨"OrdA", exGuid, 7⟩ exOnce = some "[5, 6]" := by decide +kernel
example : Gen.skipped.all (fun p => p.1 != "testfs.TestFS.WriteVar" && p.1 != "testfs.payload.Marshal" &&
    p.1 != "testfs.payload.Bytes" && p.1 != "testfs.payload.as_efivar_Marshallable") = true := by decide +kernel

end GoUefi.C12

#print axioms GoUefi.C12.C12g_secure_names
#print axioms GoUefi.C12.C12g_secure_iff
#print axioms GoUefi.C12.C12g_payload
#print axioms GoUefi.C12.C12g_plain
#print axioms GoUefi.C12.C12g_secure
#print axioms GoUefi.C12.C12g_handedOn
#print axioms GoUefi.C12.C12g_payload_marshal
#print axioms GoUefi.C12.C12g_unwrapped_model
#print axioms GoUefi.C12.C12g_refines
#print axioms GoUefi.C12.C12g_refines_writeVar
#print axioms GoUefi.C12.C12g_signed_update
#print axioms GoUefi.C12.C12g_database
