import GoUefi.Facts
import GoUefi.Model.AuthDesc
/-! C10 — regenerated tie: WIN_CERTIFICATE constants of the current source -/
namespace GoUefi.C10
open GoUefi

theorem C10_extracted_constants :
    Facts.constIs "efi/signature.SizeofWINCertificate" 8 = true ∧
    Facts.constIs "efi/signature.SizeofWinCertificateUEFIGUID" 24 = true ∧
    Facts.constIs "efi/signature.WIN_CERTIFICATE_REVISION" Impl.winCertRevision = true ∧
    Facts.constIs "efi/signature.WIN_CERT_TYPE_EFI_GUID" Impl.winCertTypeEfiGuid = true ∧
    Facts.constIs "efi/signature.WIN_CERT_TYPE_PKCS_SIGNED_DATA" Impl.winCertTypePkcs = true ∧
    Facts.constIs "efi/util.SizeofEFITime" 16 = true := by
  decide

end GoUefi.C10
