import GoUefi.Gen
import GoUefi.Base
import GoUefi.Lemmas.GenFmt
/-!
# C01 (generated tie) — the padding arithmetic of the current source

`authenticode.PaddingBytes(srcLen, blockSize)` (authenticode/checksum.go) translated by `tools/go2lean`:
`fullyPadded := (srcLen + blockSize - 1) &^ (blockSize - 1)`, `padLen := fullyPadded - srcLen`,
`make([]byte, padLen)`.  `&^` on Go's `int` is the prelude's `intAndNot` (exact on 64-bit two's-complement
ints).  For every block size `2^k` (`k ≤ 61`; the library uses 8) and every length `0 ≤ srcLen < 2^62` the
function returns `(2^k - srcLen % 2^k) % 2^k` zero bytes — for `k = 3` the model's `pad8`, which is what
`Impl.parse` (Model/Pe.lean), `Spec.padded` (Spec/Pe.lean) and the certificate-table walkers use.
-/
namespace GoUefi.C01
open GoUefi GoUefi.Gen

/-- the translated `PaddingBytes` for a block size `2^k` and a length given as a natural number -/
theorem C01g_padding_nat (n k : Nat) (hn : n < 2 ^ 62) (hk : k ≤ 61) :
    authenticode.PaddingBytes (n : Int) ((2 ^ k : Nat) : Int) =
      (List.replicate ((2 ^ k - n % 2 ^ k) % 2 ^ k) 0, (((2 ^ k - n % 2 ^ k) % 2 ^ k : Nat) : Int)) := by
  have hpos : 0 < 2 ^ k := Nat.two_pow_pos k
  have hpow : 2 ^ k ≤ 2 ^ 61 := Nat.pow_le_pow_right (by omega) hk
  have ea : (n : Int) + ((2 ^ k : Nat) : Int) - 1 = ((n + 2 ^ k - 1 : Nat) : Int) := by omega
  have eb : ((2 ^ k : Nat) : Int) - 1 = ((2 ^ k - 1 : Nat) : Int) := by omega
  have hand := GenFmt.intAndNot_mask_nat (n + 2 ^ k - 1) k (by omega) (by omega)
  have hru := GenFmt.roundUp_sub n (2 ^ k) hpos
  unfold authenticode.PaddingBytes
  simp only []
  rw [ea, eb, hand, hru]
  have ec : ((n + (2 ^ k - n % 2 ^ k) % 2 ^ k : Nat) : Int) - (n : Int) = (((2 ^ k - n % 2 ^ k) % 2 ^ k : Nat) : Int) := by
    omega
  rw [ec, Int.toNat_natCast]

/-- **every power-of-two block size**: for `0 ≤ srcLen < 2^62` and `blockSize = 2^k`, `k ≤ 61`, the function returns
    `padLen = (blockSize - srcLen % blockSize) % blockSize` and a slice of `padLen` zero bytes -/
theorem C01g_padding_pow2 (srcLen : Int) (k : Nat) (h0 : 0 ≤ srcLen) (h : srcLen < 2 ^ 62) (hk : k ≤ 61) :
    authenticode.PaddingBytes srcLen ((2 : Int) ^ k) =
      (List.replicate (((2 : Int) ^ k - srcLen % (2 : Int) ^ k) % (2 : Int) ^ k).toNat 0,
       ((2 : Int) ^ k - srcLen % (2 : Int) ^ k) % (2 : Int) ^ k) := by
  obtain ⟨n, rfl⟩ := Int.eq_ofNat_of_zero_le h0
  have hn : n < 2 ^ 62 := by
    have : ((2 : Int) ^ 62) = ((2 ^ 62 : Nat) : Int) := by decide
    omega
  have hpos : 0 < 2 ^ k := Nat.two_pow_pos k
  have e2 : (2 : Int) ^ k = ((2 ^ k : Nat) : Int) := by rw [Int.natCast_pow]; rfl
  have hr : n % 2 ^ k < 2 ^ k := Nat.mod_lt n hpos
  have e3 : (((2 ^ k : Nat) : Int) - (n : Int) % ((2 ^ k : Nat) : Int)) % ((2 ^ k : Nat) : Int)
      = (((2 ^ k - n % 2 ^ k) % 2 ^ k : Nat) : Int) := by
    rw [← Int.natCast_emod, ← Int.natCast_sub (Nat.le_of_lt hr), ← Int.natCast_emod]
  rw [e2, e3, Int.toNat_natCast]
  exact C01g_padding_nat n k hn hk

/-- what the library calls: `blockSize = 8`.  `padLen = (8 - srcLen % 8) % 8`, the slice is `padLen` zero bytes,
    `srcLen + padLen` is a multiple of 8 and `padLen < 8`. -/
theorem C01g_padding8 (srcLen : Int) (h0 : 0 ≤ srcLen) (h : srcLen < 2 ^ 62) :
    let r := authenticode.PaddingBytes srcLen 8
    r.2 = (8 - srcLen % 8) % 8 ∧ r.1 = List.replicate r.2.toNat 0 ∧
    (srcLen + r.2) % 8 = 0 ∧ 0 ≤ r.2 ∧ r.2 < 8 := by
  have h8 := C01g_padding_pow2 srcLen 3 h0 h (by omega)
  have e8 : (2 : Int) ^ 3 = 8 := by decide
  rw [e8] at h8
  intro r
  have hr : r = authenticode.PaddingBytes srcLen 8 := rfl
  rw [h8] at hr
  rw [hr]
  refine ⟨rfl, rfl, ?_, ?_, ?_⟩ <;> simp only [] <;> omega

/-- the same for every power of two: aligned, and less than one block -/
theorem C01g_padding_aligned (srcLen : Int) (k : Nat) (h0 : 0 ≤ srcLen) (h : srcLen < 2 ^ 62) (hk : k ≤ 61) :
    let r := authenticode.PaddingBytes srcLen ((2 : Int) ^ k)
    (srcLen + r.2) % (2 : Int) ^ k = 0 ∧ 0 ≤ r.2 ∧ r.2 < (2 : Int) ^ k ∧ r.1.length = r.2.toNat ∧ ∀ b ∈ r.1, b = 0 := by
  intro r
  have hr : r = authenticode.PaddingBytes srcLen ((2 : Int) ^ k) := rfl
  rw [C01g_padding_pow2 srcLen k h0 h hk] at hr
  have hP : (0 : Int) < (2 : Int) ^ k := Int.pow_pos (by omega)
  have hm := Int.emod_nonneg ((2 : Int) ^ k - srcLen % (2 : Int) ^ k) (Int.ne_of_gt hP)
  have hl := Int.emod_lt_of_pos ((2 : Int) ^ k - srcLen % (2 : Int) ^ k) hP
  rw [hr]
  refine ⟨?_, hm, hl, List.length_replicate, fun b hb => (List.mem_replicate.mp hb).2⟩
  show (srcLen + ((2 : Int) ^ k - srcLen % (2 : Int) ^ k) % (2 : Int) ^ k) % (2 : Int) ^ k = 0
  have hd := Int.emod_add_mul_ediv srcLen ((2 : Int) ^ k)
  have e : srcLen + ((2 : Int) ^ k - srcLen % (2 : Int) ^ k) % (2 : Int) ^ k
      = ((2 : Int) ^ k - srcLen % (2 : Int) ^ k) % (2 : Int) ^ k + srcLen % (2 : Int) ^ k
        + (2 : Int) ^ k * (srcLen / (2 : Int) ^ k) := by omega
  rw [e, Int.add_mul_emod_self_left, Int.emod_add_emod]
  have e' : (2 : Int) ^ k - srcLen % (2 : Int) ^ k + srcLen % (2 : Int) ^ k = (2 : Int) ^ k := by omega
  rw [e', Int.emod_self]

/-- tie to the hand-written model: with the library's block size the translated function pads by the model's `pad8`
    (`Impl.parse`, `Spec.padded`, the certificate-table walkers) -/
theorem C01g_padding_model (n : Nat) (hn : n < 2 ^ 62) :
    authenticode.PaddingBytes (n : Int) 8 = (zeros (pad8 n), (pad8 n : Int)) :=
  C01g_padding_nat n 3 hn (by omega)

example : authenticode.PaddingBytes 1000003 8 = ([0, 0, 0, 0, 0], 5) := by decide +kernel
example : authenticode.PaddingBytes 16 8 = ([], 0) := by decide +kernel
example : authenticode.PaddingBytes 4611686018427387903 4096 = (List.replicate 1 0, 1) := by decide +kernel
-- a block size that is not a power of two is outside the theorems: 7 &^ 2 = 5, no padding although 3 ∤ 5
example : (authenticode.PaddingBytes 5 3).2 = 0 := by decide +kernel
-- block size 0: the translation yields a negative `padLen` and an empty slice; in Go `make([]byte, padLen)` PANICS
-- here (`makeslice: len out of range`) — a negative `make` length is not modelled by the translator (DESIGN §3)
example : authenticode.PaddingBytes 5 0 = ([], -5) := by decide +kernel

end GoUefi.C01

#print axioms GoUefi.C01.C01g_padding_nat
#print axioms GoUefi.C01.C01g_padding_pow2
#print axioms GoUefi.C01.C01g_padding8
#print axioms GoUefi.C01.C01g_padding_aligned
#print axioms GoUefi.C01.C01g_padding_model
