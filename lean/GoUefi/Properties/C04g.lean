import GoUefi.Gen
import GoUefi.Model.Pkcs7
import GoUefi.Lemmas.GenPkcs7
/-!
# C04 (generated tie) — signer selection and the verification loop, as the source has them now

`GoUefi/Gen.lean` (regenerated from `/repo` on every run by `tools/go2lean`) holds the translation of
`signerinfo.isCertificate`, `PKCS7.Verify` and `PKCS7.HasCertificate` (pkcs7/pkcs7.go).  The
cryptographic part, `signerinfo.verify`, is not translated: it is the field `signerinfo_verify` of
the generated parameter structure `pkcs7.Ext`, and the theorems hold for every value of it.

What is proved of the translated code: a signer entry is selected exactly by issuer bytes and serial
number; `Verify` answers `true` exactly when the FIRST entry that names the certificate and does not
answer `(false, nil)` answers `(true, nil)` — in particular an entry that does not name the
certificate is never tried; and the loop is the model's `Impl.verifySigners` for every external
`verify` that the model's `Signer.verify` describes.
-/
namespace GoUefi.C04
open GoUefi GoUefi.Gen GoUefi.GenPkcs7

/-- `isCertificate` as translated: issuer bytes and serial number both equal (and nothing else) -/
theorem C04g_isCertificate (s : pkcs7.signerinfo) (c : X509Cert) :
    s.isCertificate c = true ↔
      c.RawIssuer = s.IssuerAndSerialnumber.RawIssuer ∧ c.SerialNumber = s.IssuerAndSerialnumber.SerialNumber := by
  exact isCertificate_iff s c

/-- `Verify` succeeds exactly when some entry that names the certificate is accepted by the
    external check and every earlier entry that names it answered `(false, nil)`. -/
theorem C04g_verify_true_iff (X : pkcs7.Ext) (p : pkcs7.PKCS7) (c : X509Cert) :
    p.Verify X c = (true, none) ↔
      ∃ pre s post, p.SignerInfo = pre ++ s :: post ∧ s.isCertificate c = true ∧
        X.signerinfo_verify s c p.ContentInfo = (true, none) ∧
        ∀ s' ∈ pre, s'.isCertificate c = true → X.signerinfo_verify s' c p.ContentInfo = (false, none) := by
  rw [verify_eq, ← loop_true_iff]
  rcases loop_shape X p c p.SignerInfo with h | h | ⟨e, h⟩ <;> rw [h]
  · exact ⟨fun e => (nomatch e), fun e => (nomatch e)⟩
  · exact ⟨fun _ => rfl, fun _ => rfl⟩
  · constructor
    · intro e; exact absurd (congrArg Prod.fst e) Bool.false_ne_true
    · intro e; cases e

/-- An entry that does not name the certificate is never handed to the signature check: `Verify`
    only depends on the external check through the entries that name the certificate. -/
theorem C04g_verify_only_named (X X' : pkcs7.Ext) (p : pkcs7.PKCS7) (c : X509Cert)
    (h : ∀ s ∈ p.SignerInfo, s.isCertificate c = true →
      X.signerinfo_verify s c p.ContentInfo = X'.signerinfo_verify s c p.ContentInfo) :
    p.Verify X c = p.Verify X' c := by
  rw [verify_eq, verify_eq, loop_congr X X' p c p.SignerInfo h]

/-- `Verify` never reports success together with an error, and `(true, _)` only as `(true, nil)`. -/
theorem C04g_verify_shape (X : pkcs7.Ext) (p : pkcs7.PKCS7) (c : X509Cert) :
    (p.Verify X c).1 = true → (p.Verify X c).2 = none := by
  rw [verify_eq]
  rcases loop_shape X p c p.SignerInfo with h | h | ⟨e, h⟩ <;> rw [h]
  · intro _; rfl
  · intro _; rfl
  · intro e; exact absurd e Bool.false_ne_true

/-- `HasCertificate`: some entry names the certificate -/
theorem C04g_hasCertificate (p : pkcs7.PKCS7) (c : X509Cert) :
    p.HasCertificate c = true ↔ ∃ s ∈ p.SignerInfo, s.isCertificate c = true := by
  unfold pkcs7.PKCS7.HasCertificate
  exact has_loop_iff c p.SignerInfo

/-! ### refinement to the hand-written model `Impl.verifySigners` -/

/-- result of the translated code against the model's `Outcome Bool` -/
def VRel (g : Bool × GoErr) (m : Outcome Bool) : Prop :=
  match g, m with
  | (true, none), .ok true => True
  | (false, none), .ok false => True
  | (false, some _), .err => True
  | _, _ => False

/-- the model's `Signer.isCertificate` is the translated `isCertificate` through the abstraction -/
theorem isCertificate_abs (s : pkcs7.signerinfo) (c : X509Cert) (ms : Impl.Signer) (ac : Cert)
    (hi : ms.issuer = s.IssuerAndSerialnumber.RawIssuer ∧ ms.serial = s.IssuerAndSerialnumber.SerialNumber)
    (hc : ac.rawIssuer = c.RawIssuer ∧ ac.serial = c.SerialNumber) :
    ms.isCertificate ac = s.isCertificate c := by
  rw [Bool.eq_iff_iff, isCertificate_iff]
  unfold Impl.Signer.isCertificate
  rw [Bool.and_eq_true, beq_iff_eq, beq_iff_eq, hi.1, hi.2, hc.1, hc.2]
  exact ⟨fun h => ⟨h.1.symm, h.2.symm⟩, fun h => ⟨h.1.symm, h.2.symm⟩⟩

/-- the refinement, for the loop over an arbitrary list of entries -/
theorem loop_refines (C : Crypto) (X : pkcs7.Ext) (p : pkcs7.PKCS7) (c : X509Cert)
    (absS : pkcs7.signerinfo → Impl.Signer) (ac : Cert) (l : List pkcs7.signerinfo)
    (hi : ∀ s ∈ l, (absS s).issuer = s.IssuerAndSerialnumber.RawIssuer ∧
      (absS s).serial = s.IssuerAndSerialnumber.SerialNumber)
    (hc : ac.rawIssuer = c.RawIssuer ∧ ac.serial = c.SerialNumber)
    (hX : ∀ s ∈ l, VRel (X.signerinfo_verify s c p.ContentInfo)
      ((absS s).verify C ac p.ContentInfo)) :
    VRel (finish (pkcs7.PKCS7.Verify.loop1 X p c l))
      (Impl.verifySigners C ac p.ContentInfo (l.map absS)) := by
  induction l with
  | nil =>
    rw [loop_nil]
    exact True.intro
  | cons a r ih =>
    have ih' := ih (fun s hs => hi s (List.mem_cons_of_mem _ hs)) (fun s hs => hX s (List.mem_cons_of_mem _ hs))
    have hia := isCertificate_abs a c (absS a) ac (hi a (List.mem_cons_self ..)) hc
    have hXa := hX a (List.mem_cons_self ..)
    rw [List.map_cons, Impl.verifySigners, hia]
    cases h : a.isCertificate c with
    | false =>
      rw [loop_skip X p c a r h, if_neg Bool.false_ne_true]
      exact ih'
    | true =>
      rw [if_pos rfl]
      rcases pair_cases (X.signerinfo_verify a c p.ContentInfo) with hv | hv | ⟨b, e, hv⟩
      · rw [loop_true X p c a r h hv]
        rw [hv] at hXa
        exact hXa
      · exfalso
        rw [hv] at hXa
        have hne := signer_verify_ne_ok_false C (absS a) ac p.ContentInfo
        revert hXa hne
        cases (absS a).verify C ac p.ContentInfo with
        | ok v => cases v with
          | true => intro h _; exact h
          | false => intro _ h; exact h rfl
        | err => intro h _; exact h
        | panic => intro h _; exact h
        | exit => intro h _; exact h
      · rw [loop_err X p c a r h b e hv]
        rw [hv] at hXa
        revert hXa
        cases (absS a).verify C ac p.ContentInfo with
        | ok v => cases b <;> cases v <;> exact fun h => h.elim
        | err => cases b
                 · exact fun _ => True.intro
                 · exact fun h => h.elim
        | panic => cases b <;> exact fun h => h.elim
        | exit => cases b <;> exact fun h => h.elim

/-- For every abstraction of signer entries and certificates that keeps issuer and serial, and every
    external check that the model's `Signer.verify` describes on the entries of `p`, the translated
    loop computes what `Impl.verifySigners` computes. -/
theorem C04g_verify_refines (C : Crypto) (X : pkcs7.Ext) (p : pkcs7.PKCS7) (c : X509Cert)
    (absS : pkcs7.signerinfo → Impl.Signer) (ac : Cert)
    (hi : ∀ s ∈ p.SignerInfo, (absS s).issuer = s.IssuerAndSerialnumber.RawIssuer ∧
      (absS s).serial = s.IssuerAndSerialnumber.SerialNumber)
    (hc : ac.rawIssuer = c.RawIssuer ∧ ac.serial = c.SerialNumber)
    (hX : ∀ s ∈ p.SignerInfo, VRel (X.signerinfo_verify s c p.ContentInfo)
      ((absS s).verify C ac p.ContentInfo)) :
    VRel (p.Verify X c) (Impl.verifySigners C ac p.ContentInfo (p.SignerInfo.map absS)) := by
  rw [verify_eq]
  exact loop_refines C X p c absS ac p.SignerInfo hi hc hX

/-! ### non-vacuity -/
section Examples
def exCert : X509Cert := ⟨[], [1, 2], [1, 2], 7⟩
def exS (iss : List UInt8) (ser : Int) (sig : List UInt8) : pkcs7.signerinfo :=
  ⟨1, sig, ⟨⟩, ⟨⟨⟩, [], ⟨⟩, [], []⟩, ⟨⟩, ⟨iss, ser⟩⟩
/-- an external check that accepts exactly the entries whose signature is `[1]` -/
def exX : pkcs7.Ext := ⟨fun s _ _ => if s.EncryptedDigest = [1] then (true, none) else (false, some "bad")⟩
def exP : pkcs7.PKCS7 := ⟨⟨⟩, [exS [9] 7 [0], exS [1, 2] 7 [1]], [], [], ⟨⟩⟩
/-- the first entry does not name the certificate and is skipped although its signature is bad -/
example : exP.Verify exX exCert = (true, none) := by decide +kernel
example : (exS [9] 7 [0]).isCertificate exCert = false := by decide +kernel
example : exP.HasCertificate exCert = true := by decide +kernel
/-- the first entry that names the certificate decides: a bad one in front of a good one is an error -/
example : (⟨⟨⟩, [exS [1, 2] 7 [0], exS [1, 2] 7 [1]], [], [], ⟨⟩⟩ : pkcs7.PKCS7).Verify exX exCert ≠ (true, none) := by
  decide +kernel
end Examples

end GoUefi.C04

#print axioms GoUefi.C04.C04g_isCertificate
#print axioms GoUefi.C04.C04g_verify_true_iff
#print axioms GoUefi.C04.C04g_verify_only_named
#print axioms GoUefi.C04.C04g_verify_shape
#print axioms GoUefi.C04.C04g_hasCertificate
#print axioms GoUefi.C04.C04g_verify_refines
