import GoUefi.Gen
import GoUefi.Model.Guid
import GoUefi.Lemmas.GenCodec
/-!
# C17 (generated tie) — GUID equality of the current source is field-wise

`util.CmpEFIGUID` (efi/util/guid.go) translated by `tools/go2lean` compares exactly the four fields,
and agrees with the model's `cmpGuid` through the obvious abstraction.
-/
namespace GoUefi.C17
open GoUefi GoUefi.Gen

def absGuid (g : util.EFIGUID) : Guid := ⟨g.Data1.toNat, g.Data2.toNat, g.Data3.toNat, g.Data4⟩

theorem C17g_cmp_fieldwise (a b : util.EFIGUID) :
    util.CmpEFIGUID a b = true ↔
      a.Data1 = b.Data1 ∧ a.Data2 = b.Data2 ∧ a.Data3 = b.Data3 ∧ a.Data4 = b.Data4 := by
  -- written so that it survives the usual rewrites of the Go function (field-wise `&&` chain, struct `==`)
  cases a; cases b
  set_option linter.unusedSimpArgs false in
  simp [util.CmpEFIGUID, and_assoc]

theorem C17g_cmp_model (a b : util.EFIGUID) :
    util.CmpEFIGUID a b = cmpGuid (absGuid a) (absGuid b) := by
  rw [Bool.eq_iff_iff, C17g_cmp_fieldwise]
  unfold cmpGuid absGuid
  simp only [Bool.and_eq_true, beq_iff_eq, and_assoc, UInt32.toNat_inj, UInt16.toNat_inj]

example : util.CmpEFIGUID ⟨1, 2, 3, [4]⟩ ⟨1, 2, 4, [4]⟩ = false := by decide +kernel

/-! ### byte form (translated `GUIDToBytes`, `WriteGUID`, `EFIGUID.Bytes`, `BytesToGUID`) -/

theorem C17g_guidToBytes (g : util.EFIGUID) :
    util.GUIDToBytes g = guidToBytes (absGuid g) ∧ util.EFIGUID.Bytes g = guidToBytes (absGuid g) ∧
    ∀ b, util.WriteGUID b g = b ++ guidToBytes (absGuid g) := by
  refine ⟨rfl, rfl, fun b => ?_⟩
  simp only [util.WriteGUID, guidToBytes, absGuid, decBytes, GenCodec.encBE32_eq, GenCodec.encBE16_eq,
    List.append_assoc]

theorem C17g_bytesToGuid (s : List UInt8) :
    absGuid (util.BytesToGUID s) = bytesToGuid s ∨ (s.length < 16 ∧ util.BytesToGUID s = ⟨0, 0, 0, [0, 0, 0, 0, 0, 0, 0, 0]⟩) := by
  by_cases h : s.length < 16
  · obtain ⟨e, he⟩ := GenCodec.readBytes_short h
    exact Or.inr ⟨h, by simp only [util.BytesToGUID, he, Option.isNone_some]; rfl⟩
  · refine Or.inl ?_
    have hr := GenCodec.readBytes_ge (n := 16) (f := s) (by omega) (by omega)
    simp only [util.BytesToGUID, hr, Option.isNone_none, if_true]
    exact GenCodec.decBE_guid_eq s (by omega)

/-- the byte form round-trips for every GUID value (8-byte `Data4`) -/
theorem C17g_bytes_roundtrip (g : util.EFIGUID) (h : g.Data4.length = 8) :
    util.BytesToGUID (util.GUIDToBytes g) = g := by
  have hb : util.GUIDToBytes g = encBE32 g.Data1 ++ encBE16 g.Data2 ++ encBE16 g.Data3 ++ g.Data4 := rfl
  have hl : (util.GUIDToBytes g).length = 16 := by
    rw [hb]; simp [GenCodec.encBE32_eq, GenCodec.encBE16_eq, h]
  have hr := GenCodec.readBytes_ge (n := 16) (f := util.GUIDToBytes g) (by omega) (by omega)
  rw [← hl, List.take_length, List.drop_length, hl] at hr
  obtain ⟨e1, e2, e3, e4⟩ := split4 (encBE32 g.Data1) (encBE16 g.Data2) (encBE16 g.Data3) g.Data4 rfl rfl rfl
  simp only [util.BytesToGUID, hr, Option.isNone_none, if_true]
  rw [hb]
  unfold decBE_util_EFIGUID decBytes
  rw [List.drop_zero, e1, e2, e3, e4, GenCodec.decBE32_encBE32, GenCodec.decBE16_encBE16,
    GenCodec.decBE16_encBE16, List.take_of_length_le (by omega)]

example : util.BytesToGUID (util.GUIDToBytes ⟨0xa5c059a1, 0x94e4, 0x4aa7, [1, 2, 3, 4, 5, 6, 7, 8]⟩) =
    ⟨0xa5c059a1, 0x94e4, 0x4aa7, [1, 2, 3, 4, 5, 6, 7, 8]⟩ := by decide +kernel

end GoUefi.C17

#print axioms GoUefi.C17.C17g_cmp_fieldwise
#print axioms GoUefi.C17.C17g_cmp_model
#print axioms GoUefi.C17.C17g_guidToBytes
#print axioms GoUefi.C17.C17g_bytesToGuid
#print axioms GoUefi.C17.C17g_bytes_roundtrip
