import GoUefi.Gen
import GoUefi.Model.Guid
/-!
# C17 (generated tie) — GUID equality of the current source is field-wise

`util.CmpEFIGUID` (efi/util/guid.go) translated by `tools/go2lean` compares exactly the four fields,
and agrees with the model's `cmpGuid` through the obvious abstraction.
-/
namespace GoUefi.C17
open GoUefi GoUefi.Gen

def absGuid (g : util.EFIGUID) : Guid := ⟨g.Data1.toNat, g.Data2.toNat, g.Data3.toNat, g.Data4⟩

theorem C17g_cmp_fieldwise (a b : util.EFIGUID) :
    util.CmpEFIGUID a b = true ↔
      a.Data1 = b.Data1 ∧ a.Data2 = b.Data2 ∧ a.Data3 = b.Data3 ∧ a.Data4 = b.Data4 := by
  unfold util.CmpEFIGUID
  simp only [Bool.and_eq_true, beq_iff_eq, and_assoc]

theorem C17g_cmp_model (a b : util.EFIGUID) :
    util.CmpEFIGUID a b = cmpGuid (absGuid a) (absGuid b) := by
  rw [Bool.eq_iff_iff, C17g_cmp_fieldwise]
  unfold cmpGuid absGuid
  simp only [Bool.and_eq_true, beq_iff_eq, and_assoc, UInt32.toNat_inj, UInt16.toNat_inj]

example : util.CmpEFIGUID ⟨1, 2, 3, [4]⟩ ⟨1, 2, 4, [4]⟩ = false := by decide +kernel

end GoUefi.C17

#print axioms GoUefi.C17.C17g_cmp_fieldwise
#print axioms GoUefi.C17.C17g_cmp_model
