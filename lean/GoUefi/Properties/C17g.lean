import GoUefi.Gen
import GoUefi.Model.Guid
import GoUefi.Lemmas.GenCodec
import GoUefi.Lemmas.GenNullStr
import GoUefi.Model.Utf16
/-!
# C17 (generated tie) — GUID equality of the current source is field-wise

`util.CmpEFIGUID` (efi/util/guid.go) translated by `tools/go2lean` compares exactly the four fields,
and agrees with the model's `cmpGuid` through the obvious abstraction.
-/
namespace GoUefi.C17
open GoUefi GoUefi.Gen

def absGuid (g : util.EFIGUID) : Guid := ⟨g.Data1.toNat, g.Data2.toNat, g.Data3.toNat, g.Data4⟩

theorem C17g_cmp_fieldwise (a b : util.EFIGUID) :
    util.CmpEFIGUID a b = true ↔
      a.Data1 = b.Data1 ∧ a.Data2 = b.Data2 ∧ a.Data3 = b.Data3 ∧ a.Data4 = b.Data4 := by
  -- written so that it survives the usual rewrites of the Go function (field-wise `&&` chain, struct `==`)
  cases a; cases b
  set_option linter.unusedSimpArgs false in
  simp [util.CmpEFIGUID, and_assoc]

theorem C17g_cmp_model (a b : util.EFIGUID) :
    util.CmpEFIGUID a b = cmpGuid (absGuid a) (absGuid b) := by
  rw [Bool.eq_iff_iff, C17g_cmp_fieldwise]
  unfold cmpGuid absGuid
  simp only [Bool.and_eq_true, beq_iff_eq, and_assoc, UInt32.toNat_inj, UInt16.toNat_inj]

example : util.CmpEFIGUID ⟨1, 2, 3, [4]⟩ ⟨1, 2, 4, [4]⟩ = false := by decide +kernel

/-! ### byte form (translated `GUIDToBytes`, `WriteGUID`, `EFIGUID.Bytes`, `BytesToGUID`) -/

theorem C17g_guidToBytes (g : util.EFIGUID) :
    util.GUIDToBytes g = guidToBytes (absGuid g) ∧ util.EFIGUID.Bytes g = guidToBytes (absGuid g) ∧
    ∀ b, util.WriteGUID b g = b ++ guidToBytes (absGuid g) := by
  refine ⟨rfl, rfl, fun b => ?_⟩
  simp only [util.WriteGUID, guidToBytes, absGuid, decBytes, GenCodec.encBE32_eq, GenCodec.encBE16_eq,
    List.append_assoc]

theorem C17g_bytesToGuid (s : List UInt8) :
    absGuid (util.BytesToGUID s) = bytesToGuid s ∨ (s.length < 16 ∧ util.BytesToGUID s = ⟨0, 0, 0, [0, 0, 0, 0, 0, 0, 0, 0]⟩) := by
  by_cases h : s.length < 16
  · obtain ⟨e, he⟩ := GenCodec.readBytes_short h
    exact Or.inr ⟨h, by simp only [util.BytesToGUID, he, Option.isNone_some]; rfl⟩
  · refine Or.inl ?_
    have hr := GenCodec.readBytes_ge (n := 16) (f := s) (by omega) (by omega)
    simp only [util.BytesToGUID, hr, Option.isNone_none, if_true]
    exact GenCodec.decBE_guid_eq s (by omega)

/-- the byte form round-trips for every GUID value (8-byte `Data4`) -/
theorem C17g_bytes_roundtrip (g : util.EFIGUID) (h : g.Data4.length = 8) :
    util.BytesToGUID (util.GUIDToBytes g) = g := by
  have hb : util.GUIDToBytes g = encBE32 g.Data1 ++ encBE16 g.Data2 ++ encBE16 g.Data3 ++ g.Data4 := rfl
  have hl : (util.GUIDToBytes g).length = 16 := by
    rw [hb]; simp [GenCodec.encBE32_eq, GenCodec.encBE16_eq, h]
  have hr := GenCodec.readBytes_ge (n := 16) (f := util.GUIDToBytes g) (by omega) (by omega)
  rw [← hl, List.take_length, List.drop_length, hl] at hr
  obtain ⟨e1, e2, e3, e4⟩ := split4 (encBE32 g.Data1) (encBE16 g.Data2) (encBE16 g.Data3) g.Data4 rfl rfl rfl
  simp only [util.BytesToGUID, hr, Option.isNone_none, if_true]
  rw [hb]
  unfold decBE_util_EFIGUID decBytes
  rw [List.drop_zero, e1, e2, e3, e4, GenCodec.decBE32_encBE32, GenCodec.decBE16_encBE16,
    GenCodec.decBE16_encBE16, List.take_of_length_le (by omega)]

example : util.BytesToGUID (util.GUIDToBytes ⟨0xa5c059a1, 0x94e4, 0x4aa7, [1, 2, 3, 4, 5, 6, 7, 8]⟩) =
    ⟨0xa5c059a1, 0x94e4, 0x4aa7, [1, 2, 3, 4, 5, 6, 7, 8]⟩ := by decide +kernel

/-! ### `util.ReadNullString` and `efivar.Efistring.Unmarshal` (translated; `util.ParseUtf16Var`, which runs the
x/text decoder, is the field `util_ParseUtf16Var` of `efivar.Externals`)

`ReadNullString` reads each code unit with `io.ReadFull(f, block)` (prelude `readFull`: min(2, available) bytes
however the reader chunks them), so the reader model's "delivers what is there" costs nothing here.  Its `for {}`
loop takes fuel; `len/2 + 1` turns are enough and more change nothing. -/

/-- the translated `ReadNullString`, with any sufficient fuel, is the model's `readNullString`: the bytes returned
    are its first component and the reader is left at its second -/
theorem C17g_readNullString (bs : List UInt8) (fuel : Nat) (h : bs.length / 2 + 1 ≤ fuel) :
    util.ReadNullString fuel bs = ((readNullString bs).2, (readNullString bs).1) := by
  unfold util.ReadNullString
  simp only []
  rw [GenNullStr.loop_eq bs fuel [] h, List.nil_append]

/-- fuel is irrelevant once there is enough of it -/
theorem C17g_readNullString_fuel (bs : List UInt8) (f1 f2 : Nat) (h1 : bs.length / 2 + 1 ≤ f1)
    (h2 : bs.length / 2 + 1 ≤ f2) : util.ReadNullString f1 bs = util.ReadNullString f2 bs := by
  rw [C17g_readNullString bs f1 h1, C17g_readNullString bs f2 h2]

/-- no aligned `00 00` code unit -/
def alignedZeroFree : List UInt8 → Bool
  | a :: b :: r => !(a == 0 && b == 0) && alignedZeroFree r
  | _ => true

/-- what is returned is the input up to and including the FIRST `00 00` at an even offset; the reader is left
    right behind it -/
theorem C17g_readNull_terminated : ∀ (p tail : List UInt8) (fuel : Nat), p.length % 2 = 0 → alignedZeroFree p = true →
    (p ++ 0 :: 0 :: tail).length / 2 + 1 ≤ fuel →
    util.ReadNullString fuel (p ++ 0 :: 0 :: tail) = (tail, p ++ [0, 0]) := by
  intro p tail fuel hp hz hf
  rw [C17g_readNullString _ fuel hf]
  have key : ∀ (p : List UInt8), p.length % 2 = 0 → alignedZeroFree p = true →
      readNullString (p ++ 0 :: 0 :: tail) = (p ++ [0, 0], tail) := by
    intro p
    induction p using alignedZeroFree.induct with
    | case1 a b r ih =>
      intro hl hz
      have hl' : r.length % 2 = 0 := by simp only [List.length_cons] at hl; omega
      rw [alignedZeroFree, Bool.and_eq_true, Bool.not_eq_true'] at hz
      rw [List.cons_append, List.cons_append, readNullString, hz.1, ih hl' hz.2]
      rfl
    | case2 q hq =>
      intro hl _
      match q, hq, hl with
      | [], _, _ => rfl
      | [_], _, hl => simp at hl
      | a :: b :: r, hq, _ => exact absurd rfl (hq a b r)
  rw [key p hp hz]

/-- without such a code unit everything is returned (a trailing odd byte as it is) and the reader is exhausted -/
theorem C17g_readNull_unterminated (bs : List UInt8) (fuel : Nat) (hz : alignedZeroFree bs = true)
    (hf : bs.length / 2 + 1 ≤ fuel) : util.ReadNullString fuel bs = ([], bs) := by
  rw [C17g_readNullString _ fuel hf]
  have key : ∀ (q : List UInt8), alignedZeroFree q = true → readNullString q = (q, []) := by
    intro q
    induction q using alignedZeroFree.induct with
    | case1 a b r ih =>
      intro hz
      rw [alignedZeroFree, Bool.and_eq_true, Bool.not_eq_true'] at hz
      rw [readNullString, hz.1, ih hz.2]
      rfl
    | case2 q hq =>
      intro _
      match q, hq with
      | [], _ => rfl
      | [_], _ => rfl
      | a :: b :: r, hq => exact absurd rfl (hq a b r)
  rw [key bs hz]

/-- **`Efistring.Unmarshal`**: whatever `ParseUtf16Var` does, it is handed exactly `(readNullString bs).1`; its
    error is returned as it is (the receiver keeps its value), otherwise its string becomes the value; the buffer
    is left at `(readNullString bs).2` either way -/
theorem C17g_efistring (X : efivar.Externals) (es : efivar.Efistring) (bs : List UInt8) (fuel : Nat)
    (h : bs.length / 2 + 1 ≤ fuel) :
    efivar.Efistring.Unmarshal fuel X es bs =
      (if (X.util_ParseUtf16Var (readNullString bs).1).2.2.isSome
        then (es, (readNullString bs).2, (X.util_ParseUtf16Var (readNullString bs).1).2.2)
        else ((X.util_ParseUtf16Var (readNullString bs).1).2.1, (readNullString bs).2, none)) := by
  unfold efivar.Efistring.Unmarshal
  simp only []
  rw [C17g_readNullString bs fuel h]

/-- the external decoder agrees with the model's `parseUtf16` (which mirrors x/text; validated by the run-time
    tie of C17, not proved) -/
def ParseUtf16Agrees (p : List UInt8 → List UInt8 × String × GoErr) : Prop :=
  ∀ b, match parseUtf16 b with
    | .ok s => (p b).2.1 = String.ofList s ∧ (p b).2.2 = none
    | _ => (p b).2.2.isSome = true

/-- … and then the translated `Efistring.Unmarshal` computes the model's `efistringUnmarshal` -/
theorem C17g_efistring_model (X : efivar.Externals) (hX : ParseUtf16Agrees X.util_ParseUtf16Var)
    (es : efivar.Efistring) (bs : List UInt8) (fuel : Nat) (h : bs.length / 2 + 1 ≤ fuel) :
    match efistringUnmarshal bs with
    | .ok s => efivar.Efistring.Unmarshal fuel X es bs = (String.ofList s, (readNullString bs).2, none)
    | _ => (efivar.Efistring.Unmarshal fuel X es bs).1 = es ∧ (efivar.Efistring.Unmarshal fuel X es bs).2.2.isSome = true := by
  rw [C17g_efistring X es bs fuel h]
  unfold efistringUnmarshal
  have hb := hX (readNullString bs).1
  cases hp : parseUtf16 (readNullString bs).1 with
  | ok s =>
    rw [hp] at hb
    simp only [hb.2, Option.isSome_none, Bool.false_eq_true, if_false, hb.1]
  | err => rw [hp] at hb; simp only [hb, if_true]; trivial
  | panic => rw [hp] at hb; simp only [hb, if_true]; trivial
  | exit => rw [hp] at hb; simp only [hb, if_true]; trivial

example : util.ReadNullString 4 [0x41, 0, 0, 0, 9] = ([9], [0x41, 0, 0, 0]) := by decide +kernel
example : util.ReadNullString 4 [0x41, 0, 0] = ([], [0x41, 0, 0]) := by decide +kernel   -- F32: no terminator made up
example : util.ReadNullString 9 [0, 1, 1, 0, 0, 0, 5, 6] = ([5, 6], [0, 1, 1, 0, 0, 0]) := by decide +kernel
-- too little fuel shows: the bound of the theorems is needed
example : util.ReadNullString 1 [0x41, 0, 0x42, 0, 0, 0] = ([0x42, 0, 0, 0], []) := by decide +kernel
example : (efivar.Efistring.Unmarshal 4 ⟨fun b => ([], "decoded", if b == [0x41, 0, 0, 0] then none else some "no")⟩ "old"
    [0x41, 0, 0, 0, 9]) = ("decoded", [9], none) := by decide +kernel

end GoUefi.C17

#print axioms GoUefi.C17.C17g_cmp_fieldwise
#print axioms GoUefi.C17.C17g_cmp_model
#print axioms GoUefi.C17.C17g_guidToBytes
#print axioms GoUefi.C17.C17g_bytesToGuid
#print axioms GoUefi.C17.C17g_bytes_roundtrip
#print axioms GoUefi.C17.C17g_readNullString
#print axioms GoUefi.C17.C17g_readNullString_fuel
#print axioms GoUefi.C17.C17g_readNull_terminated
#print axioms GoUefi.C17.C17g_readNull_unterminated
#print axioms GoUefi.C17.C17g_efistring
#print axioms GoUefi.C17.C17g_efistring_model
