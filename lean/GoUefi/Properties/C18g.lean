import GoUefi.Gen
import GoUefi.Model.Boot
import GoUefi.Lemmas.Boot
import GoUefi.Lemmas.GenBoot
import GoUefi.Lemmas.GenNullStr
import GoUefi.Lemmas.GenCodec
/-!
# C18 (generated tie) — boot-order names and the description of a load option, of the current source

`efivarfs.bootorder.Unmarshal` (efivarfs/efivarfs.go) and `device.ParseEFILoadOption` (efi/device/device.go)
translated by `tools/go2lean`.

`bootorder.Unmarshal` is `for i := 0; b.Len() >= 2; i += 2 { sec := make([]byte, 2); b.Read(sec); val :=
binary.BigEndian.Uint16([]byte{sec[1], sec[0]}); *bo = append(*bo, fmt.Sprintf("Boot%04X", val)) }`: a
three-clause loop that is not evidently bounded (fuel), `(*bytes.Buffer).Read` into a fresh two-byte slice
(prelude `bufRead`; the two index expressions are in range because every assignment to `sec` has length 2),
`%04X` (prelude `fmtHex true 4`).  What happens to a trailing single byte (F35 repair, commit b2ed0f9): the loop
condition asks for two bytes, so it is not read — it adds no name and stays in the buffer (checked against the real
code: `ab` ↦ `[]`, `17 00 61 00 ab` ↦ `["Boot0017", "Boot0061"]`).  Before the repair the condition was
`b.Len() != 0` and `Read` delivered the byte into `sec[0]` next to the zero of `make`: a made-up last entry `Boot00AB`.
-/
namespace GoUefi.C18
open GoUefi GoUefi.Gen

/-- **`bootorder.Unmarshal`, any sufficient fuel**: the receiver gains exactly `GenBoot.bootNames bs` — one name
    `"Boot" ++ %04X` per complete little-endian pair, in order, and no other —, the buffer is left with the bytes
    behind the `⌊len/2⌋` complete pairs (nothing for an even length, the trailing byte for an odd one:
    `C18g_unmarshal_rest`) and the error is `nil` (in particular never the out-of-fuel value) -/
theorem C18g_unmarshal (bo : efivarfs.bootorder) (bs : List UInt8) (fuel : Nat) (h : bs.length / 2 + 1 ≤ fuel) :
    efivarfs.bootorder.Unmarshal fuel bo bs = (bo ++ GenBoot.bootNames bs, bs.drop (2 * (bs.length / 2)), none) := by
  obtain ⟨i', hi'⟩ := GenBoot.loop_eq bs fuel bo 0 h
  unfold efivarfs.bootorder.Unmarshal
  simp only []
  rw [hi']
  rfl

/-- what is left in the buffer: `len % 2` bytes — nothing when the length is even, and the last byte when it is odd -/
theorem C18g_unmarshal_rest (bo : efivarfs.bootorder) (bs : List UInt8) (fuel : Nat) (h : bs.length / 2 + 1 ≤ fuel) :
    (efivarfs.bootorder.Unmarshal fuel bo bs).2.1.length = bs.length % 2 ∧
    (bs.length % 2 = 0 → (efivarfs.bootorder.Unmarshal fuel bo bs).2.1 = []) ∧
    (bs.length % 2 = 1 → (efivarfs.bootorder.Unmarshal fuel bo bs).2.1 = bs.drop (bs.length - 1)) := by
  rw [C18g_unmarshal bo bs fuel h]
  refine ⟨GenBoot.rest_length bs, GenBoot.rest_even bs, fun ho => ?_⟩
  have e : 2 * (bs.length / 2) = bs.length - 1 := by omega
  simp only [e]

/-- fuel is irrelevant once there is enough of it -/
theorem C18g_unmarshal_fuel (bo : efivarfs.bootorder) (bs : List UInt8) (f1 f2 : Nat)
    (h1 : bs.length / 2 + 1 ≤ f1) (h2 : bs.length / 2 + 1 ≤ f2) :
    efivarfs.bootorder.Unmarshal f1 bo bs = efivarfs.bootorder.Unmarshal f2 bo bs := by
  rw [C18g_unmarshal bo bs f1 h1, C18g_unmarshal bo bs f2 h2]

/-- the returned error is always `nil` -/
theorem C18g_unmarshal_no_error (bo : efivarfs.bootorder) (bs : List UInt8) (fuel : Nat)
    (h : bs.length / 2 + 1 ≤ fuel) : (efivarfs.bootorder.Unmarshal fuel bo bs).2.2 = none := by
  rw [C18g_unmarshal bo bs fuel h]

/-- **the model**: the names are those of `Impl.bootOrder` (Model/Boot.lean), i.e. `Spec.fwBootName` of every
    complete entry — "Boot" followed by four upper-case hexadecimal digits (`hex4U`) -/
theorem C18g_unmarshal_model (bs : List UInt8) (fuel : Nat) (h : bs.length / 2 + 1 ≤ fuel) :
    (efivarfs.bootorder.Unmarshal fuel [] bs).1 = (Impl.bootOrder bs).map String.ofList := by
  rw [C18g_unmarshal [] bs fuel h, List.nil_append, GenBoot.bootNames_model]

/-- **the specification, for every buffer content of any length** (with `C18_names_every`): the names are the
    firmware names of the complete little-endian 16-bit entries `Spec.entriesLE bs`, in order -/
theorem C18g_unmarshal_spec (bs : List UInt8) (fuel : Nat) (h : bs.length / 2 + 1 ≤ fuel) :
    (efivarfs.bootorder.Unmarshal fuel [] bs).1 =
      (Spec.entriesLE bs).map (fun n => String.ofList (Spec.fwBootName n)) := by
  rw [C18g_unmarshal_model bs fuel h, bootOrder_entries, List.map_map]; rfl

/-- `%04X` of a 16-bit value is the model's four upper-case digits, so a name is the firmware's -/
theorem C18g_name (n : Nat) (h : n < 65536) :
    "Boot" ++ fmtHex true 4 n = String.ofList (Spec.fwBootName n) ∧ fmtHex true 4 n = String.ofList (hex4U n) :=
  ⟨GenFmt.boot_name n h, GenFmt.fmtHex_upper4 n h⟩

/-- the number of names is `⌊len/2⌋`: the number of complete entries -/
theorem C18g_unmarshal_length (bs : List UInt8) (fuel : Nat) (h : bs.length / 2 + 1 ≤ fuel) :
    (efivarfs.bootorder.Unmarshal fuel [] bs).1.length = bs.length / 2 := by
  rw [C18g_unmarshal [] bs fuel h, List.nil_append, GenBoot.bootNames_length]

/-- **direct characterisation**: the `k`-th name is `"Boot" ++ %04X` of the `k`-th complete little-endian pair -/
theorem C18g_unmarshal_entry (bs : List UInt8) (fuel : Nat) (h : bs.length / 2 + 1 ≤ fuel) (k : Nat)
    (hk : 2 * k + 1 < bs.length) :
    (efivarfs.bootorder.Unmarshal fuel [] bs).1[k]? =
      some ("Boot" ++ fmtHex true 4 ((bs.getD (2 * k) 0).toNat + 256 * (bs.getD (2 * k + 1) 0).toNat)) := by
  rw [C18g_unmarshal [] bs fuel h, List.nil_append, GenBoot.bootNames_get bs k hk]

/-- **a trailing single byte** `a` behind complete pairs `xs` is not an entry (F35 repair): it adds no name — the
    receiver gains what it gains from `xs` alone — and it is not consumed: the buffer holds exactly `[a]` afterwards;
    no error.  (Before the repair the result was `(bo ++ bootNames xs ++ ["Boot" ++ %04X a], [], nil)`.) -/
theorem C18g_unmarshal_trailing (bo : efivarfs.bootorder) (xs : List UInt8) (a : UInt8) (fuel : Nat)
    (hx : xs.length % 2 = 0) (h : xs.length / 2 + 1 ≤ fuel) :
    efivarfs.bootorder.Unmarshal fuel bo (xs ++ [a]) = (bo ++ GenBoot.bootNames xs, [a], none) ∧
    efivarfs.bootorder.Unmarshal fuel bo xs = (bo ++ GenBoot.bootNames xs, [], none) := by
  have hf : (xs ++ [a]).length / 2 + 1 ≤ fuel := by rw [List.length_append, List.length_singleton]; omega
  have h1 := C18g_unmarshal bo (xs ++ [a]) fuel hf
  have h2 := C18g_unmarshal bo xs fuel h
  have r1 : (xs ++ [a]).drop (2 * ((xs ++ [a]).length / 2)) = [a] := GenBoot.rest_append_single xs a hx
  have r2 : xs.drop (2 * (xs.length / 2)) = [] := GenBoot.rest_even xs hx
  rw [r1, GenBoot.bootNames_append_single xs a hx] at h1
  rw [r2] at h2
  exact ⟨h1, h2⟩

example : efivarfs.bootorder.Unmarshal 3 ["x"] [1, 0, 0x1a, 0, 7] = (["x", "Boot0001", "Boot001A"], [7], none) := by
  decide +kernel
example : efivarfs.bootorder.Unmarshal 3 [] [0x17, 0, 0x61, 0, 0xab] = (["Boot0017", "Boot0061"], [0xab], none) := by
  decide +kernel
example : efivarfs.bootorder.Unmarshal 1 [] [0xab] = ([], [0xab], none) := by decide +kernel
example : efivarfs.bootorder.Unmarshal 3 [] [0xff, 0xff, 0x34, 0x12] = (["BootFFFF", "Boot1234"], [], none) := by decide +kernel
-- with too little fuel the out-of-fuel value shows: the bound of the theorems is needed
example : (efivarfs.bootorder.Unmarshal 1 [] [1, 0]).2.2 = some "go2lean:out-of-fuel" := by decide +kernel
example : (efivarfs.bootorder.Unmarshal 2 [] [1, 0, 2, 0, 3]).2.2 = some "go2lean:out-of-fuel" := by decide +kernel

/-! ### `device.ParseEFILoadOption` (translated; `util.ParseUtf16Var` is the field `util_ParseUtf16Var` of
`device.Externals`) -/

/-- what `ParseEFILoadOption` returns next to an error -/
def zeroOption : device.EFILoadOption := ⟨0, 0, "", ⟨⟩, []⟩

/-- fewer than six bytes: an error (the two fixed-size fields cannot be read) -/
theorem C18g_loadOption_short (X : device.Externals) (bs : List UInt8) (fuel : Nat) (h : bs.length < 6) :
    (device.ParseEFILoadOption fuel X bs).2.2.isSome = true := by
  unfold device.ParseEFILoadOption
  simp only []
  by_cases h4 : bs.length < 4
  · obtain ⟨e, he⟩ := GenCodec.readBytes_short (n := 4) h4
    simp only [he, Option.isSome_some, if_true]
    rfl
  · have hr := GenCodec.readBytes_ge (n := 4) (f := bs) (by omega) (by omega)
    obtain ⟨e, he⟩ := GenCodec.readBytes_short (n := 2) (f := bs.drop 4) (by rw [List.length_drop]; omega)
    simp only [hr, Option.isSome_none, Bool.false_eq_true, if_false, he, Option.isSome_some, if_true]
    rfl

/-- **the description is read from exactly the bytes up to and including the first aligned `00 00`** behind the six
    bytes of `Attributes` and `FilePathListLength`: `ParseUtf16Var` is handed `(readNullString (bs.drop 6)).1`
    (see `C17g_readNull_terminated` for what that is), the reader is left right behind it, and the two fixed
    fields are the little-endian values of the first six bytes -/
theorem C18g_loadOption (X : device.Externals) (bs : List UInt8) (fuel : Nat) (h6 : 6 ≤ bs.length)
    (h : bs.length / 2 + 1 ≤ fuel) :
    device.ParseEFILoadOption fuel X bs =
      (if (X.util_ParseUtf16Var (readNullString (bs.drop 6)).1).2.2.isSome
        then ((readNullString (bs.drop 6)).2, zeroOption, (X.util_ParseUtf16Var (readNullString (bs.drop 6)).1).2.2)
        else ((readNullString (bs.drop 6)).2,
              ⟨decLE32 (bs.take 4), decLE16 ((bs.drop 4).take 2),
               (X.util_ParseUtf16Var (readNullString (bs.drop 6)).1).2.1, ⟨⟩, []⟩, none)) := by
  have hr4 := GenCodec.readBytes_ge (n := 4) (f := bs) (by omega) (by omega)
  have hr2 := GenCodec.readBytes_ge (n := 2) (f := bs.drop 4) (by rw [List.length_drop]; omega) (by omega)
  have hd : (bs.drop 4).drop 2 = bs.drop 6 := by rw [List.drop_drop]
  have hf : (bs.drop 6).length / 2 + 1 ≤ fuel := by rw [List.length_drop]; omega
  have hloop := GenNullStr.loop_eq (bs.drop 6) fuel [] hf
  unfold device.ParseEFILoadOption util.ReadNullString
  simp only [hr4, hr2, hd, Option.isSome_none, Bool.false_eq_true, if_false, hloop, List.nil_append]
  rfl

example : device.ParseEFILoadOption 9 ⟨fun b => ([], "d", if b == [0x78, 0, 0, 0] then none else some "no")⟩
    [1, 0, 0, 0, 4, 0, 0x78, 0, 0, 0, 0x7f, 0xff, 4, 0] = ([0x7f, 0xff, 4, 0], ⟨1, 4, "d", ⟨⟩, []⟩, none) := by decide +kernel

end GoUefi.C18

#print axioms GoUefi.C18.C18g_unmarshal
#print axioms GoUefi.C18.C18g_unmarshal_rest
#print axioms GoUefi.C18.C18g_unmarshal_fuel
#print axioms GoUefi.C18.C18g_unmarshal_no_error
#print axioms GoUefi.C18.C18g_unmarshal_model
#print axioms GoUefi.C18.C18g_unmarshal_spec
#print axioms GoUefi.C18.C18g_name
#print axioms GoUefi.C18.C18g_unmarshal_length
#print axioms GoUefi.C18.C18g_unmarshal_entry
#print axioms GoUefi.C18.C18g_unmarshal_trailing
#print axioms GoUefi.C18.C18g_loadOption_short
#print axioms GoUefi.C18.C18g_loadOption
