import GoUefi.Gen
import GoUefi.Lemmas.VarFs
/-!
# C11 (generated tie) — the attribute subset test of the current source

`Attributes.Equal` (efi/attributes/attributes.go) translated by `tools/go2lean` is the model's
`Impl.attrsSubset`: "every required bit is present in the stored mask".
-/
namespace GoUefi.C11
open GoUefi GoUefi.Gen

theorem C11g_equal (a b : attributes.Attributes) :
    attributes.Attributes.Equal a b = Impl.attrsSubset a.toNat b.toNat := by
  rw [Bool.eq_iff_iff, Impl.attrsSubset_iff a.toNat b.toNat (UInt32.toNat_lt a)]
  unfold attributes.Attributes.Equal
  rw [beq_iff_eq, ← UInt32.toNat_and, UInt32.toNat_inj]

/-- bit-level reading: `Equal a b` iff every bit set in `a` is set in `b` -/
theorem C11g_equal_iff (a b : attributes.Attributes) :
    attributes.Attributes.Equal a b = true ↔ a &&& b = a := by
  unfold attributes.Attributes.Equal
  exact beq_iff_eq

example : attributes.Attributes.Equal 0x27 0x67 = true ∧ attributes.Attributes.Equal 0x67 0x27 = false := by
  decide +kernel

end GoUefi.C11

#print axioms GoUefi.C11.C11g_equal
#print axioms GoUefi.C11.C11g_equal_iff
