import GoUefi.Gen
import GoUefi.Lemmas.VarFs
import GoUefi.Lemmas.GenCodec
/-!
# C11 (generated tie) — the attribute subset test of the current source

`Attributes.Equal` (efi/attributes/attributes.go) translated by `tools/go2lean` is the model's
`Impl.attrsSubset`: "every required bit is present in the stored mask".
-/
namespace GoUefi.C11
open GoUefi GoUefi.Gen

theorem C11g_equal (a b : attributes.Attributes) :
    attributes.Attributes.Equal a b = Impl.attrsSubset a.toNat b.toNat := by
  rw [Bool.eq_iff_iff, Impl.attrsSubset_iff a.toNat b.toNat (UInt32.toNat_lt a)]
  unfold attributes.Attributes.Equal
  rw [beq_iff_eq, ← UInt32.toNat_and, UInt32.toNat_inj]

/-- bit-level reading: `Equal a b` iff every bit set in `a` is set in `b` -/
theorem C11g_equal_iff (a b : attributes.Attributes) :
    attributes.Attributes.Equal a b = true ↔ a &&& b = a := by
  unfold attributes.Attributes.Equal
  exact beq_iff_eq

example : attributes.Attributes.Equal 0x27 0x67 = true ∧ attributes.Attributes.Equal 0x67 0x27 = false := by
  decide +kernel

end GoUefi.C11

#print axioms GoUefi.C11.C11g_equal
#print axioms GoUefi.C11.C11g_equal_iff

/-! ## the read path: `ParseEfivars` (both copies) as the source has it now

`ParseEfivars(f, size)` is what `ReadEfivarsFile` hands the opened file and its `Stat` size to.  The
Go code allocates `size - 4` bytes: for `size < 4` that used to be `make` with a negative length, a
run-time panic (F33) which a translation to lists and `Int.toNat` cannot show; the source now rejects
such a size first (`C11g_parse_small`), so `4 ≤ size` holds where the allocation is reached and the
three theorems together cover every reader content and every size. -/
namespace GoUefi.C11
open GoUefi GoUefi.Gen GoUefi.GenCodec

/-- A file that holds at least `size ≥ 4` bytes: the attribute word is the little-endian reading of
    the first four bytes, the value is exactly the next `size - 4` bytes (not fewer, not the whole
    rest), and the reader is left behind them. -/
theorem C11g_parse_ok (f : List UInt8) (size : Int) (hs : 4 ≤ size) (hf : size.toNat ≤ f.length) :
    attributes.ParseEfivars f size =
      (f.drop size.toNat, decLE32 (f.take 4), (f.drop 4).take (size.toNat - 4), none) := by
  have h4 : 4 ≤ f.length := by omega
  have hd : decide (size < attributes.SizeofAttributes) = false := by
    apply decide_eq_false; show ¬ size < 4; omega
  unfold attributes.ParseEfivars
  rw [hd]
  simp only [Bool.false_eq_true, if_false, attributes.SizeofAttributes, List.length_replicate]
  rw [readBytes_ge h4 (by decide)]
  simp only [Option.isNone_none, Option.isSome_none, if_true, Bool.false_eq_true, if_false]
  by_cases h0 : (size - 4).toNat = 0
  · have hz : size.toNat = 4 := by omega
    simp [h0, hz, readBytes]
  · have hle : (size - 4).toNat ≤ (f.drop 4).length := by rw [List.length_drop]; omega
    rw [readBytes_ge hle (by omega)]
    have e1 : (size - 4).toNat = size.toNat - 4 := by omega
    have e2 : 4 + (size.toNat - 4) = size.toNat := by omega
    simp [e1, List.drop_drop, e2]

/-- A file shorter than `size`: an error, attributes 0 and no value — never a short value. -/
theorem C11g_parse_short (f : List UInt8) (size : Int) (hs : 4 ≤ size) (hf : f.length < size.toNat) :
    ∃ e, attributes.ParseEfivars f size = ([], 0, [], some e) := by
  have hd : decide (size < attributes.SizeofAttributes) = false := by
    apply decide_eq_false; show ¬ size < 4; omega
  unfold attributes.ParseEfivars
  rw [hd]
  simp only [Bool.false_eq_true, if_false, attributes.SizeofAttributes, List.length_replicate]
  by_cases h4 : f.length < 4
  · obtain ⟨s, hr⟩ := readBytes_short (n := 4) h4
    rw [hr]
    exact ⟨_, by simp [goWrap]; rfl⟩
  · rw [readBytes_ge (by omega) (by decide)]
    simp only [Option.isNone_none, Option.isSome_none, if_true, Bool.false_eq_true, if_false]
    have hlt : (f.drop 4).length < (size - 4).toNat := by rw [List.length_drop]; omega
    obtain ⟨s, hr⟩ := readBytes_short hlt
    rw [hr]
    exact ⟨s, by simp⟩

/-- A declared size below the four attribute bytes: an error, and nothing is read (F33: this used to
    be a negative-length allocation). -/
theorem C11g_parse_small (f : List UInt8) (size : Int) (hs : size < 4) :
    ∃ e, attributes.ParseEfivars f size = (f, 0, [], some e) := by
  have hd : decide (size < attributes.SizeofAttributes) = true := by
    apply decide_eq_true; show size < 4; exact hs
  unfold attributes.ParseEfivars
  rw [hd]
  exact ⟨_, rfl⟩

/-- the attribute word as the model reads it (`rd32` of the first four bytes) -/
theorem C11g_parse_attrs (f : List UInt8) (size : Int) (hs : 4 ≤ size) (hf : size.toNat ≤ f.length) :
    (attributes.ParseEfivars f size).2.1.toNat = rd32 (f.take 4) := by
  rw [C11g_parse_ok f size hs hf]
  exact decLE32_toNat _ (by rw [List.length_take]; omega)

/-- the value is independent of what follows it in the reader and has exactly `size - 4` bytes -/
theorem C11g_parse_value_length (f : List UInt8) (size : Int) (hs : 4 ≤ size) (hf : size.toNat ≤ f.length) :
    (attributes.ParseEfivars f size).2.2.1.length = size.toNat - 4 := by
  rw [C11g_parse_ok f size hs hf]
  simp only [List.length_take, List.length_drop]; omega

/-- the wrapper's copy is the same function -/
theorem C11g_parse_twins (t : fswrapper.FSWrapper) (f : List UInt8) (size : Int) :
    fswrapper.FSWrapper.ParseEfivars t f size = attributes.ParseEfivars f size := rfl

example : attributes.ParseEfivars [7, 0, 0, 0, 1, 2, 3, 9] 7 = ([9], 7, [1, 2, 3], none) := by decide +kernel
example : (attributes.ParseEfivars [7, 0, 0, 0, 1, 2] 7).2.2.2.isSome = true := by decide +kernel
example : (attributes.ParseEfivars [7, 0, 0, 0, 1, 2] 3).2.2.2.isSome = true := by decide +kernel

end GoUefi.C11

#print axioms GoUefi.C11.C11g_parse_ok
#print axioms GoUefi.C11.C11g_parse_short
#print axioms GoUefi.C11.C11g_parse_small
#print axioms GoUefi.C11.C11g_parse_attrs
#print axioms GoUefi.C11.C11g_parse_value_length
#print axioms GoUefi.C11.C11g_parse_twins
