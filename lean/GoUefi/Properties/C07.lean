import GoUefi.Lemmas.SigDb
/-!
# C07 — encoder and decoder of the signature database are inverse on well-formed data

`Impl.readDb` / `Impl.encDb` (model of `ReadSignatureDatabase` / `WriteSignatureDatabase`, see
`GoUefi/Model/SigDb.lean`) against the specification codec `GoUefi.Spec`.  Only the property
theorems and their non-vacuity examples live here; helper lemmas are in
`GoUefi/Lemmas/SigDb.lean`.
-/
namespace GoUefi.C07
open GoUefi

/-- On every stream that the specification accepts and whose lists are all of a type the
    implementation handles, the reader returns exactly the specified value (with the size fields
    the specification derives), and writing that value back yields the input byte for byte. -/
theorem C07_decode_exact {bs : Bytes} {ls : List Spec.SList} (h : Spec.decodeDb bs = some ls)
    (hh : ∀ l ∈ ls, Impl.handled l.type l.hdr.length l.size = true) :
    Impl.readDb bs = some (ls.map Impl.ofSpec) ∧ Impl.encDb (ls.map Impl.ofSpec) = bs := by
  refine ⟨Impl.decodeDb_readDb h hh, ?_⟩
  rw [Impl.encDb_ofSpec]
  exact (Spec.decodeDb_ok h).1

/-- What the implementation writes for a database that satisfies the C09 invariant is a
    well-formed stream denoting exactly that database; if all lists are of handled types, reading
    it back returns the database itself.

    PARTIAL with respect to the requested statement (hypotheses `db.Inv` and `listSize < 2^32`
    only): a list *without entries* has `listSize = 28` whatever its `size` field, so a `size`
    of 33 bits survives both hypotheses and is truncated by the 4-byte encoder (counterexample
    below).  The added hypothesis `l.sigs = [] → l.size < 2^32` is exactly what is missing: for a
    list with entries `size ≤ listSize` follows from the invariant. -/
theorem C07_built_wf_partial {db : Impl.Db} (hinv : db.Inv)
    (hb : ∀ l ∈ db, l.listSize < 2^32 ∧ (l.sigs = [] → l.size < 2^32)) :
    Spec.decodeDb (Impl.encDb db) = some (db.map Impl.SList.toSpec) ∧
    ((∀ l ∈ db, Impl.handled l.type 0 l.size = true) → Impl.readDb (Impl.encDb db) = some db) := by
  have hsz : ∀ l ∈ db, l.size < 2^32 := fun l hl => (hinv l hl).size_lt (hb l hl).1 (hb l hl).2
  have hcanon : ∀ l ∈ db, l.Canon := fun l hl => (hinv l hl).canon
  constructor
  · rw [← Impl.encDb_toSpec hcanon]
    apply Spec.decodeDb_enc
    intro l hl
    simp only [List.mem_map] at hl
    obtain ⟨x, hx, rfl⟩ := hl
    exact Impl.toSpec_wf32 (hcanon x hx) (hb x hx).1 (hsz x hx)
  · intro hh
    exact Impl.readDb_enc db (fun l hl => ⟨hcanon l hl, (hb l hl).1, hsz l hl, hh l hl⟩)

/-- the requested full-strength statement is false: an entry-less X.509 list whose `size` field
    needs 33 bits satisfies the invariant and `listSize < 2^32`, but is read back with size 16 -/
example : ∃ db : Impl.Db, db.Inv ∧ (∀ l ∈ db, l.listSize < 2^32) ∧
    (∀ l ∈ db, Impl.handled l.type 0 l.size = true) ∧
    Impl.readDb (Impl.encDb db) ≠ some db :=
  ⟨[⟨Impl.guidX509, 28, 0, 2^32 + 16, [], []⟩],
   by intro l hl
      simp only [List.mem_singleton] at hl; subst hl
      exact ⟨by decide, rfl, rfl, by decide, by decide, by simp, by simp⟩,
   by decide, by decide, by decide +kernel⟩

/-- Every database a client can build (`Impl.Reachable`: decoded, then edited by
    append / remove / append-list) round-trips through the encoder, provided its size fields fit
    the 32-bit wire fields. -/
theorem C07_reachable_roundtrip {E : Impl.Env} (hidem : E.Idem) {db : Impl.Db}
    (hr : Impl.Reachable E db)
    (hb : ∀ l ∈ db, l.listSize < 2^32 ∧ (l.sigs = [] → l.size < 2^32)) :
    Spec.decodeDb (Impl.encDb db) = some (db.map Impl.SList.toSpec) ∧
    ((∀ l ∈ db, Impl.handled l.type 0 l.size = true) → Impl.readDb (Impl.encDb db) = some db) :=
  C07_built_wf_partial (hr.inv hidem) hb

/-- **Built databases decode back** (possible since the F37 repair).  Every database built through
    the library's own operations over the types the decoder handles — starting empty or from a decoded
    duplicate-free stream; `Append` of an X.509, SHA-256 or externally-managed entry; `Remove`;
    `AppendList` of a list of such a type that was itself built by `NewSignatureList` and at least one
    successful `AppendBytes` — encodes to a well-formed stream (the specification codec reads exactly
    its lists) and the implementation's decoder returns the database itself.

    No hypothesis about the sizes of the entries, about the normalisation function, or about which
    types are present in the result (all of that is proved: `Impl.BuiltOver.sized`, `.types`,
    `.reachable`).  What remains assumed: every `ListSize` fits its 4-byte field (Go computes it in
    `uint32`), owners are 16 bytes (always true of the Go struct), decoded starts are duplicate-free;
    and a list that `NewSignatureList` made and nothing was appended to is not among the lists
    `AppendList` may be given (known finding F20, counterexamples below).

    Before the repair this was false: `[] —Append(EXTERNAL_MANAGEMENT, o, [1,2])→ db` succeeded and
    `readDb (encDb db) = none`. -/
theorem C07_built_roundtrip {E : Impl.Env} {db : Impl.Db}
    (hb : Impl.BuiltOver E Impl.HandledType db) (h32 : ∀ l ∈ db, l.listSize < 2^32) :
    Spec.decodeDb (Impl.encDb db) = some (db.map Impl.SList.toSpec) ∧
    Impl.readDb (Impl.encDb db) = some db := by
  have hinv := hb.reachable.inv_raw
  have hw := Impl.Db.wire_of_sized hinv hb.sized hb.types h32
  exact ⟨(C07_built_wf_partial hinv (fun l hl => ⟨h32 l hl, fun _ => (hw l hl).2.2.1⟩)).1,
    Impl.readDb_enc db hw⟩

/-- The special case asked for: from the empty database, any number of successful `Append`s of
    handled types (any owners of 16 bytes, any data, PEM or not). -/
inductive Appended (E : Impl.Env) : Impl.Db → Prop
  | empty : Appended E []
  | append {db db' : Impl.Db} {t o d : Bytes} : Appended E db → o.length = 16 →
      (t = Impl.guidX509 ∨ t = Impl.guidSha256 ∨ t = Impl.guidExternal) →
      db.append E t o d = .ok db' → Appended E db'

theorem Appended.built {E : Impl.Env} {db : Impl.Db} (h : Appended E db) :
    Impl.BuiltOver E Impl.HandledType db := by
  induction h with
  | empty => exact .empty
  | append _ ho ht ha ih => exact .append ih ho ht ha

theorem C07_appended_decodes {E : Impl.Env} {db : Impl.Db} (h : Appended E db)
    (h32 : ∀ l ∈ db, l.listSize < 2^32) : Impl.readDb (Impl.encDb db) = some db :=
  (C07_built_roundtrip h.built h32).2

/-- For the types the decoder does NOT handle the first half still holds (the stream is well-formed
    and denotes the database), for every type in `ValidEFISignatureSchemes` or outside it. -/
theorem C07_built_wf {E : Impl.Env} {T : Bytes → Prop} {db : Impl.Db}
    (hb : Impl.BuiltOver E T db) (h32 : ∀ l ∈ db, l.listSize < 2^32) :
    Spec.decodeDb (Impl.encDb db) = some (db.map Impl.SList.toSpec) :=
  (C07_built_wf_partial hb.reachable.inv_raw
    (fun l hl => ⟨h32 l hl, (hb.sized l hl).2.2⟩)).1

/-- the size rule is what the type-agnostic invariant of C09 lacks: an externally-managed list of
    signature size 18 satisfies `Inv`, encodes to a well-formed stream, and is not decoded — this is
    the database the unrepaired `Append` built (F37) -/
example : ∃ db : Impl.Db, db.Inv ∧ (∀ l ∈ db, l.listSize < 2^32) ∧
    (∀ l ∈ db, Impl.HandledType l.type) ∧
    Spec.decodeDb (Impl.encDb db) = some (db.map Impl.SList.toSpec) ∧
    Impl.readDb (Impl.encDb db) = none :=
  ⟨[⟨Impl.guidExternal, 46, 0, 18, [], [⟨Ex.owner1, [1, 2]⟩]⟩],
   by intro l hl
      simp only [List.mem_singleton] at hl; subst hl
      exact ⟨by decide, rfl, rfl, by decide, by decide, by decide, by decide⟩,
   by decide,
   by intro l hl
      simp only [List.mem_singleton] at hl; subst hl
      exact Or.inr (Or.inr rfl),
   by decide +kernel, by decide +kernel⟩

/-- known finding F20 (not repaired): `AppendList` of a list nothing was appended to.  Its signature
    size is 0; the 28 bytes it encodes to are no well-formed list and are not decoded.  `ListBuilt`
    (at least one successful `AppendBytes`) is exactly what excludes it. -/
example : Spec.decodeDb (Impl.encDb (Impl.Db.appendList [] (Impl.newList Impl.guidSha256))) = none ∧
    Impl.readDb (Impl.encDb (Impl.Db.appendList [] (Impl.newList Impl.guidSha256))) = none ∧
    Spec.decodeDb (Impl.encDb (Impl.Db.appendList [] (Impl.newList Impl.guidX509))) = none := by
  decide +kernel

/-! ### non-vacuity: the two-list database `Ex.db` and its 144-byte wire form `Ex.bytes` -/

section
open GoUefi.Ex   -- the (scoped) `DecidableEq (Except _ _)` used by `decide` below
/-- `C07_built_roundtrip` / `C07_appended_decodes`: a database of all three handled types built by
    four `Append`s from the empty one -/
example : ∃ db : Impl.Db, Appended Ex.env db ∧ db.length = 3 ∧ (∀ l ∈ db, l.listSize < 2^32) := by
  let e1 : Impl.SList := ⟨Impl.guidExternal, 45, 0, 17, [], [⟨Ex.owner1, [1]⟩]⟩
  let e2 : Impl.SList := ⟨Impl.guidExternal, 62, 0, 17, [], [⟨Ex.owner1, [1]⟩, ⟨Ex.owner2, [1]⟩]⟩
  let x : Impl.SList := ⟨Impl.guidX509, 48, 0, 20, [], [⟨Ex.owner1, [1, 2, 3, 4]⟩]⟩
  refine ⟨[e2, Ex.shaList, x], ?_, rfl, by decide⟩
  exact .append (db := [e2, Ex.shaList]) (t := Impl.guidX509) (o := Ex.owner1) (d := [1, 2, 3, 4])
    (.append (db := [e2]) (t := Impl.guidSha256) (o := Ex.owner1) (d := List.replicate 32 0xAA)
      (.append (db := [e1]) (t := Impl.guidExternal) (o := Ex.owner2) (d := [1])
        (.append (db := []) (t := Impl.guidExternal) (o := Ex.owner1) (d := [1]) .empty
          (by decide) (Or.inr (Or.inr rfl)) (by decide +kernel))
        (by decide) (Or.inr (Or.inr rfl)) (by decide +kernel))
      (by decide) (Or.inr (Or.inl rfl)) (by decide +kernel))
    (by decide) (Or.inl rfl) (by decide +kernel)
end

/-- hypotheses of `C07_decode_exact` -/
example : Spec.decodeDb Ex.bytes = some (Ex.db.map Impl.SList.toSpec) ∧
    ∀ l ∈ Ex.db.map Impl.SList.toSpec, Impl.handled l.type l.hdr.length l.size = true := by
  decide +kernel

/-- hypotheses of `C07_built_wf_partial` (the invariant via decoding, see C09) -/
example : Ex.db.Inv ∧ (∀ l ∈ Ex.db, l.listSize < 2^32 ∧ (l.sigs = [] → l.size < 2^32)) ∧
    (∀ l ∈ Ex.db, Impl.handled l.type 0 l.size = true) :=
  ⟨Impl.readDb_inv (bs := Ex.bytes) (by decide +kernel) (by decide +kernel),
   by decide +kernel, by decide +kernel⟩

end GoUefi.C07

#print axioms GoUefi.C07.C07_decode_exact
#print axioms GoUefi.C07.C07_built_wf_partial
#print axioms GoUefi.C07.C07_reachable_roundtrip
#print axioms GoUefi.C07.C07_built_roundtrip
#print axioms GoUefi.C07.C07_appended_decodes
#print axioms GoUefi.C07.C07_built_wf
