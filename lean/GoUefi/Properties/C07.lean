import GoUefi.Lemmas.SigDb
/-!
# C07 — encoder and decoder of the signature database are inverse on well-formed data

`Impl.readDb` / `Impl.encDb` (model of `ReadSignatureDatabase` / `WriteSignatureDatabase`, see
`GoUefi/Model/SigDb.lean`) against the specification codec `GoUefi.Spec`.  Only the property
theorems and their non-vacuity examples live here; helper lemmas are in
`GoUefi/Lemmas/SigDb.lean`.
-/
namespace GoUefi.C07
open GoUefi

/-- On every stream that the specification accepts and whose lists are all of a type the
    implementation handles, the reader returns exactly the specified value (with the size fields
    the specification derives), and writing that value back yields the input byte for byte. -/
theorem C07_decode_exact {bs : Bytes} {ls : List Spec.SList} (h : Spec.decodeDb bs = some ls)
    (hh : ∀ l ∈ ls, Impl.handled l.type l.hdr.length l.size = true) :
    Impl.readDb bs = some (ls.map Impl.ofSpec) ∧ Impl.encDb (ls.map Impl.ofSpec) = bs := by
  refine ⟨Impl.decodeDb_readDb h hh, ?_⟩
  rw [Impl.encDb_ofSpec]
  exact (Spec.decodeDb_ok h).1

/-- What the implementation writes for a database that satisfies the C09 invariant is a
    well-formed stream denoting exactly that database; if all lists are of handled types, reading
    it back returns the database itself.

    PARTIAL with respect to the requested statement (hypotheses `db.Inv` and `listSize < 2^32`
    only): a list *without entries* has `listSize = 28` whatever its `size` field, so a `size`
    of 33 bits survives both hypotheses and is truncated by the 4-byte encoder (counterexample
    below).  The added hypothesis `l.sigs = [] → l.size < 2^32` is exactly what is missing: for a
    list with entries `size ≤ listSize` follows from the invariant. -/
theorem C07_built_wf_partial {db : Impl.Db} (hinv : db.Inv)
    (hb : ∀ l ∈ db, l.listSize < 2^32 ∧ (l.sigs = [] → l.size < 2^32)) :
    Spec.decodeDb (Impl.encDb db) = some (db.map Impl.SList.toSpec) ∧
    ((∀ l ∈ db, Impl.handled l.type 0 l.size = true) → Impl.readDb (Impl.encDb db) = some db) := by
  have hsz : ∀ l ∈ db, l.size < 2^32 := fun l hl => (hinv l hl).size_lt (hb l hl).1 (hb l hl).2
  have hcanon : ∀ l ∈ db, l.Canon := fun l hl => (hinv l hl).canon
  constructor
  · rw [← Impl.encDb_toSpec hcanon]
    apply Spec.decodeDb_enc
    intro l hl
    simp only [List.mem_map] at hl
    obtain ⟨x, hx, rfl⟩ := hl
    exact Impl.toSpec_wf32 (hcanon x hx) (hb x hx).1 (hsz x hx)
  · intro hh
    exact Impl.readDb_enc db (fun l hl => ⟨hcanon l hl, (hb l hl).1, hsz l hl, hh l hl⟩)

/-- the requested full-strength statement is false: an entry-less X.509 list whose `size` field
    needs 33 bits satisfies the invariant and `listSize < 2^32`, but is read back with size 16 -/
example : ∃ db : Impl.Db, db.Inv ∧ (∀ l ∈ db, l.listSize < 2^32) ∧
    (∀ l ∈ db, Impl.handled l.type 0 l.size = true) ∧
    Impl.readDb (Impl.encDb db) ≠ some db :=
  ⟨[⟨Impl.guidX509, 28, 0, 2^32 + 16, [], []⟩],
   by intro l hl
      simp only [List.mem_singleton] at hl; subst hl
      exact ⟨by decide, rfl, rfl, by decide, by decide, by simp, by simp⟩,
   by decide, by decide, by decide +kernel⟩

/-- Every database a client can build (`Impl.Reachable`: decoded, then edited by
    append / remove / append-list) round-trips through the encoder, provided its size fields fit
    the 32-bit wire fields. -/
theorem C07_reachable_roundtrip {E : Impl.Env} (hidem : E.Idem) {db : Impl.Db}
    (hr : Impl.Reachable E db)
    (hb : ∀ l ∈ db, l.listSize < 2^32 ∧ (l.sigs = [] → l.size < 2^32)) :
    Spec.decodeDb (Impl.encDb db) = some (db.map Impl.SList.toSpec) ∧
    ((∀ l ∈ db, Impl.handled l.type 0 l.size = true) → Impl.readDb (Impl.encDb db) = some db) :=
  C07_built_wf_partial (hr.inv hidem) hb

/-! ### non-vacuity: the two-list database `Ex.db` and its 144-byte wire form `Ex.bytes` -/

/-- hypotheses of `C07_decode_exact` -/
example : Spec.decodeDb Ex.bytes = some (Ex.db.map Impl.SList.toSpec) ∧
    ∀ l ∈ Ex.db.map Impl.SList.toSpec, Impl.handled l.type l.hdr.length l.size = true := by
  decide +kernel

/-- hypotheses of `C07_built_wf_partial` (the invariant via decoding, see C09) -/
example : Ex.db.Inv ∧ (∀ l ∈ Ex.db, l.listSize < 2^32 ∧ (l.sigs = [] → l.size < 2^32)) ∧
    (∀ l ∈ Ex.db, Impl.handled l.type 0 l.size = true) :=
  ⟨Impl.readDb_inv (bs := Ex.bytes) (by decide +kernel) (by decide +kernel),
   by decide +kernel, by decide +kernel⟩

end GoUefi.C07

#print axioms GoUefi.C07.C07_decode_exact
#print axioms GoUefi.C07.C07_built_wf_partial
#print axioms GoUefi.C07.C07_reachable_roundtrip
