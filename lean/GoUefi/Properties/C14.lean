import GoUefi.Lemmas.Total
import GoUefi.Properties.C08
import GoUefi.Properties.C10
/-!
# C14 — decoders of variable contents are total and bounded (dynamic part)

For EVERY byte string, every decoder entry point of firmware-variable / key-file contents returns a
value or an error: never a panic, never a process exit (`Outcome` constructors `.panic` / `.exit`),
never a loop that runs out of fuel — and what it returns is bounded by the size of its input.

Only the property theorems and their non-vacuity examples live here.  Models:
`GoUefi/Model/{SigDb,AuthDesc,Boot,Utf16,Guid}.lean`; helper lemmas: `GoUefi/Lemmas/Total.lean`.
(The static call-graph certificate of the same property is `GoUefi/Properties/C14x.lean`.)

The decoders `readDb`, `readList`, `readSig(s)`, `bootOrder`, `stringToGuid`, `bytesToGuid`, `hdText`,
`fileText` have result types `Option` / `Except` / plain values: the Go code they model has no crash
path, and a Lean function of such a type is total by construction.  For those the content is in the
fuel and size theorems (parts 2 and 3).
-/
namespace GoUefi.C14
open GoUefi GoUefi.Impl

/-! ### 1. outcome totality: neither `.panic` nor `.exit`, for all inputs -/

/-- `ReadWinCertificate` returns (a value or an error) on every byte string. -/
theorem C14_total_readWinCert (bs : Bytes) : readWinCert bs ≠ .panic ∧ readWinCert bs ≠ .exit :=
  readWinCert_returns bs

/-- `ReadWinCertificateUEFIGUID` returns on every byte string. -/
theorem C14_total_readWinCertGuid (bs : Bytes) :
    readWinCertGuid bs ≠ .panic ∧ readWinCertGuid bs ≠ .exit :=
  readWinCertGuid_returns bs

/-- `ReadEFIVariableAuthencation2` returns on every byte string. -/
theorem C14_total_readAuth (bs : Bytes) : readAuth bs ≠ .panic ∧ readAuth bs ≠ .exit :=
  readAuth_returns bs

/-- `ParseUtf16Var` returns on every byte string (the empty one included: F12a). -/
theorem C14_total_parseUtf16 (bs : Bytes) : parseUtf16 bs ≠ .panic ∧ parseUtf16 bs ≠ .exit :=
  parseUtf16_returns bs

/-- `Efistring.Unmarshal` returns on every byte string. -/
theorem C14_total_efistringUnmarshal (bs : Bytes) :
    efistringUnmarshal bs ≠ .panic ∧ efistringUnmarshal bs ≠ .exit :=
  efistringUnmarshal_returns bs

/-- One turn of the `ParseDevicePath` loop returns on every byte string (F12: the sub-parsers report
    an error instead of calling `log.Fatal`). -/
theorem C14_total_parseNode (bs : Bytes) : parseNode bs ≠ .panic ∧ parseNode bs ≠ .exit :=
  parseNode_returns bs

/-- `ParseDevicePath` returns on every byte string, for every amount of fuel. -/
theorem C14_total_parseDevicePath (fuel : Nat) (bs : Bytes) :
    parseDevicePath fuel bs ≠ .panic ∧ parseDevicePath fuel bs ≠ .exit :=
  parseDevicePath_returns fuel bs

/-- `EFILoadOption.Unmarshal` returns on every byte string. -/
theorem C14_total_loadOptionUnmarshal (bs : Bytes) :
    loadOptionUnmarshal bs ≠ .panic ∧ loadOptionUnmarshal bs ≠ .exit :=
  loadOptionUnmarshal_returns bs

/-- The same eight facts through `Outcome.returns`. -/
theorem C14_total_returns (bs : Bytes) (fuel : Nat) :
    (readWinCert bs).returns = true ∧ (readWinCertGuid bs).returns = true ∧
    (readAuth bs).returns = true ∧ (parseUtf16 bs).returns = true ∧
    (efistringUnmarshal bs).returns = true ∧ (parseNode bs).returns = true ∧
    (parseDevicePath fuel bs).returns = true ∧ (loadOptionUnmarshal bs).returns = true := by
  have key : ∀ {α} (o : Outcome α), o ≠ .panic ∧ o ≠ .exit → o.returns = true := by
    intro α o h
    cases o with
    | ok a => rfl
    | err => rfl
    | panic => exact absurd rfl h.1
    | exit => exact absurd rfl h.2
  exact ⟨key _ (C14_total_readWinCert bs), key _ (C14_total_readWinCertGuid bs),
    key _ (C14_total_readAuth bs), key _ (C14_total_parseUtf16 bs),
    key _ (C14_total_efistringUnmarshal bs), key _ (C14_total_parseNode bs),
    key _ (C14_total_parseDevicePath fuel bs), key _ (C14_total_loadOptionUnmarshal bs)⟩

/-! ### 2. termination with linear fuel: the bound the entry points pass is never exhausted -/

/-- `ReadSignatureDatabase`: every list consumes at least 28 bytes, so `bs.length / 28 + 1` turns
    always suffice; with that much fuel (or more) the answer does not depend on the fuel. -/
theorem C14_readDb_fuel_sharp (bs : Bytes) (fuel : Nat) (h : bs.length / 28 + 1 ≤ fuel) :
    readDbAux fuel bs = readDb bs :=
  readDbAux_fuel_irrel fuel (bs.length + 1) bs h (by omega)

/-- `ReadSignatureDatabase`: more fuel than the entry point passes does not change the answer (so
    `none` from `readDb` is always a decoding error, never "ran out of fuel"). -/
theorem C14_readDb_fuel (bs : Bytes) (fuel : Nat) (h : bs.length + 1 ≤ fuel) :
    readDbAux fuel bs = readDb bs :=
  C14_readDb_fuel_sharp bs fuel (by omega)

/-- `ParseDevicePath`: every node consumes at least its 4 header bytes, so `bs.length / 4 + 1` turns
    always suffice. -/
theorem C14_devicepath_fuel_sharp (bs : Bytes) (fuel : Nat) (h : bs.length / 4 + 1 ≤ fuel) :
    parseDevicePath fuel bs = parseDevicePath (bs.length + 1) bs :=
  parseDevicePath_fuel_irrel fuel (bs.length + 1) bs h (by omega)

/-- `ParseDevicePath`: more fuel than `bs.length + 1` does not change the answer (so the `.err` of
    the out-of-fuel branch is never what the entry point returns). -/
theorem C14_devicepath_fuel (bs : Bytes) (fuel : Nat) (h : bs.length + 1 ≤ fuel) :
    parseDevicePath fuel bs = parseDevicePath (bs.length + 1) bs :=
  C14_devicepath_fuel_sharp bs fuel (by omega)

/-- `EFILoadOption.Unmarshal`: giving its internal device-path loop any amount of additional fuel
    (`loadOptionUnmarshalFuel extra` passes `rest.length + 1 + extra`) does not change the result. -/
theorem C14_loadOption_fuel (bs : Bytes) (extra : Nat) :
    loadOptionUnmarshalFuel extra bs = loadOptionUnmarshal bs :=
  loadOptionUnmarshalFuel_eq extra bs

/-- The signature loop of `ReadSignatureList`: `k` successful turns consume exactly `k * size`
    bytes of what is there. -/
theorem C14_readSigs_steps {size k : Nat} {bs : Bytes} {ss : List SData} {rest : Bytes}
    (h : readSigs size k bs = .ok (ss, rest)) (hs : 16 ≤ size) :
    k * size + rest.length = bs.length :=
  (readSigs_steps h hs).1

/-- … hence the loop succeeds only for `k ≤ bs.length / 16` (it returns an error as soon as the
    input is exhausted), and returns exactly `k` entries. -/
theorem C14_readSigs_turns {size k : Nat} {bs : Bytes} {ss : List SData} {rest : Bytes}
    (h : readSigs size k bs = .ok (ss, rest)) (hs : 16 ≤ size) :
    k ≤ bs.length / 16 ∧ ss.length = k := by
  obtain ⟨h1, h2⟩ := readSigs_steps h hs
  refine ⟨?_, h2⟩
  have : k * 16 ≤ k * size := Nat.mul_le_mul_left k hs
  omega

/-- One `ReadSignatureList` consumes exactly the encoding of the list it returns, at least the 28
    header bytes. -/
theorem C14_readList_consumes {bs : Bytes} {l : SList} {rest : Bytes}
    (h : readList bs = .ok l rest) :
    (encList l).length + rest.length = bs.length ∧ 28 ≤ (encList l).length := by
  obtain ⟨e, w⟩ := readList_ok h
  exact ⟨by rw [e, List.length_append], encList_length_ge l w.1.1⟩

/-! ### 3. bounded work / allocation: what is returned is never larger than what was given -/

/-- `ReadSignatureDatabase`: the decoded database re-encodes to exactly as many bytes as were read,
    and no signature body is longer than the input. -/
theorem C14_readDb_size {bs : Bytes} {db : Db} (h : readDb bs = some db) :
    (encDb db).length = bs.length ∧ ∀ l ∈ db, ∀ s ∈ l.sigs, s.data.length ≤ bs.length :=
  ⟨by rw [(C08.C08_strict h).2.2], readDb_data_le h⟩

/-- `ReadWinCertificate`: header (8) + returned body + unread rest is the input; the body is the
    declared length minus the header, and it was present. -/
theorem C14_readWinCert_size {bs : Bytes} {w : WinCert} {rest : Bytes}
    (h : readWinCert bs = .ok (w, rest)) :
    8 + w.cert.length + rest.length = bs.length ∧ w.length = 8 + w.cert.length :=
  readWinCert_size h

/-- `ReadEFIVariableAuthencation2`: time (16) + header (8) + type GUID (16) + returned data + unread
    rest is the input. -/
theorem C14_readAuth_size {bs : Bytes} {d : AuthDesc} {rest : Bytes}
    (h : readAuth bs = .ok (d, rest)) :
    16 + 8 + 16 + d.auth.data.length + rest.length = bs.length := by
  have e := C10.C10_decode_encode bs d rest h
  obtain ⟨ht, hg, hc, _⟩ := C10.C10_decoded_wf bs d rest h
  rw [← e]
  simp [writeAuth, writeWinCertGuid, writeWinCert, ht, hg, hc]
  omega

/-- `EFILoadOption.Unmarshal`, sharp form: two bytes per character of the description, four per
    returned node, four for the end node and four of the six fixed header bytes. -/
theorem C14_loadOption_size_sharp {bs : Bytes} {lo : LoadOption} (h : loadOptionUnmarshal bs = .ok lo) :
    2 * lo.desc.length + 4 * (lo.nodes.length + 1) + 4 ≤ bs.length :=
  loadOptionUnmarshal_size h

/-- `EFILoadOption.Unmarshal`: description and node list are bounded by the input. -/
theorem C14_loadOption_size {bs : Bytes} {lo : LoadOption} (h : loadOptionUnmarshal bs = .ok lo) :
    lo.desc.length ≤ bs.length ∧ lo.nodes.length ≤ bs.length / 4 + 1 := by
  have := loadOptionUnmarshal_size h
  omega

/-- `ParseDevicePath`: a successful walk read `ns.length + 1` node headers. -/
theorem C14_devicepath_size {fuel : Nat} {bs : Bytes} {ns : List Node}
    (h : parseDevicePath fuel bs = .ok ns) : 4 * (ns.length + 1) ≤ bs.length :=
  parseDevicePath_count fuel bs ns h

/-- `ParseUtf16Var`: at most one character per 2-byte code unit. -/
theorem C14_parseUtf16_size {bs : Bytes} {s : List Char} (h : parseUtf16 bs = .ok s) :
    s.length ≤ bs.length ∧ 2 * s.length ≤ bs.length + 1 := by
  have := parseUtf16_length h
  omega

/-- `bootorder.Unmarshal`: one 8-character name per complete 2 bytes (F35 repair: a trailing odd
    byte gives none). -/
theorem C14_bootOrder_size (bs : Bytes) :
    (bootOrder bs).length ≤ bs.length / 2 ∧ ∀ n ∈ bootOrder bs, n.length = 8 := by
  refine ⟨?_, bootOrder_names bs⟩
  rw [bootOrder_length]; omega

/-! ### 4. the hard-drive text form is defined for every signature type -/

/-- `HardDriveMediaDevicePath.Format` produces a text for every partition number, signature and
    signature-type byte (F15b/c: types other than MBR = 1 and GPT = 2 are rendered numerically,
    no table is indexed). -/
theorem C14_hdText_total :
    ∀ (part : Nat) (start size sig : Bytes) (st : Nat), (hdText part start size sig st).length > 0 :=
  hdText_length_pos

/-- the third branch: an unknown signature type is printed as a number followed by ",0" -/
theorem C14_hdText_other (part : Nat) (start size sig : Bytes) (st : Nat) (h1 : st ≠ 1) (h2 : st ≠ 2) :
    hdText part start size sig st =
      "HD(".toList ++ Nat.toDigits 10 part ++ [','] ++ Nat.toDigits 10 st ++ ",0".toList ++
        (",0x".toList ++ natHex (rd64 start) ++ ",0x".toList ++ natHex (rd64 size) ++ [')']) := by
  simp only [hdText, if_neg h1, if_neg h2]

/-- the MBR and GPT branches (re-export of `hdText_mbr`, `hdText_gpt`) -/
theorem C14_hdText_mbr_gpt (part : Nat) (start size sig : Bytes) :
    hdText part start size sig 1 =
      "HD(".toList ++ Nat.toDigits 10 part ++ ",MBR,0x".toList ++ pad8Hex (rd32 (sig.take 4)) ++
        ",0x".toList ++ natHex (rd64 start) ++ ",0x".toList ++ natHex (rd64 size) ++ [')'] ∧
    hdText part start size sig 2 =
      "HD(".toList ++ Nat.toDigits 10 part ++ ",GPT,".toList ++ (guidOfWire sig).format ++
        ",0x".toList ++ natHex (rd64 start) ++ ",0x".toList ++ natHex (rd64 size) ++ [')'] :=
  ⟨hdText_mbr part start size sig, hdText_gpt part start size sig⟩

/-! ### 5. the plain-valued decoders: GUID forms and file paths -/

/-- `BytesToGUID` / `StringToGUID` produce a well-formed GUID (every field inside its width, eight
    trailing bytes) from every input — the zero GUID when the input is short or is not hex — and
    `hex.DecodeString` yields at most one byte per two characters. -/
theorem C14_guid_total (bs : Bytes) (s : List Char) :
    (bytesToGuid bs).WF ∧ (stringToGuid s).WF ∧ 2 * (decodeHex s).length ≤ s.length :=
  ⟨bytesToGuid_wf_all bs, stringToGuid_wf s, decodeHex_length_le s⟩

/-- `FileTypeMediaDevicePath.Format` adds six characters to the path. -/
theorem C14_fileText_size (p : List Char) : (fileText p).length = p.length + 6 := by
  simp [fileText]

/-! ### non-vacuity: malformed inputs are errors, well-formed ones decode -/

/-- truncated / wrong revision / declared length below the header / longer than present -/
example : readWinCert [] = .err := by decide
example : readWinCert [9, 0, 0, 0, 0, 2] = .err := by decide
example : readWinCert (le32 9 ++ le16 0x0100 ++ le16 2 ++ [7]) = .err := by decide
example : readWinCert (le32 7 ++ le16 0x0200 ++ le16 2 ++ [7]) = .err := by decide
example : readWinCert (le32 0xffffffff ++ le16 0x0200 ++ le16 2 ++ [7]) = .err := by decide
example : readWinCert (le32 9 ++ le16 0x0200 ++ le16 2 ++ [7, 8]) = .ok (⟨9, 0x0200, 2, [7]⟩, [8]) := by
  decide
/-- body shorter than a GUID -/
example : readWinCertGuid (le32 9 ++ le16 0x0200 ++ le16 0x0EF1 ++ [7]) = .err := by decide
example : readWinCertGuid (le32 25 ++ le16 0x0200 ++ le16 0x0EF1 ++ zeros 16 ++ [7]) =
    .ok (⟨⟨25, 0x0200, 0x0EF1, []⟩, zeros 16, [7]⟩, []) := by decide
/-- short time stamp / certificate type that is not EFI_GUID -/
example : readAuth (zeros 15) = .err := by decide
example : readAuth (zeros 16 ++ le32 24 ++ le16 0x0200 ++ le16 2 ++ zeros 16) = .err := by decide
example : readAuth (zeros 16 ++ le32 24 ++ le16 0x0200 ++ le16 0x0EF1 ++ zeros 16 ++ [5]) =
    .ok (⟨zeros 16, ⟨⟨24, 0x0200, 0x0EF1, []⟩, zeros 16, []⟩⟩, [5]) := by decide
/-- empty / unterminated strings -/
example : parseUtf16 [] = .err := by decide
example : parseUtf16 [0x41, 0] = .err := by decide
example : parseUtf16 [0x41, 0, 0, 0] = .ok ['A'] := by decide
example : efistringUnmarshal [0x41] = .err := by decide
example : efistringUnmarshal [0x41, 0, 0, 0, 9, 9] = .ok ['A'] := by decide
/-- truncated nodes, the unimplemented expanded-ACPI node -/
example : parseNode [1, 1, 6] = .err := by decide
example : parseNode [1, 1, 6, 0, 3] = .err := by decide
example : parseNode [2, 2, 4, 0] = .err := by decide
example : parseNode [1, 1, 6, 0, 3, 4, 9] = .ok (some (.pci [1, 1, 6, 0] 3 4, [9])) := by decide
example : parseNode [0x7f, 0xff, 4, 0] = .ok none := by decide
/-- a path without end node is an error by exhaustion of the input, not of the fuel -/
example : parseDevicePath 100 [1, 1, 6, 0, 3, 4] = .err := by decide
example : parseDevicePath 7 ([1, 1, 6, 0, 3, 4] ++ Spec.endNode) = .ok [.pci [1, 1, 6, 0] 3 4] := by decide
example : loadOptionUnmarshal [1, 0, 0, 0, 9] = .err := by decide
example : loadOptionUnmarshal ([1, 0, 0, 0, 10, 0, 0x41, 0, 0, 0] ++ [1, 1, 6, 0, 3, 4] ++ Spec.endNode) =
    .ok ⟨1, 10, ['A'], [.pci [1, 1, 6, 0] 3 4]⟩ := by decide
/-- signature databases: truncated header / list size not matching / a valid SHA-256 list -/
example : readDb (zeros 20) = none := by decide
example : readDb (guidSha256 ++ le32 77 ++ le32 0 ++ le32 48 ++ zeros 48) = none := by decide
example : readDb (guidSha256 ++ le32 76 ++ le32 0 ++ le32 48 ++ zeros 48) =
    some [⟨guidSha256, 76, 0, 48, [], [⟨zeros 16, zeros 32⟩]⟩] := by decide
example : readDb [] = some [] := by decide
/-- the entry count is not taken from the header on trust: a list that declares 89 478 485 entries of
    48 bytes fails at the first missing one -/
example : readDb (guidSha256 ++ le32 0xffffffec ++ le32 0 ++ le32 48 ++ zeros 48) = none := by decide
example : bootOrder [1, 0, 0x2a] = ["Boot0001".toList] := by decide
example : hdText 1 (zeros 8) (zeros 8) (zeros 16) 7 = "HD(1,7,0,0x0,0x0)".toList := by decide
/-- text that is not a GUID gives the zero GUID, not a crash -/
example : stringToGuid "not-a-guid".toList = Guid.zero := by decide
example : stringToGuid "A5C059A1-94e4-4aa7-87b5-ab155c2bf072".toList =
    ⟨0xa5c059a1, 0x94e4, 0x4aa7, [0x87, 0xb5, 0xab, 0x15, 0x5c, 0x2b, 0xf0, 0x72]⟩ := by decide

end GoUefi.C14

#print axioms GoUefi.C14.C14_total_readWinCert
#print axioms GoUefi.C14.C14_total_readWinCertGuid
#print axioms GoUefi.C14.C14_total_readAuth
#print axioms GoUefi.C14.C14_total_parseUtf16
#print axioms GoUefi.C14.C14_total_efistringUnmarshal
#print axioms GoUefi.C14.C14_total_parseNode
#print axioms GoUefi.C14.C14_total_parseDevicePath
#print axioms GoUefi.C14.C14_total_loadOptionUnmarshal
#print axioms GoUefi.C14.C14_total_returns
#print axioms GoUefi.C14.C14_readDb_fuel_sharp
#print axioms GoUefi.C14.C14_readDb_fuel
#print axioms GoUefi.C14.C14_devicepath_fuel_sharp
#print axioms GoUefi.C14.C14_devicepath_fuel
#print axioms GoUefi.C14.C14_loadOption_fuel
#print axioms GoUefi.C14.C14_readSigs_steps
#print axioms GoUefi.C14.C14_readSigs_turns
#print axioms GoUefi.C14.C14_readList_consumes
#print axioms GoUefi.C14.C14_readDb_size
#print axioms GoUefi.C14.C14_readWinCert_size
#print axioms GoUefi.C14.C14_readAuth_size
#print axioms GoUefi.C14.C14_loadOption_size_sharp
#print axioms GoUefi.C14.C14_loadOption_size
#print axioms GoUefi.C14.C14_devicepath_size
#print axioms GoUefi.C14.C14_parseUtf16_size
#print axioms GoUefi.C14.C14_bootOrder_size
#print axioms GoUefi.C14.C14_hdText_total
#print axioms GoUefi.C14.C14_hdText_other
#print axioms GoUefi.C14.C14_hdText_mbr_gpt
#print axioms GoUefi.C14.C14_guid_total
#print axioms GoUefi.C14.C14_fileText_size
