import GoUefi.Properties.C09g
/-!
# C09 (generated tie, second part) — the remaining exported database operations

`Properties/C09g.lean` covers `Append`, `Remove`, the membership tests and `AppendList` as translated
from the source.  This file states what the four exported operations that `C09g` only used as
helpers — `SignatureDatabase.AppendSignature`, `RemoveSignature`, `AppendDatabase`, `RemoveList`
(all regenerated into `GoUefi/Gen.lean` from `efi/signature/signature_database.go` on every run) —
do to the ordered entry collection, for EVERY database value (no invariant, no size hypothesis
unless stated):

* `C09h_appendSignature` / `C09h_removeSignature`: the two wrappers are `Append` / `Remove` of the
  entry's owner and data — so `C09g_append_ok_partial`, `C09g_append_err`, `C09g_remove_ok`,
  `C09g_remove_err_iff` hold of them verbatim (`C09h_appendSignature_refines`,
  `C09h_removeSignature_refines`).
* `C09h_appendDatabase`: `sd.AppendDatabase s = sd ++ s` (every list of `s`, in order, after every list
  of `sd`; nothing merged, nothing dropped), hence `C09h_appendDatabase_entries` (the entry collection
  of the result is the concatenation), `C09h_appendDatabase_inv` (the invariant is kept),
  `C09h_appendDatabase_nil`, `_assoc`.
* `C09h_removeList`: `RemoveList` removes the FIRST list equal to its argument and nothing else, or
  answers `ErrNotFoundSigList` and returns the database unchanged; `C09h_removeList_entries`: the
  entries of the other lists keep their order; `C09h_removeList_length`.
-/
namespace GoUefi.C09
open GoUefi GoUefi.Gen

/-! ### the two wrappers -/

/-- `SignatureDatabase.AppendSignature` is `Append` of the entry's fields: same database, same error -/
theorem C09h_appendSignature (E : Ext) (sd : signature.SignatureDatabase) (t : util.EFIGUID)
    (s : signature.SignatureData) :
    sd.AppendSignature E t s = sd.Append E t s.Owner s.Data := rfl

/-- `SignatureDatabase.RemoveSignature` is `Remove` of the entry's fields -/
theorem C09h_removeSignature (sd : signature.SignatureDatabase) (t : util.EFIGUID)
    (s : signature.SignatureData) :
    sd.RemoveSignature t s = sd.Remove t s.Owner s.Data := rfl

/-- so the wrapper refines the model's `append` exactly as `Append` does (same hypotheses as
    `C09g_append_partial`: the sums Go computes in `uint32` do not wrap) -/
theorem C09h_appendSignature_refines {E : Ext} {sd : signature.SignatureDatabase} {t : util.EFIGUID}
    {s : signature.SignatureData}
    (hdb : DbOK sd) (hinv : (absDb sd).Inv) (ht : GuidOK t) (ho : GuidOK s.Owner)
    (hd : s.Data.length + 16 < 2^32) (hd' : ((absE E).norm (gw t) s.Data).length + 16 < 2^32)
    (hd'' : ((absE E).norm (gw t) ((absE E).norm (gw t) s.Data)).length + 16 < 2^32)
    (hls : ∀ l ∈ sd, l.ListSize.toNat +
      ((absE E).norm (gw t) ((absE E).norm (gw t) s.Data)).length + 16 < 2^32)
    (hnew : sd = [] → 28 + ((absE E).norm (gw t) ((absE E).norm (gw t) s.Data)).length + 16 < 2^32) :
    AppRel sd absDb (sd.AppendSignature E t s)
      ((absDb sd).append (absE E) (gw t) (gw s.Owner) s.Data) := by
  rw [C09h_appendSignature]
  exact C09g_append_partial hdb hinv ht ho hd hd' hd'' hls hnew

theorem C09h_removeSignature_refines {sd : signature.SignatureDatabase} {t : util.EFIGUID}
    {s : signature.SignatureData}
    (hdb : DbOK sd) (hinv : (absDb sd).Inv) (ht : GuidOK t) (ho : GuidOK s.Owner)
    (hd : s.Data.length + 16 < 2^32) :
    RmRel sd absDb (sd.RemoveSignature t s) ((absDb sd).remove (gw t) (gw s.Owner) s.Data) := by
  rw [C09h_removeSignature]
  exact C09g_remove hdb hinv ht ho hd

/-- the list-level wrappers likewise: `SignatureList.AppendSignature` / `RemoveSignature` are
    `AppendBytes` / `RemoveBytes` of the entry's fields -/
theorem C09h_list_appendSignature (E : Ext) (sl : signature.SignatureList) (s : signature.SignatureData) :
    sl.AppendSignature E s = sl.AppendBytes E s.Owner s.Data := rfl

theorem C09h_list_removeSignature (sl : signature.SignatureList) (s : signature.SignatureData) :
    sl.RemoveSignature s = sl.RemoveBytes s.Owner s.Data := rfl

/-- wrongly-sized SHA-256 / externally-managed data is refused through the wrapper as well, for every
    database value, owner and `pem.Decode`, and the database is returned as it was (F37) -/
theorem C09h_appendSignature_wrong_size (E : Ext) (sd : signature.SignatureDatabase) (t : util.EFIGUID)
    (s : signature.SignatureData)
    (h : (t = signature.CERT_SHA256_GUID ∧ s.Data.length ≠ 32) ∨
         (t = signature.CERT_EXTERNAL_MANAGEMENT_GUID ∧ s.Data.length ≠ 1)) :
    (sd.AppendSignature E t s).2.isSome = true ∧ (sd.AppendSignature E t s).1 = sd := by
  rw [C09h_appendSignature]
  exact C09g_append_wrong_size E sd t s.Owner s.Data h

/-! ### `AppendDatabase` -/

theorem appendDatabase_loop (s sd : signature.SignatureDatabase) :
    signature.SignatureDatabase.AppendDatabase.loop1 s sd = Loop.done (sd ++ s) := by
  induction s generalizing sd with
  | nil => simp [signature.SignatureDatabase.AppendDatabase.loop1]
  | cons l rest ih =>
    rw [signature.SignatureDatabase.AppendDatabase.loop1]
    simp only [signature.SignatureDatabase.AppendList, ih]
    simp

/-- `AppendDatabase` concatenates: the lists of `s`, in order, behind the lists of `sd` -/
theorem C09h_appendDatabase (sd s : signature.SignatureDatabase) :
    sd.AppendDatabase s = sd ++ s := by
  unfold signature.SignatureDatabase.AppendDatabase
  rw [appendDatabase_loop]

/-- it is the fold of the model's `appendList` over the lists of `s` -/
theorem C09h_appendDatabase_model (sd s : signature.SignatureDatabase) :
    absDb (sd.AppendDatabase s) = (absDb s).foldl Impl.Db.appendList (absDb sd) := by
  rw [C09h_appendDatabase]
  induction s generalizing sd with
  | nil => simp [absDb]
  | cons l rest ih =>
    have e : sd ++ l :: rest = (sd ++ [l]) ++ rest := by simp
    rw [e, ih]
    simp [absDb, Impl.Db.appendList]

/-- the ordered entry collection of the result is the concatenation of the two collections -/
theorem C09h_appendDatabase_entries (sd s : signature.SignatureDatabase) :
    Impl.abs (absDb (sd.AppendDatabase s)) = Impl.abs (absDb sd) ++ Impl.abs (absDb s) := by
  rw [C09h_appendDatabase, absDb_append, Impl.abs_append]

/-- the invariant of both operands is the invariant of the result (and conversely) -/
theorem C09h_appendDatabase_inv (sd s : signature.SignatureDatabase) :
    (absDb (sd.AppendDatabase s)).Inv ↔ (absDb sd).Inv ∧ (absDb s).Inv := by
  rw [C09h_appendDatabase, absDb_append]
  unfold Impl.Db.Inv
  constructor
  · intro h
    exact ⟨fun l hl => h l (List.mem_append_left _ hl), fun l hl => h l (List.mem_append_right _ hl)⟩
  · rintro ⟨h1, h2⟩ l hl
    rcases List.mem_append.mp hl with h | h
    · exact h1 l h
    · exact h2 l h

theorem C09h_appendDatabase_nil (sd : signature.SignatureDatabase) :
    sd.AppendDatabase [] = sd := by rw [C09h_appendDatabase]; simp

theorem C09h_appendDatabase_assoc (a b c : signature.SignatureDatabase) :
    (a.AppendDatabase b).AppendDatabase c = a.AppendDatabase (b.AppendDatabase c) := by
  simp only [C09h_appendDatabase, List.append_assoc]

/-- membership after `AppendDatabase`: an entry is in the result iff it is in one of the operands -/
theorem C09h_appendDatabase_mem (sd s : signature.SignatureDatabase) (e : Bytes × Bytes × Bytes) :
    e ∈ Impl.abs (absDb (sd.AppendDatabase s)) ↔ e ∈ Impl.abs (absDb sd) ∨ e ∈ Impl.abs (absDb s) := by
  rw [C09h_appendDatabase_entries, List.mem_append]

/-! ### `RemoveList` -/

/-- `RemoveList` removes the first list equal to `sl` — and only it — or reports
    `ErrNotFoundSigList` and returns its receiver -/
theorem C09h_removeList (sd : signature.SignatureDatabase) (sl : signature.SignatureList) :
    sd.RemoveList sl = if sl ∈ sd then (sd.erase sl, none) else (sd, some "ErrNotFoundSigList") :=
  signature.SignatureDatabase.RemoveList_eq sd sl

theorem C09h_removeList_err_iff (sd : signature.SignatureDatabase) (sl : signature.SignatureList) :
    (sd.RemoveList sl).2.isSome = true ↔ sl ∉ sd := by
  rw [C09h_removeList]; split <;> simp [*]

theorem C09h_removeList_err_unchanged (sd : signature.SignatureDatabase) (sl : signature.SignatureList)
    (h : sl ∉ sd) : sd.RemoveList sl = (sd, some "ErrNotFoundSigList") := by
  rw [C09h_removeList, if_neg h]

/-- success: the database splits around the first occurrence, which is what disappears -/
theorem C09h_removeList_split (sd : signature.SignatureDatabase) (sl : signature.SignatureList)
    (h : sl ∈ sd) :
    ∃ pre rest, sd = pre ++ sl :: rest ∧ sl ∉ pre ∧ sd.RemoveList sl = (pre ++ rest, none) := by
  obtain ⟨pre, rest, hnot, hsd⟩ : ∃ pre rest, sl ∉ pre ∧ sd = pre ++ sl :: rest := by
    induction sd with
    | nil => simp at h
    | cons x xs ih =>
      by_cases hx : x = sl
      · exact ⟨[], xs, by simp, by simp [hx]⟩
      · have hm : sl ∈ xs := by
          rcases List.mem_cons.mp h with h | h
          · exact absurd h.symm hx
          · exact h
        obtain ⟨pre, rest, hnot, hxs⟩ := ih hm
        refine ⟨x :: pre, rest, ?_, by simp [hxs]⟩
        intro hmem
        rcases List.mem_cons.mp hmem with h | h
        · exact hx h.symm
        · exact hnot h
  exact ⟨pre, rest, hsd, hnot, by rw [hsd, signature.SignatureDatabase.RemoveList_new pre rest sl hnot]⟩

/-- the entries of all other lists keep their order: the entry collection loses exactly the
    contiguous block of the removed list -/
theorem C09h_removeList_entries (sd : signature.SignatureDatabase) (sl : signature.SignatureList)
    (h : sl ∈ sd) :
    ∃ pre rest, sd = pre ++ sl :: rest ∧
      Impl.abs (absDb sd) = Impl.abs (absDb pre) ++ Impl.abs (absDb [sl]) ++ Impl.abs (absDb rest) ∧
      Impl.abs (absDb (sd.RemoveList sl).1) = Impl.abs (absDb pre) ++ Impl.abs (absDb rest) := by
  obtain ⟨pre, rest, hsd, _, hr⟩ := C09h_removeList_split sd sl h
  refine ⟨pre, rest, hsd, ?_, ?_⟩
  · have e : pre ++ sl :: rest = pre ++ [sl] ++ rest := by simp
    rw [hsd, e, absDb_append, absDb_append, Impl.abs_append, Impl.abs_append]
  · rw [hr, absDb_append, Impl.abs_append]

theorem C09h_removeList_length (sd : signature.SignatureDatabase) (sl : signature.SignatureList)
    (h : sl ∈ sd) : (sd.RemoveList sl).1.length + 1 = sd.length := by
  obtain ⟨pre, rest, hsd, _, hr⟩ := C09h_removeList_split sd sl h
  rw [hr, hsd]; simp; omega

/-- the invariant survives `RemoveList` (it is per list) -/
theorem C09h_removeList_inv (sd : signature.SignatureDatabase) (sl : signature.SignatureList)
    (hinv : (absDb sd).Inv) : (absDb (sd.RemoveList sl).1).Inv := by
  rw [C09h_removeList]
  split
  · intro l hl
    simp only [absDb, List.mem_map] at hl
    obtain ⟨x, hx, rfl⟩ := hl
    exact hinv _ (List.mem_map.mpr ⟨x, List.mem_of_mem_erase hx, rfl⟩)
  · exact hinv

/-- `AppendList` then `RemoveList` of a list the database did not hold gives the database back -/
theorem C09h_appendList_removeList (sd : signature.SignatureDatabase) (sl : signature.SignatureList)
    (h : sl ∉ sd) : (sd.AppendList sl).RemoveList sl = (sd, none) := by
  have e : sd.AppendList sl = sd ++ sl :: [] := by simp [signature.SignatureDatabase.AppendList]
  rw [e, signature.SignatureDatabase.RemoveList_new sd [] sl h]; simp

/-! ### non-vacuity: concrete databases evaluated by the kernel -/

private def gA : util.EFIGUID := ⟨1, 2, 3, [0, 1, 2, 3, 4, 5, 6, 7]⟩
private def lX : signature.SignatureList := signature.NewSignatureList signature.CERT_X509_GUID
private def lS : signature.SignatureList := signature.NewSignatureList signature.CERT_SHA256_GUID

example : signature.SignatureDatabase.AppendDatabase [lX] [lS, lX] = [lX, lS, lX] := by
  rw [C09h_appendDatabase]; rfl
example : (signature.SignatureDatabase.RemoveList [lS, lX, lS, lX] lX).1 = [lS, lS, lX] := by
  rw [C09h_removeList]; decide
example : (signature.SignatureDatabase.RemoveList [lS] lX).2 = some "ErrNotFoundSigList" := by
  rw [C09h_removeList]; decide

end GoUefi.C09

#print axioms GoUefi.C09.C09h_appendSignature
#print axioms GoUefi.C09.C09h_removeSignature
#print axioms GoUefi.C09.C09h_appendSignature_refines
#print axioms GoUefi.C09.C09h_removeSignature_refines
#print axioms GoUefi.C09.C09h_appendDatabase
#print axioms GoUefi.C09.C09h_appendDatabase_model
#print axioms GoUefi.C09.C09h_appendDatabase_entries
#print axioms GoUefi.C09.C09h_appendDatabase_inv
#print axioms GoUefi.C09.C09h_appendDatabase_nil
#print axioms GoUefi.C09.C09h_appendDatabase_assoc
#print axioms GoUefi.C09.C09h_appendDatabase_mem
#print axioms GoUefi.C09.C09h_removeList
#print axioms GoUefi.C09.C09h_removeList_err_iff
#print axioms GoUefi.C09.C09h_removeList_err_unchanged
#print axioms GoUefi.C09.C09h_removeList_split
#print axioms GoUefi.C09.C09h_removeList_entries
#print axioms GoUefi.C09.C09h_removeList_length
#print axioms GoUefi.C09.C09h_removeList_inv
#print axioms GoUefi.C09.C09h_appendList_removeList
#print axioms GoUefi.C09.C09h_list_appendSignature
#print axioms GoUefi.C09.C09h_list_removeSignature
#print axioms GoUefi.C09.C09h_appendSignature_wrong_size
