import GoUefi.Extracted
/-! C19 — regenerated tie: which receiver fields the read-only methods of the current source assign,
    which mutating buffer methods they call on receiver fields (directly or through a one-level
    alias), and with which receiver kind the signed-update wrapper is declared -/
namespace GoUefi.C19
open GoUefi

def writesOf (m : String) : List String :=
  match Extracted.writes.find? (·.1 == m) with
  | some x => x.2
  | none => []

/-- the methods the property calls read-only -/
def readOnlyMethods : List String := [
  "authenticode.PECOFFBinary.Hash", "authenticode.PECOFFBinary.Bytes", "authenticode.PECOFFBinary.Open",
  "authenticode.PECOFFBinary.Signatures", "authenticode.PECOFFBinary.Verify", "authenticode.PECOFFBinary.signatureBytes",
  "authenticode.multi.ReadAt", "authenticode.multi.Size", "authenticode.readerAtSize.Size",
  "authenticode.Authenticode.Verify",
  "efi/signature.SignatureDatabase.Bytes", "efi/signature.SignatureDatabase.Marshal", "efi/signature.SignatureDatabase.BytesExists",
  "efi/signature.SignatureDatabase.SigDataExists", "efi/signature.SignatureDatabase.Exists",
  "efi/signature.SignatureList.Bytes", "efi/signature.SignatureList.Exists", "efi/signature.SignatureList.ExistsInList",
  "efi/signature.SignatureList.CmpHeader", "efi/signature.SignatureData.Bytes",
  "efi/signature.EFIVariableAuthentication2.Marshal", "efi/signature.EFIVariableAuthentication2.Verify",
  "efi/signature.efibytes.Marshal", "efi/signature.efibytes.Bytes", "efivarfs.efibytes.Marshal", "efivarfs.efibytes.Bytes",
  "pkcs7.PKCS7.Verify", "pkcs7.PKCS7.HasCertificate", "pkcs7.signerinfo.verify", "pkcs7.signerinfo.isCertificate", "pkcs7.Attributes.Marshal"]

/-- no read-only method assigns a receiver field or calls a consuming buffer method on one -/
theorem C19_extracted_write_sets : ∀ m ∈ readOnlyMethods, writesOf m = [] := by decide

/-- the signed-update wrappers, whose `Marshal` hands the address of the receiver to `io.Copy`
    (which drains it), are declared with VALUE receivers, so what is drained is a copy: this is the
    fact `Impl.updMarshal` models (and `Impl.updMarshalPtr` is what a pointer receiver would mean) -/
theorem C19_extracted_value_receivers :
    ∀ m ∈ Extracted.receiverAddressEscapes, Extracted.valueReceivers.contains m = true := by decide

/-- every listed method exists in the current source (so the two obligations above are not vacuous) -/
theorem C19_extracted_methods_exist : ∀ m ∈ readOnlyMethods, Extracted.funcs.contains m = true := by decide

end GoUefi.C19
