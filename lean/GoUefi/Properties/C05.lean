import GoUefi.Lemmas.Pkcs7Sign
/-!
# C05 — what `SignPKCS7` produces is parsed back exactly, verifies, and is accepted by the spec

Only the property theorems and their non-vacuity examples live here.
Models: `GoUefi/Model/Pkcs7.lean` (pkcs7/pkcs7.go), `GoUefi/Model/Der.lean` (cryptobyte),
`GoUefi/Spec/Cms.lean` (RFC 2315/5652 verifier). Helper lemmas, the inputs record `SignInputs` and
its well-formedness predicate `SignInputs.WF`: `GoUefi/Lemmas/Pkcs7Sign.lean`; DER builder/reader
round trips: `GoUefi/Lemmas/Der.lean`.

`SignInputs.WF x certsOk` says: `oidArcsOk x.oid` (`validOID`, `40·a+b < 2^31`, every further arc
`< 2^31`); the encoded OID, `content`, `certRaw`, `issuerRaw`, `md`, `sig` and the serial number's
bytes are each shorter than 2^24 (so every nested DER length stays below 2^32); `issuerRaw` is one
SEQUENCE element; `parseUTC time = some time`; `certsOk certRaw`.
-/
namespace GoUefi.C05
open GoUefi GoUefi.Der GoUefi.Impl

/-- `sortEnc` (the stable sort of the attribute encodings in `Attributes.Marshal`, F19) rearranges
    its input: nothing is added, dropped or duplicated. -/
theorem C05_sortEnc_perm (l : List Bytes) : (sortEnc l).Perm l := sortEnc_perm l

/-- The result of `sortEnc` is in non-decreasing `bytes.Compare` order (`bytesLt b a = false` is
    `bytes.Compare a b ≤ 0`): the DER SET OF order. -/
theorem C05_sortEnc_sorted (l : List Bytes) :
    (sortEnc l).Pairwise (fun a b => bytesLt b a = false) := sortEnc_sorted l

/-- What `SignPKCS7` signs and embeds is exactly the three attributes contentType(oid),
    signingTime(time), messageDigest(md) — each once, nothing else — in DER SET OF order. -/
theorem C05_signed_attrs_der_order (oid : List Nat) (time md : Bytes) (hv : validOID oid = true) :
    ∃ l : List Bytes, attrsBody { contentType := some oid, md := md, time := some time } = some l.flatten ∧
      l.Perm [attrSeq oidContentType (oidOr oid), attrSeq oidSigningTime (addASN1 tUTC time),
              attrSeq oidMessageDigest (addOctets md)] ∧
      l.Pairwise (fun a b => bytesLt b a = false) :=
  ⟨_, attrsBody_signed oid time md hv, sortEnc_perm _, sortEnc_sorted _⟩

/- Statement before F19 (no longer true: `Marshal` now sorts the encodings, see the counterexample
   among the examples below — for a content-type OID whose encoding is longer than 15 bytes the
   contentType attribute does not come first):

   theorem C05_signed_bytes … (hv : validOID oid = true) :
       attrsBody { contentType := some oid, md := md, time := some time } =
         some (attrSeq oidContentType (oidOr oid) ++ attrSeq oidSigningTime (addASN1 tUTC time) ++
               attrSeq oidMessageDigest (addOctets md)) ∧
       ∀ ab', attrsBody { contentType := some oid, md := md, time := some time } = some ab' →
         (∃ pre, signPKCS7 oid content certRaw issuerRaw serial time md sig =
           some (pre ++ (addASN1 tCtx0 ab' ++
             (addASN1 tSEQ (oidOr oidRsa ++ addNULL) ++ addOctets sig)))) ∧
         (0x31 : UInt8) :: (addASN1 tCtx0 ab').drop 1 = addASN1 tSET ab'

   The first conjunct now names the sorted list; the second is unchanged.
   `C05_signed_bytes_partial` keeps the old first conjunct under the hypothesis that the write order
   is already the sorted one. -/

/-- The signature input is the DER SET OF the three attributes contentType(oid),
    signingTime(time), messageDigest(md), sorted by their encodings; and the bytes `SignPKCS7`
    writes end with exactly that body under the `[0]` tag, followed by the signature algorithm and
    the signature. Re-tagging the `[0]` element as SET (0x31) gives the signature input. -/
theorem C05_signed_bytes (oid : List Nat) (content certRaw issuerRaw : Bytes) (serial : Nat)
    (time md sig : Bytes) (hv : validOID oid = true) :
    attrsBody { contentType := some oid, md := md, time := some time } =
      some (sortEnc [attrSeq oidContentType (oidOr oid), attrSeq oidSigningTime (addASN1 tUTC time),
            attrSeq oidMessageDigest (addOctets md)]).flatten ∧
    ∀ ab', attrsBody { contentType := some oid, md := md, time := some time } = some ab' →
      (∃ pre, signPKCS7 oid content certRaw issuerRaw serial time md sig =
        some (pre ++ (addASN1 tCtx0 ab' ++
          (addASN1 tSEQ (oidOr oidRsa ++ addNULL) ++ addOctets sig)))) ∧
      (0x31 : UInt8) :: (addASN1 tCtx0 ab').drop 1 = addASN1 tSET ab' := by
  refine ⟨attrsBody_signed oid time md hv, ?_⟩
  intro ab' hab
  refine ⟨?_, rfl⟩
  obtain ⟨pre, hpre⟩ := signedBlob_suffix oid content certRaw issuerRaw serial ab' sig
  exact ⟨pre, by rw [signPKCS7_eq, hab, Option.map_some, hpre]⟩

/-- The pre-F19 form of the first conjunct, for inputs whose write order (contentType, signingTime,
    messageDigest) is already the sorted one — e.g. the usual short content-type OIDs with a SHA-256
    digest. -/
theorem C05_signed_bytes_partial (oid : List Nat) (time md : Bytes) (hv : validOID oid = true)
    (hs : sortEnc [attrSeq oidContentType (oidOr oid), attrSeq oidSigningTime (addASN1 tUTC time),
            attrSeq oidMessageDigest (addOctets md)] =
          [attrSeq oidContentType (oidOr oid), attrSeq oidSigningTime (addASN1 tUTC time),
            attrSeq oidMessageDigest (addOctets md)]) :
    attrsBody { contentType := some oid, md := md, time := some time } =
      some (attrSeq oidContentType (oidOr oid) ++ attrSeq oidSigningTime (addASN1 tUTC time) ++
            attrSeq oidMessageDigest (addOctets md)) := by
  rw [attrsBody_signed oid time md hv]
  unfold signedAttrsBody
  rw [hs]
  simp

/-- The library's own parser recovers, from the bytes `SignPKCS7` produced, the same content
    type, content (as the SEQUENCE-wrapped `[0]` body, empty when nothing is encapsulated),
    certificate, issuer, serial number, signature and signed attributes; the attributes keep the
    transmitted bytes `raw` = SET OF `ab'`. -/
theorem C05_own_parser (x : SignInputs) (certsOk : Bytes → Bool) (h : x.WF certsOk)
    (blob ab' : Bytes)
    (hab : attrsBody { contentType := some x.oid, md := x.md, time := some x.time } = some ab')
    (hs : signPKCS7 x.oid x.content x.certRaw x.issuerRaw x.serial x.time x.md x.sig = some blob) :
    parseP7 certsOk blob = some
      (⟨x.oid,
        (if x.content.length > 0 && x.oid != oidData then addASN1 tSEQ x.content else []),
        some x.certRaw,
        [⟨1, x.issuerRaw, x.serial,
          some { contentType := some x.oid, md := x.md, time := some x.time, other := [],
                 raw := some (addASN1 tSET ab') },
          x.sig⟩]⟩ : P7) := by
  obtain ⟨hv, rfl⟩ := attrsBody_signed_inv hab
  rw [signPKCS7_blob x hv] at hs
  cases hs
  exact parseP7_blob_wf x certsOk h

/-- The parsed value verifies against the signing certificate: if the RSA signature is valid over
    SET OF `ab'` and the messageDigest attribute is SHA-256 of the content, `PKCS7.Verify` returns
    true (for attached content it hashes the value octets of `p.content`, i.e. `content`). -/
theorem C05_own_verify (C : Crypto) (c : Cert) (x : SignInputs) (certsOk : Bytes → Bool)
    (h : x.WF certsOk) (blob ab' : Bytes) (p : P7)
    (hab : attrsBody { contentType := some x.oid, md := x.md, time := some x.time } = some ab')
    (hs : signPKCS7 x.oid x.content x.certRaw x.issuerRaw x.serial x.time x.md x.sig = some blob)
    (hp : parseP7 certsOk blob = some p)
    (hi : c.rawIssuer = x.issuerRaw) (hser : c.serial = (x.serial : Int))
    (hsig : C.rsaVerify c.pub (addASN1 tSET ab') x.sig = true)
    (hmd : x.md = C.sha256 x.content) :
    p.verify C c = .ok true := by
  rw [C05_own_parser x certsOk h blob ab' hab hs] at hp
  obtain ⟨hv, rfl⟩ := attrsBody_signed_inv hab
  cases hp
  exact verify_parsed C c x hi hser (by have := h.contentLen; omega) hsig hmd

/-- The RFC-style specification accepts the produced bytes for the signing certificate: with the
    content encapsulated no detached content is supplied, otherwise the caller supplies `content`. -/
theorem C05_spec_accepts (C : Crypto) (c : Cert) (x : SignInputs) (certsOk : Bytes → Bool)
    (h : x.WF certsOk) (blob ab' : Bytes)
    (hab : attrsBody { contentType := some x.oid, md := x.md, time := some x.time } = some ab')
    (hs : signPKCS7 x.oid x.content x.certRaw x.issuerRaw x.serial x.time x.md x.sig = some blob)
    (hi : c.rawIssuer = x.issuerRaw) (hser : c.serial = (x.serial : Int))
    (hsig : C.rsaVerify c.pub (addASN1 tSET ab') x.sig = true)
    (hmd : x.md = C.sha256 x.content) :
    Spec.cmsVerify C blob c
      (if x.content.length > 0 && x.oid != oidData then none else some x.content) = true := by
  obtain ⟨hv, rfl⟩ := attrsBody_signed_inv hab
  rw [signPKCS7_blob x hv] at hs
  cases hs
  exact cmsVerify_blob C c x certsOk h hi hser hsig hmd

/-! ### non-vacuity: concrete values meeting the hypotheses -/

open SignInputs (sample sampleData)

example : sample.WF (fun _ => true) :=
  ⟨by decide, by decide, by decide, by decide, by decide, by decide, by decide, by decide,
   ⟨[], by decide⟩, by decide, rfl⟩
example : sampleData.WF (fun _ => true) :=
  ⟨by decide, by decide, by decide, by decide, by decide, by decide, by decide, by decide,
   ⟨[], by decide⟩, by decide, rfl⟩
example : (signPKCS7 sample.oid sample.content sample.certRaw sample.issuerRaw sample.serial
    sample.time sample.md sample.sig).isSome = true := by decide
example : signPKCS7 sample.oid sample.content sample.certRaw sample.issuerRaw sample.serial
    sample.time sample.md sample.sig = some sample.blob := by decide +kernel
example : (attrsBody { contentType := some sample.oid, md := sample.md, time := some sample.time }).isSome
    = true := by decide
/-- the conclusions, evaluated on the concrete inputs (attached and detached) -/
example : parseP7 (fun _ => true) sample.blob = some sample.parsed := by decide +kernel
example : parseP7 (fun _ => true) sampleData.blob = some sampleData.parsed := by decide +kernel
example : sample.parsed.content = addASN1 tSEQ [1, 2, 3] ∧ sampleData.parsed.content = [] := by decide
/-- the crypto hypotheses are satisfiable: a `Crypto` whose digest of the content is `md` -/
example : ∃ (C : Crypto) (c : Cert), c.rawIssuer = sample.issuerRaw ∧ c.serial = (sample.serial : Int) ∧
    (∀ m, C.rsaVerify c.pub m sample.sig = true) ∧ sample.md = C.sha256 sample.content :=
  ⟨⟨fun _ => [9, 9], fun _ _ _ => true⟩, ⟨[0x30, 0], 0x1234, ⟨1, 1⟩⟩, rfl, rfl, fun _ => rfl, rfl⟩
/-- the specification accepts the concrete blob when the digest matches, and rejects it when the
    messageDigest attribute differs from the digest of the content (the spec is not trivially true) -/
example : Spec.cmsVerify ⟨fun _ => [9, 9], fun _ _ _ => true⟩ sample.blob ⟨[0x30, 0], 0x1234, ⟨1, 1⟩⟩ none
    = true := by decide +kernel
example : Spec.cmsVerify ⟨fun _ => [8, 8], fun _ _ _ => true⟩ sample.blob ⟨[0x30, 0], 0x1234, ⟨1, 1⟩⟩ none
    = false := by decide +kernel
example : sample.parsed.verify ⟨fun _ => [9, 9], fun _ _ _ => true⟩ ⟨[0x30, 0], 0x1234, ⟨1, 1⟩⟩ = .ok true := by
  decide +kernel
/-- DER order vs. write order.  `exTime` is "260929203000Z", `exMd` a 32-byte digest.  For the short
    content type id-data the write order (contentType, signingTime, messageDigest) is already the
    sorted one; for a long content-type OID the contentType attribute is longer than the
    signingTime attribute and sorts after it: the sorted order differs from the write order, so
    the pre-F19 statement of `C05_signed_bytes` fails there. -/
example : sortEnc [attrSeq oidContentType (oidOr oidData), attrSeq oidSigningTime (addASN1 tUTC sample.time),
      attrSeq oidMessageDigest (addOctets (List.replicate 32 0xab))] =
    [attrSeq oidContentType (oidOr oidData), attrSeq oidSigningTime (addASN1 tUTC sample.time),
      attrSeq oidMessageDigest (addOctets (List.replicate 32 0xab))] := by decide +kernel
example : sortEnc [attrSeq oidContentType (oidOr [1, 3, 6, 1, 4, 1, 311, 21, 8, 8000000, 9000000]),
      attrSeq oidSigningTime (addASN1 tUTC sample.time),
      attrSeq oidMessageDigest (addOctets (List.replicate 32 0xab))] ≠
    [attrSeq oidContentType (oidOr [1, 3, 6, 1, 4, 1, 311, 21, 8, 8000000, 9000000]),
      attrSeq oidSigningTime (addASN1 tUTC sample.time),
      attrSeq oidMessageDigest (addOctets (List.replicate 32 0xab))] := by decide +kernel
/-- there it is signingTime, contentType, messageDigest -/
example : sortEnc [attrSeq oidContentType (oidOr [1, 3, 6, 1, 4, 1, 311, 21, 8, 8000000, 9000000]),
      attrSeq oidSigningTime (addASN1 tUTC sample.time),
      attrSeq oidMessageDigest (addOctets (List.replicate 32 0xab))] =
    [attrSeq oidSigningTime (addASN1 tUTC sample.time),
      attrSeq oidContentType (oidOr [1, 3, 6, 1, 4, 1, 311, 21, 8, 8000000, 9000000]),
      attrSeq oidMessageDigest (addOctets (List.replicate 32 0xab))] := by decide +kernel
/-- counterexample to the pre-F19 first conjunct of `C05_signed_bytes` (valid OID, yet the body is
    not the concatenation in write order) -/
example : validOID [1, 3, 6, 1, 4, 1, 311, 21, 8, 8000000, 9000000] = true ∧
    attrsBody { contentType := some [1, 3, 6, 1, 4, 1, 311, 21, 8, 8000000, 9000000],
                md := List.replicate 32 0xab, time := some sample.time } ≠
      some (attrSeq oidContentType (oidOr [1, 3, 6, 1, 4, 1, 311, 21, 8, 8000000, 9000000]) ++
            attrSeq oidSigningTime (addASN1 tUTC sample.time) ++
            attrSeq oidMessageDigest (addOctets (List.replicate 32 0xab))) := by decide +kernel
/-- the long OID meets the hypotheses of the round-trip theorems as well -/
example : ({ sample with oid := [1, 3, 6, 1, 4, 1, 311, 21, 8, 8000000, 9000000],
                         md := List.replicate 32 0xab } : SignInputs).WF (fun _ => true) :=
  ⟨by decide +kernel, by decide +kernel, by decide, by decide, by decide, by decide, by decide, by decide,
   ⟨[], by decide⟩, by decide, rfl⟩
example : let x : SignInputs := { sample with oid := [1, 3, 6, 1, 4, 1, 311, 21, 8, 8000000, 9000000],
                                              md := List.replicate 32 0xab }
    parseP7 (fun _ => true) x.blob = some x.parsed := by decide +kernel
/-- an invalid content-type OID makes the builder fail (the Go code panics): the hypothesis
    `signPKCS7 … = some blob` is not automatic -/
example : signPKCS7 [3, 1] [] [] [] 0 [] [] [] = none := by decide

#print axioms C05_sortEnc_perm
#print axioms C05_sortEnc_sorted
#print axioms C05_signed_attrs_der_order
#print axioms C05_signed_bytes
#print axioms C05_signed_bytes_partial
#print axioms C05_own_parser
#print axioms C05_own_verify
#print axioms C05_spec_accepts

end GoUefi.C05
