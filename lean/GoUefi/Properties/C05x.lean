import GoUefi.Facts
import GoUefi.Model.Pkcs7
/-! C05 — regenerated tie: the object identifiers of the current source are the ones the model uses -/
namespace GoUefi.C05
open GoUefi

theorem C05_extracted_oids :
    Facts.oidIs "pkcs7" "OIDData" Impl.oidData = true ∧
    Facts.oidIs "pkcs7" "OIDSignedData" Impl.oidSignedData = true ∧
    Facts.oidIs "pkcs7" "OIDDigestAlgorithmSHA256" Impl.oidSha256 = true ∧
    Facts.oidIs "pkcs7" "OIDEncryptionAlgorithmRSA" Impl.oidRsa = true ∧
    Facts.oidIs "pkcs7" "OIDAttributeContentType" Impl.oidContentType = true ∧
    Facts.oidIs "pkcs7" "OIDAttributeMessageDigest" Impl.oidMessageDigest = true ∧
    Facts.oidIs "pkcs7" "OIDAttributeSigningTime" Impl.oidSigningTime = true := by
  decide

end GoUefi.C05
