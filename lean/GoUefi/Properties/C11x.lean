import GoUefi.Fmt
import GoUefi.Facts
/-! C11 — regenerated tie: file-name format strings, open flags and attribute constants of the
    current source (facts re-extracted on every run; an absent fact makes its obligation vacuous
    and the differential run then carries that tie alone) -/
namespace GoUefi.C11
open GoUefi

/-- every Sprintf format used to build a variable's file name (both writers and the reader) is
    `<name>-<guid>` = "%s-%s", which is what `Impl.varPath` models -/
theorem C11_extracted_path_format :
    ∀ s ∈ Fmt.formatsOf "efivarfs/fswrapper" "FSWrapper.WriteEfivarsWithGuid" ++
          Fmt.formatsOf "efivarfs/fswrapper" "FSWrapper.ReadEfivarsWithGuid" ++
          Fmt.formatsOf "efi/attributes" "WriteEfivarsWithGuid",
      Fmt.PathFmtOk (Fmt.parse s.toList) = true := by
  decide

/-- the `os.O_*` identifiers that occur in the flag expressions of the write functions are a
    sub-list of O_WRONLY, O_CREATE, O_APPEND containing the first two (no O_RDWR, O_TRUNC, O_EXCL,
    O_SYNC, …); EFI_VARIABLE_APPEND_WRITE is 0x40 and the attribute prefix is 4 bytes, as
    `Impl.writeFlags` / `Impl.writeVar` assume -/
theorem C11_extracted_flags :
    (∀ x ∈ Extracted.writeFlags,
      (x.2.isSublist ["os.O_WRONLY", "os.O_CREATE", "os.O_APPEND"] &&
       x.2.contains "os.O_WRONLY" && x.2.contains "os.O_CREATE") = true) ∧
    Facts.constIs "efi/attributes.EFI_VARIABLE_APPEND_WRITE" 64 = true ∧
    Facts.constIs "efi/attributes.SizeofAttributes" 4 = true := by
  decide

/-! ### non-vacuity: the facts are present in this extraction, and the check does discriminate -/
example : (Fmt.formatsOf "efivarfs/fswrapper" "FSWrapper.WriteEfivarsWithGuid" ++
           Fmt.formatsOf "efivarfs/fswrapper" "FSWrapper.ReadEfivarsWithGuid" ++
           Fmt.formatsOf "efi/attributes" "WriteEfivarsWithGuid").length = 3 := by decide
example : Extracted.writeFlags.length = 2 := by decide
example : Facts.constOf "efi/attributes.EFI_VARIABLE_APPEND_WRITE" = some 64 ∧
    Facts.constOf "efi/attributes.SizeofAttributes" = some 4 := by decide
example : ∀ ids ∈ [["os.O_WRONLY", "os.O_CREATE"], ["os.O_WRONLY", "os.O_CREATE", "os.O_APPEND"]],
    (ids.isSublist ["os.O_WRONLY", "os.O_CREATE", "os.O_APPEND"] &&
     ids.contains "os.O_WRONLY" && ids.contains "os.O_CREATE") = true := by decide
example : ∀ ids ∈ [["os.O_RDWR", "os.O_CREATE", "os.O_APPEND"], ["os.O_WRONLY", "os.O_CREATE", "os.O_TRUNC"],
      ["os.O_WRONLY", "os.O_APPEND"]],
    (ids.isSublist ["os.O_WRONLY", "os.O_CREATE", "os.O_APPEND"] &&
     ids.contains "os.O_WRONLY" && ids.contains "os.O_CREATE") = false := by decide

end GoUefi.C11

#print axioms GoUefi.C11.C11_extracted_path_format
#print axioms GoUefi.C11.C11_extracted_flags
