import GoUefi.Lemmas.VarSign
import GoUefi.Properties.C10
/-!
# C06 — a signed variable update has the exact AUTHENTICATION_2 layout and binding

Only the property theorems and their non-vacuity examples live here.
Models: `GoUefi/Model/VarSign.lean` (`signature.SignEFIVariable` followed by the payload),
`GoUefi/Model/Pkcs7.lean` (`SignPKCS7`), `GoUefi/Model/AuthDesc.lean` (the descriptor reader and the
UEFI layout `Spec.encAuth`), `GoUefi/Spec/Cms.lean` (RFC 2315/5652 verifier). Helper lemmas, the
inputs record `VarSignInputs` and its predicates: `GoUefi/Lemmas/VarSign.lean`.

`x.buf` is `signedBuffer x.name x.guid x.attrs (efiTime x.t) x.payload`.
`VarSignInputs.WF x` is exactly `SignInputs.WF` (C05) for the inner call
`signPKCS7 oidData x.buf …`: `x.buf`, `certRaw`, `issuerRaw`, `md`, `sig` and the serial number's
bytes are each shorter than 2^24, `issuerRaw` is one SEQUENCE element, `parseUTC timeText =
some timeText` (the two OID conditions hold for id-data by evaluation; nothing is said about
`x509.ParseCertificates`, the library parses nothing back here).
`VarSignInputs.InRange x` is the domain of the Go types: `guid.length = 16`, `attrs < 2^32`,
`year < 2^16`, the other time fields `< 256`.
-/
namespace GoUefi.C06
open GoUefi GoUefi.Der GoUefi.Impl

/-- EFI_TIME is 16 bytes: Year as a little-endian uint16, Month, Day, Hour, Minute, Second, then
    nine zero bytes — Pad1, Nanosecond (4), TimeZone (2), Daylight and Pad2 are all zero. With the
    fields in range the bytes carry the field values themselves (nothing is truncated). -/
theorem C06_efitime (t : Civil) (hy : t.year < 2^16) (hmo : t.month < 256) (hd : t.day < 256)
    (hh : t.hour < 256) (hmi : t.minute < 256) (hs : t.second < 256) :
    (efiTime t).length = 16 ∧
    efiTime t = le16 t.year ++ [t.month.toUInt8, t.day.toUInt8, t.hour.toUInt8, t.minute.toUInt8,
      t.second.toUInt8, 0, 0, 0, 0, 0, 0, 0, 0, 0] ∧
    (efiTime t).map UInt8.toNat =
      [t.year % 256, t.year / 256, t.month, t.day, t.hour, t.minute, t.second,
       0, 0, 0, 0, 0, 0, 0, 0, 0] :=
  ⟨rfl, efiTime_eq t, efiTime_toNat t hy hmo hd hh hmi hs⟩

/-- The timestamp of the model is a function of the UTC civil time alone: there is no zone
    parameter, and the TimeZone and Daylight bytes (offsets 12–14) are zero whatever `t` is. (That
    the Go code feeds it `time.Now().UTC()` is established by the differential runs under three TZ
    settings and by the extracted-source obligation in `C06x.lean`.) -/
theorem C06_time_fields (t : Civil) :
    efiTime t = le16 t.year ++ [t.month.toUInt8, t.day.toUInt8, t.hour.toUInt8, t.minute.toUInt8,
      t.second.toUInt8, 0, 0, 0, 0, 0, 0, 0, 0, 0] ∧
    (efiTime t).drop 7 = [0, 0, 0, 0, 0, 0, 0, 0, 0] :=
  ⟨efiTime_eq t, rfl⟩

/-- The PKCS7 certificate-type GUID 4aafd29d-68df-49ee-8aa9-347d375665a7 in EFI wire order. -/
theorem C06_guid : guidPkcs7 =
    [0x9d, 0xd2, 0xaf, 0x4a, 0xdf, 0x68, 0xee, 0x49, 0x8a, 0xa9, 0x34, 0x7d, 0x37, 0x56, 0x65, 0xa7] :=
  guidPkcs7_eq

/-- Under the hypotheses of the inner `SignPKCS7` call, `SignEFIVariable` does produce an output. -/
theorem C06_exists (x : VarSignInputs) (h : x.WF) :
    varSign x.name x.guid x.attrs x.t x.payload x.certRaw x.issuerRaw x.serial x.timeText x.md x.sig
      ≠ none := by
  have := x.run_eq h
  unfold VarSignInputs.run at this
  rw [this]; simp

/-- Layout: the output is the 16-byte timestamp, the WIN_CERTIFICATE_UEFI_GUID header — dwLength =
    24 + the signature's length, wRevision 0x0200, wCertificateType 0x0EF1, the PKCS7 type GUID —
    then `sd`, then the payload unchanged; `sd` is what `SignPKCS7` (content type id-data, over the
    signed buffer) placed inside the `[0]` of its outer ContentInfo, i.e. a *bare* DER SignedData:
    one SEQUENCE, not wrapped in a ContentInfo. -/
theorem C06_layout (x : VarSignInputs) (h : x.WF) (out : Bytes)
    (ho : varSign x.name x.guid x.attrs x.t x.payload x.certRaw x.issuerRaw x.serial x.timeText
      x.md x.sig = some out) :
    ∃ sd, signPKCS7 oidData x.buf x.certRaw x.issuerRaw x.serial x.timeText x.md x.sig =
        some (addASN1 tSEQ (oidOr oidSignedData ++ addASN1 tCtx0 sd)) ∧
      (∃ body, sd = addASN1 tSEQ body) ∧
      out = efiTime x.t ++ le32 (24 + sd.length) ++ le16 0x0200 ++ le16 0x0EF1 ++ guidPkcs7 ++
        sd ++ x.payload := by
  have hr := x.run_eq h
  unfold VarSignInputs.run at hr
  rw [hr, Option.some.injEq] at ho
  exact ⟨x.sd, x.signPKCS7_eq, x.sd_seq, ho.symm⟩

/-- The library's own reader splits the output into the descriptor — timestamp, header with
    dwLength = 24 + |sd| (< 2^32), revision 0x0200, type 0x0EF1, the PKCS7 GUID, certificate data
    `sd` — and the untouched payload; the output is the UEFI layout `Spec.encAuth` of that
    descriptor followed by the payload, and the descriptor occupies 16 + dwLength bytes. -/
theorem C06_descriptor_decodes (x : VarSignInputs) (h : x.WF) (out sd : Bytes)
    (ho : varSign x.name x.guid x.attrs x.t x.payload x.certRaw x.issuerRaw x.serial x.timeText
      x.md x.sig = some out)
    (hs : signPKCS7 oidData x.buf x.certRaw x.issuerRaw x.serial x.timeText x.md x.sig =
      some (addASN1 tSEQ (oidOr oidSignedData ++ addASN1 tCtx0 sd))) :
    24 + sd.length < 2^32 ∧
    out = Spec.encAuth ⟨efiTime x.t, 24 + sd.length, 0x0200, 0x0EF1, guidPkcs7, sd⟩ ++ x.payload ∧
    out.length = 16 + (24 + sd.length) + x.payload.length ∧
    readAuth out = .ok (⟨efiTime x.t, ⟨⟨24 + sd.length, 0x0200, 0x0EF1, []⟩, guidPkcs7, sd⟩⟩, x.payload) := by
  have hsd := x.sd_unique h sd hs
  subst hsd
  have hr := x.run_eq h
  unfold VarSignInputs.run at hr
  rw [hr, Option.some.injEq] at ho
  have hlen := x.sd_length h
  have hwf : (⟨efiTime x.t, 24 + x.sd.length, 0x0200, 0x0EF1, guidPkcs7, x.sd⟩ : Spec.Auth).WF :=
    ⟨rfl, show guidPkcs7.length = 16 by decide, rfl, hlen, show 0x0200 < 2^16 by decide,
      show 0x0EF1 < 2^16 by decide⟩
  obtain ⟨hl, hd⟩ := C10.C10_decode ⟨efiTime x.t, 24 + x.sd.length, 0x0200, 0x0EF1, guidPkcs7, x.sd⟩
    x.payload hwf rfl rfl
  have he := x.out_eq_encAuth
  rw [ho] at he
  refine ⟨hlen, he, ?_, ?_⟩
  · rw [he, List.length_append, hl]
  · rw [he]; exact hd

/-- Binding: the bare SignedData is a detached signature that the RFC verifier accepts, for the
    signing certificate, over exactly name (each byte followed by 0x00: UTF-16LE, unterminated) ‖
    vendor GUID ‖ attributes ‖ timestamp ‖ payload — provided the messageDigest attribute is the
    SHA-256 of that buffer and the RSA signature is valid over SET OF the signed attributes. -/
theorem C06_binding (C : Crypto) (c : Cert) (x : VarSignInputs) (h : x.WF) (sd ab' : Bytes)
    (hs : signPKCS7 oidData x.buf x.certRaw x.issuerRaw x.serial x.timeText x.md x.sig =
      some (addASN1 tSEQ (oidOr oidSignedData ++ addASN1 tCtx0 sd)))
    (hab : attrsBody { contentType := some oidData, md := x.md, time := some x.timeText } = some ab')
    (hi : c.rawIssuer = x.issuerRaw) (hser : c.serial = (x.serial : Int))
    (hmd : x.md = C.sha256 x.buf)
    (hsig : C.rsaVerify c.pub (addASN1 tSET ab') x.sig = true) :
    Spec.cmsVerify C sd c (some x.buf) = true := by
  have hsd := x.sd_unique h sd hs
  subst hsd
  obtain ⟨_, rfl⟩ := attrsBody_signed_inv hab
  have hv := cmsVerify_bare C c x.sign _ h.toSign x.attached_false x.buf
  unfold VarSignInputs.sd
  rw [hv]
  have e1 : x.sign.issuerRaw = c.rawIssuer := hi.symm
  have e2 : (x.sign.serial : Int) = c.serial := hser.symm
  have e3 : x.sign.md = C.sha256 x.buf := hmd
  have e4 : C.rsaVerify c.pub (addASN1 tSET x.sign.attrs) x.sign.sig = true := hsig
  rw [e1, e2, e3, e4]
  simp

/-- Exclusivity: the same SignedData verifies over nothing else, up to the digest — for any buffer
    whose SHA-256 differs from the messageDigest attribute the RFC verifier rejects, for every
    certificate and whatever the RSA check says. -/
theorem C06_binding_exclusive (C : Crypto) (c : Cert) (x : VarSignInputs) (h : x.WF) (sd buf' : Bytes)
    (hs : signPKCS7 oidData x.buf x.certRaw x.issuerRaw x.serial x.timeText x.md x.sig =
      some (addASN1 tSEQ (oidOr oidSignedData ++ addASN1 tCtx0 sd)))
    (hne : C.sha256 buf' ≠ x.md) :
    Spec.cmsVerify C sd c (some buf') = false := by
  have hsd := x.sd_unique h sd hs
  subst hsd
  have hv := cmsVerify_bare C c x.sign _ h.toSign x.attached_false buf'
  unfold VarSignInputs.sd
  rw [hv]
  have e : (x.sign.md == C.sha256 buf') = false := by
    have : x.sign.md ≠ C.sha256 buf' := fun e => hne e.symm
    simpa using this
  rw [e]
  simp

/-- End to end: a reader of the produced bytes obtains a descriptor and a payload such that the
    certificate data of the descriptor verifies, as a detached RFC signature, over the buffer
    rebuilt from the variable name, GUID, attributes, the descriptor's own timestamp and the
    returned payload. -/
theorem C06_binding_decoded (C : Crypto) (c : Cert) (x : VarSignInputs) (h : x.WF) (out ab' : Bytes)
    (ho : varSign x.name x.guid x.attrs x.t x.payload x.certRaw x.issuerRaw x.serial x.timeText
      x.md x.sig = some out)
    (hab : attrsBody { contentType := some oidData, md := x.md, time := some x.timeText } = some ab')
    (hi : c.rawIssuer = x.issuerRaw) (hser : c.serial = (x.serial : Int))
    (hmd : x.md = C.sha256 x.buf)
    (hsig : C.rsaVerify c.pub (addASN1 tSET ab') x.sig = true) :
    ∃ d rest, readAuth out = .ok (d, rest) ∧ rest = x.payload ∧ d.auth.certType = guidPkcs7 ∧
      Spec.cmsVerify C d.auth.data c (some (signedBuffer x.name x.guid x.attrs d.time rest)) = true := by
  obtain ⟨sd, hs, _, _⟩ := C06_layout x h out ho
  obtain ⟨_, _, _, hd⟩ := C06_descriptor_decodes x h out sd ho hs
  exact ⟨_, _, hd, rfl, rfl, C06_binding C c x h sd ab' hs hab hi hser hmd hsig⟩

/-- The signed buffer is name bytes each followed by 0x00 ‖ GUID ‖ attributes as a little-endian
    uint32 ‖ timestamp ‖ payload; the name part has 2·|name| bytes (no terminator), and for an
    ASCII name it is the UTF-16LE encoding (the C17 encoder `utf16enc` / `unitsToBytes`) of the
    name's characters. -/
theorem C06_signed_buffer (name guid : Bytes) (attrs : Nat) (time payload : Bytes) :
    signedBuffer name guid attrs time payload =
      (name.flatMap fun b => [b, 0]) ++ guid ++ le32 attrs ++ time ++ payload ∧
    (name.flatMap fun b => [b, (0 : UInt8)]).length = 2 * name.length ∧
    ((∀ b ∈ name, b.toNat < 128) →
      name.flatMap (fun b => [b, 0]) =
        unitsToBytes (utf16enc (name.map fun b => Char.ofNat b.toNat))) :=
  ⟨rfl, name_flat_length name, name_utf16 name⟩

/-! ### non-vacuity: concrete values meeting the hypotheses -/

open VarSignInputs (sample)

/-- variable "db", GUID d719b2cb-3d3a-4596-a3bc-dad00e67656f, attributes 0x27, a 76-byte payload -/
example : sample.name = [0x64, 0x62] ∧ sample.attrs = 0x27 ∧ sample.payload.length = 76 ∧
    sample.guid = guidWire ⟨0xd719b2cb, 0x3d3a, 0x4596, [0xa3, 0xbc, 0xda, 0xd0, 0x0e, 0x67, 0x65, 0x6f]⟩ := by
  decide
example : sample.WF :=
  ⟨by decide, by decide, by decide, by decide, by decide, by decide, ⟨[], by decide⟩, by decide⟩
example : sample.InRange :=
  ⟨by decide, by decide, by decide, by decide, by decide, by decide, by decide, by decide⟩
example : efiTime sample.t = [0xea, 0x07, 9, 29, 20, 30, 0, 0, 0, 0, 0, 0, 0, 0, 0, 0] := by decide
example : sample.buf = [0x64, 0, 0x62, 0] ++ sample.guid ++ [0x27, 0, 0, 0] ++ efiTime sample.t ++
    sample.payload := by decide
example : sample.buf.length = 116 := by decide
example : sample.sd.length = 165 ∧ sample.sd.take 2 = [0x30, 0x81] := by decide +kernel
example : signPKCS7 oidData sample.buf sample.certRaw sample.issuerRaw sample.serial sample.timeText
    sample.md sample.sig = some (addASN1 tSEQ (oidOr oidSignedData ++ addASN1 tCtx0 sample.sd)) := by
  decide +kernel
/-- the conclusions, evaluated on the concrete inputs -/
example : varSign sample.name sample.guid sample.attrs sample.t sample.payload sample.certRaw
    sample.issuerRaw sample.serial sample.timeText sample.md sample.sig =
    some (efiTime sample.t ++ [0xbd, 0, 0, 0] ++ [0x00, 0x02] ++ [0xf1, 0x0e] ++ guidPkcs7 ++
      sample.sd ++ sample.payload) := by decide +kernel
example : readAuth (efiTime sample.t ++ le32 (24 + sample.sd.length) ++ le16 0x0200 ++ le16 0x0EF1 ++
      guidPkcs7 ++ sample.sd ++ sample.payload) =
    .ok (⟨efiTime sample.t, ⟨⟨189, 0x0200, 0x0EF1, []⟩, guidPkcs7, sample.sd⟩⟩, sample.payload) := by
  decide +kernel
example : (attrsBody { contentType := some oidData, md := sample.md, time := some sample.timeText }).isSome
    = true := by decide
/-- the crypto hypotheses are satisfiable: a `Crypto` whose digest of the signed buffer is `md` -/
example : ∃ (C : Crypto) (c : Cert), c.rawIssuer = sample.issuerRaw ∧ c.serial = (sample.serial : Int) ∧
    (∀ m, C.rsaVerify c.pub m sample.sig = true) ∧ sample.md = C.sha256 sample.buf :=
  ⟨⟨fun _ => [9, 9], fun _ _ _ => true⟩, ⟨[0x30, 0], 0x1234, ⟨1, 1⟩⟩, rfl, rfl, fun _ => rfl, rfl⟩
/-- the specification accepts the concrete bare SignedData over the signed buffer when the digest
    matches, and rejects it over a buffer with another digest (here: the payload's last byte changed,
    under a toy digest that depends on the last byte) -/
example : Spec.cmsVerify ⟨fun _ => [9, 9], fun _ _ _ => true⟩ sample.sd ⟨[0x30, 0], 0x1234, ⟨1, 1⟩⟩
    (some sample.buf) = true := by decide +kernel
example : Spec.cmsVerify ⟨fun b => [9, b.getLastD 0 - 0x51], fun _ _ _ => true⟩ sample.sd
    ⟨[0x30, 0], 0x1234, ⟨1, 1⟩⟩ (some sample.buf) = true := by decide +kernel
example : Spec.cmsVerify ⟨fun b => [9, b.getLastD 0 - 0x51], fun _ _ _ => true⟩ sample.sd
    ⟨[0x30, 0], 0x1234, ⟨1, 1⟩⟩ (some (sample.buf.dropLast ++ [0x5b])) = false := by decide +kernel
/-- another certificate (serial) is not accepted: the verdict is not trivially true -/
example : Spec.cmsVerify ⟨fun _ => [9, 9], fun _ _ _ => true⟩ sample.sd ⟨[0x30, 0], 0x1235, ⟨1, 1⟩⟩
    (some sample.buf) = false := by decide +kernel
/-- "db" is ASCII: its two-byte units are the UTF-16LE encoding of the string -/
example : (∀ b ∈ sample.name, b.toNat < 128) ∧
    unitsToBytes (utf16enc (sample.name.map fun b => Char.ofNat b.toNat)) = [0x64, 0, 0x62, 0] ∧
    sample.name.map (fun b => Char.ofNat b.toNat) = ['d', 'b'] := by decide
/-- an out-of-range month would be truncated by the uint8 field: the range hypotheses of
    `C06_efitime` are not automatic -/
example : (efiTime ⟨2026, 256 + 9, 29, 20, 30, 0⟩).map UInt8.toNat ≠
    [2026 % 256, 2026 / 256, 256 + 9, 29, 20, 30, 0, 0, 0, 0, 0, 0, 0, 0, 0, 0] := by decide

#print axioms C06_efitime
#print axioms C06_time_fields
#print axioms C06_guid
#print axioms C06_exists
#print axioms C06_layout
#print axioms C06_descriptor_decodes
#print axioms C06_binding
#print axioms C06_binding_exclusive
#print axioms C06_binding_decoded
#print axioms C06_signed_buffer

end GoUefi.C06
