import GoUefi.Fmt
/-! C18 — regenerated tie: the boot-name format string of the current source -/
namespace GoUefi.C18
open GoUefi

/-- the format string `bootorder.Unmarshal` passes to Sprintf is "Boot" + zero-padded width-4
    upper-case hex (any spelling in that class), which is what `Impl.bootOrder` models -/
theorem C18_extracted_boot_format :
    ∀ s ∈ Fmt.formatsOf "efivarfs" "bootorder.Unmarshal", Fmt.BootFmtOk (Fmt.parse s.toList) = true := by
  decide

/-- the same for the legacy package-level `efi.GetBootOrder` (F24 repair: it used `Boot%04x\n`) -/
theorem C18_extracted_legacy_boot_format :
    ∀ s ∈ Fmt.formatsOf "efi" "GetBootOrder", Fmt.BootFmtOk (Fmt.parse s.toList) = true := by
  decide

end GoUefi.C18
