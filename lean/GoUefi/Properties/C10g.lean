import GoUefi.Gen
import GoUefi.Properties.C10
import GoUefi.Model.Guid
import GoUefi.Lemmas.GenAuthDesc
/-!
# C10 (generated tie) — the WIN_CERTIFICATE / AUTHENTICATION_2 readers and writers of the source

Translated by `tools/go2lean` from efi/signature/varsign.go: `ReadWinCertificate`,
`ReadWinCertificateUEFIGUID`, `ReadEFIVariableAuthencation2`, `EFIVariableAuthentication2.Unmarshal`,
`WriteWinCertificate`, `WriteWinCertificateUEFIGUID`, `WriteEFIVariableAuthencation2`, `Marshal`.
They compute what the Impl model (`GoUefi/Model/AuthDesc.lean`) computes, through the abstraction
below (integers to `Nat`, the type GUID and the EFI_TIME struct to their 16 wire bytes).
-/
namespace GoUefi.C10
open GoUefi GoUefi.Gen

def gwG (g : util.EFIGUID) : Bytes := guidWire ⟨g.Data1.toNat, g.Data2.toNat, g.Data3.toNat, g.Data4⟩
def absWC (w : signature.WINCertificate) : Impl.WinCert :=
  ⟨w.Length.toNat, w.Revision.toNat, w.CertType.toNat, w.Certificate⟩
def absWCG (w : signature.WinCertificateUEFIGUID) : Impl.WinCertGuid :=
  ⟨absWC w.Header, gwG w.CertType, w.CertData⟩
/-- the 16 wire bytes of an EFI_TIME value (what `binary.Write` emits for it) -/
def timeWire (t : util.EFITime) : Bytes := encLE_util_EFITime t
def absAuth (a : signature.EFIVariableAuthentication2) : Impl.AuthDesc := ⟨timeWire a.Time, absWCG a.AuthInfo⟩

/-- EFI_TIME: decoding 16 bytes and encoding the value gives the 16 bytes back -/
theorem C10g_time_roundtrip (b : List UInt8) (h : b.length = 16) :
    encLE_util_EFITime (decLE_util_EFITime b) = b := by
  exact GenAuthDesc.time_roundtrip b h

theorem C10g_readWinCert (f : List UInt8) :
    match Impl.readWinCert f with
    | .ok (w, rest) => ∃ gw', signature.ReadWinCertificate f = (rest, gw', none) ∧ absWC gw' = w
    | _ => ∃ f' gw' e, signature.ReadWinCertificate f = (f', gw', some e) := by
  exact GenAuthDesc.readWinCert_tie f

theorem C10g_readWinCertGuid (f : List UInt8) :
    match Impl.readWinCertGuid f with
    | .ok (w, rest) => ∃ gw', signature.ReadWinCertificateUEFIGUID f = (rest, gw', none) ∧ absWCG gw' = w ∧
        gw'.CertType.Data4.length = 8
    | _ => ∃ f' gw' e, signature.ReadWinCertificateUEFIGUID f = (f', gw', some e) := by
  exact GenAuthDesc.readWinCertGuid_tie f

/-- the descriptor reader: consumes exactly what `Impl.readAuth` consumes and recovers the same
    fields; otherwise an error -/
theorem C10g_readAuth (f : List UInt8) :
    match Impl.readAuth f with
    | .ok (d, rest) => ∃ ga, signature.ReadEFIVariableAuthencation2 f = (rest, ga, none) ∧ absAuth ga = d
    | _ => ∃ f' ga e, signature.ReadEFIVariableAuthencation2 f = (f', ga, some e) := by
  have h := GenAuthDesc.readAuth_tie f
  cases hw : Impl.readAuth f with
  | ok p =>
    rw [hw] at h
    obtain ⟨ga, hg, ha, _⟩ := h
    exact ⟨ga, hg, ha⟩
  | err => rw [hw] at h; exact h
  | panic => rw [hw] at h; exact h
  | exit => rw [hw] at h; exact h

/-- `Impl.readAuth` never panics or exits (so the `_` case above is `.err`) -/
theorem C10g_readAuth_returns (f : List UInt8) : Impl.readAuth f ≠ .panic ∧ Impl.readAuth f ≠ .exit := by
  exact GenAuthDesc.readAuth_returns f

theorem C10g_unmarshal (e : signature.EFIVariableAuthentication2) (b : List UInt8) :
    match Impl.readAuth b with
    | .ok (d, rest) => ∃ ga, e.Unmarshal b = (ga, rest, none) ∧ absAuth ga = d
    | _ => ∃ b' err, e.Unmarshal b = (e, b', some err) := by
  exact GenAuthDesc.unmarshal_tie e b

/-! ### writers -/

theorem C10g_writeWinCert (b : List UInt8) (w : signature.WINCertificate) :
    signature.WriteWinCertificate b w = b ++ Impl.writeWinCert (absWC w) := by
  exact GenAuthDesc.writeWinCert_tie b w

theorem C10g_writeWinCertGuid (b : List UInt8) (w : signature.WinCertificateUEFIGUID)
    (h : w.CertType.Data4.length = 8) :
    signature.WriteWinCertificateUEFIGUID b w = b ++ Impl.writeWinCertGuid (absWCG w) := by
  have _ := h  -- (the hypothesis is not needed: the writer emits `Data4` whatever its length)
  exact GenAuthDesc.writeWinCertGuid_tie b w

theorem C10g_writeAuth (b : List UInt8) (a : signature.EFIVariableAuthentication2)
    (h : a.AuthInfo.CertType.Data4.length = 8) :
    signature.WriteEFIVariableAuthencation2 b a = b ++ Impl.writeAuth (absAuth a) ∧
    a.Marshal b = b ++ Impl.writeAuth (absAuth a) := by
  have _ := h  -- (not needed, as above)
  exact ⟨GenAuthDesc.writeAuth_tie b a, GenAuthDesc.marshal_tie b a⟩

/-- C10 for the translated code: decoding a descriptor in front of a payload and encoding the decoded
    value reproduces exactly the bytes that were consumed, and the payload is untouched. -/
theorem C10g_decode_encode (f rest : List UInt8) (ga : signature.EFIVariableAuthentication2)
    (h : signature.ReadEFIVariableAuthencation2 f = (rest, ga, none)) :
    ga.Marshal [] ++ rest = f := by
  exact GenAuthDesc.decode_encode_tie f rest ga h

/-! ### non-vacuity -/
example : (signature.ReadEFIVariableAuthencation2
    (Spec.encAuth ⟨zeros 16, 27, 0x0200, 0x0EF1, zeros 16, [1, 2, 3]⟩ ++ [9, 9])).2.2 = none := by
  decide +kernel
example : (signature.ReadEFIVariableAuthencation2
    (Spec.encAuth ⟨zeros 16, 27, 0x0200, 0x0EF1, zeros 16, [1, 2, 3]⟩ ++ [9, 9])).1 = [9, 9] := by
  decide +kernel
example : (signature.ReadWinCertificate [3, 0, 0, 0, 0, 2, 2, 0]).2.2 = some "%w:ErrParse" := by
  decide +kernel

end GoUefi.C10

#print axioms GoUefi.C10.C10g_time_roundtrip
#print axioms GoUefi.C10.C10g_readWinCert
#print axioms GoUefi.C10.C10g_readWinCertGuid
#print axioms GoUefi.C10.C10g_readAuth
#print axioms GoUefi.C10.C10g_readAuth_returns
#print axioms GoUefi.C10.C10g_unmarshal
#print axioms GoUefi.C10.C10g_writeWinCert
#print axioms GoUefi.C10.C10g_writeWinCertGuid
#print axioms GoUefi.C10.C10g_writeAuth
#print axioms GoUefi.C10.C10g_decode_encode
