import GoUefi.Sites
/-! C13 — static part: no entry point for untrusted images and signatures reaches a
    process-termination call site, for the call graph of the current source -/
namespace GoUefi.C13
open GoUefi

def entries : List String := [
  "authenticode.Parse", "authenticode.PECOFFBinary.Hash", "authenticode.PECOFFBinary.Bytes", "authenticode.PECOFFBinary.Open",
  "authenticode.PECOFFBinary.Signatures", "authenticode.PECOFFBinary.Verify", "authenticode.ParseAuthenticode",
  "authenticode.Authenticode.Verify", "authenticode.multi.ReadAt", "pkcs7.ParsePKCS7", "pkcs7.PKCS7.Verify",
  "pkcs7.PKCS7.HasCertificate", "pkcs7.ParseContentInfo", "pkcs7.ParseAlgorithmIdentifier",
  "efi/signature.EFIVariableAuthentication2.Verify", "efi/signature.ReadWinCertificate"]

theorem C13_certificate : Sites.certificateOk entries = true := by decide +kernel

/-- from none of these entry points is there a call path to a function holding a termination site
    other than the excused ones (for the verifiers the only excused site on a path is
    `Attributes.Marshal`'s BytesOrPanic, unreachable for parsed values: Lean theorem
    `C04_parsed_never_panics`) -/
theorem C13_no_exit_reachable :
    ∀ e ∈ entries, ∀ i, Sites.funcIdx e = some i → ∀ f ∈ Extracted.fatalFuncs, ¬ Sites.Path Extracted.edges i f := by
  intro e he i hi f hf
  have h := C13_certificate
  simp only [Sites.certificateOk, Bool.and_eq_true] at h
  obtain ⟨⟨⟨_, hc⟩, hfat⟩, hent⟩ := h
  have hsafe : i ∉ Extracted.unsafeFuncs := by
    have := (List.all_eq_true.mp hent) e he
    simp only [hi] at this
    simpa [List.contains_iff_mem] using this
  exact Sites.safe_of_certificate hc (by
    intro g hg
    have := (List.all_eq_true.mp hfat) g hg
    simpa [List.contains_iff_mem] using this) hsafe hf

example : (Sites.funcIdx "authenticode.Parse").isSome = true ∧ (Sites.funcIdx "pkcs7.ParsePKCS7").isSome = true := by decide +kernel

end GoUefi.C13
