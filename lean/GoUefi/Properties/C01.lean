import GoUefi.Lemmas.Pe
/-!
# C01 — the Authenticode digest covers exactly the bytes the specification says

Only the property theorems and their non-vacuity examples live here.
Spec: `GoUefi/Spec/Pe.lean` (Microsoft "Windows Authenticode Portable Executable Signature Format",
steps 3–14).  Model of authenticode/checksum.go and multireader.go: `GoUefi/Model/Pe.lean`.
Helper lemmas and the example images: `GoUefi/Lemmas/Pe.lean`.
-/
namespace GoUefi.C01
open GoUefi GoUefi.Spec.PE GoUefi.Impl

/-- The executable well-formedness check that the test harness runs is exactly the proposition
    `WF` (its cheap preliminary header test is implied by the `tab_soh` and `soh_n` clauses). -/
theorem C01_wfCheck_iff (b : Bytes) : wfCheck b = true ↔ WF b :=
  wfCheck_iff b

/-- On a well-formed image `Parse` succeeds, every header-declared range is regular, every range
    handed to the multi-reader delivers all its bytes, and the byte stream the implementation
    digests IS the specification's hash input of the image zero-padded to a multiple of 8. -/
theorem C01_impl_eq_spec (b : Bytes) (h : WF b) :
    ∃ p, Impl.parse b (Impl.factsOf b) = .ok p ∧ p.regular = true ∧
      (∀ q ∈ p.parts, q.full = true) ∧ Impl.hashStream p = authInputPadded b :=
  Impl.impl_eq_spec h

set_option linter.unusedVariables false in
/-- The positional reader over the parts returns exactly the requested window of their
    concatenation, with no error.  (The hypothesis `hne` is not used: the repaired reader skips
    empty parts, so the statement holds for every list of parts.) -/
theorem C01_multi_readAt (ps : List Bytes) (hne : ∀ p ∈ ps, p ≠ []) (off len : Nat)
    (h : off + len ≤ ps.flatten.length) :
    Impl.multiReadAt ps off len = ((ps.flatten.drop off).take len, false) :=
  Impl.multiReadAt_eq ps off len h

set_option linter.unusedVariables false in
/-- Sequential copying in chunks of ANY positive size reproduces the concatenation of the parts:
    the digest does not depend on io.Copy's buffer size.  (`hne` is not used, see above.) -/
theorem C01_copyAll (ps : List Bytes) (hne : ∀ p ∈ ps, p ≠ []) (chunk : Nat) (hc : 0 < chunk) :
    Impl.copyAll ps chunk (ps.flatten.length + 1) 0 = ps.flatten := by
  rw [Impl.copyAll_eq ps chunk hc _ _ (by omega), List.drop_zero]

/-- Any larger amount of fuel gives the same result. -/
theorem C01_copyAll_fuel (ps : List Bytes) (chunk : Nat) (hc : 0 < chunk) (fuel : Nat)
    (hf : ps.flatten.length + 1 ≤ fuel) : Impl.copyAll ps chunk fuel 0 = ps.flatten := by
  rw [Impl.copyAll_eq ps chunk hc _ _ (by omega), List.drop_zero]

/-- Changing any covered byte of a well-formed image — including bytes of the header fields that
    determine the layout, as long as the result is still well-formed and equally long — changes
    the hash input. -/
theorem C01_covered_matters (a b : Bytes) (wa : WF a) (wb : WF b) (hn : a.length = b.length)
    (p : Nat) (hp : Covered a p) (hd : a[p]? ≠ b[p]?) : authInputPadded a ≠ authInputPadded b :=
  fun h => hd ((covered_agree a b wa wb hn h).2.2 p hp)

/-- Positive form of the previous theorem: equal hash inputs of two equally long well-formed images
    force the same layout, the same certificate-table size and agreement on every covered byte. -/
theorem C01_covered_agree (a b : Bytes) (wa : WF a) (wb : WF b) (hn : a.length = b.length)
    (h : authInputPadded a = authInputPadded b) :
    layout a = layout b ∧ certSize a = certSize b ∧ ∀ p, Covered a p → a[p]? = b[p]? :=
  covered_agree a b wa wb hn h

/-- Two well-formed images that differ only in the CheckSum field and inside the certificate table
    have the same hash input.  (`hdir` is kept as requested; it also follows from `h`, because the
    directory entry lies outside both regions.) -/
theorem C01_excluded_irrelevant (a b : Bytes) (wa : WF a) (wb : WF b) (hn : a.length = b.length)
    (h : ∀ p, a[p]? ≠ b[p]? → ((layout a).ck ≤ p ∧ p < (layout a).ck + 4) ∨
      (a.length - certSize a ≤ p ∧ p < a.length))
    (hdir : certSize a = certSize b) : authInputPadded a = authInputPadded b :=
  excluded_irrelevant a b wa wb hn h hdir

/-- Every position of a well-formed image is classified by the executable classifier the harness
    uses exactly as the propositions say; a `gap` position is neither covered nor excluded. -/
theorem C01_every_byte_classified (b : Bytes) (h : WF b) (p : Nat) (hp : p < b.length) :
    (classify b p = .covered ↔ Covered b p) ∧ (classify b p = .excluded ↔ Excluded b p) ∧
    (classify b p = .gap → ¬ Covered b p ∧ ¬ Excluded b p) := by
  refine ⟨?_, classify_excluded_iff b p hp, classify_gap b p hp⟩
  rw [classify_covered_iff' b p hp]
  exact ⟨fun hh => hh.2, fun hc => ⟨h.covered_not_excluded hc, hc⟩⟩

/-- Covered and excluded positions of a well-formed image are disjoint. -/
theorem C01_covered_excluded_disjoint {b : Bytes} {p : Nat} (h : WF b) :
    Covered b p → ¬ Excluded b p :=
  fun hc => h.covered_not_excluded hc

/-- Every covered position lies inside the image, before the certificate table. -/
theorem C01_covered_in_image {b : Bytes} {p : Nat} (h : WF b) (hc : Covered b p) :
    p < b.length - certSize b :=
  h.covered_lt hc

/-- For any digest function `H`: equal specification hash inputs give equal digests of the streams
    the implementation reads. -/
theorem C01_digest_upto_collision (H : Bytes → Bytes) (a b : Bytes) (wa : WF a) (wb : WF b)
    (pa pb : Impl.Parsed) (hpa : Impl.parse a (Impl.factsOf a) = .ok pa)
    (hpb : Impl.parse b (Impl.factsOf b) = .ok pb)
    (h : authInputPadded a = authInputPadded b) :
    H (authInputPadded a) = H (authInputPadded b) ∧
    H (Impl.hashStream pa) = H (Impl.hashStream pb) := by
  rw [Impl.hashStream_of_parse wa hpa, Impl.hashStream_of_parse wb hpb, h]
  exact ⟨rfl, rfl⟩

/-- For any digest function `H`: images that differ only in CheckSum and inside the certificate
    table get the same digest from the implementation. -/
theorem C01_digest_ignores_excluded (H : Bytes → Bytes) (a b : Bytes) (wa : WF a) (wb : WF b)
    (hn : a.length = b.length)
    (h : ∀ p, a[p]? ≠ b[p]? → ((layout a).ck ≤ p ∧ p < (layout a).ck + 4) ∨
      (a.length - certSize a ≤ p ∧ p < a.length))
    (hdir : certSize a = certSize b)
    (pa pb : Impl.Parsed) (hpa : Impl.parse a (Impl.factsOf a) = .ok pa)
    (hpb : Impl.parse b (Impl.factsOf b) = .ok pb) :
    H (Impl.hashStream pa) = H (Impl.hashStream pb) :=
  (C01_digest_upto_collision H a b wa wb pa pb hpa hpb
    (C01_excluded_irrelevant a b wa wb hn h hdir)).2

/-- For any digest function `H` that does not collide on these two hash inputs: changing a covered
    byte changes the digest the implementation computes. -/
theorem C01_digest_changes_upto_collision (H : Bytes → Bytes) (a b : Bytes) (wa : WF a) (wb : WF b)
    (hn : a.length = b.length) (p : Nat) (hp : Covered a p) (hd : a[p]? ≠ b[p]?)
    (pa pb : Impl.Parsed) (hpa : Impl.parse a (Impl.factsOf a) = .ok pa)
    (hpb : Impl.parse b (Impl.factsOf b) = .ok pb)
    (hnc : H (authInputPadded a) = H (authInputPadded b) → authInputPadded a = authInputPadded b) :
    H (Impl.hashStream pa) ≠ H (Impl.hashStream pb) := by
  rw [Impl.hashStream_of_parse wa hpa, Impl.hashStream_of_parse wb hpb]
  exact fun e => C01_covered_matters a b wa wb hn p hp hd (hnc e)

/-! ### non-vacuity: concrete images meeting the hypotheses (`PeExample` in Lemmas/Pe.lean) -/
section NonVacuity
open GoUefi.PeExample

/-- 349-byte PE32+ image (≡ 5 mod 8), section headers in the opposite order to the file order -/
example : wfCheck img64 = true := by decide +kernel
example : img64.length = 349 ∧ (layout img64).secs = [(336, 8), (320, 16)] ∧
    (layout img64).hashed = [(320, 16), (336, 8)] ∧ (layout img64).ndirs = 5 := by decide +kernel
example : WF img64 := wf_img64
/-- 333-byte PE32 twin -/
example : WF img32 := wf_img32
example : img32.length = 333 ∧ (layout img32).plus = false := by decide +kernel
/-- 368-byte signed image: certificate table [352, 368) -/
example : WF img64s := wf_img64s
example : certAddr img64s = 352 ∧ certSize img64s = 16 := by decide +kernel

/-- `C01_impl_eq_spec` instantiated -/
example : ∃ p, Impl.parse img64 (Impl.factsOf img64) = .ok p ∧ p.regular = true ∧
    (∀ q ∈ p.parts, q.full = true) ∧ Impl.hashStream p = authInputPadded img64 :=
  C01_impl_eq_spec img64 wf_img64
example : ∃ p, Impl.parse img32 (Impl.factsOf img32) = .ok p ∧ p.regular = true ∧
    (∀ q ∈ p.parts, q.full = true) ∧ Impl.hashStream p = authInputPadded img32 :=
  C01_impl_eq_spec img32 wf_img32
/-- … and evaluated: 349 bytes + 3 of padding − 4 (CheckSum) − 8 (directory entry) = 340 -/
example : (match Impl.parse img64 (Impl.factsOf img64) with
    | .ok p => p.regular && p.parts.all (·.full) && Impl.hashStream p == authInputPadded img64 &&
               (Impl.hashStream p).length == 340 && p.padding == 3
    | _ => false) = true := by decide +kernel
/-- the signed image: 368 − 4 − 8 − 16 (certificate table) = 340, no padding -/
example : (match Impl.parse img64s (Impl.factsOf img64s) with
    | .ok p => p.regular && p.parts.all (·.full) && Impl.hashStream p == authInputPadded img64s &&
               (Impl.hashStream p).length == 340 && p.padding == 0
    | _ => false) = true := by decide +kernel

/-- the reader crosses part boundaries and skips the empty part -/
example : Impl.multiReadAt [[1, 2], [], [3], [4, 5, 6]] 1 4 = ([2, 3, 4, 5], false) := by decide
/-- asking for more than there is reports the error -/
example : (Impl.multiReadAt [[1, 2], [3]] 1 4).2 = true := by decide
example : Impl.copyAll [[1, 2], [3], [4, 5, 6]] 4 7 0 = [1, 2, 3, 4, 5, 6] := by decide
example : Impl.copyAll [[1, 2], [3], [4, 5, 6]] 1 7 0 = [1, 2, 3, 4, 5, 6] := by decide

/-- `C01_covered_matters` applies: `img64'` differs from `img64` in the last (covered) byte -/
example : authInputPadded img64 ≠ authInputPadded img64' :=
  C01_covered_matters img64 img64' wf_img64 wf_img64' (by decide +kernel) 348
    (((C01_every_byte_classified img64 wf_img64 348 (by decide +kernel)).1).mp (by decide +kernel))
    (by decide +kernel)

/-- `C01_excluded_irrelevant` applies: `img64s'` has another CheckSum and another certificate -/
example : img64s ≠ img64s' ∧ authInputPadded img64s = authInputPadded img64s' :=
  ⟨by decide +kernel,
   C01_excluded_irrelevant img64s img64s' wf_img64s wf_img64s' (by decide +kernel) img64s_diff
    (by decide +kernel)⟩

/-- the classifier on the signed image: CheckSum, directory entry, certificate table excluded -/
example : classify img64s 151 = .covered ∧ classify img64s 152 = .excluded ∧
    classify img64s 155 = .excluded ∧ classify img64s 156 = .covered ∧
    classify img64s 232 = .excluded ∧ classify img64s 239 = .excluded ∧
    classify img64s 351 = .covered ∧ classify img64s 352 = .excluded ∧
    classify img64s 368 = .outside := by decide +kernel

end NonVacuity

#print axioms C01_wfCheck_iff
#print axioms C01_impl_eq_spec
#print axioms C01_multi_readAt
#print axioms C01_copyAll
#print axioms C01_copyAll_fuel
#print axioms C01_covered_matters
#print axioms C01_covered_agree
#print axioms C01_excluded_irrelevant
#print axioms C01_every_byte_classified
#print axioms C01_covered_excluded_disjoint
#print axioms C01_covered_in_image
#print axioms C01_digest_upto_collision
#print axioms C01_digest_ignores_excluded
#print axioms C01_digest_changes_upto_collision

end GoUefi.C01
