import GoUefi.Sites
/-! C14 — static part (`programs` quantifier): no decoder of variable contents reaches a
    process-termination call site, for the call graph of the current source -/
namespace GoUefi.C14
open GoUefi

/-- the decoder entry points of firmware-variable and key-file contents -/
def entries : List String := [
  "efi/signature.ReadSignatureDatabase", "efi/signature.ReadSignatureList", "efi/signature.ReadSignatureData",
  "efi/signature.SignatureDatabase.Unmarshal", "efi/signature.GetSupportedSignatures",
  "efi/signature.ReadEFIVariableAuthencation2", "efi/signature.EFIVariableAuthentication2.Unmarshal",
  "efi/signature.ReadWinCertificate", "efi/signature.ReadWinCertificateUEFIGUID",
  "efi/device.EFILoadOption.Unmarshal", "efi/device.ParseDevicePath", "efi/device.ParseEFILoadOption",
  "efi/device.ParseMediaDevicePath", "efi/device.HardDriveMediaDevicePath.Format", "efi/device.FileTypeMediaDevicePath.Format",
  "efi/util.ParseUtf16Var", "efi/util.ReadNullString", "efivar.Efistring.Unmarshal", "efivarfs.bootorder.Unmarshal",
  "efivarfs.efibool.Unmarshal", "efivarfs/fswrapper.FSWrapper.ParseEfivars", "efi/attributes.ParseEfivars",
  "efi/util.StringToGUID", "efi/util.BytesToGUID", "efi/util.ReadKey", "efi/util.ReadCert",
  "efivarfs.EFIFS.GetVar", "efivarfs.EFIFS.GetVarWithAttributes", "efivarfs.Efivarfs.GetBootEntry", "efivarfs.Efivarfs.GetBootOrder",
  "efivarfs.Efivarfs.Getdb", "efivarfs.Efivarfs.Getdbx", "efivarfs.Efivarfs.GetKEK", "efivarfs.Efivarfs.GetPK"]

/-- per-run obligation on the regenerated call graph -/
theorem C14_certificate : Sites.certificateOk entries = true := by decide +kernel

/-- hence: from no decoder entry point is there a call path to a function that holds a
    termination site other than the excused (infeasible or known-finding) ones -/
theorem C14_no_exit_reachable :
    ∀ e ∈ entries, ∀ i, Sites.funcIdx e = some i → ∀ f ∈ Extracted.fatalFuncs, ¬ Sites.Path Extracted.edges i f := by
  intro e he i hi f hf
  have h := C14_certificate
  simp only [Sites.certificateOk, Bool.and_eq_true] at h
  obtain ⟨⟨⟨_, hc⟩, hfat⟩, hent⟩ := h
  have hsafe : i ∉ Extracted.unsafeFuncs := by
    have := (List.all_eq_true.mp hent) e he
    simp only [hi] at this
    simpa [List.contains_iff_mem] using this
  exact Sites.safe_of_certificate hc (by
    intro g hg
    have := (List.all_eq_true.mp hfat) g hg
    simpa [List.contains_iff_mem] using this) hsafe hf

/-- non-vacuity: the graph and the entry list are not empty, and entry points do resolve -/
example : 100 < Extracted.funcs.length ∧ 300 < Extracted.edges.length ∧ (Sites.funcIdx "efi/device.ParseDevicePath").isSome = true := by decide +kernel

end GoUefi.C14
