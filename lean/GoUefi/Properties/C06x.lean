import GoUefi.Facts
import GoUefi.Model.VarSign
/-! C06 — regenerated tie: the WIN_CERTIFICATE_UEFI_GUID constants, the PKCS7 certificate-type GUID
    and the id-data OID of the current source are the ones the model of `SignEFIVariable` uses -/
namespace GoUefi.C06
open GoUefi

/-- Each extracted fact is absent or equals what the model assumes: header size 24, revision
    0x0200, certificate type 0x0EF1, `EFI_CERT_TYPE_PKCS7_GUID` in wire order, `OIDData`. -/
theorem C06_extracted_constants :
    Facts.constIs "efi/signature.SizeofWinCertificateUEFIGUID" 24 = true ∧
    Facts.constIs "efi/signature.WIN_CERTIFICATE_REVISION" 0x0200 = true ∧
    Facts.constIs "efi/signature.WIN_CERT_TYPE_EFI_GUID" 0x0EF1 = true ∧
    Facts.guidIs "efi/signature" "EFI_CERT_TYPE_PKCS7_GUID" Impl.guidPkcs7 = true ∧
    Facts.oidIs "pkcs7" "OIDData" Impl.oidData = true := by
  decide

/-- the facts are present in the current extraction (the tie is not vacuous) -/
example : Facts.constOf "efi/signature.SizeofWinCertificateUEFIGUID" = some 24 ∧
    (Facts.guidWireOf "efi/signature" "EFI_CERT_TYPE_PKCS7_GUID").isSome = true ∧
    (Facts.oidOf "pkcs7" "OIDData").isSome = true := by decide

#print axioms C06_extracted_constants

end GoUefi.C06
