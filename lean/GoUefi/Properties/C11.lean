import GoUefi.Lemmas.VarFs
import GoUefi.Properties.C17
/-!
# C11 — one write, attribute-checked reads

Model: `GoUefi/Model/VarFs.lean` (`writeVar` = `WriteEfivarsWithGuid`, both implementations;
`getVar` = `EFIFS.GetVarWithAttributes`), as programs over the caller-supplied filesystem whose
run against an environment yields the result and the trace of calls.  Helper lemmas, the trace
predicates (`OkEnv`, `writeCount`, `openFileCount`, `Call.writeVarMay`, `Call.isOpenFile`,
`Call.isWrite`) and the per-shape case analysis live in `GoUefi/Lemmas/VarFs.lean`; only the
property theorems and their non-vacuity examples live here.
-/
namespace GoUefi.C11
open GoUefi GoUefi.Impl

/-! ### the write path -/

/-- On a healthy filesystem a variable write is: one open of the variable's file, ONE write of the
    4-byte little-endian attribute mask followed by the value, close; nothing else; success. -/
theorem C11_write_trace (dir : String) (name : List Char) (g : Guid) (attrs : Nat) (value : Bytes)
    (env : Nat → Call → Res) (henv : OkEnv env) :
    (writeVar dir name g attrs value).run env 0 =
      (.ok (), [(.openFile (varPath dir name g) (writeFlags attrs) 0o644, .ok),
                (.write (le32 attrs ++ value), .wrote (4 + value.length)),
                (.close, .ok)]) := by
  obtain ⟨ho, hw, hc⟩ := henv
  have hlen : (le32 attrs ++ value).length = 4 + value.length := by simp
  rw [writeVar_run_open dir name g attrs value env (by rw [ho]; simp), ho, hw, hc, hlen]
  simp [writeVarFinish]

/-- The open flags: access mode write-only (O_WRONLY = 1, not O_RDWR = 2), O_CREATE, append mode
    exactly when the attribute mask carries EFI_VARIABLE_APPEND_WRITE (0x40), and no other bit. -/
theorem C11_flags (attrs : Nat) :
    writeFlags attrs % 4 = 1 ∧ writeFlags attrs / 0x40 % 2 = 1 ∧
    (writeFlags attrs / 0x400 % 2 = 1 ↔ attrs / 0x40 % 2 = 1) ∧
    (writeFlags attrs = 0x41 ∨ writeFlags attrs = 0x441) := by
  rcases writeFlags_cases attrs with ⟨h, e⟩ | ⟨h, e⟩ <;> rw [e] <;> simp [h]

/-- Whatever the filesystem answers (EVERY environment): at most one `write`, exactly one
    `openFile`, every call is one of openFile/write/close, and the only path opened is the
    variable's file — nothing else is touched. -/
theorem C11_any_env_shape (dir : String) (name : List Char) (g : Guid) (attrs : Nat) (value : Bytes)
    (env : Nat → Call → Res) :
    writeCount ((writeVar dir name g attrs value).run env 0).2 ≤ 1 ∧
    openFileCount ((writeVar dir name g attrs value).run env 0).2 = 1 ∧
    (∀ e ∈ ((writeVar dir name g attrs value).run env 0).2,
       e.1.writeVarMay (varPath dir name g) = true) ∧
    (∀ p f m r, (Call.openFile p f m, r) ∈ ((writeVar dir name g attrs value).run env 0).2 →
       p = varPath dir name g ∧ f = writeFlags attrs ∧ m = 0o644) := by
  rcases writeVar_run_cases dir name g attrs value env with h | ⟨r0, w, cl, _, _, _, _, h⟩ <;>
    rw [h] <;>
    simp [writeCount, openFileCount, Call.isWrite, Call.isOpenFile, Call.writeVarMay] <;>
    (intro p f m r h1 h2 h3 _; exact ⟨h1, h2, h3⟩)

/-- The file of a variable is `<dir>/<name>-<guid>`, the GUID in its canonical text form: 36
    characters, 8-4-4-4-12 lower-case hex digits (C17). -/
theorem C11_path (dir : String) (name : List Char) (g : Guid) :
    varPath dir name g = dir ++ "/" ++ String.ofList name ++ "-" ++ String.ofList g.format ∧
    (g.WF → ∃ a b c d e : List Char, g.format = a ++ '-' :: b ++ '-' :: c ++ '-' :: d ++ '-' :: e ∧
      a.length = 8 ∧ b.length = 4 ∧ c.length = 4 ∧ d.length = 4 ∧ e.length = 12 ∧
      (∀ x ∈ a ++ b ++ c ++ d ++ e, isLowerHex x = true) ∧ g.format.length = 36) :=
  ⟨rfl, C17.C17_format_canonical g⟩

/-! ### the attribute test -/

/-- `Attributes.Equal` is Go's `(required & stored) == required`.  (Only `required` has to fit
    32 bits; the hypothesis on `stored` of the requested statement is not needed.) -/
theorem attrsSubset_iff (r s : Nat) (hr : r < 2^32) : attrsSubset r s = true ↔ r &&& s = r :=
  Impl.attrsSubset_iff r s hr

/-! ### the read path -/

/-- Reading a healthy file that holds attributes `a` and bytes `x`, when every required attribute
    is present: the value is decoded from the bytes after the first four and returned together
    with the stored attributes; a decoder failure / crash is passed on as such. -/
theorem C11_read {α} (dir : String) (name : List Char) (g : Guid) (req a : Nat) (x : Bytes)
    (dec : Bytes → Outcome α) (ha : a < 2^32) (hsub : attrsSubset req a = true) :
    ((getVar dir name g req dec).run (fileEnv (some (le32 a ++ x))) 0).1 =
      match dec x with
      | .ok v => .ok (a, v)
      | .err => .err
      | .panic => .panic
      | .exit => .exit := by
  simp only [getVar, Prog.run_call, fileEnv, Option.isSome_some, if_true,
    Option.getD_some, take4_le32_append, drop4_le32_append, List.length_append, le32_length,
    Nat.add_sub_cancel_left, List.take_length, ne_eq, not_true_eq_false, if_false, Nat.reduceAdd,
    rd32_le32 a ha, hsub, Bool.not_true, Bool.false_eq_true, reduceCtorEq]
  cases dec x <;> rfl

/-- A stored mask that lacks a required attribute is an error — independently of the value bytes
    and of the decoder: the value is not decoded (a crashing decoder cannot leak through). -/
theorem C11_read_wrong_attrs {α} (dir : String) (name : List Char) (g : Guid) (req a : Nat)
    (x : Bytes) (ha : a < 2^32) (hsub : attrsSubset req a = false) :
    ∀ dec : Bytes → Outcome α,
      ((getVar dir name g req dec).run (fileEnv (some (le32 a ++ x))) 0).1 = .err := by
  intro dec
  simp only [getVar, Prog.run_call, Prog.run_ret, fileEnv, Option.isSome_some, if_true,
    Option.getD_some, take4_le32_append, drop4_le32_append, List.length_append, le32_length,
    Nat.add_sub_cancel_left, List.take_length, ne_eq, not_true_eq_false, if_false, Nat.reduceAdd,
    rd32_le32 a ha, hsub, Bool.not_false, reduceCtorEq]

/-- An absent file, or one too short to hold the attribute mask, is an error. -/
theorem C11_read_short {α} (dir : String) (name : List Char) (g : Guid) (req : Nat)
    (dec : Bytes → Outcome α) (file : Option Bytes)
    (h : file = none ∨ ∃ f, file = some f ∧ f.length < 4) :
    ((getVar dir name g req dec).run (fileEnv file) 0).1 = .err := by
  rcases h with rfl | ⟨f, rfl, hf⟩
  · simp only [getVar, Prog.run_call, Prog.run_ret, fileEnv, Option.isSome_none,
      Bool.false_eq_true, if_false]
  · have hlen : (f.take 4).length ≠ 4 := by rw [List.length_take]; omega
    simp only [getVar, Prog.run_call, Prog.run_ret, fileEnv, Option.isSome_some, if_true,
      Option.getD_some, Nat.reduceAdd, ne_eq, hlen, not_false_eq_true]

/-- Reading never opens a file for writing and never writes, whatever the filesystem answers. -/
theorem C11_read_no_write {α} (dir : String) (name : List Char) (g : Guid) (req : Nat)
    (dec : Bytes → Outcome α) (env : Nat → Call → Res) :
    ∀ e ∈ ((getVar dir name g req dec).run env 0).2, e.1.isOpenFile = false ∧ e.1.isWrite = false := by
  rcases getVar_run_cases dir name g req dec env with h | ⟨_, _, _, _, _, h⟩ | ⟨_, _, _, _, _, _, h⟩ |
      ⟨_, _, _, _, _, _, _, _, _, _, _, _, h⟩ <;>
    rw [h] <;> simp [Call.isOpenFile, Call.isWrite]

/-! ### non-vacuity: concrete values -/

/-- a healthy environment exists (`fileEnv` of anything is one) -/
example : OkEnv (fileEnv none) := ⟨fun _ _ _ _ => rfl, fun _ _ => rfl, fun _ => rfl⟩
/-- a concrete write: NV+BS+RT (7), two value bytes -/
example : (writeVar "/sys/firmware/efi/efivars" "db".toList ⟨1, 2, 3, zeros 8⟩ 7 [0xAA, 0xBB]).run (fileEnv none) 0 =
    (.ok (), [(.openFile "/sys/firmware/efi/efivars/db-00000001-0002-0003-0000-000000000000" 0x41 0o644, .ok),
              (.write [7, 0, 0, 0, 0xAA, 0xBB], .wrote 6), (.close, .ok)]) := by decide
/-- append-write (0x47) opens in append mode, 0x27 does not -/
example : writeFlags 0x47 = 0x441 ∧ writeFlags 0x27 = 0x41 := by decide
/-- the subset test: 0x07 ⊆ 0x27 but 0x47 ⊄ 0x27 -/
example : attrsSubset 0x07 0x27 = true ∧ attrsSubset 0x47 0x27 = false ∧ (0x07 &&& 0x27 = 0x07) := by decide
/-- a concrete read with the identity decoder -/
example : ((getVar "d" ['x'] Guid.zero 0x07 (fun b => Outcome.ok b)).run (fileEnv (some (le32 0x27 ++ [1, 2, 3]))) 0).1 =
    .ok (0x27, [1, 2, 3]) := by decide
/-- wrong attributes: error even though the decoder would panic -/
example : ((getVar "d" ['x'] Guid.zero 0x47 (fun _ => (Outcome.panic : Outcome Bytes))).run
    (fileEnv (some (le32 0x27 ++ [1, 2, 3]))) 0).1 = .err := by decide
/-- right attributes: that decoder's panic is passed on -/
example : ((getVar "d" ['x'] Guid.zero 0x07 (fun _ => (Outcome.panic : Outcome Bytes))).run
    (fileEnv (some (le32 0x27 ++ [1, 2, 3]))) 0).1 = .panic := by decide
/-- a three-byte file -/
example : ((getVar "d" ['x'] Guid.zero 0 (fun b => Outcome.ok b)).run (fileEnv (some [1, 2, 3])) 0).1 = .err := by decide
/-- a hostile environment (everything fails): one `openFile`, no write -/
example : (writeVar "d" ['x'] Guid.zero 7 [1]).run (fun _ _ => .fail) 0 =
    (.err, [(.openFile (varPath "d" ['x'] Guid.zero) 0x41 0o644, .fail)]) := by decide

end GoUefi.C11

#print axioms GoUefi.C11.C11_write_trace
#print axioms GoUefi.C11.C11_flags
#print axioms GoUefi.C11.C11_any_env_shape
#print axioms GoUefi.C11.C11_path
#print axioms GoUefi.C11.attrsSubset_iff
#print axioms GoUefi.C11.C11_read
#print axioms GoUefi.C11.C11_read_wrong_attrs
#print axioms GoUefi.C11.C11_read_short
#print axioms GoUefi.C11.C11_read_no_write
