import GoUefi.Lemmas.Boot
/-!
# C18 — boot-order entries name the firmware's variables; load options decode to their fields

Only the property theorems and their non-vacuity examples live here.
Model: `GoUefi/Model/Boot.lean` (efivarfs boot order / `GetBootEntry`, efi/device load options and
device paths).  Helper lemmas and the well-formedness predicates `Impl.Node.WF`,
`Impl.LoadOption.WF`, `isUpperHex`: `GoUefi/Lemmas/Boot.lean`.
-/
namespace GoUefi.C18
open GoUefi

/-- A BootOrder entry with value `n` is turned into the firmware's variable name for `n`. -/
theorem C18_names (n : Nat) (h : n < 65536) : Impl.bootOrder (le16 n) = [Spec.fwBootName n] := by
  have := bootOrder_le16 n h []
  simpa [Impl.bootOrder] using this

/-- The same for a BootOrder variable of any length: entry by entry, in order. -/
theorem C18_names_list (ns : List Nat) (h : ∀ n ∈ ns, n < 65536) :
    Impl.bootOrder (ns.flatMap le16) = ns.map Spec.fwBootName :=
  bootOrder_flatMap ns h

/-- **Every BootOrder value, whatever its length** (F35 repair; false before it for every odd
    length, where a last name was made up from the trailing byte and a zero filler): the decoded
    names are exactly the firmware names of the complete little-endian 16-bit entries
    (`Spec.entriesLE`, Model/Boot.lean), in order — `bs.length / 2` of them, so a trailing single
    byte adds none. -/
theorem C18_names_every (bs : Bytes) :
    Impl.bootOrder bs = (Spec.entriesLE bs).map Spec.fwBootName ∧
    (Impl.bootOrder bs).length = bs.length / 2 :=
  ⟨bootOrder_entries bs, by rw [bootOrder_entries, List.length_map, entriesLE_length]⟩

/-- The same without the auxiliary definition: the `k`-th name, for `k < bs.length / 2`, is the
    firmware name of the little-endian 16-bit value at byte offset `2 * k`
    (`le16At b o = byteAt b o + 256 * byteAt b (o + 1)`), and there are no other names. -/
theorem C18_names_positions (bs : Bytes) :
    Impl.bootOrder bs = (List.range (bs.length / 2)).map (fun k => Spec.fwBootName (le16At bs (2 * k))) := by
  rw [bootOrder_entries, entriesLE_eq_range, List.map_map]; rfl

/-- What `Spec.entriesLE` is: `bs.length / 2` values below 65536, the `k`-th one read at byte offset
    `2 * k`; and it inverts the encoding of a list of 16-bit numbers. -/
theorem C18_entries (bs : Bytes) :
    Spec.entriesLE bs = (List.range (bs.length / 2)).map (fun k => le16At bs (2 * k)) ∧
    (Spec.entriesLE bs).length = bs.length / 2 ∧
    (∀ n ∈ Spec.entriesLE bs, n < 65536) ∧
    (∀ ns : List Nat, (∀ n ∈ ns, n < 65536) → Spec.entriesLE (ns.flatMap le16) = ns) :=
  ⟨entriesLE_eq_range bs, entriesLE_length bs, entriesLE_lt bs, entriesLE_flatMap⟩

/-- A single byte behind complete entries is not an entry: it adds no name (F35 repair). -/
theorem C18_trailing_byte (xs : Bytes) (a : UInt8) (h : xs.length % 2 = 0) :
    Impl.bootOrder (xs ++ [a]) = Impl.bootOrder xs :=
  bootOrder_append_single xs a h

/-- The name is "Boot" followed by exactly four upper-case hexadecimal digits
    (`isUpperHex c` is `('0' ≤ c ∧ c ≤ '9') ∨ ('A' ≤ c ∧ c ≤ 'F')`).  The range hypothesis is kept
    to match the claim; the shape itself holds for every `n` (the proof does not use it). -/
theorem C18_name_shape (n : Nat) (_h : n < 65536) :
    ∃ a b c d : Char, Spec.fwBootName n = ['B', 'o', 'o', 't', a, b, c, d] ∧
      isUpperHex a ∧ isUpperHex b ∧ isUpperHex c ∧ isUpperHex d :=
  ⟨_, _, _, _, rfl, hexDigitU_upper _ (by omega), hexDigitU_upper _ (by omega),
    hexDigitU_upper _ (by omega), hexDigitU_upper _ (by omega)⟩

/-- Different boot numbers get different names. -/
theorem C18_name_injective (n m : Nat) (hn : n < 65536) (hm : m < 65536)
    (h : Spec.fwBootName n = Spec.fwBootName m) : n = m :=
  hex4U_inj n m hn hm (List.append_cancel_left h)

/-- Decoding the encoding of a well-formed load option returns it: attributes, path length,
    description and every device-path node; optional data after the end node is ignored. -/
theorem C18_load_option (lo : Impl.LoadOption) (trailing : Bytes) (h : lo.WF) :
    Impl.loadOptionUnmarshal (Spec.encodeLoadOption lo ++ trailing) = .ok lo :=
  Impl.loadOptionUnmarshal_enc lo h trailing

/-- A file-path node prints as `File(<path>)`. -/
theorem C18_text_file (p : List Char) : Impl.fileText p = "File(".toList ++ p ++ [')'] := rfl

/-- A GPT hard-drive node prints as
    `HD(<decimal partition>,GPT,<GUID text>,0x<hex start>,0x<hex size>)`, where the GUID text is
    the canonical text (C17) of the signature read as a little-endian EFI_GUID: for a 16-byte
    signature that GUID is well-formed and its wire form is the signature itself. -/
theorem C18_text_hd_gpt (part : Nat) (start size sig : Bytes) :
    Impl.hdText part start size sig 2 =
      "HD(".toList ++ Nat.toDigits 10 part ++ ",GPT,".toList ++ (guidOfWire sig).format ++
        ",0x".toList ++ Nat.toDigits 16 (rd64 start) ++ ",0x".toList ++ Nat.toDigits 16 (rd64 size) ++ [')'] ∧
    (sig.length = 16 → (guidOfWire sig).WF ∧ guidWire (guidOfWire sig) = sig) :=
  ⟨hdText_gpt part start size sig, fun h => ⟨guidOfWire_wf sig h, guidWire_guidOfWire sig h⟩⟩

/-- An MBR hard-drive node prints as `HD(<decimal partition>,MBR,0x<8 hex digits>,0x<hex start>,
    0x<hex size>)`: the 32-bit signature is zero-padded to exactly 8 lower-case hex digits. -/
theorem C18_text_hd_mbr (part : Nat) (start size sig : Bytes) :
    Impl.hdText part start size sig 1 =
      "HD(".toList ++ Nat.toDigits 10 part ++ ",MBR,0x".toList ++ Impl.pad8Hex (rd32 (sig.take 4)) ++
        ",0x".toList ++ Nat.toDigits 16 (rd64 start) ++ ",0x".toList ++ Nat.toDigits 16 (rd64 size) ++ [')'] ∧
    (Impl.pad8Hex (rd32 (sig.take 4))).length = 8 ∧
    (∀ c ∈ Impl.pad8Hex (rd32 (sig.take 4)), isLowerHex c = true) ∧
    (∀ n, n < 2^32 → (Impl.pad8Hex n).length = 8) :=
  ⟨hdText_mbr part start size sig, pad8Hex_length _ (rd32_lt _), pad8Hex_lower _, pad8Hex_length⟩

/-! ### non-vacuity: concrete values meeting the hypotheses -/

/-- a load option with one node of every supported kind is well-formed, and (instance of the
    theorem) decodes to itself with trailing optional data ignored -/
example : (⟨1, 116, "Linux é".toList,
    [.pci [1, 1, 6, 0] 0 0x1f,
     .acpi [2, 1, 12, 0] [0xd0, 0x41, 0x03, 0x0a] [0, 0, 0, 0],
     .hd [4, 1, 42, 0] 1 (le64 2048) (le64 1048576) (zeros 15 ++ [7]) 2 2,
     .file [4, 4, 10, 0] "\\EFI\\x".toList,
     .fwfile [4, 6, 20, 0] (zeros 16),
     .usb [3, 5, 6, 0] 2 0]⟩ : Impl.LoadOption).WF := by decide
example : Impl.loadOptionUnmarshal (Spec.encodeLoadOption
    ⟨1, 116, "Linux é".toList,
      [.pci [1, 1, 6, 0] 0 0x1f, .file [4, 4, 10, 0] "\\EFI\\x".toList, .usb [3, 5, 6, 0] 2 0]⟩ ++ [0xde, 0xad]) =
    .ok ⟨1, 116, "Linux é".toList,
      [.pci [1, 1, 6, 0] 0 0x1f, .file [4, 4, 10, 0] "\\EFI\\x".toList, .usb [3, 5, 6, 0] 2 0]⟩ :=
  C18_load_option _ _ (by decide)
example : ¬ (Impl.Node.generic [1, 9, 4, 0]).WF := by decide
/-- the encoder's bytes for a small option, spelled out -/
example : Spec.encodeLoadOption ⟨1, 6, ['A'], [.usb [3, 5, 6, 0] 2 0]⟩ =
    [1, 0, 0, 0, 6, 0, 0x41, 0, 0, 0, 3, 5, 6, 0, 2, 0, 0x7f, 0xff, 4, 0] := by decide
example : Impl.bootOrder [0x01, 0x00, 0x1a, 0x2b] = ["Boot0001".toList, "Boot2B1A".toList] := by decide
/-- odd lengths (F35): `17 00 61 00 ab` names Boot0017 and Boot0061 and nothing else; a single byte names nothing -/
example : Impl.bootOrder [0x17, 0x00, 0x61, 0x00, 0xab] = ["Boot0017".toList, "Boot0061".toList] := by decide
example : Impl.bootOrder [0xab] = [] := by decide
example : Spec.entriesLE [0x17, 0x00, 0x61, 0x00, 0xab] = [0x17, 0x61] := by decide
example : String.ofList (Spec.fwBootName 0xBEEF) = "BootBEEF" := by decide
example : String.ofList (Impl.hdText 1 (le64 2048) (le64 4096) [0x78, 0x56, 0x34, 0x12] 1)
    = "HD(1,MBR,0x12345678,0x800,0x1000)" := by decide
example : String.ofList (Impl.hdText 2 (le64 2048) (le64 4096)
      [0x61, 0xdf, 0xe4, 0x8b, 0xca, 0x93, 0xd2, 0x11, 0xaa, 0x0d, 0x00, 0xe0, 0x98, 0x03, 0x2b, 0x8c] 2)
    = "HD(2,GPT,8be4df61-93ca-11d2-aa0d-00e098032b8c,0x800,0x1000)" := by decide
example : String.ofList (Impl.pad8Hex 0x1f) = "0000001f" := by decide

#print axioms C18_names
#print axioms C18_names_list
#print axioms C18_names_every
#print axioms C18_names_positions
#print axioms C18_entries
#print axioms C18_trailing_byte
#print axioms C18_name_shape
#print axioms C18_name_injective
#print axioms C18_load_option
#print axioms C18_text_file
#print axioms C18_text_hd_gpt
#print axioms C18_text_hd_mbr

end GoUefi.C18
