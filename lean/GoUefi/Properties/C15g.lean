import GoUefi.Properties.C03g
import GoUefi.Properties.C15
/-!
# C15 (generated tie) — a failed signing leaves the image object as it was, for the source's `Sign`

`authenticode.PECOFFBinary.Sign` as translated from authenticode/checksum.go on every run (`GoUefi/Gen.lean`; the
modelling is described at the top of `Properties/C03g.lean`): `SignAuthenticode` — the code that hashes the image and
calls the caller's `crypto.Signer` — is an external parameter, universally quantified.
-/
namespace GoUefi.C15
open GoUefi GoUefi.Gen GoUefi.C03

/-- **for every value of the externals and every receiver**: `Sign` reports an error exactly when `SignAuthenticode`
    does; then the receiver is unchanged and no signature is returned -/
theorem C15g_sign_atomic (X : authenticode.Ext) (p : authenticode.PECOFFBinary) (key : CryptoSigner) (cert : X509Cert) :
    ((authenticode.PECOFFBinary.Sign X p key cert).2.2.isSome ↔
      (X.SignAuthenticode key cert (X.makeSectionReader p.hashContent).content (5 : crypto.Hash)).2.2.isSome) ∧
    ((authenticode.PECOFFBinary.Sign X p key cert).2.2.isSome →
      (authenticode.PECOFFBinary.Sign X p key cert).1 = p ∧ (authenticode.PECOFFBinary.Sign X p key cert).2.1 = []) := by
  have hs := C03g_sign X p key cert
  simp only [] at hs
  rw [hs]
  by_cases he : (X.SignAuthenticode key cert (X.makeSectionReader p.hashContent).content (5 : crypto.Hash)).2.2.isSome
  · simp [he]
  · simp [he]

/-- **refinement**: through `absP` the translated `Sign` is the model's `Impl.signImage` (about which
    `C15_sign_atomic` is stated), with the external's answer as the signing result -/
theorem C15g_sign_refines (X : authenticode.Ext) (p : authenticode.PECOFFBinary) (key : CryptoSigner) (cert : X509Cert)
    (parts : List Impl.Part) (regular : Bool) (h0 : 0 ≤ p.length) :
    let r := X.SignAuthenticode key cert (X.makeSectionReader p.hashContent).content (5 : crypto.Hash)
    absP (authenticode.PECOFFBinary.Sign X p key cert).1 parts regular =
      (Impl.signImage (if r.2.2.isSome then none else some r.2.1) (absP p parts regular)).2 := by
  intro r
  have hs := C03g_sign X p key cert
  simp only [] at hs
  rw [hs]
  by_cases he : r.2.2.isSome
  · have he' : (X.SignAuthenticode key cert (X.makeSectionReader p.hashContent).content (5 : crypto.Hash)).2.2.isSome = true := he
    simp only [he', if_true, he, Impl.signImage]
  · have he' : ¬ (X.SignAuthenticode key cert (X.makeSectionReader p.hashContent).content (5 : crypto.Hash)).2.2.isSome = true := he
    simp only [he', he, Impl.signImage]
    exact C03g_append_refines p _ parts regular h0

example : (authenticode.PECOFFBinary.Sign { X0 with SignAuthenticode := fun _ _ r _ => (r, [7], some "hsm") } p0 ⟨0⟩ certA).1
    = p0 := by decide +kernel

end GoUefi.C15

#print axioms GoUefi.C15.C15g_sign_atomic
#print axioms GoUefi.C15.C15g_sign_refines
