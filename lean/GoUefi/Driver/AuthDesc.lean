import GoUefi.Driver.Util
import GoUefi.Model.AuthDesc
namespace GoUefi.Drv
open GoUefi

def handleAuth (op : String) (args : List String) : Option String :=
  match op, args with
  | "auth.read", [h] =>
    let bs := unhex h
    let m := outcomeStr (fun (x : Impl.AuthDesc × Bytes) =>
      s!"time={hex x.1.time} len={x.1.auth.hdr.length} rev={x.1.auth.hdr.rev} type={x.1.auth.hdr.ctype} guid={hex x.1.auth.certType} data={hex x.1.auth.data} rest={x.2.length} reenc={hex (Impl.writeAuth x.1)}")
      (Impl.readAuth bs)
    let s := match Spec.decodeAuth bs with
      | some (a, rest) => s!"some time={hex a.time} len={a.dwLength} rev={a.rev} type={a.ctype} guid={hex a.guid} data={hex a.data} rest={rest.length}"
      | none => "none"
    some s!"model={m} spec={s}"
  | "auth.write", [t, l, rv, ct, hc, g, d] =>
    -- encode a descriptor VALUE (fields as the caller holds them; hc = what the embedded header keeps as body)
    let v : Impl.AuthDesc := ⟨unhex t, ⟨⟨natArg l, natArg rv, natArg ct, unhex hc⟩, unhex g, unhex d⟩⟩
    let a : Spec.Auth := ⟨unhex t, natArg l, natArg rv, natArg ct, unhex g, unhex d⟩
    some s!"model={hex (Impl.writeAuth v)} spec={hex (Spec.encAuth a)}"
  | "wincert.read", [h] =>
    let bs := unhex h
    some (outcomeStr (fun (x : Impl.WinCert × Bytes) =>
      s!"len={x.1.length} rev={x.1.rev} type={x.1.ctype} cert={hex x.1.cert} rest={x.2.length} reenc={hex (Impl.writeWinCert x.1)}")
      (Impl.readWinCert bs))
  | _, _ => none

end GoUefi.Drv
