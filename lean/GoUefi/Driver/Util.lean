import GoUefi.Base
/- helpers for the line-protocol driver -/
namespace GoUefi.Drv

def strOfHexUtf8 (h : String) : Option String :=
  String.fromUTF8? (ByteArray.mk (GoUefi.unhex h).toArray)

def hexOfStr (s : String) : String := GoUefi.hex s.toUTF8.toList

def natArg (s : String) : Nat := s.toNat?.getD 0

def outcomeStr {α} (f : α → String) : GoUefi.Outcome α → String
  | .ok a => "ok " ++ f a
  | .err => "err"
  | .panic => "panic"
  | .exit => "exit"

end GoUefi.Drv
