import GoUefi.Driver.Util
import GoUefi.Model.Store
namespace GoUefi.Drv
open GoUefi

/-- a syntactically valid descriptor in front of a payload (what SignEFIVariable emits, with an
    opaque signature body): used so that the model's descriptor probe is exercised -/
def dummyDesc : Bytes :=
  GoUefi.zeros 16 ++ Impl.writeWinCert ⟨24 + 4, Impl.winCertRevision, Impl.winCertTypeEfiGuid, []⟩ ++ GoUefi.zeros 16 ++ [0x30, 0x02, 0x05, 0x00]

def handleStore (op : String) (args : List String) : Option String :=
  match op, args with
  | "store.history", [pre, ops] =>
    let s0 : Impl.Store := if pre == "-" then [] else (pre.splitOn ";").filterMap fun e =>
      match e.splitOn "," with
      | [v, b] => some (v, unhex b)
      | _ => none
    let (_, outs) := (ops.splitOn ";").foldl (fun (acc : Impl.Store × List String) o =>
      match o.splitOn "," with
      | ["W", v, b] => (acc.1.writeVar v (unhex b), "ok" :: acc.2)
      | ["S", v, b] => (acc.1.writeSigned v dummyDesc (unhex b), "ok" :: acc.2)
      | ["G", v, _] =>
        -- typed read; a value the decoder does not handle is still there as bytes ("raw")
        (acc.1, (match acc.1.read v with
          | .ok b => "ok " ++ hex b
          | _ => (match acc.1.get v with | some b => "raw " ++ hex b | none => "err")) :: acc.2)
      | _ => (acc.1, "bad-op" :: acc.2)) (s0, [])
    some ("/".intercalate outs.reverse)
  | _, _ => none

end GoUefi.Drv
