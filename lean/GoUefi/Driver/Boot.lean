import GoUefi.Driver.Util
import GoUefi.Model.Boot
namespace GoUefi.Drv
open GoUefi

def charsHex (cs : List Char) : String := hexOfStr (String.ofList cs)

def nodeStr : Impl.Node → String
  | .pci h fn dev => s!"pci:{hex h}:{fn}:{dev}"
  | .acpi h hid uid => s!"acpi:{hex h}:{hex hid}:{hex uid}"
  | .hd h part start size sig fmt st =>
      s!"hd:{hex h}:{part}:{hex start}:{hex size}:{hex sig}:{fmt}:{st}:text={charsHex (Impl.hdText part start size sig st)}"
  | .file h p => s!"file:{hex h}:{charsHex p}:text={charsHex (Impl.fileText p)}"
  | .fwfile h name => s!"fw:{hex h}:{hex name}"
  | .usb h port iface => s!"usb:{hex h}:{port}:{iface}"
  | .vendor h g => s!"vendor:{hex h}:{hex g}"
  | .generic h => s!"generic:{hex h}"

def parseNodeStr (s : String) : Option Impl.Node :=
  match s.splitOn ":" with
  | ["pci", h, fn, dev] => some (.pci (unhex h) (natArg fn) (natArg dev))
  | ["acpi", h, hid, uid] => some (.acpi (unhex h) (unhex hid) (unhex uid))
  | ["hd", h, part, start, size, sig, fmt, st] =>
      some (.hd (unhex h) (natArg part) (unhex start) (unhex size) (unhex sig) (natArg fmt) (natArg st))
  | ["file", h, p] => (strOfHexUtf8 p).map fun s => .file (unhex h) s.toList
  | ["fw", h, name] => some (.fwfile (unhex h) (unhex name))
  | ["usb", h, port, iface] => some (.usb (unhex h) (natArg port) (natArg iface))
  | _ => none

def loStr (lo : Impl.LoadOption) : String :=
  s!"attrs={lo.attrs} len={lo.pathLen} desc={charsHex lo.desc} nodes={"|".intercalate (lo.nodes.map nodeStr)}"

def handleBoot (op : String) (args : List String) : Option String :=
  match op, args with
  | "boot.order", [h] => some (",".intercalate ((Impl.bootOrder (unhex h)).map String.ofList))
  | "boot.name", [n] => some (String.ofList (Spec.fwBootName (natArg n)))
  | "boot.option", [h] => some (outcomeStr loStr (Impl.loadOptionUnmarshal (unhex h)))
  | "boot.encode", [attrs, len, desc, nodes] => do
      let d ← strOfHexUtf8 desc
      let ns ← (if nodes == "-" then some [] else (nodes.splitOn "|").mapM parseNodeStr)
      pure (hex (Spec.encodeLoadOption ⟨natArg attrs, natArg len, d.toList, ns⟩))
  | _, _ => none

end GoUefi.Drv
