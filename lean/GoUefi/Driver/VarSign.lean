import GoUefi.Driver.Util
import GoUefi.Driver.Pkcs7
import GoUefi.Model.VarSign
namespace GoUefi.Drv
open GoUefi

def handleVarSign (op : String) (args : List String) : Option String :=
  match op, args with
  | "var.sign", [name, guid, attrs, y, mo, d, h, mi, s, payload, cert, issuer, serial, timeText, sig] =>
    let t : Impl.Civil := ⟨natArg y, natArg mo, natArg d, natArg h, natArg mi, natArg s⟩
    let buf := Impl.signedBuffer (unhex name) (unhex guid) (natArg attrs) (Impl.efiTime t) (unhex payload)
    some (match Impl.varSign (unhex name) (unhex guid) (natArg attrs) t (unhex payload) (unhex cert) (unhex issuer)
        (natArg serial) (unhex timeText) (Exec.sha256 buf) (unhex sig) with
      | some b => "ok " ++ hex b ++ " buf=" ++ hex buf
      | none => "none")
  | _, _ => none

end GoUefi.Drv
