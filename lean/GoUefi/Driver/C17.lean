import GoUefi.Driver.Util
import GoUefi.Model.Guid
import GoUefi.Model.Utf16
namespace GoUefi.Drv
open GoUefi

def guidArgs : List String → Option (Guid × List String)
  | a :: b :: c :: d :: r => some (⟨natArg a, natArg b, natArg c, unhex d⟩, r)
  | _ => none

def guidStr (g : Guid) : String := s!"{g.d1} {g.d2} {g.d3} {hex g.d4}"

def handleC17 (op : String) (args : List String) : Option String :=
  match op with
  | "guid.format" => do let (g, _) ← guidArgs args; pure (String.ofList g.format)
  | "guid.parse" => do
      let s ← strOfHexUtf8 (args.headD "-"); pure (guidStr (stringToGuid s.toList))
  | "guid.frombytes" => some (guidStr (bytesToGuid (unhex (args.headD "-"))))
  | "guid.tobytes" => do let (g, _) ← guidArgs args; pure (hex (guidToBytes g))
  | "guid.wire" => do let (g, _) ← guidArgs args; pure (hex (guidWire g))
  | "guid.ofwire" => some (guidStr (guidOfWire (unhex (args.headD "-"))))
  | "guid.cmp" => do
      let (a, r) ← guidArgs args; let (b, _) ← guidArgs r; pure (toString (cmpGuid a b))
  | "utf16.enc" => do
      let s ← strOfHexUtf8 (args.headD "-"); pure (hex (marshalUtf16 s.toList))
  | "utf16.dec" =>
      some (outcomeStr (fun cs => hexOfStr (String.ofList cs)) (parseUtf16 (unhex (args.headD "-"))))
  | "efistring" =>
      some (outcomeStr (fun cs => hexOfStr (String.ofList cs)) (efistringUnmarshal (unhex (args.headD "-"))))
  | _ => none

end GoUefi.Drv
