import GoUefi.Driver.Util
import GoUefi.Driver.C17
import GoUefi.Model.VarFs
namespace GoUefi.Drv
open GoUefi

def callStr : Impl.Call × Impl.Res → String
  | (.openFile p f perm, r) => s!"openfile({p},{f},{perm}){if r == .fail then "!" else ""}"
  | (.write b, r) => s!"write({hex b}){match r with | .wrote n => s!"={n}" | _ => "!"}"
  | (.close, _) => "close"
  | (.open p, r) => s!"open({p}){if r == .fail then "!" else ""}"
  | (.stat, _) => "stat"
  | (.read n, _) => s!"read({n})"

def handleVarFs (op : String) (args : List String) : Option String :=
  match op, args with
  | "fs.write", dir :: name :: a :: b :: c :: d :: attrs :: value :: rest => do
    let dirS ← strOfHexUtf8 dir
    let nameS ← strOfHexUtf8 name
    let (g, _) ← guidArgs [a, b, c, d]
    -- optional: the index of the call that fails and how ("error", "short1", "short0")
    let env : Nat → Impl.Call → Impl.Res := match rest with
      | k :: kind :: _ => fun i c =>
          if i == natArg k then
            (match kind, c with
             | "short1", .write b => .wrote (b.length - 1)
             | "short0", .write _ => .wrote 0
             | _, _ => .fail)
          else Impl.fileEnv none i c
      | _ => Impl.fileEnv none
    let (res, tr) := (Impl.writeVar dirS nameS.toList g (natArg attrs) (unhex value)).run env 0
    pure (res.cls ++ " " ++ " ".intercalate (tr.map callStr))
  | "fs.read", dir :: name :: a :: b :: c :: d :: required :: file :: _ => do
    let dirS ← strOfHexUtf8 dir
    let nameS ← strOfHexUtf8 name
    let (g, _) ← guidArgs [a, b, c, d]
    let f : Option Bytes := if file == "absent" then none else some (unhex file)
    let (res, _) := (Impl.getVar dirS nameS.toList g (natArg required) (fun v => Outcome.ok v)).run (Impl.fileEnv f) 0
    pure (match res with
      | .ok (sa, v) => s!"ok attrs={sa} value={hex v}"
      | o => o.cls)
  | _, _ => none

end GoUefi.Drv
