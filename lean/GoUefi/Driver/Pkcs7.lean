import GoUefi.Driver.Util
import GoUefi.Model.Pkcs7
import GoUefi.Spec.Cms
import GoUefi.Crypto.Exec
namespace GoUefi.Drv
open GoUefi

def oidStr (o : List Nat) : String := ".".intercalate (o.map toString)
def parseOidStr (s : String) : List Nat := if s == "-" then [] else (s.splitOn ".").map natArg
def intArg (s : String) : Int := s.toInt?.getD 0

def attrsStr (a : Impl.Attrs) : String :=
  s!"ct={(a.contentType.map oidStr).getD "-"} md={hex a.md} t={(a.time.map hex).getD "-"} other=[{",".intercalate (a.other.map fun (o, b) => oidStr o ++ ":" ++ hex b)}]"

def p7Str (p : Impl.P7) : String :=
  let ss := p.signers.map fun s =>
    let a := match s.attrs with | none => "noattrs" | some a => attrsStr a
    s!"(v={s.version} iss={hex s.issuer} ser={s.serial} {a} sig={hex s.sig})"
  s!"oid={oidStr p.oid} content={hex p.content} certs={(p.certs.map hex).getD "none"} signers=[{" ".intercalate ss}]"

def certOfArgs : List String → Option (Cert × List String)
  | iss :: ser :: n :: e :: r => some (⟨unhex iss, intArg ser, ⟨natArg n, natArg e⟩⟩, r)
  | _ => none

def handlePkcs7 (op : String) (args : List String) : Option String :=
  match op, args with
  | "p7.certs", [b] =>
    some (match Impl.certsField (unhex b) with | some c => "some " ++ hex c | none => "none")
  | "p7.parse", [b, certsOk] =>
    some (match Impl.parseP7 (fun _ => certsOk == "1") (unhex b) with
      | some p => "ok " ++ p7Str p
      | none => "err")
  | "p7.verify", b :: certsOk :: detached :: rest => do
    let (cert, _) ← certOfArgs rest
    let blob := unhex b
    let m := match Impl.parseP7 (fun _ => certsOk == "1") blob with
      | none => "parse-err"
      | some p => (p.verify Exec.crypto cert).cls ++
          (match p.verify Exec.crypto cert with | .ok v => " " ++ toString v | _ => "")
    let det := if detached == "none" then none else some (unhex detached)
    let s := Spec.cmsVerify Exec.crypto blob cert det
    pure s!"model={m} spec={s}"
  | "p7.attrs", [b, certsOk] =>
    -- per signer: canonical re-encoding (Marshal) and the transmitted bytes
    some (match Impl.parseP7 (fun _ => certsOk == "1") (unhex b) with
      | none => "err"
      | some p => " ".intercalate (p.signers.map fun s =>
          match s.attrs with
          | none => "noattrs"
          | some a =>
            let m := match a.marshal with | .ok x => hex x | _ => "panic"
            s!"marshal={m} transmitted={(a.raw.map hex).getD "-"}"))
  | "p7.sign", [oid, content, cert, issuer, serial, time, md, sig] =>
    some (match Impl.signPKCS7 (parseOidStr oid) (unhex content) (unhex cert) (unhex issuer) (natArg serial) (unhex time) (unhex md) (unhex sig) with
      | some b => hex b
      | none => "panic")
  | "sha256", [b] => some (hex (Exec.sha256 (unhex b)))
  | _, _ => none

end GoUefi.Drv
