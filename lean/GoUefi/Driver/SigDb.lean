import GoUefi.Driver.Util
import GoUefi.Spec.SigDb
import GoUefi.Model.SigDb
namespace GoUefi.Drv
open GoUefi

def sigsStr (ss : List (Bytes × Bytes)) : String :=
  ",".intercalate (ss.map fun (o, d) => hex o ++ ":" ++ hex d)

def implListStr (l : Impl.SList) : String :=
  s!"{hex l.type};{l.listSize};{l.hdrSize};{l.size};{hex l.hdr};{sigsStr (l.sigs.map fun s => (s.owner, s.data))}"

def specListStr (l : Spec.SList) : String :=
  s!"{hex l.type};{l.listSize};{l.hdr.length};{l.size};{hex l.hdr};{sigsStr (l.sigs.map fun s => (s.owner, s.data))}"

def listsStr (xs : List String) : String := if xs.isEmpty then "[]" else "|".intercalate xs

def parseSigs (s : String) : List Impl.SData :=
  if s == "" || s == "-" then [] else
  (s.splitOn "+").filterMap fun e =>
    match e.splitOn ":" with
    | [o, d] => some ⟨unhex o, unhex d⟩
    | _ => none

def parsePemTable (s : String) : Bytes → Option Bytes :=
  let tbl : List (Bytes × Bytes) :=
    if s == "-" then [] else (s.splitOn ",").filterMap fun e =>
      match e.splitOn ":" with
      | [p, d] => some (unhex p, unhex d)
      | _ => none
  fun b => (tbl.find? (·.1 == b)).map (·.2)

/-- one step of a `sigdb.ops` history: returns the new state and the canonical answer -/
def dbStep (E : Impl.Env) (db : Impl.Db) (op : String) : Impl.Db × String :=
  match op.splitOn "," with
  | ["A", t, o, d] =>
    match db.append E (unhex t) (unhex o) (unhex d) with
    | .ok db' => (db', "ok " ++ hex (Impl.encDb db'))
    | .error _ => (db, "err " ++ hex (Impl.encDb db))
  | ["R", t, o, d] =>
    match db.remove (unhex t) (unhex o) (unhex d) with
    | .ok db' => (db', "ok " ++ hex (Impl.encDb db'))
    | .error _ => (db, "err " ++ hex (Impl.encDb db))
  | ["Q", t, o, d] => (db, toString (db.has (unhex t) (unhex o) (unhex d)))
  -- "AS" / "RS" / "QS": the same three operations entered through SignatureDatabase.AppendSignature /
  -- RemoveSignature / SigDataExists; the model has one definition per operation, whatever the entry point
  | ["AS", t, o, d] =>
    match db.append E (unhex t) (unhex o) (unhex d) with
    | .ok db' => (db', "ok " ++ hex (Impl.encDb db'))
    | .error _ => (db, "err " ++ hex (Impl.encDb db))
  | ["RS", t, o, d] =>
    match db.remove (unhex t) (unhex o) (unhex d) with
    | .ok db' => (db', "ok " ++ hex (Impl.encDb db'))
    | .error _ => (db, "err " ++ hex (Impl.encDb db))
  | ["QS", t, o, d] => (db, toString (db.has (unhex t) (unhex o) (unhex d)))
  | ["X", t, sigs] => (db, toString (db.hasAll (unhex t) (parseSigs sigs)))
  | ["L", t, size, sigs] =>
    let ss := parseSigs sigs
    let l : Impl.SList := ⟨unhex t, 28 + ss.length * natArg size, 0, natArg size, [], ss⟩
    let db' := db.appendList l
    (db', "ok " ++ hex (Impl.encDb db'))
  | [op, t, size, hdr, sigs] =>
    -- "LH" / "DH": AppendList / AppendDatabase of a hand-built well-formed list with a signature header
    if op == "LH" || op == "DH" then
      let ss := parseSigs sigs
      let h := unhex hdr
      let l : Impl.SList := ⟨unhex t, 28 + h.length + ss.length * natArg size, h.length, natArg size, h, ss⟩
      let db' := db.appendList l
      (db', "ok " ++ hex (Impl.encDb db'))
    else (db, "bad-op")
  | ["LM", t, sigs] =>
    -- a list built through the list-level API (errors of individual AppendBytes calls ignored)
    let l := (parseSigs sigs).foldl (fun (l : Impl.SList) s =>
      match l.appendBytes E s.owner s.data with
      | .ok l' => l'
      | .error _ => l) (Impl.newList (unhex t))
    let db' := db.appendList l
    (db', "ok " ++ hex (Impl.encDb db'))
  | ["LA", idx, sig] =>
    -- list-level AppendBytes on the idx-th list of the database (its error is reported, nothing else changes)
    let i := natArg idx
    (match db[i]?, parseSigs sig with
     | some l, [s] =>
       (match l.appendBytes E s.owner s.data with
        | .ok l' => let db' := db.set i l'; (db', "ok " ++ hex (Impl.encDb db'))
        | .error _ => (db, "err " ++ hex (Impl.encDb db)))
     | _, _ => (db, "err " ++ hex (Impl.encDb db)))
  | ["E"] =>
    match Impl.readDb (Impl.encDb db) with
    | some db' => (db', "ok " ++ hex (Impl.encDb db'))
    | none => (db, "err " ++ hex (Impl.encDb db))
  | _ => (db, "bad-op")

/-! ### held lists

A caller that hands a list to `AppendList` / `AppendDatabase` keeps its pointer, and in the library the
database stores that very pointer: an edit of the caller's list IS an edit of the database's list.
In the value world of the model this is a book of positions: `held[k]` is where the k-th handed-over
list sits in the database (`none` once the database dropped it, or was replaced by a decoded one). -/

structure OpsState where
  db : Impl.Db
  held : List (Option Nat)

/-- the list `Db.remove` drops: the first list of that type and size that holds the entry, when the
    entry is its only one -/
def dropIdx (db : Impl.Db) (t o d : Bytes) : Option Nat :=
  match db.findIdx? (fun l => l.type == t && l.size == d.length + 16 && l.has o d) with
  | some i => (match db[i]? with
    | some l => if l.sigs.length == 1 then some i else none
    | none => none)
  | none => none

def heldAfterDrop (held : List (Option Nat)) (j : Nat) : List (Option Nat) :=
  held.map fun h => match h with
    | some i => if i == j then none else if i > j then some (i - 1) else some i
    | none => none

/-- list-level `RemoveBytes` (the case that empties the list is answered with "skip" by the caller) -/
def listRemoveBytes (l : Impl.SList) (o d : Bytes) : Option Impl.SList :=
  if l.has o d then
    some { l with sigs := l.sigs.erase ⟨o, d⟩, listSize := l.listSize - l.size }
  else none

/-- one step of a `sigdb.ops` history with the book of handed-over lists -/
def opsStep (E : Impl.Env) (st : OpsState) (op : String) : OpsState × String :=
  let enc := fun (db : Impl.Db) => hex (Impl.encDb db)
  match op.splitOn "," with
  | [hop, k, sig] =>
    if hop == "HA" || hop == "HR" then
      -- the caller edits the k-th list it handed over (list-level AppendBytes / RemoveBytes)
      match st.held[natArg k]?, parseSigs sig with
      | some h, [s] =>
        (match h with
        | none => (st, "detached " ++ enc st.db)
        | some i =>
          match st.db[i]? with
          | none => (st, "detached " ++ enc st.db)
          | some l =>
            if hop == "HA" then
              match l.appendBytes E s.owner s.data with
              | .ok l' => let db' := st.db.set i l'; ({ st with db := db' }, "ok " ++ enc db')
              | .error _ => (st, "err " ++ enc st.db)
            else if l.sigs.length == 1 && l.has s.owner s.data then (st, "skip " ++ enc st.db)
            else match listRemoveBytes l s.owner s.data with
              | some l' => let db' := st.db.set i l'; ({ st with db := db' }, "ok " ++ enc db')
              | none => (st, "err " ++ enc st.db))
      | _, _ => (st, "nolist " ++ enc st.db)
    else
      let (db', o) := dbStep E st.db op
      if hop == "LM" && o != "bad-op" then (⟨db', st.held ++ [some (db'.length - 1)]⟩, o) else (⟨db', st.held⟩, o)
  | kind :: rest =>
    let (db', o) := dbStep E st.db op
    if o == "bad-op" then (⟨db', st.held⟩, o)
    else if kind == "L" || kind == "LM" || kind == "LH" || kind == "DH" then
      (⟨db', st.held ++ [some (db'.length - 1)]⟩, o)
    else if (kind == "R" || kind == "RS") && o.startsWith "ok " then
      match rest with
      | [t, ow, d] =>
        (match dropIdx st.db (unhex t) (unhex ow) (unhex d) with
        | some j => (⟨db', heldAfterDrop st.held j⟩, o)
        | none => (⟨db', st.held⟩, o))
      | _ => (⟨db', st.held⟩, o)
    else if kind == "E" && o.startsWith "ok " then (⟨db', st.held.map fun _ => none⟩, o)
    else (⟨db', st.held⟩, o)
  | _ => (st, "bad-op")

def handleSigDb (op : String) (args : List String) : Option String :=
  match op, args with
  | "sigdb.read", [h] =>
    let bs := unhex h
    let m := match Impl.readDb bs with
      | some db => "ok " ++ listsStr (db.map implListStr) ++ " reenc=" ++ hex (Impl.encDb db)
      | none => "err"
    let s := match Spec.decodeDb bs with
      | some ls => "some " ++ listsStr (ls.map specListStr)
      | none => "none"
    some s!"model={m} spec={s}"
  | "sigdb.spec", [h] =>
    some (match Spec.decodeDb (unhex h) with
      | some ls => "some " ++ listsStr (ls.map specListStr)
      | none => "none")
  | "sigdb.ops", [pem, start, ops] =>
    let E : Impl.Env := ⟨parsePemTable pem⟩
    match (if start == "empty" then some [] else Impl.readDb (unhex start)) with
    | none => some "start-err"
    | some db0 =>
      let (_, outs) := (ops.splitOn ";").foldl (fun (acc : OpsState × List String) op =>
        let (st', o) := opsStep E acc.1 op; (st', o :: acc.2)) (⟨db0, []⟩, [])
      some ("/".intercalate outs.reverse)
  | _, _ => none

end GoUefi.Drv
