import GoUefi.Driver.Util
import GoUefi.Spec.SigDb
import GoUefi.Model.SigDb
namespace GoUefi.Drv
open GoUefi

def sigsStr (ss : List (Bytes × Bytes)) : String :=
  ",".intercalate (ss.map fun (o, d) => hex o ++ ":" ++ hex d)

def implListStr (l : Impl.SList) : String :=
  s!"{hex l.type};{l.listSize};{l.hdrSize};{l.size};{hex l.hdr};{sigsStr (l.sigs.map fun s => (s.owner, s.data))}"

def specListStr (l : Spec.SList) : String :=
  s!"{hex l.type};{l.listSize};{l.hdr.length};{l.size};{hex l.hdr};{sigsStr (l.sigs.map fun s => (s.owner, s.data))}"

def listsStr (xs : List String) : String := if xs.isEmpty then "[]" else "|".intercalate xs

def parseSigs (s : String) : List Impl.SData :=
  if s == "" || s == "-" then [] else
  (s.splitOn "+").filterMap fun e =>
    match e.splitOn ":" with
    | [o, d] => some ⟨unhex o, unhex d⟩
    | _ => none

def parsePemTable (s : String) : Bytes → Option Bytes :=
  let tbl : List (Bytes × Bytes) :=
    if s == "-" then [] else (s.splitOn ",").filterMap fun e =>
      match e.splitOn ":" with
      | [p, d] => some (unhex p, unhex d)
      | _ => none
  fun b => (tbl.find? (·.1 == b)).map (·.2)

/-- one step of a `sigdb.ops` history: returns the new state and the canonical answer -/
def dbStep (E : Impl.Env) (db : Impl.Db) (op : String) : Impl.Db × String :=
  match op.splitOn "," with
  | ["A", t, o, d] =>
    match db.append E (unhex t) (unhex o) (unhex d) with
    | .ok db' => (db', "ok " ++ hex (Impl.encDb db'))
    | .error _ => (db, "err " ++ hex (Impl.encDb db))
  | ["R", t, o, d] =>
    match db.remove (unhex t) (unhex o) (unhex d) with
    | .ok db' => (db', "ok " ++ hex (Impl.encDb db'))
    | .error _ => (db, "err " ++ hex (Impl.encDb db))
  | ["Q", t, o, d] => (db, toString (db.has (unhex t) (unhex o) (unhex d)))
  | ["X", t, sigs] => (db, toString (db.hasAll (unhex t) (parseSigs sigs)))
  | ["L", t, size, sigs] =>
    let ss := parseSigs sigs
    let l : Impl.SList := ⟨unhex t, 28 + ss.length * natArg size, 0, natArg size, [], ss⟩
    let db' := db.appendList l
    (db', "ok " ++ hex (Impl.encDb db'))
  | [op, t, size, hdr, sigs] =>
    -- "LH" / "DH": AppendList / AppendDatabase of a hand-built well-formed list with a signature header
    if op == "LH" || op == "DH" then
      let ss := parseSigs sigs
      let h := unhex hdr
      let l : Impl.SList := ⟨unhex t, 28 + h.length + ss.length * natArg size, h.length, natArg size, h, ss⟩
      let db' := db.appendList l
      (db', "ok " ++ hex (Impl.encDb db'))
    else (db, "bad-op")
  | ["LM", t, sigs] =>
    -- a list built through the list-level API (errors of individual AppendBytes calls ignored)
    let l := (parseSigs sigs).foldl (fun (l : Impl.SList) s =>
      match l.appendBytes E s.owner s.data with
      | .ok l' => l'
      | .error _ => l) (Impl.newList (unhex t))
    let db' := db.appendList l
    (db', "ok " ++ hex (Impl.encDb db'))
  | ["LA", idx, sig] =>
    -- list-level AppendBytes on the idx-th list of the database (its error is reported, nothing else changes)
    let i := natArg idx
    (match db[i]?, parseSigs sig with
     | some l, [s] =>
       (match l.appendBytes E s.owner s.data with
        | .ok l' => let db' := db.set i l'; (db', "ok " ++ hex (Impl.encDb db'))
        | .error _ => (db, "err " ++ hex (Impl.encDb db)))
     | _, _ => (db, "err " ++ hex (Impl.encDb db)))
  | ["E"] =>
    match Impl.readDb (Impl.encDb db) with
    | some db' => (db', "ok " ++ hex (Impl.encDb db'))
    | none => (db, "err " ++ hex (Impl.encDb db))
  | _ => (db, "bad-op")

def handleSigDb (op : String) (args : List String) : Option String :=
  match op, args with
  | "sigdb.read", [h] =>
    let bs := unhex h
    let m := match Impl.readDb bs with
      | some db => "ok " ++ listsStr (db.map implListStr) ++ " reenc=" ++ hex (Impl.encDb db)
      | none => "err"
    let s := match Spec.decodeDb bs with
      | some ls => "some " ++ listsStr (ls.map specListStr)
      | none => "none"
    some s!"model={m} spec={s}"
  | "sigdb.spec", [h] =>
    some (match Spec.decodeDb (unhex h) with
      | some ls => "some " ++ listsStr (ls.map specListStr)
      | none => "none")
  | "sigdb.ops", [pem, start, ops] =>
    let E : Impl.Env := ⟨parsePemTable pem⟩
    match (if start == "empty" then some [] else Impl.readDb (unhex start)) with
    | none => some "start-err"
    | some db0 =>
      let (_, outs) := (ops.splitOn ";").foldl (fun (acc : Impl.Db × List String) op =>
        let (db', o) := dbStep E acc.1 op; (db', o :: acc.2)) (db0, [])
      some ("/".intercalate outs.reverse)
  | _, _ => none

end GoUefi.Drv
