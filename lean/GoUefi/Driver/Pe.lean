import GoUefi.Driver.Util
import GoUefi.Driver.Pkcs7
import GoUefi.Model.Authenticode
import GoUefi.Model.MultiFault
import GoUefi.Spec.Authenticode
namespace GoUefi.Drv

/-- strict verdict; when it is negative, the tolerant one too -/
def specStr (b : Bytes) (cert : GoUefi.Cert) : String :=
  if Spec.authenticodeVerify Exec.crypto b cert then " spec=true"
  else s!" spec=false len={Spec.authenticodeVerifyLenient Exec.crypto b cert}"
open GoUefi

/-- facts as `lfanew,kind,soh,ddva,ddsize,off:size+off:size…` -/
def parseFacts (s : String) : Option Impl.PeFacts :=
  match s.splitOn "," with
  | [a, k, soh, va, sz, secs] =>
    let ss := if secs == "-" then [] else (secs.splitOn "+").filterMap fun e =>
      match e.splitOn ":" with
      | [o, z] => some (natArg o, natArg z)
      | _ => none
    some ⟨natArg a, natArg k, natArg soh, natArg va, natArg sz, ss⟩
  | _ => none

def parsedStr (p : Impl.Parsed) : String :=
  s!"ok regular={p.regular} full={p.parts.all (·.full)} length={p.length} pad={p.padding} va={p.ddVA} sz={p.ddSize}"

def entriesStr (es : List Spec.PE.CertEntry) : String :=
  "[" ++ ",".intercalate (es.map fun e => s!"({e.length};{e.rev};{e.ctype};{hex (Exec.sha256 e.body)})") ++ "]"

/-- debug/pe reads the whole section table; when it does not fit in the file `NewFile` fails.  The
    driver answers that case directly, which also keeps an absurd NumberOfSections from making the
    list-based header walk quadratic. -/
def sectionTableFits (b : Bytes) : Bool :=
  let L := le32At b 0x3c
  decide (L + 24 + le16At b (L + 20) + 40 * le16At b (L + 6) ≤ b.length)

def handlePe (op : String) (args : List String) : Option String :=
  match op, args with
  | "pe.spec", [h] =>
    let b := unhex h
    let wf := Spec.PE.wfCheck b
    some s!"wf={wf} pre={if wf then hex (Spec.PE.authInputPadded b) else "-"}"
  | "pe.hash", [h] =>
    let b := unhex h
    if !sectionTableFits b then some "err" else
    some (match Impl.parse b (Impl.factsOf b) with
      | .ok p => parsedStr p ++ " pre=" ++ hex (Impl.hashStream p)
      | o => o.cls)
  | "pe.hashf", [h, f] => do
    let facts ← parseFacts f
    let b := unhex h
    pure (match Impl.parse b facts with
      | .ok p => parsedStr p ++ " pre=" ++ hex (Impl.hashStream p)
      | o => o.cls)
  | "pe.hashfault", [h, mode, j, kind] =>
    -- Hash through a reader whose j-th ReadAt (counted from Hash's first read) misbehaves.
    -- mode "fault": kind 0 error, 1 short+ErrUnexpectedEOF, 2 short+EOF, 3 nothing+EOF;
    -- mode "eofwith": io.EOF reported together with the full j-th read; mode "old": the code before F21
    let b := unhex h
    if !sectionTableFits b then some "parse-err" else
    some (match Impl.parse b (Impl.factsOf b) with
      | .ok p =>
        let env : Impl.RdEnv := if mode == "eofwith" then Impl.envEofWith (natArg j) else Impl.envFault (natArg j) (natArg kind)
        let parts := p.parts.map (·.data)
        if mode == "old" then
          let ps := Impl.multiParts parts
          (match Impl.copyAllOld env ps 32768 (ps.flatten.length + 1) 0 0 with
           | (out, .none) => "ok " ++ hex (Exec.sha256 out)
           | _ => "nil")
        else
          (match Impl.hashInputE env parts 32768 with
           | some out => "ok " ++ hex (Exec.sha256 out)
           | none => "nil")
      | o => "parse-" ++ o.cls)
  | "pe.classify", h :: ps =>
    let b := unhex h
    some (" ".intercalate (ps.map fun p => match Spec.PE.classify b (natArg p) with
      | .covered => "covered" | .excluded => "excluded" | .gap => "gap" | .outside => "outside"))
  | "pe.flips", h :: flips =>
    -- per flip `pos:mask`: class of the position in the original / is the changed file still
    -- well-formed / does the specification's hash input change
    let b := unhex h
    let pre := Spec.PE.authInputPadded b
    some (" ".intercalate (flips.map fun f =>
      match f.splitOn ":" with
      | [p, m] =>
        let pos := natArg p
        let cls := match Spec.PE.classify b pos with
          | .covered => "covered" | .excluded => "excluded" | .gap => "gap" | .outside => "outside"
        let b' := b.set pos ((b.getD pos 0) ^^^ (natArg m).toUInt8)
        let wf := Spec.PE.wfCheck b'
        s!"{cls}/{wf}/{wf && Spec.PE.authInputPadded b' != pre}"
      | _ => "bad"))
  | "pe.append", h :: sigs =>
    let b := unhex h
    some (match Impl.parse b (Impl.factsOf b) with
      | .ok p => "ok " ++ hex (sigs.foldl (fun q s => q.appendSignature (unhex s)) p).bytes
      | o => o.cls)
  | "pe.bytes", [h] =>
    let b := unhex h
    some (match Impl.parse b (Impl.factsOf b) with
      | .ok p => "ok " ++ hex p.bytes
      | o => o.cls)
  | "pe.walk", [h] =>
    let b := unhex h
    some (match Spec.PE.certEntries b with
      | some es => s!"some va={Spec.PE.certAddr b} sz={Spec.PE.certSize b} n={b.length} entries={entriesStr es}"
      | none => "none")
  | "pe.sigs", [h] =>
    let b := unhex h
    some (match Impl.parse b (Impl.factsOf b) with
      | .ok p => (match p.signatures with
          | .ok ws => "ok [" ++ ",".intercalate (ws.map fun w => s!"({w.length};{w.rev};{w.ctype};{hex (Exec.sha256 w.cert)})") ++ "]"
          | o => o.cls)
      | o => "parse-" ++ o.cls)
  | "pe.verify", h :: badCerts :: rest => do
    -- badCerts: raw certificate fields that Go's x509.ParseCertificates rejects ("-" = none)
    let (cert, _) ← certOfArgs rest
    let bad : List Bytes := if badCerts == "-" then [] else (badCerts.splitOn ",").map unhex
    let certsOk := fun (raw : Bytes) => !bad.contains raw
    let b := unhex h
    if !sectionTableFits b then pure "model=parse-err spec=false" else
    pure (match Impl.parse b (Impl.factsOf b) with
      | .ok p =>
        let r := p.verify Exec.crypto certsOk cert
        "model=" ++ r.cls ++ (match r with | .ok v => " " ++ toString v | _ => "") ++
          specStr b cert
      | o => "model=parse-" ++ o.cls ++ specStr b cert)
  | "spc", [d] => some (hex (Impl.spcIndirectData (unhex d)))
  | _, _ => none

end GoUefi.Drv
