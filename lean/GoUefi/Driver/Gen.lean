import GoUefi.Driver.Util
import GoUefi.Gen
/-
  Line-protocol operations that run the TRANSLATED code (`GoUefi/Gen.lean`, regenerated from the Go
  source by tools/go2lean) on the inputs of the correspondence harness, and answer in exactly the
  format of the hand-written model's operations (`sigdb.read`, `sigdb.ops`, `auth.read`,
  `wincert.read`, `var.sign`; `gen.testfs.stored`: with what the real store holds).  The harness compares the two answers: this validates the translator (and the
  abstraction the refinement theorems use) on every generated case.  Part of the `gendriver`
  executable only, so that a source change the translator cannot handle does not take the model
  driver down with it.
-/
namespace GoUefi.Drv
open GoUefi GoUefi.Gen

def gWire (g : util.EFIGUID) : Bytes := encLE_util_EFIGUID g
def gOfWire (b : Bytes) : util.EFIGUID := decLE_util_EFIGUID b

def gsigsStr (ss : List signature.SignatureData) : String :=
  ",".intercalate (ss.map fun s => hex (gWire s.Owner) ++ ":" ++ hex s.Data)

def genListStr (l : signature.SignatureList) : String :=
  s!"{hex (gWire l.SignatureType)};{l.ListSize.toNat};{l.HeaderSize.toNat};{l.Size.toNat};{hex l.SignatureHeader};{gsigsStr l.Signatures}"

def glistsStr (xs : List String) : String := if xs.isEmpty then "[]" else "|".intercalate xs

def gparseSigs (s : String) : List signature.SignatureData :=
  if s == "" || s == "-" then [] else
  (s.splitOn "+").filterMap fun e =>
    match e.splitOn ":" with
    | [o, d] => some ⟨gOfWire (unhex o), unhex d⟩
    | _ => none

def gparsePem (s : String) : Ext :=
  let tbl : List (Bytes × Bytes) :=
    if s == "-" then [] else (s.splitOn ",").filterMap fun e =>
      match e.splitOn ":" with
      | [p, d] => some (unhex p, unhex d)
      | _ => none
  ⟨fun b => match tbl.find? (·.1 == b) with
    | some (_, d) => (⟨false, d⟩, [])
    | none => (⟨true, []⟩, b)⟩

def genDbBytes (db : signature.SignatureDatabase) : String := hex (signature.SignatureDatabase.Bytes db)

def genDbStep (E : Ext) (db : signature.SignatureDatabase) (op : String) : signature.SignatureDatabase × String :=
  match op.splitOn "," with
  | ["A", t, o, d] =>
    let r := db.Append E (gOfWire (unhex t)) (gOfWire (unhex o)) (unhex d)
    if r.2.isNone then (r.1, "ok " ++ genDbBytes r.1) else (r.1, "err " ++ genDbBytes r.1)
  | ["R", t, o, d] =>
    let r := db.Remove (gOfWire (unhex t)) (gOfWire (unhex o)) (unhex d)
    if r.2.isNone then (r.1, "ok " ++ genDbBytes r.1) else (r.1, "err " ++ genDbBytes r.1)
  | ["Q", t, o, d] => (db, toString (db.BytesExists (gOfWire (unhex t)) (gOfWire (unhex o)) (unhex d)))
  -- the other entry points of the same operations, as translated
  | ["AS", t, o, d] =>
    let r := db.AppendSignature E (gOfWire (unhex t)) ⟨gOfWire (unhex o), unhex d⟩
    if r.2.isNone then (r.1, "ok " ++ genDbBytes r.1) else (r.1, "err " ++ genDbBytes r.1)
  | ["RS", t, o, d] =>
    let r := db.RemoveSignature (gOfWire (unhex t)) ⟨gOfWire (unhex o), unhex d⟩
    if r.2.isNone then (r.1, "ok " ++ genDbBytes r.1) else (r.1, "err " ++ genDbBytes r.1)
  | ["QS", t, o, d] => (db, toString (db.SigDataExists (gOfWire (unhex t)) ⟨gOfWire (unhex o), unhex d⟩))
  | ["X", t, sigs] =>
    let l : signature.SignatureList := ⟨gOfWire (unhex t), 0, 0, 0, [], gparseSigs sigs⟩
    (db, toString (db.Exists (gOfWire (unhex t)) l))
  | ["L", t, size, sigs] =>
    let ss := gparseSigs sigs
    let l : signature.SignatureList :=
      ⟨gOfWire (unhex t), UInt32.ofNat (28 + ss.length * natArg size), 0, UInt32.ofNat (natArg size), [], ss⟩
    let db' := db.AppendList l
    (db', "ok " ++ genDbBytes db')
  | [op, t, size, hdr, sigs] =>
    if op == "LH" then
      let ss := gparseSigs sigs
      let h := unhex hdr
      let l : signature.SignatureList :=
        ⟨gOfWire (unhex t), UInt32.ofNat (28 + h.length + ss.length * natArg size), UInt32.ofNat h.length, UInt32.ofNat (natArg size), h, ss⟩
      let db' := db.AppendList l
      (db', "ok " ++ genDbBytes db')
    else if op == "DH" then
      let ss := gparseSigs sigs
      let h := unhex hdr
      let l : signature.SignatureList :=
        ⟨gOfWire (unhex t), UInt32.ofNat (28 + h.length + ss.length * natArg size), UInt32.ofNat h.length, UInt32.ofNat (natArg size), h, ss⟩
      let db' := db.AppendDatabase [l]
      (db', "ok " ++ genDbBytes db')
    else (db, "bad-op")
  | ["LM", t, sigs] =>
    let l := (gparseSigs sigs).foldl (fun (l : signature.SignatureList) s =>
      let r := l.AppendBytes E s.Owner s.Data
      if r.2.isNone then r.1 else l) (signature.NewSignatureList (gOfWire (unhex t)))
    let db' := db.AppendList l
    (db', "ok " ++ genDbBytes db')
  | ["LA", idx, sig] =>
    let i := natArg idx
    (match db[i]?, gparseSigs sig with
     | some l, [s] =>
       let r := l.AppendBytes E s.Owner s.Data
       if r.2.isNone then let db' := db.set i r.1; (db', "ok " ++ genDbBytes db')
       else (db, "err " ++ genDbBytes db)
     | _, _ => (db, "err " ++ genDbBytes db))
  | ["E"] =>
    let enc := signature.SignatureDatabase.Bytes db
    let r := signature.ReadSignatureDatabase (enc.length + 1) enc
    if r.2.2.isNone then (r.2.1, "ok " ++ genDbBytes r.2.1) else (db, "err " ++ genDbBytes db)
  | _ => (db, "bad-op")

/-! ### held lists (same book of positions as `opsStep` of the model driver, over the translated code) -/

structure GenOpsState where
  db : signature.SignatureDatabase
  held : List (Option Nat)

def genDropIdx (db : signature.SignatureDatabase) (t o : util.EFIGUID) (d : Bytes) : Option Nat :=
  match db.findIdx? (fun l => util.CmpEFIGUID l.SignatureType t && l.Size == UInt32.ofNat d.length + util.SizeofEFIGUID
      && (l.Exists ⟨o, d⟩).1) with
  | some i => (match db[i]? with
    | some l => if l.Signatures.length == 1 then some i else none
    | none => none)
  | none => none

def genHeldAfterDrop (held : List (Option Nat)) (j : Nat) : List (Option Nat) :=
  held.map fun h => match h with
    | some i => if i == j then none else if i > j then some (i - 1) else some i
    | none => none

def genOpsStep (E : Ext) (st : GenOpsState) (op : String) : GenOpsState × String :=
  match op.splitOn "," with
  | [hop, k, sig] =>
    if hop == "HA" || hop == "HR" then
      match st.held[natArg k]?, gparseSigs sig with
      | some h, [s] =>
        (match h with
        | none => (st, "detached " ++ genDbBytes st.db)
        | some i =>
          match st.db[i]? with
          | none => (st, "detached " ++ genDbBytes st.db)
          | some l =>
            if hop == "HA" then
              let r := l.AppendBytes E s.Owner s.Data
              if r.2.isNone then let db' := st.db.set i r.1; ({ st with db := db' }, "ok " ++ genDbBytes db')
              else (st, "err " ++ genDbBytes st.db)
            else if l.Signatures.length == 1 && (l.Exists s).1 then (st, "skip " ++ genDbBytes st.db)
            else
              let r := l.RemoveBytes s.Owner s.Data
              if r.2.isNone then let db' := st.db.set i r.1; ({ st with db := db' }, "ok " ++ genDbBytes db')
              else (st, "err " ++ genDbBytes st.db))
      | _, _ => (st, "nolist " ++ genDbBytes st.db)
    else
      let (db', o) := genDbStep E st.db op
      if hop == "LM" && o != "bad-op" then (⟨db', st.held ++ [some (db'.length - 1)]⟩, o) else (⟨db', st.held⟩, o)
  | kind :: rest =>
    let (db', o) := genDbStep E st.db op
    if o == "bad-op" then (⟨db', st.held⟩, o)
    else if kind == "L" || kind == "LM" || kind == "LH" || kind == "DH" then
      (⟨db', st.held ++ [some (db'.length - 1)]⟩, o)
    else if (kind == "R" || kind == "RS") && o.startsWith "ok " then
      match rest with
      | [t, ow, d] =>
        (match genDropIdx st.db (gOfWire (unhex t)) (gOfWire (unhex ow)) (unhex d) with
        | some j => (⟨db', genHeldAfterDrop st.held j⟩, o)
        | none => (⟨db', st.held⟩, o))
      | _ => (⟨db', st.held⟩, o)
    else if kind == "E" && o.startsWith "ok " then (⟨db', st.held.map fun _ => none⟩, o)
    else (⟨db', st.held⟩, o)
  | _ => (st, "bad-op")

/-- `gen.varsign`: runs the TRANSLATED `signature.SignEFIVariable` on a variable (name, vendor GUID in wire
    form, attributes), a payload object that appends `payload` at both call sites, the clock value `tm`
    (16 wire bytes, as observed in the real library's output) and the bare SignedData `sd` that the real
    `SignPKCS7`/`ParseContentInfo` produced.  The translated function is run twice: with externals that hand
    the buffer given to `SignPKCS7` back as the signature (so the signed buffer becomes observable), and with
    externals that return `sd`.  Answer: `ok <returned bytes> buf=<signed buffer>` — the format of the
    model's `var.sign`, which the harness compares with the real library's output and with the buffer that
    an independent verifier accepted. -/
def genVarSign (name guid attrs tm payload sd : String) : String :=
  match String.fromUTF8? (ByteArray.mk (unhex name).toArray) with
  | none => "skip name-not-utf8"   -- a Go string that is not valid UTF-8 is outside the translation's model
  | some nm =>
    let pl := unhex payload
    let v : efivar.Efivar := ⟨nm, gOfWire (unhex guid), UInt32.ofNat (natArg attrs)⟩
    let m : efivar.Marshallable := ⟨fun _ => pl, fun _ b => b ++ pl⟩
    let clock := decLE_util_EFITime (unhex tm)
    let X1 : signature.Externals := ⟨clock, fun _ _ _ buf => (buf, none), fun der => ([], [], der, none)⟩
    let X2 : signature.Externals := ⟨clock, fun _ _ _ buf => (buf, none), fun _ => ([], [], unhex sd, none)⟩
    let r1 := signature.SignEFIVariable X1 v m ⟨0⟩ ⟨[], [], [], 0⟩
    let r2 := signature.SignEFIVariable X2 v m ⟨0⟩ ⟨[], [], [], 0⟩
    s!"ok {hex r2.2.1} buf={hex r1.1.AuthInfo.CertData}"

/-- `gen.testfs.stored`: runs the TRANSLATED `testfs.TestFS.WriteVar` on a variable called `name` (hex of the
    name's bytes) and a value object that appends `value` at every call site, with `EFIFS.WriteVar` — the
    external function — replaced by one that does what the real one does with the value it is handed (marshals
    it into an empty buffer) and reports those bytes through its error.  Answer: `ok <hex of the bytes that
    reach the variable's file behind the attributes>`; the harness compares it with what the REAL `TestFS`
    stored for the same name and marshalled value, read back raw. -/
def genTestfsStored (name value : String) : String :=
  match String.fromUTF8? (ByteArray.mk (unhex name).toArray) with
  | none => "skip name-not-utf8"   -- a Go string that is not valid UTF-8 is outside the translation's model
  | some nm =>
    let bs := unhex value
    let t : efivar.Marshallable := ⟨fun _ => bs, fun _ b => b ++ bs⟩
    let X : testfs.Externals := ⟨fun _ _ e => some (hex (e.Marshal 0 []))⟩
    let v : efivar.Efivar := ⟨nm, ⟨0, 0, 0, [0, 0, 0, 0, 0, 0, 0, 0]⟩, 0⟩
    match testfs.TestFS.WriteVar X ⟨⟨⟨false, false, ⟨⟩⟩⟩, ⟨⟩⟩ v t with
    | some h => "ok " ++ h
    | none => "not-handed-on"

/-! ### the signature-table half of `authenticode.PECOFFBinary` (C03g) -/

/-- a receiver with the given table, directory entry and `length`; the section readers hold `first` / `last`, the
    padding is `pad` zero bytes; `optDataDir` the 8 bytes of the entry -/
def genPe (table : Bytes) (va size : Nat) (length : Int) (first last : Bytes) (pad : Nat) : authenticode.PECOFFBinary :=
  ⟨⟨UInt32.ofNat va, UInt32.ofNat size⟩, ⟨0⟩, length, List.replicate pad 0,
   ⟨encLE32 (UInt32.ofNat va) ++ encLE32 (UInt32.ofNat size)⟩, table, ⟨first⟩, ⟨last⟩⟩

/-- externals for `gen.pe.append`: `SignAuthenticode` returns the signature that the real library produced -/
def genPeSigner (sig : Bytes) : authenticode.Ext :=
  { SignAuthenticode := fun _ _ r _ => (r, sig, none),
    pkcs7 := { signerinfo_verify := fun _ _ _ => (false, some "unused") },
    ParseAuthenticode := fun _ => (⟨⟨⟨⟩, [], [], [], ⟨⟩⟩, ⟨[], ⟨⟩⟩, []⟩, some "unused"),
    makeSectionReader := fun _ => ⟨[]⟩,
    crypto_Hash_Sum := fun _ _ => [] }

/-- `gen.pe.append`: the TRANSLATED `Sign` (with a `SignAuthenticode` that returns `sig`) and the translated
    `AppendSignature sig` on a receiver built from what the harness observed of the real object BEFORE the step — table,
    `Datadir`, `length`, and (optionally) the bytes in front of the directory entry, behind it, and the number of
    padding bytes.  Answer: the new directory entry, the 8 bytes of `optDataDir`, the new table and `Bytes()`. -/
def genPeAppend (table va size length sig first last pad : String) : String :=
  let p := genPe (unhex table) (natArg va) (natArg size) (length.toInt?.getD 0) (unhex first) (unhex last) (natArg pad)
  let a := p.AppendSignature (unhex sig)
  let s := authenticode.PECOFFBinary.Sign (genPeSigner (unhex sig)) p ⟨0⟩ ⟨[], [], [], 0⟩
  if s.1 != a.1 || s.2.1 != unhex sig || s.2.2.isSome || a.2.isSome then "sign-and-append-differ"
  else s!"ok va={a.1.Datadir.VirtualAddress.toNat} size={a.1.Datadir.Size.toNat} dd={hex a.1.optDataDir.content} table={hex a.1.certTable} bytes={hex a.1.Bytes}"

def genWinCertStr (w : signature.WINCertificate) : String :=
  s!"({w.Length.toNat};{w.Revision.toNat};{w.CertType.toNat};{hex w.Certificate})"

/-- `gen.pe.signatures`: the translated `Signatures()` on a receiver holding `table` (fuel as in `C03g_signatures`) -/
def genPeSignatures (table : String) : String :=
  let t := unhex table
  let r := (genPe t 0 0 0 [] [] 0).Signatures (t.length + 1)
  if r.2.isNone then "ok [" ++ ",".intercalate (r.1.map genWinCertStr) ++ "]" else "err"

/-- a dotted object identifier (`2.16.840.1.101.3.4.2.1`) -/
def oidArg (s : String) : List Int := if s == "-" then [] else (s.splitOn ".").map (fun x => x.toInt?.getD 0)

/-- `gen.pe.verify`: the translated `Verify` loop — with the translated closure `imageDigest` and its memo map, and the
    TRANSLATED `(*Authenticode).verifyDigest` (digest algorithm, digest length, call of the closure, digest comparison,
    `Pkcs.Verify`) and `pkcs7.PKCS7.Verify` — on `table`.  The externals answer for the k-th listed entry body what the
    harness observed of the real library on that body (`entries`, comma-separated, one item per listed entry): `P` it does
    not parse; otherwise `oid;digest;V`: `ParseAuthenticode` answers a value with that digest algorithm, that embedded
    digest and a PKCS#7 with ONE signer entry that names the certificate, whose `signerinfo.verify` answers `V` (what the
    real `a.Pkcs.Verify(cert)` said: `T` / `F` true / false, `E` an error).  The entry is found by its body; its PKCS#7
    carries the index in `ContentInfo`.  The hash input is one marker byte; the digest external answers `sha` (the real
    SHA-256 of the image's hash input) for `crypto.SHA256` (5) on it and marks every other input (`alg :: bytes`). -/
def genPeVerify (table entries sha : String) : String :=
  let t := unhex table
  let p := genPe t 0 0 0 [] [] 0
  let listed := (p.Signatures (t.length + 1)).1
  let es := if entries == "-" then [] else entries.splitOn ","
  let idxOf := fun (b : Bytes) => (listed.map (·.Certificate)).idxOf b
  let X : authenticode.Ext :=
    { pkcs7 := { signerinfo_verify := fun _ _ content =>
        let k := (content.getD 0 0).toNat + 256 * (content.getD 1 0).toNat
        match ((es.getD k "").splitOn ";").getD 2 "E" with
        | "T" => (true, none)
        | "F" => (false, none)
        | _ => (false, some "verify") },
      SignAuthenticode := fun _ _ r _ => (r, [], some "unused"),
      ParseAuthenticode := fun b =>
        let k := idxOf b
        let f := (es.getD k "P").splitOn ";"
        (⟨⟨⟨⟩, [⟨1, [], ⟨⟩, ⟨⟨⟩, [], ⟨⟩, [], []⟩, ⟨⟩, ⟨[], 0⟩⟩], [UInt8.ofNat (k % 256), UInt8.ofNat (k / 256)], [], ⟨⟩⟩,
          ⟨oidArg (f.getD 0 "-"), ⟨⟩⟩, unhex (f.getD 1 "-")⟩,
         if f.length < 3 then some "parse" else none),
      makeSectionReader := fun _ => ⟨[0xaa]⟩,
      crypto_Hash_Sum := fun alg bs => if alg == 5 && bs == [0xaa] then unhex sha else alg.toUInt8 :: bs }
  let r := authenticode.PECOFFBinary.Verify (t.length + 1) X p ⟨[], [], [], 0⟩
  match r.2 with
  | none => s!"ok {r.1}"
  | some e => if e == "ErrNoSignatures" || e == "ErrNoValidSignatures" then "err " ++ e else "err other"

def handleGen (op : String) (args : List String) : Option String :=
  match op, args with
  | "gen.sigdb.read", [h] =>
    let bs := unhex h
    let r := signature.ReadSignatureDatabase (bs.length + 1) bs
    some (if r.2.2.isNone then
      "ok " ++ glistsStr (r.2.1.map genListStr) ++ " reenc=" ++ genDbBytes r.2.1
    else "err")
  | "gen.sigdb.ops", [pem, start, ops] =>
    let E := gparsePem pem
    let db0 : Option signature.SignatureDatabase :=
      if start == "empty" then some [] else
        let bs := unhex start
        let r := signature.ReadSignatureDatabase (bs.length + 1) bs
        if r.2.2.isNone then some r.2.1 else none
    (match db0 with
    | none => some "start-err"
    | some db0 =>
      let (_, outs) := (ops.splitOn ";").foldl (fun (acc : GenOpsState × List String) op =>
        let (st', o) := genOpsStep E acc.1 op; (st', o :: acc.2)) (⟨db0, []⟩, [])
      some ("/".intercalate outs.reverse))
  | "gen.auth.read", [h] =>
    let bs := unhex h
    let r := signature.ReadEFIVariableAuthencation2 bs
    some (if r.2.2.isNone then
      let a := r.2.1
      s!"ok time={hex (encLE_util_EFITime a.Time)} len={a.AuthInfo.Header.Length.toNat} rev={a.AuthInfo.Header.Revision.toNat} type={a.AuthInfo.Header.CertType.toNat} guid={hex (gWire a.AuthInfo.CertType)} data={hex a.AuthInfo.CertData} rest={r.1.length} reenc={hex (a.Marshal [])}"
    else "err")
  | "gen.efivars.parse", [h, sz] =>
    -- attributes.ParseEfivars and its FSWrapper twin on a reader holding `h`, with the Stat size `sz`
    let bs := unhex h
    let size : Int := sz.toInt?.getD 0
    let show1 := fun (r : List UInt8 × attributes.Attributes × List UInt8 × GoErr) =>
      if r.2.2.2.isNone then s!"ok attrs={r.2.1.toNat} value={hex r.2.2.1} rest={r.1.length}" else "err"
    let a := show1 (attributes.ParseEfivars bs size)
    let b := show1 (fswrapper.FSWrapper.ParseEfivars ⟨false, false, ⟨⟩⟩ bs size)
    some (if a == b then a else s!"twins-differ {a} / {b}")
  | "gen.wincert.read", [h] =>
    let bs := unhex h
    let r := signature.ReadWinCertificate bs
    some (if r.2.2.isNone then
      let w := r.2.1
      s!"ok len={w.Length.toNat} rev={w.Revision.toNat} type={w.CertType.toNat} cert={hex w.Certificate} rest={r.1.length} reenc={hex (signature.WriteWinCertificate [] w)}"
    else "err")
  | "gen.guid.bytes", [h] =>
    -- BytesToGUID then GUIDToBytes / CmpEFIGUID with itself
    let g := util.BytesToGUID (unhex h)
    some s!"{hex (util.GUIDToBytes g)} {util.CmpEFIGUID g g}"
  | "gen.bootorder", [h] =>
    -- efivarfs.bootorder.Unmarshal on a buffer holding `h` (fuel as in C18g_unmarshal): the names, joined by ","
    let bs := unhex h
    let r := efivarfs.bootorder.Unmarshal (bs.length / 2 + 1) [] bs
    some (if r.2.2.isNone then ",".intercalate r.1 else "err")
  | "gen.padding", [n, blk] =>
    -- authenticode.PaddingBytes(srcLen, blockSize): padLen, and whether the slice is padLen zero bytes
    let r := authenticode.PaddingBytes (n.toInt?.getD 0) (blk.toInt?.getD 8)
    some s!"{r.2} {r.1.length} {r.1.all (· == 0)}"
  | "gen.readnull", [h] =>
    -- util.ReadNullString on a reader holding `h` (fuel as in C17g_readNullString): the bytes returned, and how
    -- many are left in the reader
    let bs := unhex h
    let r := util.ReadNullString (bs.length / 2 + 1) bs
    some s!"{hex r.2} rest={r.1.length}"
  | "gen.varsign", [name, guid, attrs, tm, payload, sd] => some (genVarSign name guid attrs tm payload sd)
  | "gen.testfs.stored", [name, value] => some (genTestfsStored name value)
  | "gen.pe.append", [table, va, size, length, sig] => some (genPeAppend table va size length sig "" "" "0")
  | "gen.pe.append", [table, va, size, length, sig, first, last, pad] =>
    some (genPeAppend table va size length sig first last pad)
  | "gen.pe.signatures", [table] => some (genPeSignatures table)
  | "gen.pe.verify", [table, entries, sha] => some (genPeVerify table entries sha)
  | "gen.skipped", [] => some (toString (skipped.map (·.1)))
  | _, _ => none

end GoUefi.Drv
