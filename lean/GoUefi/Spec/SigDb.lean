import GoUefi.Base
/-
  Spec: UEFI 2.8 §32.4.1 signature database — the strict, type-agnostic codec that C07/C08 are
  stated against.  Written from the specification; never mentions Go.

    EFI_SIGNATURE_LIST  = SignatureType(16) ListSize(4) HeaderSize(4) SignatureSize(4)
                          Header(HeaderSize) Signatures(k × SignatureSize)
    with  SignatureSize ≥ 16  and  ListSize = 28 + HeaderSize + k·SignatureSize
    EFI_SIGNATURE_DATA  = Owner(16) Data(SignatureSize − 16)
    a database is a concatenation of lists that uses up the whole input.
-/
namespace GoUefi.Spec

structure SData where
  owner : Bytes
  data : Bytes
deriving DecidableEq, Repr

structure SList where
  type : Bytes
  hdr : Bytes
  size : Nat
  sigs : List SData
deriving DecidableEq, Repr

def encSData (s : SData) : Bytes := s.owner ++ s.data

def SList.listSize (l : SList) : Nat := 28 + l.hdr.length + l.sigs.length * l.size

def encList (l : SList) : Bytes :=
  l.type ++ le32 l.listSize ++ le32 l.hdr.length ++ le32 l.size ++ l.hdr ++ (l.sigs.map encSData).flatten

def encDb (ls : List SList) : Bytes := (ls.map encList).flatten

/-- well-formed list value (what `encList` needs to be decodable) -/
def SList.WF (l : SList) : Prop :=
  l.type.length = 16 ∧ 16 ≤ l.size ∧ l.listSize < 2^32 ∧
  ∀ s ∈ l.sigs, s.owner.length = 16 ∧ s.data.length + 16 = l.size

/-- split `k` records of `size` bytes -/
def splitSigs (size : Nat) : Nat → Bytes → List SData
  | 0, _ => []
  | k+1, bs => ⟨bs.take 16, (bs.take size).drop 16⟩ :: splitSigs size k (bs.drop size)

/-- decode one list from the front of `bs` -/
def decodeList (bs : Bytes) : Option (SList × Bytes) :=
  if bs.length < 28 then none else
  let listSize := rd32 ((bs.drop 16).take 4)
  let hdrSize := rd32 ((bs.drop 20).take 4)
  let size := rd32 ((bs.drop 24).take 4)
  if size < 16 then none else
  if listSize < 28 + hdrSize then none else
  if (listSize - 28 - hdrSize) % size ≠ 0 then none else
  if bs.length < listSize then none else
  let k := (listSize - 28 - hdrSize) / size
  some (⟨bs.take 16, (bs.drop 28).take hdrSize, size, splitSigs size k (bs.drop (28 + hdrSize))⟩,
        bs.drop listSize)

/-- decode a whole database; `fuel` bounds the number of lists (each consumes ≥ 28 bytes) -/
def decodeDbAux : Nat → Bytes → Option (List SList)
  | 0, bs => if bs.isEmpty then some [] else none
  | fuel+1, bs =>
    if bs.isEmpty then some [] else
    match decodeList bs with
    | none => none
    | some (l, rest) =>
      match decodeDbAux fuel rest with
      | none => none
      | some ls => some (l :: ls)

def decodeDb (bs : Bytes) : Option (List SList) := decodeDbAux bs.length bs

end GoUefi.Spec
