import GoUefi.Base
/-
  Spec: the Authenticode PE image hash input, written from "Windows Authenticode Portable Executable
  Signature Format" (Microsoft, 2008), section "Calculating the PE Image Hash", steps 3–14, and the
  PE/COFF specification for the header fields it refers to.  Never mentions Go.

  Steps: hash [0, checksum); skip the 4-byte CheckSum; hash up to the Certificate Table directory
  entry (data directory 4); skip its 8 bytes; hash to the end of the headers (SizeOfHeaders); hash
  every section with SizeOfRawData ≠ 0 in ascending PointerToRawData order; SUM_OF_BYTES_HASHED =
  SizeOfHeaders + Σ SizeOfRawData; hash the FILE_SIZE − (certificate table size) − SUM bytes that
  follow offset SUM.  The property applies this to the image zero-padded to a multiple of 8 bytes.
-/
namespace GoUefi.Spec.PE

/-- header fields the algorithm reads -/
structure Layout where
  L : Nat                     -- e_lfanew
  plus : Bool                 -- optional-header magic 0x20b (PE32+) rather than 0x10b (PE32)
  nsec : Nat                  -- NumberOfSections
  optSize : Nat               -- SizeOfOptionalHeader
  soh : Nat                   -- SizeOfHeaders
  ndirs : Nat                 -- NumberOfRvaAndSizes
  secs : List (Nat × Nat)     -- (PointerToRawData, SizeOfRawData) in header order
deriving DecidableEq, Repr

def Layout.opt (l : Layout) : Nat := l.L + 24
/-- offset of CheckSum: 64 bytes into the optional header for both header kinds -/
def Layout.ck (l : Layout) : Nat := l.L + 24 + 64
/-- offset of data directory 4 (Certificate Table): 96 + 4·8 (PE32) or 112 + 4·8 (PE32+) -/
def Layout.dd (l : Layout) : Nat := l.L + 24 + (if l.plus then 144 else 128)
def Layout.secTab (l : Layout) : Nat := l.L + 24 + l.optSize

def secEntry (b : Bytes) (tab i : Nat) : Nat × Nat :=
  (le32At b (tab + 40*i + 20), le32At b (tab + 40*i + 16))

def layout (b : Bytes) : Layout :=
  let L := le32At b 0x3c
  let optSize := le16At b (L + 20)
  let nsec := le16At b (L + 6)
  let plus := le16At b (L + 24) == 0x20b
  { L := L, plus := plus, nsec := nsec, optSize := optSize,
    soh := le32At b (L + 24 + 60),
    ndirs := le32At b (L + 24 + (if plus then 108 else 92)),
    secs := (List.range nsec).map (secEntry b (L + 24 + optSize)) }

/-- Size field of the Certificate Table directory entry -/
def certSize (b : Bytes) : Nat := le32At b ((layout b).dd + 4)
/-- "VirtualAddress" (a file offset for this directory) -/
def certAddr (b : Bytes) : Nat := le32At b (layout b).dd

/-- insertion sort by file offset (on distinct offsets every sorting algorithm gives this order) -/
def insertBy (x : Nat × Nat) : List (Nat × Nat) → List (Nat × Nat)
  | [] => [x]
  | y :: ys => if x.1 ≤ y.1 then x :: y :: ys else y :: insertBy x ys
def sortSecs (l : List (Nat × Nat)) : List (Nat × Nat) := l.foldr insertBy []

/-- the sections that are hashed, in hashing order -/
def Layout.hashed (l : Layout) : List (Nat × Nat) := sortSecs (l.secs.filter (·.2 ≠ 0))
def Layout.sum (l : Layout) : Nat := l.soh + (l.hashed.map (·.2)).sum

/-- steps 3–14 on a file `b` -/
def authInput (b : Bytes) : Bytes :=
  let l := layout b
  slice b 0 l.ck ++ (slice b (l.ck + 4) l.dd ++ (slice b (l.dd + 8) l.soh ++
    ((l.hashed.map fun s => slice b s.1 (s.1 + s.2)).flatten ++
      slice b l.sum (b.length - certSize b))))

/-- the image zero-padded to an 8-byte boundary -/
def padded (b : Bytes) : Bytes := b ++ zeros (pad8 b.length)

/-- the hash input the property asks for -/
def authInputPadded (b : Bytes) : Bytes := authInput (padded b)

/-- well-formed image: headers parse, PE32 or PE32+, at least 5 data directories which fit in the
    optional header, the section table lies inside the headers, every section with raw data lies
    between the headers and the certificate table, sections do not overlap, and a certificate
    table, if present, is the 8-aligned tail of an 8-aligned file. -/
structure WF (b : Bytes) : Prop where
  mz : byteAt b 0 = 0x4d ∧ byteAt b 1 = 0x5a
  pesig : le32At b (layout b).L = 0x4550
  magic : le16At b ((layout b).L + 24) = 0x10b ∨ le16At b ((layout b).L + 24) = 0x20b
  ndirs : 5 ≤ (layout b).ndirs
  dirs_fit : (layout b).dd + 8 ≤ (layout b).secTab
  tab_soh : (layout b).secTab + 40 * (layout b).nsec ≤ (layout b).soh
  soh_n : (layout b).soh ≤ b.length - certSize b
  c_le : certSize b ≤ b.length
  secs_in : ∀ s ∈ (layout b).hashed, (layout b).soh ≤ s.1 ∧ s.1 + s.2 ≤ b.length - certSize b
  sum_le : (layout b).sum ≤ b.length - certSize b
  disjoint : ((layout b).hashed.map (·.1)).Nodup
  aligned : certSize b = 0 ∨ (b.length % 8 = 0 ∧ certSize b % 8 = 0 ∧ certAddr b + certSize b = b.length)

/-- positions whose byte enters the hash -/
def Covered (b : Bytes) (p : Nat) : Prop :=
  let l := layout b
  p < l.ck ∨ (l.ck + 4 ≤ p ∧ p < l.dd) ∨ (l.dd + 8 ≤ p ∧ p < l.soh) ∨
  (∃ s ∈ l.hashed, s.1 ≤ p ∧ p < s.1 + s.2) ∨ (l.sum ≤ p ∧ p < b.length - certSize b)

/-- positions the specification excludes: CheckSum, the Certificate Table directory entry, the
    certificate table -/
def Excluded (b : Bytes) (p : Nat) : Prop :=
  let l := layout b
  (l.ck ≤ p ∧ p < l.ck + 4) ∨ (l.dd ≤ p ∧ p < l.dd + 8) ∨ (b.length - certSize b ≤ p ∧ p < b.length)

end GoUefi.Spec.PE

namespace GoUefi.Spec.PE

/-- executable form of `WF` (proved equivalent in Lemmas/Pe.lean) -/
def wfCheck (b : Bytes) : Bool :=
  -- cheap test on the header fields first, so that an absurd NumberOfSections is rejected before the
  -- section table is read (it implies the tab_soh and soh_n clauses below)
  let L := le32At b 0x3c
  if ¬ (L + 24 + le16At b (L + 20) + 40 * le16At b (L + 6) ≤ le32At b (L + 24 + 60) ∧ le32At b (L + 24 + 60) ≤ b.length) then false else
  let l := layout b
  let c := certSize b
  (byteAt b 0 == 0x4d && byteAt b 1 == 0x5a) && le32At b l.L == 0x4550 &&
  (le16At b (l.L + 24) == 0x10b || le16At b (l.L + 24) == 0x20b) &&
  decide (5 ≤ l.ndirs) && decide (l.dd + 8 ≤ l.secTab) && decide (l.secTab + 40 * l.nsec ≤ l.soh) &&
  decide (l.soh ≤ b.length - c) && decide (c ≤ b.length) &&
  (l.hashed.all fun s => decide (l.soh ≤ s.1 ∧ s.1 + s.2 ≤ b.length - c)) &&
  decide (l.sum ≤ b.length - c) && decide ((l.hashed.map (·.1)).Nodup) &&
  (c == 0 || (b.length % 8 == 0 && c % 8 == 0 && certAddr b + c == b.length))

/-- classification of a byte position -/
inductive PosClass | covered | excluded | gap | outside
deriving DecidableEq, Repr

def classify (b : Bytes) (p : Nat) : PosClass :=
  let l := layout b
  let c := certSize b
  if p ≥ b.length then .outside
  else if (l.ck ≤ p ∧ p < l.ck + 4) ∨ (l.dd ≤ p ∧ p < l.dd + 8) ∨ (b.length - c ≤ p) then .excluded
  else if p < l.ck ∨ (l.ck + 4 ≤ p ∧ p < l.dd) ∨ (l.dd + 8 ≤ p ∧ p < l.soh) ∨
          (l.hashed.any fun s => decide (s.1 ≤ p ∧ p < s.1 + s.2)) ∨ (l.sum ≤ p ∧ p < b.length - c) then .covered
  else .gap

/-- one entry of the attribute certificate table: WIN_CERTIFICATE (dwLength, wRevision,
    wCertificateType, bCertificate[dwLength − 8]), each entry starting on an 8-byte boundary -/
structure CertEntry where
  length : Nat
  rev : Nat
  ctype : Nat
  body : Bytes
deriving DecidableEq, Repr

/-- strict walk of a certificate table: every entry has dwLength ≥ 8 and fits, entries are padded
    to 8 bytes, and the table is consumed exactly -/
def walkTable : Nat → Bytes → Option (List CertEntry)
  | 0, t => if t.isEmpty then some [] else none
  | fuel+1, t =>
    if t.isEmpty then some [] else
    if t.length < 8 then none else
    let len := rd32 (t.take 4)
    if len < 8 ∨ t.length < len + pad8 len then none else
    match walkTable fuel (t.drop (len + pad8 len)) with
    | none => none
    | some es => some (⟨len, rd16 ((t.drop 4).take 2), rd16 ((t.drop 6).take 2), (t.take len).drop 8⟩ :: es)

/-- the certificate table of an image: the directory entry must span exactly to the end of the
    file, start 8-aligned, and hold well-formed entries -/
def certEntries (b : Bytes) : Option (List CertEntry) :=
  let va := certAddr b
  let sz := certSize b
  if sz = 0 then some [] else
  if va % 8 ≠ 0 ∨ va + sz ≠ b.length then none else
  walkTable sz (slice b va (va + sz))

end GoUefi.Spec.PE
