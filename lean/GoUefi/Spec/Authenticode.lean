import GoUefi.Spec.Pe
import GoUefi.Spec.Cms
/-
  Spec: when does an image carry an Authenticode signature by a given certificate?  Written from the
  Microsoft Authenticode document (SpcIndirectDataContent / DigestInfo), the PE/COFF attribute
  certificate table layout and RFC 2315: some entry of the certificate table is a revision-2.0
  WIN_CERTIFICATE whose SignedData (a) is a valid CMS signature by the certificate with the
  message digest bound to its content, (b) has content type SpcIndirectDataContent, and (c) whose
  DigestInfo names SHA-256 and holds the SHA-256 of the image's Authenticode hash input.
-/
namespace GoUefi.Spec
open GoUefi.Der

def oidSpcIndirectData : List Nat := [1, 3, 6, 1, 4, 1, 311, 2, 1, 4]
def oidSha256 : List Nat := [2, 16, 840, 1, 101, 3, 4, 2, 1]

/-- (eContentType, content value octets) of a SignedData -/
def contentOf (blob : Bytes) : Option (List Nat × Bytes) := do
  let (outer, _) ← read tSEQ blob
  let sdBody ←
    (if peek tOID outer then do
        let (_, r) ← readOID outer
        let (c, _) ← read tCtx0 r
        let (sd, _) ← read tSEQ c
        pure sd
      else pure outer)
  let (_, r1) ← readBigInt sdBody
  let (_, r2) ← read tSET r1
  let (eci, _) ← read tSEQ r2
  let (oid, e1) ← readOID eci
  let (c, _) ← read tCtx0 e1
  let (_, v, _) ← readAny c
  pure (oid, v)

/-- SpcIndirectDataContent ::= SEQUENCE { data SpcAttributeTypeAndOptionalValue, messageDigest DigestInfo };
    `v` = its value octets. Returns (digest algorithm, digest). -/
def spcDigest (v : Bytes) : Option (List Nat × Bytes) := do
  let (_, r1) ← read tSEQ v            -- data
  let (di, _) ← read tSEQ r1           -- DigestInfo
  let (alg, d1) ← read tSEQ di
  let (oid, _) ← readOID alg
  let (digest, _) ← read tOCT d1
  pure (oid, digest)

/-- (wCertificateType is unsigned metadata that neither the property nor the implementation
    constrains; only the revision is required) -/
def entryAccepts (C : Crypto) (img : Bytes) (cert : Cert) (e : PE.CertEntry) : Bool :=
  e.rev == 0x0200 &&
  cmsVerify C e.body cert none &&
  match contentOf e.body with
  | some (oid, v) =>
    oid == oidSpcIndirectData &&
    (match spcDigest v with
     | some (alg, d) => alg == oidSha256 && d == C.sha256 (PE.authInputPadded img)
     | none => false)
  | none => false

def authenticodeVerify (C : Crypto) (img : Bytes) (cert : Cert) : Bool :=
  match PE.certEntries img with
  | some es => es.any (entryAccepts C img cert)
  | none => false


/-! ### tolerant reading of the certificate table

`authenticodeVerify` walks the table strictly (every byte of it belongs to a well-formed entry).
The table is excluded from the digest, so bytes behind its last well-formed entry are unsigned
metadata like `wCertificateType`: a consumer that stops at the first position that cannot hold an
entry still answers the question "does the image carry a signature by this key over these bytes"
correctly.  `authenticodeVerifyLenient` is that reading; the strict one implies it
(`C02_strict_implies_lenient`).  The correspondence oracle uses it for "success ⇒ specification". -/

/-- the well-formed entries in front of the first position that cannot hold one (the last entry
    may lack its padding) -/
def PE.walkPrefix : Nat → Bytes → List PE.CertEntry
  | 0, _ => []
  | fuel+1, t =>
    if t.length < 8 then [] else
    let len := rd32 (t.take 4)
    if len < 8 ∨ t.length < len then [] else
    ⟨len, rd16 ((t.drop 4).take 2), rd16 ((t.drop 6).take 2), (t.take len).drop 8⟩ ::
      PE.walkPrefix fuel (t.drop (len + pad8 len))

def PE.certEntriesLenient (b : Bytes) : List PE.CertEntry :=
  let va := PE.certAddr b
  let sz := PE.certSize b
  if sz = 0 then [] else
  if va % 8 ≠ 0 ∨ va + sz ≠ b.length then [] else
  PE.walkPrefix sz (slice b va (va + sz))

def authenticodeVerifyLenient (C : Crypto) (img : Bytes) (cert : Cert) : Bool :=
  (PE.certEntriesLenient img).any (entryAccepts C img cert)

end GoUefi.Spec
