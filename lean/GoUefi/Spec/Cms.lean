import GoUefi.Model.Der
import GoUefi.Model.Crypto
/-
  Spec: signature verification of a PKCS#7 / CMS SignedData as RFC 2315 §9.2–9.4 and
  RFC 5652 §5.3–5.6 define it, written as a direct walk over the ASN.1 structure and independent
  of the Impl parser (it shares only the TLV reader).

    accept  iff  some SignerInfo names the certificate (issuer bytes and serial), carries signed
    attributes, its signature is a valid RSA PKCS#1 v1.5 SHA-256 signature under the certificate's
    key over the DER of the signed attributes *as transmitted* with the IMPLICIT [0] tag replaced by
    SET OF (0x31), and — when content is present (encapsulated, or supplied for a detached
    signature) — the messageDigest attribute equals SHA-256 of the content's value octets.
-/
namespace GoUefi.Spec
open GoUefi.Der

def oidMessageDigest : List Nat := [1, 2, 840, 113549, 1, 9, 4]

/-- skip one element of any tag -/
def skipAny (s : Bytes) : Option Bytes := (readAny s).map fun x => x.2.2

/-- value of the (last) messageDigest attribute inside the body of the signed attributes -/
def findMD : Nat → Bytes → Option Bytes → Option (Option Bytes)
  | 0, s, acc => if s.isEmpty then some acc else none
  | f+1, s, acc =>
    if s.isEmpty then some acc else
    match read tSEQ s with
    | none => none
    | some (el, rest) =>
      match readOID el with
      | none => none
      | some (oid, r1) =>
        match read tSET r1 with
        | none => none
        | some (set, _) =>
          if oid == oidMessageDigest then
            match read tOCT set with
            | some (d, _) => findMD f rest (some d)
            | none => none
          else findMD f rest acc

structure SpecSigner where
  issuer : Bytes          -- the Name element, header included
  serial : Int
  attrsElem : Option Bytes  -- the [0] element as transmitted, header included
  attrsBody : Bytes
  sig : Bytes

def parseSpecSigner (s : Bytes) : Option (SpecSigner × Bytes) := do
  let (si, rest) ← read tSEQ s
  let (_, r1) ← readBigInt si                    -- version
  let (ias, r2) ← read tSEQ r1
  let (issuer, i1) ← readElement tSEQ ias
  let (serial, _) ← readBigInt i1
  let r3 ← skipAny r2                           -- digestAlgorithm
  let (attrsElem, attrsBody, r4) ←
    (if peek tCtx0 r3 then do
        let (el, r) ← readElement tCtx0 r3
        let (b, _) ← read tCtx0 r3
        pure (some el, b, r)
      else pure (none, [], r3))
  let r5 ← skipAny r4                           -- signatureAlgorithm
  let (sig, _) ← read tOCT r5
  pure (⟨issuer, serial, attrsElem, attrsBody, sig⟩, rest)

def specSigners : Nat → Bytes → Option (List SpecSigner)
  | 0, s => if s.isEmpty then some [] else none
  | f+1, s =>
    if s.isEmpty then some [] else
    match parseSpecSigner s with
    | none => none
    | some (x, rest) => (specSigners f rest).map (x :: ·)

/-- (content value octets if encapsulated, signer infos) of a SignedData, with or without the
    outer ContentInfo -/
def parseSignedData (blob : Bytes) : Option (Option Bytes × List SpecSigner) := do
  let (outer, _) ← read tSEQ blob
  let sdBody ←
    (if peek tOID outer then do
        let (_, r) ← readOID outer
        let (c, _) ← read tCtx0 r
        let (sd, _) ← read tSEQ c
        pure sd
      else pure outer)
  let (_, r1) ← readBigInt sdBody               -- version
  let (_, r2) ← read tSET r1                    -- digestAlgorithms
  let (eci, r3) ← read tSEQ r2                  -- encapContentInfo
  let (_, e1) ← readOID eci
  let content ←
    (if e1.isEmpty then pure none else do
        let (c, e2) ← read tCtx0 e1
        if !e2.isEmpty then none          -- ContentInfo has no other fields
        else if c.isEmpty then pure none  -- an empty [0]: nothing is encapsulated
        else do
          let (_, v, _) ← readAny c
          pure (some v))
  let r4 ← (if peek tCtx0 r3 then skipAny r3 else some r3)       -- certificates
  let r5 ← (if peek 0xa1 r4 then skipAny r4 else some r4)        -- crls
  let (sis, _) ← read tSET r5
  let signers ← specSigners sis.length sis
  pure (content, signers)

def signerAccepts (C : Crypto) (cert : Cert) (content : Option Bytes) (s : SpecSigner) : Bool :=
  s.issuer == cert.rawIssuer && s.serial == cert.serial &&
  match s.attrsElem with
  | none => false
  | some el =>
    C.rsaVerify cert.pub (0x31 :: el.drop 1) s.sig &&
    match content with
    | none => true
    | some v =>
      match findMD s.attrsBody.length s.attrsBody none with
      | some (some md) => md == C.sha256 v
      | _ => false

/-- `detached` = content supplied by the caller for a detached signature -/
def cmsVerify (C : Crypto) (blob : Bytes) (cert : Cert) (detached : Option Bytes) : Bool :=
  match parseSignedData blob with
  | none => false
  | some (content, signers) =>
    let c := match content with | some v => some v | none => detached
    signers.any (signerAccepts C cert c)

end GoUefi.Spec
