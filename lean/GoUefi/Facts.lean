import GoUefi.Extracted
import GoUefi.Model.Guid
/-
  Accessors over the regenerated `Extracted.lean`.  A fact that the extractor could not find is
  `none` / an empty list; obligations are stated as "absent or equal to what the model assumes", so
  a harmless refactoring that hides a pattern does not break a proof (the correspondence run then
  carries that tie alone), while a changed value does.
-/
namespace GoUefi.Facts
open GoUefi

def constOf (name : String) : Option Nat := (Extracted.consts.find? (·.1 == name)).map (·.2)

/-- `constOf name` is absent or equals `v` -/
def constIs (name : String) (v : Nat) : Bool :=
  match constOf name with
  | none => true
  | some x => x == v

/-- wire bytes of a package-level EFIGUID literal -/
def guidWireOf (pkg name : String) : Option Bytes :=
  (Extracted.guids.find? fun g => g.1 == pkg && g.2.1 == name).map fun g =>
    guidWire ⟨g.2.2.1, g.2.2.2.1, g.2.2.2.2.1, g.2.2.2.2.2.map Nat.toUInt8⟩

def guidIs (pkg name : String) (w : Bytes) : Bool :=
  match guidWireOf pkg name with
  | none => true
  | some x => x == w

def oidOf (pkg name : String) : Option (List Nat) :=
  (Extracted.oids.find? fun o => o.1 == pkg && o.2.1 == name).map (·.2.2)

def oidIs (pkg name : String) (o : List Nat) : Bool :=
  match oidOf pkg name with
  | none => true
  | some x => x == o

end GoUefi.Facts
