import GoUefi.Extracted
/-
  A parser for the printf subset used by the library's format strings, and the *classes* of
  format strings for which the Lean models are the meaning.  The per-run obligation on an
  extracted format string is membership in its class (decided by `decide`), so a harmless
  re-spelling (`%12x` → `%012x`) stays inside the class while `%04x` → `%04X` leaves it.
-/
namespace GoUefi.Fmt

inductive Dir where
  | lit (c : Char)
  | verb (zero : Bool) (width : Nat) (v : Char)
deriving DecidableEq, Repr

def isDigit (c : Char) : Bool := '0' ≤ c ∧ c ≤ '9'

inductive St where
  | normal
  | inVerb (zero : Bool) (width : Nat) (first : Bool)

/-- parse `%[0][width]verb`; anything else is a literal (a small state machine, structural
    recursion on the input so that `decide` evaluates it) -/
def go : St → List Char → List Dir
  | .normal, [] => []
  | .normal, c :: r => if c == '%' then go (.inVerb false 0 true) r else .lit c :: go .normal r
  | .inVerb _ _ _, [] => [.lit '%']
  | .inVerb z w first, c :: r =>
    if first && c == '0' then go (.inVerb true w false) r
    else if isDigit c then go (.inVerb z (10 * w + (c.toNat - 48)) false) r
    else .verb z w c :: go .normal r

def parse (l : List Char) : List Dir := go .normal l

/-- all Sprintf format literals the extractor found in `fn` of package `pkg` -/
def formatsOf (pkg fn : String) : List String :=
  (Extracted.formats.filter fun x => x.1 == pkg && x.2.1 == fn).map (·.2.2)

/-- class of `EFIGUID.Format`: zero-padded lower-case hex of width 8, 4, 4 for the three integer
    fields; lower-case hex of the two byte slices with a width that cannot add padding. -/
def GuidFmtOk : List Dir → Bool
  | [.verb true 8 'x', .lit '-', .verb true 4 'x', .lit '-', .verb true 4 'x', .lit '-',
     .verb _ w1 'x', .lit '-', .verb _ w2 'x'] => w1 ≤ 4 && w2 ≤ 12
  | _ => false

/-- class of the Boot#### name: "Boot" followed by zero-padded width-4 upper-case hex -/
def BootFmtOk : List Dir → Bool
  | [.lit 'B', .lit 'o', .lit 'o', .lit 't', .verb true 4 'X'] => true
  | _ => false

/-- class of the efivarfs file name: `<name>-<guid>` -/
def PathFmtOk : List Dir → Bool
  | [.verb false 0 's', .lit '-', .verb false 0 's'] => true
  | _ => false

end GoUefi.Fmt

namespace GoUefi.Fmt
example : parse "%08x-%04x-%04x-%04x-%12x".toList =
  [.verb true 8 'x', .lit '-', .verb true 4 'x', .lit '-', .verb true 4 'x', .lit '-', .verb true 4 'x', .lit '-', .verb false 12 'x'] := by decide
example : GuidFmtOk (parse "%08x-%04x-%04x-%04x-%012x".toList) = true := by decide
example : GuidFmtOk (parse "%08X-%04x-%04x-%04x-%12x".toList) = false := by decide
example : BootFmtOk (parse "Boot%04X".toList) = true := by decide
example : BootFmtOk (parse "Boot%04x".toList) = false := by decide
end GoUefi.Fmt
