import GoUefi.Model.Crypto
/-
  Executable SHA-256 (FIPS 180-4) and RSA PKCS#1 v1.5 verification (RFC 8017 §8.2.2, SHA-256
  DigestInfo), used only by the driver so that the whole verifier model runs on real blobs and its
  verdict can be compared with Go's crypto/rsa.  No theorem depends on this file.
-/
namespace GoUefi.Exec

def K : Array UInt32 := #[
  0x428a2f98, 0x71374491, 0xb5c0fbcf, 0xe9b5dba5, 0x3956c25b, 0x59f111f1, 0x923f82a4, 0xab1c5ed5,
  0xd807aa98, 0x12835b01, 0x243185be, 0x550c7dc3, 0x72be5d74, 0x80deb1fe, 0x9bdc06a7, 0xc19bf174,
  0xe49b69c1, 0xefbe4786, 0x0fc19dc6, 0x240ca1cc, 0x2de92c6f, 0x4a7484aa, 0x5cb0a9dc, 0x76f988da,
  0x983e5152, 0xa831c66d, 0xb00327c8, 0xbf597fc7, 0xc6e00bf3, 0xd5a79147, 0x06ca6351, 0x14292967,
  0x27b70a85, 0x2e1b2138, 0x4d2c6dfc, 0x53380d13, 0x650a7354, 0x766a0abb, 0x81c2c92e, 0x92722c85,
  0xa2bfe8a1, 0xa81a664b, 0xc24b8b70, 0xc76c51a3, 0xd192e819, 0xd6990624, 0xf40e3585, 0x106aa070,
  0x19a4c116, 0x1e376c08, 0x2748774c, 0x34b0bcb5, 0x391c0cb3, 0x4ed8aa4a, 0x5b9cca4f, 0x682e6ff3,
  0x748f82ee, 0x78a5636f, 0x84c87814, 0x8cc70208, 0x90befffa, 0xa4506ceb, 0xbef9a3f7, 0xc67178f2]

def rotr (x : UInt32) (n : UInt32) : UInt32 := (x >>> n) ||| (x <<< (32 - n))

def processBlock (h : Array UInt32) (blk : Array UInt8) (off : Nat) : Array UInt32 := Id.run do
  let mut w : Array UInt32 := Array.replicate 64 0
  for i in [0:16] do
    let b0 := (blk[off + 4*i]!).toUInt32
    let b1 := (blk[off + 4*i + 1]!).toUInt32
    let b2 := (blk[off + 4*i + 2]!).toUInt32
    let b3 := (blk[off + 4*i + 3]!).toUInt32
    w := w.set! i ((b0 <<< 24) ||| (b1 <<< 16) ||| (b2 <<< 8) ||| b3)
  for i in [16:64] do
    let x := w[i-15]!
    let y := w[i-2]!
    let s0 := rotr x 7 ^^^ rotr x 18 ^^^ (x >>> 3)
    let s1 := rotr y 17 ^^^ rotr y 19 ^^^ (y >>> 10)
    w := w.set! i (w[i-16]! + s0 + w[i-7]! + s1)
  let mut a := h[0]!; let mut b := h[1]!; let mut c := h[2]!; let mut d := h[3]!
  let mut e := h[4]!; let mut f := h[5]!; let mut g := h[6]!; let mut hh := h[7]!
  for i in [0:64] do
    let S1 := rotr e 6 ^^^ rotr e 11 ^^^ rotr e 25
    let ch := (e &&& f) ^^^ ((~~~ e) &&& g)
    let t1 := hh + S1 + ch + K[i]! + w[i]!
    let S0 := rotr a 2 ^^^ rotr a 13 ^^^ rotr a 22
    let maj := (a &&& b) ^^^ (a &&& c) ^^^ (b &&& c)
    let t2 := S0 + maj
    hh := g; g := f; f := e; e := d + t1; d := c; c := b; b := a; a := t1 + t2
  return #[h[0]! + a, h[1]! + b, h[2]! + c, h[3]! + d, h[4]! + e, h[5]! + f, h[6]! + g, h[7]! + hh]

def sha256 (msg : Bytes) : Bytes := Id.run do
  let n := msg.length
  let padLen := (119 - n % 64) % 64      -- zeros so that n + 1 + padLen + 8 ≡ 0 (mod 64)
  let bits := 8 * n
  let lenBytes : List UInt8 := (List.range 8).map fun i => ((bits / 256^(7 - i)) % 256).toUInt8
  let data : Array UInt8 := (msg ++ [0x80] ++ List.replicate padLen 0 ++ lenBytes).toArray
  let mut h : Array UInt32 := #[0x6a09e667, 0xbb67ae85, 0x3c6ef372, 0xa54ff53a, 0x510e527f, 0x9b05688c, 0x1f83d9ab, 0x5be0cd19]
  for blk in [0:data.size / 64] do
    h := processBlock h data (64 * blk)
  return h.toList.flatMap fun (x : UInt32) =>
    [(x >>> 24).toUInt8, (x >>> 16).toUInt8, (x >>> 8).toUInt8, x.toUInt8]

def natOfBytes (b : Bytes) : Nat := b.foldl (fun a x => a * 256 + x.toNat) 0

def bytesOfNat (k n : Nat) : Bytes := (List.range k).map fun i => ((n / 256^(k - 1 - i)) % 256).toUInt8

def modPow (b e m : Nat) : Nat := Id.run do
  let mut result := 1 % m
  let mut base := b % m
  let mut ex := e
  while ex > 0 do
    if ex % 2 == 1 then result := (result * base) % m
    base := (base * base) % m
    ex := ex / 2
  return result

def byteLen (n : Nat) : Nat := Id.run do
  let mut k := 0
  let mut x := n
  while x > 0 do
    k := k + 1
    x := x / 256
  return k

def sha256Prefix : Bytes := [0x30, 0x31, 0x30, 0x0d, 0x06, 0x09, 0x60, 0x86, 0x48, 0x01, 0x65, 0x03, 0x04, 0x02, 0x01, 0x05, 0x00, 0x04, 0x20]

/-- `rsa.VerifyPKCS1v15(pub, SHA256, sha256(msg), sig)` -/
def rsaVerify (pk : PubKey) (msg sig : Bytes) : Bool :=
  let k := byteLen pk.n
  if sig.length != k || k < 19 + 32 + 11 then false else
  let s := natOfBytes sig
  if s ≥ pk.n then false else
  let em := bytesOfNat k (modPow s pk.e pk.n)
  let t := sha256Prefix ++ sha256 msg
  em == [0x00, 0x01] ++ List.replicate (k - t.length - 3) 0xff ++ [0x00] ++ t

def crypto : Crypto := ⟨sha256, rsaVerify⟩

end GoUefi.Exec
