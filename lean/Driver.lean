import GoUefi.Driver.C17
import GoUefi.Driver.SigDb
import GoUefi.Driver.AuthDesc
import GoUefi.Driver.Boot
import GoUefi.Driver.Pkcs7
import GoUefi.Driver.Pe
import GoUefi.Driver.VarSign
import GoUefi.Driver.VarFs
import GoUefi.Driver.Store
/-
  Line protocol driver: one operation per line in (`<id> <op> <args…>`), one canonical line
  out (`<id> <result>`).  Unknown operations and malformed arguments answer `bad-op`.
-/
open GoUefi.Drv

def dispatch (op : String) (args : List String) : String :=
  let hs : List (String → List String → Option String) := [handleC17, handleSigDb, handleAuth, handleBoot, handlePkcs7, handlePe, handleVarSign, handleVarFs, handleStore]
  match hs.findSome? (fun h => h op args) with
  | some r => r
  | none => "bad-op"

partial def loop (h : IO.FS.Stream) (out : IO.FS.Stream) : IO Unit := do
  let line ← h.getLine
  if line.isEmpty then return ()
  let l := (line.dropRightWhile (fun c => c == '\n' || c == '\r'))
  match l.splitOn " " with
  | id :: op :: args =>
    out.putStrLn (id ++ " " ++ dispatch op args)
  | _ => out.putStrLn "? bad-line"
  out.flush
  loop h out

def main : IO Unit := do
  loop (← IO.getStdin) (← IO.getStdout)
