import GoUefi.Base
import GoUefi.Extracted
import GoUefi.Properties.C17
