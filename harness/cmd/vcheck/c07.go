package main

import (
	"bytes"
	"encoding/binary"
	"errors"
	"fmt"
	"hash/crc32"
	"io"
	mrand "math/rand"
	"os"
	"path/filepath"
	"strings"
	"sync"
	"syscall"
	"time"

	"github.com/foxboron/go-uefi/efi/signature"
	"github.com/foxboron/go-uefi/efi/util"
)

// streamEval decodes one byte string with the real decoder, the Lean Impl model and the Lean Spec.
// prop = "C07": report the inverse-on-well-formed-data oracle; prop = "C08": report the strictness oracle.
func streamEval(c *Ctx, cs Case, prop string) {
	if cs.S("op") == "concurrent" {
		concurrentEval(c, cs, prop)
		return
	}
	if cs.S("fault") != "" {
		// a failing case is reduced to the bytes the reader delivered (what lies behind the failure never reaches the decoder)
		n0 := c.NFailures()
		faultEval(c, cs, prop)
		if at := int(cs.I("faultat")); c.NFailures() > n0 && at >= 0 && at < len(unhx(cs.S("bytes"))) {
			cand := Case{}
			for k, v := range cs {
				cand[k] = v
			}
			cand["bytes"] = hx(unhx(cs.S("bytes"))[:at])
			if fs := c.Probe(func(p *Ctx) { faultEval(p, cand, prop) }); len(fs) > 0 {
				c.ReplaceFailuresFrom(n0, fs)
			}
		}
		return
	}
	b := streamBytes(cs)
	cls := cs.S("class")
	if cls == "" {
		cls = "unclassified"
	}
	// streams above 100 KiB are judged against the harness's own walk of the stream only (walkSpec, written
	// from the layout in the statement); below that the Lean Spec codec is asked as well and the two must agree
	big := len(b) > 100<<10
	var db signature.SignatureDatabase
	var err error
	t0 := time.Now()
	// the reader kind is derived from the input so that replays are exact; the source is destroyed
	// before the decoded database is looked at (no aliasing of the input)
	src := newSrcReader(readerKinds[(len(b)+int(crc32.ChecksumIEEE(b)))%len(readerKinds)], b)
	panicked, pmsg := safely(func() { db, err = signature.ReadSignatureDatabase(src.r) })
	src.clobber()
	dt := time.Since(t0)
	goObs := "err"
	var reenc []byte
	if panicked {
		goObs = "panic"
	} else if err == nil {
		reenc = db.Bytes()
		goObs = "ok " + goDbStr(db) + " reenc=" + hx(reenc)
		// an encoding that is still held is a value of its own: encoding something else must not change it
		snap := append([]byte{}, reenc...)
		safely(func() {
			o := signature.NewSignatureDatabase()
			o.Append(signature.CERT_SHA256_GUID, util.EFIGUID{Data1: 0x11111111}, bytes.Repeat([]byte{0x11}, 32))
			_ = o.Bytes()
			for _, l := range db {
				_ = l.Bytes()
			}
		})
		if !bytes.Equal(reenc, snap) {
			c.Fail(Failure{Kind: "property", What: "the bytes returned by SignatureDatabase.Bytes() changed when another database / list was encoded (the result aliases memory that is reused)", Case: cs, Go: clip(hx(reenc)), Spec: clip(hx(snap))})
			reenc = snap
		}
	}
	c.Count(cs.Key(), len(b) > 0, prop+"/"+cls+"/"+strings.SplitN(goObs, " ", 2)[0])
	c.Class("reader=" + src.kind)
	if !panicked {
		entryPointsAgree(c, cs, b, db, err, reenc)
	}
	if len(b) < 200 {
		c.Sample(cs)
	}
	spec := walkSpec(b)
	if big {
		c.Class(fmt.Sprintf("stream-above-100KiB/%dKiB", len(b)>>10))
	} else {
		r := c.Drv.Ask("sigdb.read", hx(b))
		// r = "model=<...> spec=<...>"
		mi := strings.Index(r, " spec=")
		if !strings.HasPrefix(r, "model=") || mi < 0 {
			c.Fail(Failure{Kind: "tie", What: "driver answer malformed", Case: cs, Model: clip(r)})
			return
		}
		model, leanSpec := r[len("model="):mi], r[mi+len(" spec="):]
		c.Trace()
		if model != goObs {
			c.Fail(Failure{Kind: "tie", What: "ReadSignatureDatabase: model and implementation disagree", Case: cs, Model: clip(model), Go: clip(goObs)})
		}
		c.GenTie(cs, "ReadSignatureDatabase / Bytes", model, "gen.sigdb.read", hx(b))
		if leanSpec != spec {
			c.Fail(Failure{Kind: "tie", What: "the Lean Spec codec and the harness's own walk of the stream (walkSpec) disagree on what the stream holds", Case: cs, Model: clip(leanSpec), Go: clip(spec)})
		}
		spec = leanSpec
	}
	var diffAt func() string
	fail := func(what, matcher string) {
		g := clip(goObs)
		if diffAt != nil {
			g = diffAt() + " | " + g
		}
		c.Fail(Failure{Kind: "property", Matcher: matcher, What: what, Case: cs, Go: g, Spec: clip(spec)})
	}
	if panicked {
		fail("decoder panicked: "+pmsg, "")
		return
	}
	if dt > 3*time.Second {
		// re-measured before it is judged (a busy machine has been seen to stall a 264-byte decode for 3.5 s once)
		for try := 0; try < 2 && dt > 3*time.Second; try++ {
			c.Class(prop + "/time-verdict-remeasured")
			t1 := time.Now()
			s2 := newSrcReader(readerKinds[(len(b)+int(crc32.ChecksumIEEE(b)))%len(readerKinds)], b)
			safely(func() { signature.ReadSignatureDatabase(s2.r) })
			if d2 := time.Since(t1); d2 < dt {
				dt = d2
			}
		}
		if dt > 3*time.Second {
			fail(fmt.Sprintf("decoding %d bytes took %v (best of three runs)", len(b), dt), "")
		}
	}
	specLists := []specList(nil)
	specOK := strings.HasPrefix(spec, "some ")
	if specOK {
		specLists = parseLists(spec[5:])
	}
	// where the decoded database first differs from what the stream holds (entry by entry against the input)
	diffAt = func() string {
		if err != nil || !specOK {
			return "-"
		}
		for i, sl := range specLists {
			if i >= len(db) {
				return fmt.Sprintf("first difference: list %d of %d is missing", i, len(specLists))
			}
			l := db[i]
			if hx(wireGUID(l.SignatureType)) != sl.typ || fmt.Sprint(l.ListSize) != sl.listSize || fmt.Sprint(l.HeaderSize) != sl.hdrSize || fmt.Sprint(l.Size) != sl.size {
				return fmt.Sprintf("first difference: header of list %d", i)
			}
			for j, sg := range sl.sigs {
				if j >= len(l.Signatures) {
					return fmt.Sprintf("first difference: list %d has %d entries, the stream holds %d", i, len(l.Signatures), len(sl.sigs))
				}
				if g := l.Signatures[j]; hx(wireGUID(g.Owner)) != sg[0] || hx(g.Data) != sg[1] {
					return fmt.Sprintf("first difference: list %d entry %d of %d: decoded %s:%s, the stream holds %s:%s", i, j, len(sl.sigs), hx(wireGUID(g.Owner)), clip60(hx(g.Data)), sg[0], clip60(sg[1]))
				}
			}
			if len(l.Signatures) != len(sl.sigs) {
				return fmt.Sprintf("first difference: list %d has %d entries, the stream holds %d", i, len(l.Signatures), len(sl.sigs))
			}
		}
		if len(db) != len(specLists) {
			return fmt.Sprintf("first difference: %d lists decoded, the stream holds %d", len(db), len(specLists))
		}
		return "-"
	}
	if prop == "C08" && err == nil {
		// success only if the whole input is well-formed lists, and exactly those lists
		if !specOK {
			fail("decoding succeeded on input that is not a well-formed sequence of signature lists", c08Matcher(b))
		} else {
			want := []string{}
			for _, l := range specLists {
				sg := []string{}
				for _, s := range l.sigs {
					sg = append(sg, s[0]+":"+s[1])
				}
				want = append(want, fmt.Sprintf("%s;%s;%s;%s;%s;%s", l.typ, l.listSize, l.hdrSize, l.size, l.hdr, strings.Join(sg, ",")))
				if l.typ == hx(tSHA256) && l.size != "48" {
					fail("a SHA-256 list with signature size != 48 was accepted", "")
				}
			}
			w := strings.Join(want, "|")
			if len(want) == 0 {
				w = "[]"
			}
			if goDbStr(db) != w {
				fail("decoded database differs from the lists the specification's layout defines", "")
			}
		}
	}
	if prop == "C07" && specOK {
		handled := true
		for _, l := range specLists {
			switch {
			case l.hdrSize != "0":
				handled = false
			case l.typ == hx(tX509):
			case l.typ == hx(tSHA256) && l.size == "48":
			case l.typ == hx(tEXT) && l.size == "17":
			default:
				handled = false
			}
		}
		if handled {
			if err != nil {
				fail("a well-formed stream of handled list types was rejected", "")
			} else {
				if !bytes.Equal(reenc, b) {
					fail("encoding the decoded database does not reproduce the input", c07Matcher(specLists))
				}
				// field-by-field
				if len(db) != len(specLists) {
					fail("decoded a different number of lists", "")
				} else {
					for i, l := range db {
						sl := specLists[i]
						if hx(wireGUID(l.SignatureType)) != sl.typ || fmt.Sprint(l.Size) != sl.size || fmt.Sprint(l.ListSize) != sl.listSize {
							fail("decoded list header differs from the specification's layout", "")
						}
						if sl.typ == hx(tEXT) {
							continue // whether externally-managed data is exposed is covered by the re-encoding check
						}
						if len(l.Signatures) != len(sl.sigs) {
							fail("decoded a different number of signatures", "")
							continue
						}
						for j, s := range l.Signatures {
							if hx(wireGUID(s.Owner)) != sl.sigs[j][0] || hx(s.Data) != sl.sigs[j][1] {
								fail("decoded owner/data differ from the specification's layout", "")
							}
						}
					}
				}
			}
		}
	}
}

// ---- the other names of "decoding" and "encoding" ----
//
// The property speaks of decoding and encoding a database; the library offers both under several names,
// and ReadSignatureDatabase / Bytes() are only two of them. On every evaluated stream the others have
// to say the same: Unmarshal into a receiver that held something else (success exactly when
// ReadSignatureDatabase succeeds, the same lists, the whole buffer consumed), ReadSignatureList on the
// first list (the same list, exactly ListSize bytes consumed), Marshal into a buffer that is empty and
// into one that already holds content (what was there stays, the encoding is appended),
// WriteSignatureDatabase into a plain io.Writer, and the concatenation of the lists' own Bytes().
// The oracles of streamEval on (db, err, reenc) thereby hold for these entry points too.

type plainWriter struct{ b []byte }

func (w *plainWriter) Write(p []byte) (int, error) { w.b = append(w.b, p...); return len(p), nil }

func entryPointsAgree(c *Ctx, cs Case, b []byte, db signature.SignatureDatabase, err error, reenc []byte) {
	fail := func(what, goObs, want string) {
		c.Fail(Failure{Kind: "property", What: what, Case: cs, Go: clip(goObs), Spec: clip(want)})
	}
	// Unmarshal
	prev := signature.NewSignatureList(signature.CERT_SHA256_GUID)
	prev.AppendBytes(util.EFIGUID{Data1: 0x22222222}, bytes.Repeat([]byte{0x22}, 32))
	recv := signature.SignatureDatabase{prev}
	buf := bytes.NewBuffer(append([]byte{}, b...))
	var uerr error
	if p, msg := safely(func() { uerr = recv.Unmarshal(buf) }); p {
		fail("SignatureDatabase.Unmarshal panicked: "+msg, "panic", "return")
		return
	}
	want := "err"
	if err == nil {
		want = "ok " + goDbStr(db)
	}
	switch {
	case (uerr == nil) != (err == nil):
		fail("SignatureDatabase.Unmarshal and ReadSignatureDatabase disagree on whether the input decodes", errClass(uerr), want)
	case uerr == nil && goDbStr(recv) != goDbStr(db):
		fail("SignatureDatabase.Unmarshal yields other lists than ReadSignatureDatabase on the same input", "ok "+goDbStr(recv), want)
	case uerr == nil && buf.Len() != 0:
		fail(fmt.Sprintf("SignatureDatabase.Unmarshal succeeded and left %d bytes of the input unread", buf.Len()), "ok", "whole input consumed")
	}
	if err != nil {
		return
	}
	// the single-list decoder on the first list
	if len(db) > 0 && len(b) >= 28 {
		br := bytes.NewReader(append([]byte{}, b...))
		var l *signature.SignatureList
		var lerr error
		if p, msg := safely(func() { l, lerr = signature.ReadSignatureList(br) }); p {
			fail("ReadSignatureList panicked: "+msg, "panic", "return")
		} else if ls := int(binary.LittleEndian.Uint32(b[16:])); lerr != nil || l == nil || goListStr(l) != goListStr(db[0]) || len(b)-br.Len() != ls {
			got := errClass(lerr)
			if lerr == nil && l != nil {
				got = fmt.Sprintf("ok %s consumed=%d", goListStr(l), len(b)-br.Len())
			}
			fail("ReadSignatureList on a stream that ReadSignatureDatabase decodes does not return the first list, consuming exactly its ListSize bytes", got, fmt.Sprintf("ok %s consumed=%d", goListStr(db[0]), ls))
		}
	} else if len(b) == 0 {
		var lerr error
		safely(func() { _, lerr = signature.ReadSignatureList(bytes.NewReader(nil)) })
		if lerr != io.EOF && !errors.Is(lerr, io.EOF) {
			fail("ReadSignatureList on the empty input does not answer io.EOF (no more lists)", fmt.Sprint(lerr), "io.EOF")
		}
	}
	// the encoders
	pre := []byte{0x07, 0x00, 0x00, 0x00} // e.g. the attribute word of an efivarfs file written first
	pre = append(pre, b[:len(b)%23]...)
	var m0, m1 bytes.Buffer
	m1.Write(pre)
	pw := &plainWriter{}
	var cat []byte
	if p, msg := safely(func() {
		db.Marshal(&m0)
		db.Marshal(&m1)
		signature.WriteSignatureDatabase(pw, db)
		for _, l := range db {
			cat = append(cat, l.Bytes()...)
		}
	}); p {
		fail("an encoder entry point panicked: "+msg, "panic", "return")
		return
	}
	if !bytes.Equal(m0.Bytes(), reenc) {
		fail("SignatureDatabase.Marshal into an empty buffer differs from Bytes()", hx(m0.Bytes()), hx(reenc))
	}
	if !bytes.Equal(m1.Bytes(), append(append([]byte{}, pre...), reenc...)) {
		fail(fmt.Sprintf("SignatureDatabase.Marshal into a buffer that already holds %d bytes: the result is not these bytes followed by the encoding", len(pre)), hx(m1.Bytes()), hx(pre)+" || "+hx(reenc))
	}
	if !bytes.Equal(pw.b, reenc) {
		fail("WriteSignatureDatabase into a plain io.Writer differs from Bytes()", hx(pw.b), hx(reenc))
	}
	if !bytes.Equal(cat, reenc) {
		fail("the concatenation of SignatureList.Bytes() of the lists differs from SignatureDatabase.Bytes()", hx(cat), hx(reenc))
	}
}

// ---- several decoders at the same time ----
//
// "Decoding yields exactly the lists ... the stream holds" is a statement about one stream and one
// call; nothing in it depends on what else the process is doing. A program reads db and dbx (or the
// variables of several machines) on different goroutines, so k streams are decoded at the same time and
// every call must return what the same call returns alone. The interleaving is not left to the
// scheduler: every stream reaches its decoder through a reader that hands control to another decoder
// inside its Read (before it touches the destination, or after the bytes are in place but before Read
// returns), following a switch plan that is part of the case - exactly one goroutine runs at any time,
// so every run is deterministic and replayable.

type lockstep struct {
	mu    sync.Mutex
	cond  *sync.Cond
	cur   int
	alive []bool
	plan  []byte // plan[step % len] != 0: hand over to the next live decoder at this point
	step  int
}

func newLockstep(n int, plan []byte) *lockstep {
	s := &lockstep{alive: make([]bool, n), plan: plan}
	for i := range s.alive {
		s.alive[i] = true
	}
	s.cond = sync.NewCond(&s.mu)
	return s
}

func (s *lockstep) nextAlive(me int) int {
	for d := 1; d <= len(s.alive); d++ {
		if j := (me + d) % len(s.alive); s.alive[j] {
			return j
		}
	}
	return -1
}

func (s *lockstep) enter(me int) {
	s.mu.Lock()
	for s.cur != me {
		s.cond.Wait()
	}
	s.mu.Unlock()
}

func (s *lockstep) yield(me int) {
	s.mu.Lock()
	defer s.mu.Unlock()
	sw := len(s.plan) == 0 || s.plan[s.step%len(s.plan)] != 0
	s.step++
	if !sw {
		return
	}
	if j := s.nextAlive(me); j >= 0 && j != me {
		s.cur = j
		s.cond.Broadcast()
		for s.cur != me {
			s.cond.Wait()
		}
	}
}

func (s *lockstep) leave(me int) {
	s.mu.Lock()
	s.alive[me] = false
	if s.cur == me {
		s.cur = s.nextAlive(me)
	}
	s.cond.Broadcast()
	s.mu.Unlock()
}

// parkReader delivers data (at most chunk bytes per call when chunk > 0) and parks inside every Read
type parkReader struct {
	data  []byte
	pos   int
	chunk int
	after bool
	s     *lockstep
	me    int
}

func (r *parkReader) Read(p []byte) (int, error) {
	if len(p) == 0 {
		return 0, nil
	}
	if !r.after {
		r.s.yield(r.me)
	}
	if r.pos >= len(r.data) {
		if r.after {
			r.s.yield(r.me)
		}
		return 0, io.EOF
	}
	if r.chunk > 0 && len(p) > r.chunk {
		p = p[:r.chunk]
	}
	n := copy(p, r.data[r.pos:])
	r.pos += n
	if r.after {
		r.s.yield(r.me) // the bytes are in the caller's buffer, Read has not returned yet
	}
	return n, nil
}

func decodeObs(db signature.SignatureDatabase, err error, panicked bool) string {
	switch {
	case panicked:
		return "panic"
	case err != nil:
		return "err"
	}
	return "ok " + goDbStr(db) + " reenc=" + hx(db.Bytes())
}

func concurrentEval(c *Ctx, cs Case, prop string) {
	var streams [][]byte
	for _, h := range strList(cs["streams"]) {
		streams = append(streams, unhx(h))
	}
	if len(streams) < 2 || len(streams) > 8 {
		return
	}
	plan := unhx(cs.S("plan"))
	after := cs.S("park") == "after"
	chunk := int(cs.I("chunk"))
	// each call alone, through the same kind of reader
	alone := make([]string, len(streams))
	for i, b := range streams {
		s := newLockstep(1, plan)
		var db signature.SignatureDatabase
		var err error
		p, _ := safely(func() {
			db, err = signature.ReadSignatureDatabase(&parkReader{data: append([]byte{}, b...), chunk: chunk, after: after, s: s, me: 0})
		})
		alone[i] = decodeObs(db, err, p)
	}
	// all of them at the same time
	s := newLockstep(len(streams), plan)
	together := make([]string, len(streams))
	var wg sync.WaitGroup
	for i := range streams {
		wg.Add(1)
		go func(i int) {
			defer wg.Done()
			var db signature.SignatureDatabase
			var err error
			s.enter(i)
			p, _ := safely(func() {
				db, err = signature.ReadSignatureDatabase(&parkReader{data: append([]byte{}, streams[i]...), chunk: chunk, after: after, s: s, me: i})
			})
			together[i] = decodeObs(db, err, p) // still this goroutine's turn: nothing else runs
			s.leave(i)
		}(i)
	}
	done := make(chan struct{})
	go func() { wg.Wait(); close(done) }()
	select {
	case <-done:
	case <-time.After(60 * time.Second):
		c.Fail(Failure{Kind: "property", What: "concurrent decoders did not return within 60 s", Case: cs})
		return
	}
	obs := "same"
	for i := range streams {
		if together[i] != alone[i] {
			obs = "differs"
		}
	}
	c.Count(cs.Key(), true, fmt.Sprintf("%s/concurrent/%d-decoders/park-%s/%s", prop, len(streams), cs.S("park"), obs))
	for i := range streams {
		if together[i] != alone[i] {
			c.Fail(Failure{Kind: "property", What: fmt.Sprintf("decoder %d of %d running at the same time returns something else than the same call alone: decoding a stream depends on what other decoders in the process are doing", i, len(streams)),
				Case: cs, Go: clip(together[i]), Spec: clip(alone[i])})
			return
		}
	}
}

// concurrentCases: groups of 2..3 streams (same shape with other owners and data, or unrelated) x switch plans
func concurrentCases(c *Ctx, prop string, n int) {
	rng := mrand.New(mrand.NewSource(c.Seed*104729 + 7 + int64(c.Shard)*1000003)) // a generator of its own: the other cases stay what they were
	sub := &Ctx{Rng: rng, Thorough: c.Thorough}
	plans := []string{"01", "0001", "0100", "000001", "01010001"} // one byte per parking point: != 0 hands over
	for i := 0; i < n && c.NFailures() < 8; i++ {
		k := 2 + i%2*(i/2%2)
		var ss []string
		ls, b := genStream(sub, true, 3)
		for len(b) == 0 || len(b) > 6000 {
			ls, b = genStream(sub, true, 3)
		}
		ss = append(ss, hx(b))
		for len(ss) < k {
			if i%3 != 2 {
				// the same layout with other owners and data: the decoders are at the same point of their streams
				var o []byte
				for _, l := range ls {
					m := genList{typ: l.typ, hdr: l.hdr, size: l.size}
					for range l.sigs {
						m.sigs = append(m.sigs, [2][]byte{randBytes(sub, 16), randBytes(sub, l.size-16)})
					}
					o = append(o, m.enc()...)
				}
				ss = append(ss, hx(o))
			} else {
				_, o := genStream(sub, true, 3)
				for len(o) == 0 || len(o) > 6000 {
					_, o = genStream(sub, true, 3)
				}
				ss = append(ss, hx(o))
			}
		}
		plan := plans[i%len(plans)]
		if i%7 == 6 {
			plan = hx(randBytes(sub, 8))
		}
		streamEval(c, Case{"op": "concurrent", "streams": ss, "plan": plan, "park": []string{"after", "before"}[i/2%2], "chunk": int64([]int{0, 0, 1, 5}[i/4%4])}, prop)
	}
}

// ---- sources that fail ----
//
// The inputs of the property reach the decoder through an io.Reader, and a reader has a third way to
// stop besides "more data" and io.EOF: it fails (I/O error, closed file, deadline, broken pipe). Then
// the input has NOT ended: whatever was delivered so far is not "the whole input consumed as
// well-formed lists", so decoding must report an error - at every position, also exactly between two
// lists and before the first byte, where a clean end of input would be legitimate.

var faultKinds = []string{"io-error", "closed", "timeout", "broken-pipe"}
var faultModes = []string{"after-data", "with-data"}

func faultErr(kind string) error {
	switch kind {
	case "closed":
		return os.ErrClosed
	case "timeout":
		return os.ErrDeadlineExceeded
	case "broken-pipe":
		return io.ErrClosedPipe
	}
	return &os.PathError{Op: "read", Path: "db", Err: syscall.EIO}
}

// faultReader delivers data and then fails with err on every further call; withData: the call that
// delivers the last bytes already returns err (both are behaviours io.Reader permits)
type faultReader struct {
	data     []byte
	pos      int
	err      error
	withData bool
	hit      bool // the failure was handed to the caller
}

func (r *faultReader) Read(p []byte) (int, error) {
	if len(p) == 0 {
		return 0, nil
	}
	if r.pos >= len(r.data) {
		r.hit = true
		return 0, r.err
	}
	n := copy(p, r.data[r.pos:])
	r.pos += n
	if r.withData && r.pos == len(r.data) {
		r.hit = true
		return n, r.err
	}
	return n, nil
}

func faultEval(c *Ctx, cs Case, prop string) {
	b := unhx(cs.S("bytes"))
	at := int(cs.I("faultat"))
	if at < 0 || at > len(b) {
		return
	}
	kind, mode := cs.S("fault"), cs.S("faultmode")
	mk := func() *faultReader {
		return &faultReader{data: append([]byte{}, b[:at]...), err: faultErr(kind), withData: mode == "with-data"}
	}
	scribble := func(r *faultReader) {
		for i := range r.data {
			r.data[i] = 0xEE
		}
	}
	fail := func(what, goObs string) {
		c.Fail(Failure{Kind: "property", What: what, Case: cs, Go: clip(goObs),
			Spec: fmt.Sprintf("an error: the reader failed (%v) after delivering %d of %d bytes, the input did not end", faultErr(kind), at, len(b))})
	}
	// the whole database
	r := mk()
	var db signature.SignatureDatabase
	var err error
	panicked, pmsg := safely(func() { db, err = signature.ReadSignatureDatabase(r) })
	scribble(r)
	obs := "err"
	switch {
	case panicked:
		obs = "panic"
	case err == nil:
		obs = "ok"
	}
	c.Count(cs.Key(), len(b) > 0, prop+"/read-fault/"+kind+"/"+mode+"/"+obs)
	switch {
	case panicked:
		fail("decoder panicked: "+pmsg, "panic")
	case err == nil && prop == "C07" && at == len(b) && bytes.Equal(db.Bytes(), b):
		// C07 asks for exactly the lists of the stream: all of them were delivered and decoded (whether the
		// failure behind them has to be reported is C08's question)
	case err == nil:
		fail(fmt.Sprintf("ReadSignatureDatabase returned a database of %d list(s) and no error although its reader failed: a read failure was taken for the end of the database", len(db)), "ok "+goDbStr(db))
	case r.hit && errors.Is(err, io.EOF):
		fail("ReadSignatureDatabase reports a failed read as an error matching io.EOF (the end-of-input signal)", "err "+err.Error())
	}
	if prop == "C07" {
		return // the single-list entry point's end-of-input answer is part of C08
	}
	// the single-list entry point: io.EOF is its "no more lists" answer and must not be given for a failed read
	r = mk()
	var l *signature.SignatureList
	panicked, pmsg = safely(func() { l, err = signature.ReadSignatureList(r) })
	scribble(r)
	switch {
	case panicked:
		fail("ReadSignatureList panicked: "+pmsg, "panic")
	case r.hit && err != nil && errors.Is(err, io.EOF):
		fail("ReadSignatureList answers io.EOF (no more lists) although its reader failed", "err "+err.Error())
	case r.hit && err == nil && !(mode == "with-data" && r.pos == len(r.data) && l != nil && int(l.ListSize) == at):
		// the failure reached the decoder while it was reading this list: only a list that was
		// complete with the very call that carried the failure may be returned
		fail("ReadSignatureList returned a list and no error although the reader failed while the list was read", "ok "+goListStr(l))
	}
}

// listBoundaries walks the ListSize fields of a stream (independent of the library): offsets at which a list starts or the stream ends
func listBoundaries(b []byte) []int {
	out := []int{0}
	off := 0
	for off+28 <= len(b) {
		ls := int(binary.LittleEndian.Uint32(b[off+16:]))
		if ls < 28 || off+ls > len(b) {
			break
		}
		off += ls
		out = append(out, off)
	}
	return out
}

// faultCases emits, for one stream, a failing reader at every list boundary (all failure kinds, both
// delivery modes) and at the other positions (every one, or a sample of them for long streams) with the kind rotating
func faultCases(c *Ctx, b []byte, salt int, emit func(Case)) {
	isB := map[int]bool{}
	if c.NFailures() >= 8 {
		return
	}
	for _, o := range listBoundaries(b) {
		isB[o] = true
		for _, k := range faultKinds {
			for _, m := range faultModes {
				emit(Case{"op": "stream", "class": "read-fault/boundary", "bytes": hx(b), "fault": k, "faultmode": m, "faultat": int64(o)})
			}
		}
	}
	stride := 1
	if len(b) > c.P(800, 4000) {
		stride = len(b)/c.P(400, 2000) + 1
	}
	for at := 0; at <= len(b); at += stride {
		if !isB[at] {
			emit(Case{"op": "stream", "class": "read-fault/inside", "bytes": hx(b), "fault": faultKinds[(at+salt)%len(faultKinds)],
				"faultmode": faultModes[(at/len(faultKinds)+salt)%len(faultModes)], "faultat": int64(at)})
		}
	}
}

// faultCasesAtBoundaries is the C07 selection: a well-formed stream reaches the decoder through a reader that
// fails (all kinds, both delivery modes) before the first byte, between two lists and behind the last one -
// the positions at which the stream read so far is itself well-formed - plus a few positions inside lists
func faultCasesAtBoundaries(c *Ctx, b []byte, salt int, emit func(Case)) {
	bs := listBoundaries(b)
	for _, o := range bs {
		for _, k := range faultKinds {
			for _, m := range faultModes {
				emit(Case{"op": "stream", "class": "read-fault/boundary", "bytes": hx(b), "fault": k, "faultmode": m, "faultat": int64(o)})
			}
		}
	}
	for i := 0; i+1 < len(bs); i++ {
		for j, d := range []int{1, 16, 27, 28, 29, 44, bs[i+1] - bs[i] - 1} {
			if at := bs[i] + d; at > bs[i] && at < bs[i+1] {
				emit(Case{"op": "stream", "class": "read-fault/inside", "bytes": hx(b), "fault": faultKinds[(i+j+salt)%len(faultKinds)],
					"faultmode": faultModes[(j+salt)%len(faultModes)], "faultat": int64(at)})
			}
		}
	}
}

func clip60(s string) string {
	if len(s) > 60 {
		return s[:60] + "…"
	}
	return s
}

// walkSpec reads a byte string as the statement's layout defines a signature database, independently of the
// library and of the Lean model: a concatenation of EFI_SIGNATURE_LISTs (type GUID, ListSize, HeaderSize,
// SignatureSize as 32-bit little-endian numbers, header, signatures) with SignatureSize at least 16 and ListSize
// = 28 + HeaderSize + count * SignatureSize, every signature the owner GUID followed by SignatureSize-16 data
// bytes, the whole input used up. The answer has the form of the driver's Spec answer ("some <lists>" / "none").
func walkSpec(b []byte) string {
	var sb strings.Builder
	sb.WriteString("some ")
	n := 0
	for off := 0; off < len(b); n++ {
		if len(b)-off < 28 {
			return "none"
		}
		ls, hs, sz := uint64(binary.LittleEndian.Uint32(b[off+16:])), uint64(binary.LittleEndian.Uint32(b[off+20:])), uint64(binary.LittleEndian.Uint32(b[off+24:]))
		if sz < 16 || ls < 28+hs || (ls-28-hs)%sz != 0 || uint64(len(b)-off) < ls {
			return "none"
		}
		if n > 0 {
			sb.WriteByte('|')
		}
		fmt.Fprintf(&sb, "%s;%d;%d;%d;%s;", hx(b[off:off+16]), ls, hs, sz, hx(b[off+28:off+28+int(hs)]))
		p := off + 28 + int(hs)
		for k := uint64(0); k < (ls-28-hs)/sz; k++ {
			if k > 0 {
				sb.WriteByte(',')
			}
			sb.WriteString(hx(b[p : p+16]))
			sb.WriteByte(':')
			sb.WriteString(hx(b[p+16 : p+int(sz)]))
			p += int(sz)
		}
		off += int(ls)
	}
	if n == 0 {
		sb.WriteString("[]")
	}
	return sb.String()
}

// ---- streams given by a description ----
//
// Large streams are kept in the case as a description, not as megabytes (compare c14Synth): "layout" is a
// comma-separated sequence of items, "salt" selects the owners and data (pseudo-random, all entries distinct):
//
//	s<n>          a SHA-256 list with n entries
//	e<n>          an externally-managed list with n entries
//	x<size>*<n>   an X.509 list with n entries of SignatureSize size (owner included)
//	f<at>*<n>     an X.509 list with (at most) n equal entries that ENDS exactly at offset at of the stream
//	g<n>          n bytes that are no list (trailing garbage: the first one is never zero)
//	p<n>          the first n bytes of a SHA-256 list (a header that is cut off)
func streamBytes(cs Case) []byte {
	lay := cs.S("layout")
	if lay == "" {
		return unhx(cs.S("bytes"))
	}
	var out []byte
	for i, it := range strings.Split(lay, ",") {
		if it == "" {
			continue
		}
		rng := mrand.New(mrand.NewSource(cs.I("salt")*1000003 + int64(i)*7919 + 1))
		num := func(s string) (a, n int) {
			f := strings.SplitN(s, "*", 2)
			a = atoi(f[0])
			n = 1
			if len(f) == 2 {
				n = atoi(f[1])
			}
			return
		}
		list := func(typ []byte, size, n int) []byte {
			l := make([]byte, 28+n*size)
			copy(l, typ)
			binary.LittleEndian.PutUint32(l[16:], uint32(len(l)))
			binary.LittleEndian.PutUint32(l[24:], uint32(size))
			rng.Read(l[28:])
			return l
		}
		a, n := num(it[1:])
		switch it[0] {
		case 's':
			out = append(out, list(tSHA256, 48, a)...)
		case 'e':
			out = append(out, list(tEXT, 17, a)...)
		case 'x':
			if a >= 16 {
				out = append(out, list(tX509, a, n)...)
			}
		case 'f':
			room := a - len(out) - 28
			for n > 1 && room%n != 0 {
				n--
			}
			if n >= 1 && room/n >= 17 {
				out = append(out, list(tX509, room/n, n)...)
			}
		case 'g':
			g := make([]byte, a)
			rng.Read(g)
			if a > 0 {
				g[0] |= 1
			}
			out = append(out, g...)
		case 'p':
			if l := list(tSHA256, 48, 2); a <= len(l) {
				out = append(out, l[:a]...)
			}
		}
	}
	return out
}

// sizeClassLayouts: the statement quantifies over "SHA-256 lists with any count" and "X.509 lists with any
// certificate size and count"; a decoder may treat long lists differently from short ones (entries read in
// batches, bodies read in blocks), so the counts sit around powers of two and the list bodies around and
// beyond 64 KiB - in one list, with entries that are all different, so that every decoded entry can be held
// against its own bytes of the input.
func sizeClassLayouts(c *Ctx) []string {
	ls := []string{
		"s127", "s128", "s129", "s2,s256,e3", "s257,x300*2", "s385", "s512", "s1023,s1", "x56*130", "x17*260", "e129", // counts
		"s1366", "x20016*4", // a body just above 64 KiB; the model is asked too
		"s1365,s1366", "s2200,s1", "x40000*3,s2", "x65536*2", "x65537*2", "x90000*2,x90000*1", // above 100 KiB: the harness's own walk decides
	}
	if c.Thorough {
		ls = append(ls, "s255", "s256", "s1024", "s1025", "s1365", "s1367", "s2730", "s2731", "s4096", "s5461", "s10000", "x1500*44", "x1500*45", "x32768*2", "x32768*3", "x65535*3", "x131072*2", "s300,x70000*3,s1400,e200")
	}
	return ls
}

// boundaryLayouts: well-formed streams in which a boundary between two lists (or the end of the last list) falls
// exactly on offset 2^k - where buffered, chunked and size-limited readers change state - followed by a further
// list (which must be decoded), by several lists, by nothing, by bytes that are no list or by a header that is cut
// off (which must be an error, not a shorter database). 2^20 and above are streams longer than 1 MiB.
func boundaryLayouts(c *Ctx) []string {
	var ls []string
	ks := []int{12, 16, 20}
	if c.Thorough {
		ks = []int{8, 9, 10, 11, 12, 13, 14, 15, 16, 17, 18, 19, 20, 21, 22, 24}
	}
	for _, k := range ks {
		at := 1 << uint(k)
		all := []string{
			fmt.Sprintf("f%d*4,s2", at), fmt.Sprintf("s3,f%d*1,g5", at), fmt.Sprintf("s3,f%d*12,x100*2,e1", at),
			fmt.Sprintf("f%d*2", at), fmt.Sprintf("f%d*3,p16", at), fmt.Sprintf("e2,f%d*1,p28", at),
		}
		if k == 16 && !c.Thorough {
			all = all[:2] // the model is asked on these: two of them in the quick tier
		}
		ls = append(ls, all...)
	}
	return ls
}

func layoutCases(c *Ctx, prop string) {
	for i, lay := range sizeClassLayouts(c) {
		if c.Mine(i) && c.NFailures() < 8 {
			streamEval(c, Case{"op": "stream", "class": "wf/size-classes", "layout": lay, "salt": int64(c.Seed) + int64(i)}, prop)
		}
	}
	for i, lay := range boundaryLayouts(c) {
		if c.Mine(i) && c.NFailures() < 8 {
			streamEval(c, Case{"op": "stream", "class": "list-boundary-at-2^k", "layout": lay, "salt": int64(c.Seed) + 100 + int64(i)}, prop)
		}
	}
}

func clip(s string) string {
	if len(s) > 600 {
		return s[:600] + "…"
	}
	return s
}

func c07Matcher(ls []specList) string {
	for _, l := range ls {
		if l.typ == hx(tEXT) {
			return "c07.external_management_data_dropped"
		}
	}
	return ""
}

func c08Matcher(b []byte) string { return "" }

// ---- generators ----

func randBytes(c *Ctx, n int) []byte {
	b := make([]byte, n)
	c.Rng.Read(b)
	return b
}

type genList struct {
	typ  []byte
	hdr  []byte
	size int
	sigs [][2][]byte
}

func (l genList) enc() []byte { return encodeList(l.typ, l.hdr, l.size, l.sigs) }

func genWFList(c *Ctx, handledOnly bool) genList {
	k := c.Rng.Intn(10)
	var l genList
	nsig := []int{0, 1, 1, 2, 3, 5}[c.Rng.Intn(6)]
	switch {
	case k < 4:
		l.typ, l.size = tX509, 16+[]int{1, 17, 100, 700, 1500, c.Rng.Intn(2000) + 1}[c.Rng.Intn(6)]
	case k < 7:
		l.typ, l.size = tSHA256, 48
		if c.Rng.Intn(3) == 0 {
			nsig = 1 + c.Rng.Intn(40)
		}
	case k < 8:
		l.typ, l.size = tEXT, 17
	default:
		if handledOnly {
			l.typ, l.size = tX509, 16+c.Rng.Intn(64)
		} else {
			switch c.Rng.Intn(4) {
			case 0:
				l.typ, l.size = tSHA1, 36
			case 1:
				l.typ, l.size = tUnknown, 16+c.Rng.Intn(40)
			case 2:
				l.typ, l.size, l.hdr = tX509, 16+c.Rng.Intn(40), randBytes(c, 1+c.Rng.Intn(8)) // non-empty header
			case 3:
				l.typ, l.size = tSHA256, 16+c.Rng.Intn(64) // wrong size for SHA-256
			}
		}
	}
	for i := 0; i < nsig; i++ {
		l.sigs = append(l.sigs, [2][]byte{randBytes(c, 16), randBytes(c, l.size-16)})
	}
	return l
}

func genStream(c *Ctx, handledOnly bool, maxLists int) ([]genList, []byte) {
	n := c.Rng.Intn(maxLists + 1)
	var ls []genList
	var b []byte
	for i := 0; i < n; i++ {
		l := genWFList(c, handledOnly)
		ls = append(ls, l)
		b = append(b, l.enc()...)
	}
	return ls, b
}

// genEntryClassList: well-formed lists of handled types whose ENTRIES are of the classes random bytes never
// produce - the statement quantifies over "any owners", any signature data and any count:
//
//	repeat    - one owner+data entry occurs two or more times in the list (next to each other, or apart)
//	same-data - the same data under different owners, and the same owner with different data
//	pem       - X.509 lists whose entry bytes are PEM text (of one size), alone or repeated
//	zero      - all-zero owner and data
func genEntryClassList(c *Ctx, kind string) genList {
	var l genList
	fresh := func() [2][]byte { return [2][]byte{randBytes(c, 16), randBytes(c, l.size-16)} }
	switch c.Rng.Intn(3) {
	case 0:
		l.typ, l.size = tSHA256, 48
	case 1:
		l.typ, l.size = tX509, 16+[]int{1, 17, 100, 300}[c.Rng.Intn(4)]
	default:
		l.typ, l.size = tEXT, 17
	}
	if kind == "pem" {
		n := 1 + c.Rng.Intn(60)
		l.typ, l.size = tX509, 16+len(pemOf(make([]byte, n)))
		fresh = func() [2][]byte { return [2][]byte{randBytes(c, 16), pemOf(randBytes(c, n))} }
	}
	n := 2 + c.Rng.Intn(4)
	for i := 0; i < n; i++ {
		l.sigs = append(l.sigs, fresh())
	}
	switch kind {
	case "repeat", "pem":
		if kind == "pem" && c.Rng.Intn(2) == 0 {
			break
		}
		for k := 1 + c.Rng.Intn(2); k > 0; k-- {
			src, at := c.Rng.Intn(len(l.sigs)), c.Rng.Intn(len(l.sigs)+1)
			e := l.sigs[src]
			l.sigs = append(l.sigs[:at], append([][2][]byte{e}, l.sigs[at:]...)...)
		}
	case "same-data":
		l.sigs[1][1] = l.sigs[0][1]
		l.sigs[len(l.sigs)-1][0] = l.sigs[0][0]
	case "zero":
		l.sigs[c.Rng.Intn(len(l.sigs))] = [2][]byte{make([]byte, 16), make([]byte, l.size-16)}
	}
	return l
}

var entryClasses = []string{"repeat", "pem", "same-data", "zero"}

// genEntryClassStream puts such a list among 0..2 ordinary well-formed lists
func genEntryClassStream(c *Ctx, kind string) []byte {
	var b []byte
	at, n := c.Rng.Intn(3), 1+c.Rng.Intn(3)
	for i := 0; i < n; i++ {
		if i == at%n {
			b = append(b, genEntryClassList(c, kind).enc()...)
		} else {
			b = append(b, genWFList(c, true).enc()...)
		}
	}
	return b
}

func fixtureStreams(c *Ctx) [][]byte {
	var out [][]byte
	// captured variables (4-byte attribute prefix) and .esl files shipped with the repository
	pats := []string{"efi/signature/testdata/*.esl", "tests/data/signatures/*/*.esl", "tests/ovmf/keys/*/*.esl", "efi/efitest/testdata/*/*"}
	for _, p := range pats {
		ms, _ := filepath.Glob(filepath.Join(c.RepoDir, p))
		for _, m := range ms {
			base := filepath.Base(m)
			b, err := os.ReadFile(m)
			if err != nil || len(b) == 0 {
				continue
			}
			if strings.HasSuffix(m, ".esl") {
				out = append(out, b)
			} else if strings.HasPrefix(base, "db-") || strings.HasPrefix(base, "dbx-") || strings.HasPrefix(base, "KEK-") || strings.HasPrefix(base, "PK-") ||
				strings.HasPrefix(base, "dbDefault-") || strings.HasPrefix(base, "dbxDefault-") || strings.HasPrefix(base, "KEKDefault-") || strings.HasPrefix(base, "PKDefault-") {
				if len(b) > 4 {
					out = append(out, b[4:])
				}
			}
		}
	}
	return out
}

func c07Eval(c *Ctx, cs Case) {
	if cs.S("op") == "history" {
		historyShrunk(c, cs, "C07")
		return
	}
	streamEval(c, cs, "C07")
}

func c07Gen(c *Ctx) {
	fx := fixtureStreams(c)
	c.Note("fixture_streams", len(fx))
	for _, b := range fx {
		streamEval(c, Case{"op": "stream", "class": "fixture", "bytes": hx(b)}, "C07")
	}
	for i := 0; i < c.N(1500, 60000); i++ {
		ls, b := genStream(c, c.Rng.Intn(4) != 0, c.P(6, 12))
		cls := fmt.Sprintf("wf/%dlists", len(ls))
		for _, l := range ls {
			if bytes.Equal(l.typ, tEXT) {
				cls += "+ext"
				break
			}
		}
		streamEval(c, Case{"op": "stream", "class": cls, "bytes": hx(b)}, "C07")
		if c.NFailures() >= 8 {
			return
		}
	}
	// generators of their own from here to the histories, so that the cases before and behind stay what they were
	sub := &Ctx{Rng: mrand.New(mrand.NewSource(c.Seed*15485863 + 3 + int64(c.Shard)*1000003)), Thorough: c.Thorough}
	// entries of the classes random bytes never produce: repeated entries, PEM-shaped certificate bytes, ...
	for i := 0; i < c.N(240, 8000) && c.NFailures() < 8; i++ {
		kind := entryClasses[i%len(entryClasses)]
		streamEval(c, Case{"op": "stream", "class": "wf/entries-" + kind, "bytes": hx(genEntryClassStream(sub, kind))}, "C07")
	}
	// long lists, large bodies, list boundaries at powers of two (streams given by a description)
	layoutCases(c, "C07")
	// well-formed streams through a reader that fails instead of ending: before the first byte, between
	// two lists, behind the last one (every failure kind, both delivery modes) and at a few positions inside
	for i, b := range fx {
		if len(b) < c.P(20000, 200000) && c.Mine(i) {
			faultCasesAtBoundaries(c, b, i, func(cs Case) { streamEval(c, cs, "C07") })
		}
	}
	for i := 0; i < c.N(60, 3000) && c.NFailures() < 8; i++ {
		_, b := genStream(sub, true, c.P(4, 8))
		faultCasesAtBoundaries(c, b, i, func(cs Case) { streamEval(c, cs, "C07") })
	}
	// several streams decoded at the same time, each through a reader that parks inside Read
	concurrentCases(c, "C07", c.N(120, 4000))
	if c.NFailures() >= 8 {
		return
	}
	// databases built through the library's own operations
	u := newC09Universe(c)
	for i := 0; i < c.N(500, 20000); i++ {
		h := genHistory(c, u, c.P(10, 30))
		ops := h["ops"].([]interface{})
		// C07 also reaches what C09 deliberately leaves out: lists holding one entry more than once
		// (decoded, or built through the list-level API from the DER and the PEM form of one
		// certificate) and PEM handed to SignatureList.AppendBytes directly
		o0, o1 := hx(u.owners[0]), hx(u.owners[1])
		var pre []interface{}
		switch i % 6 {
		case 1:
			pre = []interface{}{fmt.Sprintf("LM,%s,%s", hx(tX509), o0+":"+hx(u.data[5])), "E"}
		case 2:
			pre = []interface{}{fmt.Sprintf("LM,%s,%s", hx(tX509), o0+":"+hx(u.data[4])+"+"+o0+":"+hx(u.data[5])+"+"+o1+":"+hx(u.data[6])), "E",
				fmt.Sprintf("R,%s,%s,%s", hx(tX509), o0, hx(u.data[4])), "E"}
		case 3:
			h["start"] = hx(encodeList(tSHA256, nil, 48, [][2][]byte{{u.owners[0], u.data[0]}, {u.owners[1], u.data[1]}, {u.owners[0], u.data[0]}}))
			pre = []interface{}{fmt.Sprintf("R,%s,%s,%s", hx(tSHA256), o0, hx(u.data[0])), "E"}
		case 4:
			h["start"] = hx(encodeList(tX509, nil, len(u.data[4])+16, [][2][]byte{{u.owners[0], u.data[4]}, {u.owners[0], u.data[6]}, {u.owners[0], u.data[4]}, {u.owners[0], u.data[4]}}))
			pre = []interface{}{fmt.Sprintf("R,%s,%s,%s", hx(tX509), o0, hx(u.data[4])), "E", fmt.Sprintf("R,%s,%s,%s", hx(tX509), o0, hx(u.data[4])), "E"}
		}
		if i%12 == 11 {
			// decoded lists without entries keep their SignatureSize; list-level appends to them
			// (matching and not matching that size) must keep the size fields consistent
			h["start"] = hx(append(encodeList(tSHA256, nil, 48, nil), encodeList(tX509, nil, 100, nil)...))
			pre = []interface{}{fmt.Sprintf("LA,0,%s:%s", o0, hx(u.data[0])), "E", fmt.Sprintf("LA,1,%s:%s", o1, hx(u.data[4])), "E",
				fmt.Sprintf("LA,1,%s:%s", o0, hx(u.data[6])), "E"}
		}
		if i%12 == 5 {
			pre = []interface{}{fmt.Sprintf("LM,%s,-", hx([][]byte{tSHA256, tX509}[(i/12)%2])), "E"} // known finding F20
		}
		if i%6 == 0 {
			// externally-managed lists (the third type the decoder handles): built by the database-level Append
			// (i%12 == 0) or by the list-level AppendBytes + AppendList (i%12 == 6) from a one-byte value - the
			// only well-formed size - and a value of 0, 2 or 32 bytes, in both orders; whatever the operations
			// let in has to decode from its own encoding
			good, wrong := hx(u.ext[(i/12)%2]), hx(u.ext[2+(i/24)%3])
			first, second := good, wrong
			if (i/72)%2 == 1 {
				first, second = wrong, good
			}
			if i%12 == 0 {
				pre = []interface{}{fmt.Sprintf("A,%s,%s,%s", hx(tEXT), o0, first), "E", fmt.Sprintf("A,%s,%s,%s", hx(tEXT), o1, second), "E"}
			} else {
				pre = []interface{}{fmt.Sprintf("LM,%s,%s", hx(tEXT), o0+":"+first+"+"+o1+":"+second), "E"}
			}
		}
		ops = append(pre, ops...)
		h["ops"] = append(ops, "E")
		historyShrunk(c, h, "C07")
		if c.NFailures() >= 8 {
			return
		}
	}
	c07EditsBetweenEncodings(c, u)
}

// c07EditsBetweenEncodings: in the histories above the database object is encoded after EVERY operation (that is how
// the harness looks at it).  A program encodes a database, edits it several times and encodes it again: here the object
// is encoded only at the observation points of the history (operation B: Bytes / Marshal / WriteSignatureDatabase / the
// lists' own Bytes(), the object stays in use; operation E: encode, decode and go on with the decoded database) and
// between them it is only edited - the harness takes its own view from the exported fields.  Random histories with
// observations after about every third operation, and in every history a REPLACEMENT block: a list of 2..4 entries of
// one size is built, encoded, then 1..3 times one entry is removed and another entry of the same type and size (other
// data, or the same data under another owner) is appended - the list is as long as it was - and the database is encoded
// again; also remove-only / append-only edits between two encodings.  Oracle at every observation: the bytes written
// decode (Spec codec) to exactly the lists the object holds at that moment.
func c07EditsBetweenEncodings(c *Ctx, u *c09Universe) {
	sub := &Ctx{Rng: mrand.New(mrand.NewSource(c.Seed*982451653 + 37 + int64(c.Shard)*1000003)), Thorough: c.Thorough}
	rng := sub.Rng
	for i := 0; i < c.N(160, 8000) && c.NFailures() < 8; i++ {
		h := genHistory(sub, u, c.P(8, 24))
		var ops []interface{}
		for _, o := range h["ops"].([]interface{}) {
			ops = append(ops, o)
			if rng.Intn(3) == 0 {
				ops = append(ops, fmt.Sprintf("B,%d", rng.Intn(4)))
			}
		}
		// the replacement block
		t, pool := tSHA256, [][]byte{u.data[0], u.data[1], u.data[2], u.data[3]}
		switch i % 3 {
		case 1:
			t, pool = tX509, [][]byte{u.data[4], u.data[6]}
		case 2:
			t, pool = tEXT, [][]byte{u.ext[0], u.ext[1]}
		}
		var entries [][2][]byte // every (owner, data) pair of one size
		for _, d := range pool {
			if len(d) != len(pool[0]) {
				continue
			}
			for _, o := range u.owners[:2] {
				entries = append(entries, [2][]byte{o, d})
			}
		}
		if len(entries) < 4 { // the pool holds no two values of one size: hashes
			t, entries = tSHA256, nil
			for _, d := range u.data[:4] {
				for _, o := range u.owners[:2] {
					entries = append(entries, [2][]byte{o, d})
				}
			}
		}
		rng.Shuffle(len(entries), func(a, b int) { entries[a], entries[b] = entries[b], entries[a] })
		n := 2 + rng.Intn(min(3, len(entries)-2))
		in, out := entries[:n], entries[n:]
		var blk []interface{}
		for _, e := range in {
			blk = append(blk, fmt.Sprintf("A,%s,%s,%s", hx(t), hx(e[0]), hx(e[1])))
		}
		blk = append(blk, fmt.Sprintf("B,%d", i%4))
		for k := 1 + rng.Intn(3); k > 0 && len(out) > 0; k-- {
			j := rng.Intn(len(in))
			gone, come := in[j], out[0]
			switch rng.Intn(6) {
			case 0: // remove only
				blk = append(blk, fmt.Sprintf("R,%s,%s,%s", hx(t), hx(gone[0]), hx(gone[1])))
				in, out = append(append([][2][]byte{}, in[:j]...), in[j+1:]...), append(out, gone)
			case 1: // append only
				blk = append(blk, fmt.Sprintf("A,%s,%s,%s", hx(t), hx(come[0]), hx(come[1])))
				in, out = append(in, come), out[1:]
			default: // one out, one in (in either order)
				r, a := fmt.Sprintf("R%s,%s,%s,%s", []string{"", "S"}[rng.Intn(2)], hx(t), hx(gone[0]), hx(gone[1])), fmt.Sprintf("A%s,%s,%s,%s", []string{"", "S"}[rng.Intn(2)], hx(t), hx(come[0]), hx(come[1]))
				if rng.Intn(3) == 0 {
					blk = append(blk, a, r)
				} else {
					blk = append(blk, r, a)
				}
				in = append(append(append([][2][]byte{}, in[:j]...), in[j+1:]...), come)
				out = append(out[1:], gone)
			}
			if len(in) < 2 {
				break
			}
			blk = append(blk, fmt.Sprintf("B,%d", rng.Intn(4)))
		}
		// in front of, behind or inside the random history
		at := []int{0, len(ops), rng.Intn(len(ops) + 1)}[rng.Intn(3)]
		all := append(append(append([]interface{}{}, ops[:at]...), blk...), ops[at:]...)
		h["ops"] = append(all, fmt.Sprintf("B,%d", (i/4)%4), "E")
		h["observe"] = "lazy"
		historyShrunk(c, h, "C07")
	}
}

func c08Eval(c *Ctx, cs Case) { streamEval(c, cs, "C08") }

func putU32(b []byte, off int, v uint32) []byte {
	o := append([]byte{}, b...)
	if off+4 <= len(o) {
		binary.LittleEndian.PutUint32(o[off:], v)
	}
	return o
}

func c08Gen(c *Ctx) {
	emit := func(cls string, b []byte) {
		streamEval(c, Case{"op": "stream", "class": cls, "bytes": hx(b)}, "C08")
	}
	emitFault := func(cs Case) { streamEval(c, cs, "C08") }
	for i, b := range fixtureStreams(c) {
		faultCases(c, b, i, emitFault)
	}
	for _, b := range fixtureStreams(c) {
		emit("fixture", b)
		for _, cut := range []int{1, 15, 16, 20, 24, 27, 28, 29, 44, len(b) - 1, len(b) - 16, len(b) / 2} {
			if cut > 0 && cut < len(b) {
				emit("fixture-cut", b[:cut])
			}
		}
	}
	n := c.N(120, 4000)
	for i := 0; i < n && c.NFailures() < 8; i++ {
		maxL := 3
		ls, b := genStream(c, true, maxL)
		if len(ls) == 0 {
			emit("wf/empty", b)
			faultCases(c, b, i, emitFault)
			continue
		}
		// keep lists small so that every truncation point can be tried
		if len(b) > c.P(700, 3000) {
			continue
		}
		emit("wf", b)
		// a source that fails instead of ending: at every position of the stream
		faultCases(c, b, i, emitFault)
		// every truncation point (exhaustive)
		for cut := 1; cut < len(b); cut++ {
			emit("truncated", b[:cut])
		}
		// field sweeps on the last list
		lastOff := len(b) - len(ls[len(ls)-1].enc())
		last := ls[len(ls)-1]
		exact := uint32(28 + len(last.hdr) + len(last.sigs)*last.size)
		vals := []uint32{0, 1, 15, 16, 17, 27, 28, 29, exact - 1, exact + 1, exact + uint32(last.size), 2 * exact, 1 << 31, 0xffffffff, uint32(last.size), uint32(last.size) - 1, uint32(last.size) + 1}
		for _, v := range vals {
			emit("sweep/listsize", putU32(b, lastOff+16, v))
			emit("sweep/hdrsize", putU32(b, lastOff+20, v))
			if v >= 16 || i%8 == 0 { // sizes below 16 cost a 4 GiB allocation on an unrepaired tree: sample them
				emit("sweep/sigsize", putU32(b, lastOff+24, v))
			}
		}
		// trailing garbage and a following header prefix
		for _, g := range []int{1, 2, 15, 16, 17, 27, 28, 40} {
			emit("trailing-garbage", append(append([]byte{}, b...), randBytes(c, g)...))
			emit("trailing-zeros", append(append([]byte{}, b...), make([]byte, g)...))
		}
		nl := genWFList(c, true).enc()
		for _, p := range []int{16, 20, 24, 28} {
			if p <= len(nl) {
				emit("valid+header-prefix", append(append([]byte{}, b...), nl[:p]...))
			}
		}
		// unsupported types and non-empty headers
		nh, nb := genStream(c, false, 2)
		if len(nh) > 0 {
			emit("unsupported-or-header", append(append([]byte{}, b...), nb...))
		}
		// byte-level mutation
		m := append([]byte{}, b...)
		m[c.Rng.Intn(len(m))] ^= byte(1 << uint(c.Rng.Intn(8)))
		emit("bitflip", m)
	}
	// long lists, large bodies, list boundaries at powers of two (streams given by a description)
	layoutCases(c, "C08")
	// generators of their own, so that the cases above stay what they were
	sub := &Ctx{Rng: mrand.New(mrand.NewSource(c.Seed*15485863 + 5 + int64(c.Shard)*1000003)), Thorough: c.Thorough}
	// lists WITHOUT entries (ListSize = 28 + HeaderSize): the size equation holds for every SignatureSize, so
	// only the explicit bounds of the statement (at least 16; exactly 48 for SHA-256) decide. Every type, every
	// SignatureSize in 0..17 and around the fixed sizes, alone, in front of, behind and between well-formed lists.
	for ti, typ := range [][]byte{tX509, tSHA256, tEXT, tSHA1, tUnknown} {
		for _, hdr := range [][]byte{nil, {0xAB, 0xCD, 0xEF}} {
			if hdr != nil && ti > 0 {
				continue
			}
			for _, size := range []int{0, 1, 2, 3, 4, 5, 6, 7, 8, 9, 10, 11, 12, 13, 14, 15, 16, 17, 18, 27, 28, 47, 48, 49, 1 << 16, 1<<31 - 1, 1 << 31, 1<<32 - 1} {
				if c.NFailures() >= 8 {
					return
				}
				if !c.Mine(size) {
					continue
				}
				e := encodeList(typ, hdr, size, nil)
				w1, w2 := genWFList(sub, true).enc(), genWFList(sub, true).enc()
				emit("no-entries/alone", e)
				emit("no-entries/first", append(append([]byte{}, e...), w1...))
				emit("no-entries/last", append(append([]byte{}, w1...), e...))
				emit("no-entries/between", append(append(append([]byte{}, w1...), e...), w2...))
				emit("no-entries/twice", append(append([]byte{}, e...), e...))
			}
		}
	}
	// entries of the classes random bytes never produce (one entry several times in a list, PEM-shaped
	// certificate bytes, equal data under different owners, all-zero entries): accepted only as exactly the
	// lists the layout defines - not as a shorter, de-duplicated or re-coded database - and every truncation
	for i := 0; i < c.N(80, 4000) && c.NFailures() < 8; i++ {
		kind := entryClasses[i%len(entryClasses)]
		b := genEntryClassStream(sub, kind)
		emit("wf/entries-"+kind, b)
		stride := 1
		if len(b) > c.P(200, 3000) {
			stride = len(b)/c.P(24, 400) + 1
		}
		for cut := 1 + sub.Rng.Intn(stride); cut < len(b); cut += stride {
			emit("truncated/entries-"+kind, b[:cut])
		}
	}
	c08HeaderAndShortLists(c, emit)
}

// c08HeaderAndShortLists: two classes of field values in which the three size fields have to be read TOGETHER,
// each list standing in front of further data - so that a decoder that miscounts does not simply run into the end
// of the input (which is an error by itself) but takes bytes that belong to what follows:
//
// HEADER / DATA-BEHIND: lists of every type (three X.509 sizes) with 0..2 entries and a HeaderSize from a sweep
// around the multiples of the list's SignatureSize (1, 15, 16, 28, 100, Size-1, Size, Size+1, 2xSize, 2xSize+1,
// 3xSize) - both as a list that really carries a header of that many bytes (ListSize counts it) and as a header-less
// list whose HeaderSize field alone is set (ListSize unchanged, so the header eats entries) - followed by nothing, by
// exactly HeaderSize bytes that are no list, by HeaderSize + SignatureSize such bytes, by HeaderSize + 28 zero bytes,
// by one well-formed list and by two (at least HeaderSize bytes long). The size equation of the statement counts the
// header: a decoder that reads it and still takes ListSize - 28 bytes of entries cuts HeaderSize / SignatureSize
// entries out of the bytes BEHIND the list.
//
// SHORT: headers whose ListSize is below 28 (every value 0..27) crossed with every SignatureSize 16..64, for every
// type, alone, in front of a well-formed list and between two (quick tier: one of the three positions per
// combination, rotating; thorough: all three, and HeaderSize 4 and 16 besides 0). ListSize - 28 - HeaderSize is
// negative for all of them: no count of signatures satisfies the equation, whatever the remainder of a division says.
func c08HeaderAndShortLists(c *Ctx, emit func(cls string, b []byte)) {
	// a generator of its own, so that the cases above stay what they were
	sub := &Ctx{Rng: mrand.New(mrand.NewSource(c.Seed*86028121 + 17 + int64(c.Shard)*1000003)), Thorough: c.Thorough}
	cat := func(xs ...[]byte) []byte {
		var o []byte
		for _, x := range xs {
			o = append(o, x...)
		}
		return o
	}
	// one or more well-formed lists of handled types, at least n bytes long
	wfAtLeast := func(n, lists int) []byte {
		var o []byte
		for k := 0; k < lists || len(o) < n; k++ {
			l := genList{typ: tSHA256, size: 48}
			switch sub.Rng.Intn(3) {
			case 1:
				l.typ, l.size = tX509, 16+[]int{1, 17, 40, 100}[sub.Rng.Intn(4)]
			case 2:
				l.typ, l.size = tEXT, 17
			}
			for e := 1 + sub.Rng.Intn(2); e > 0; e-- {
				l.sigs = append(l.sigs, [2][]byte{randBytes(sub, 16), randBytes(sub, l.size-16)})
			}
			o = append(o, l.enc()...)
		}
		return o
	}
	noList := func(n int) []byte { // n bytes that are no list: a SignatureSize field of zero, if there is room for one
		g := randBytes(sub, n)
		if n > 0 {
			g[0] |= 1
		}
		for i := 24; i < 28 && i < n; i++ {
			g[i] = 0
		}
		return g
	}
	type ts struct {
		typ  []byte
		size int
	}
	idx := 0
	for _, t := range []ts{{tX509, 17}, {tX509, 33}, {tX509, 56}, {tSHA256, 48}, {tEXT, 17}, {tSHA1, 36}, {tUnknown, 20}} {
		for nsig := 0; nsig <= 2; nsig++ {
			for _, hs := range []int{1, 15, 16, 28, 100, t.size - 1, t.size, t.size + 1, 2 * t.size, 2*t.size + 1, 3 * t.size} {
				if idx++; !c.Mine(idx) {
					continue
				}
				if c.NFailures() >= 8 {
					return
				}
				var sigs [][2][]byte
				for k := 0; k < nsig; k++ {
					sigs = append(sigs, [2][]byte{randBytes(sub, 16), randBytes(sub, t.size-16)})
				}
				declared := encodeList(t.typ, randBytes(sub, hs), t.size, sigs)
				fieldOnly := putU32(encodeList(t.typ, nil, t.size, sigs), 20, uint32(hs))
				for vi, l := range [][]byte{declared, fieldOnly} {
					cls := "header/" + []string{"declared", "field-only"}[vi]
					emit(cls+"/alone", l)
					emit(cls+"/+HeaderSize-bytes", cat(l, noList(hs)))
					emit(cls+"/+HeaderSize+Size-bytes", cat(l, noList(hs+t.size)))
					emit(cls+"/+zeros", cat(l, make([]byte, hs+28)))
					emit(cls+"/+list", cat(l, wfAtLeast(hs, 1)))
					emit(cls+"/+lists", cat(l, wfAtLeast(hs, 2)))
				}
			}
		}
	}
	hss := []int{0}
	if c.Thorough {
		hss = []int{0, 4, 16}
	}
	for ti, typ := range [][]byte{tX509, tSHA256, tEXT, tSHA1, tUnknown} {
		for ls := 0; ls < 28; ls++ {
			for size := 16; size <= 64; size++ {
				if idx++; !c.Mine(idx) {
					continue
				}
				if c.NFailures() >= 8 {
					return
				}
				for _, hs := range hss {
					h := make([]byte, 28)
					copy(h, typ)
					binary.LittleEndian.PutUint32(h[16:], uint32(ls))
					binary.LittleEndian.PutUint32(h[20:], uint32(hs))
					binary.LittleEndian.PutUint32(h[24:], uint32(size))
					for pos := 0; pos < 3; pos++ {
						if !c.Thorough && pos != (ls*7+size+ti)%3 {
							continue
						}
						switch pos {
						case 0:
							emit("listsize-below-28/alone", h)
						case 1:
							emit("listsize-below-28/first", cat(h, wfAtLeast(0, 1)))
						default:
							emit("listsize-below-28/between", cat(wfAtLeast(0, 1), h, wfAtLeast(0, 1)))
						}
					}
				}
			}
		}
	}
}

func init() {
	register("C07", &PropDef{
		Rule:   "well-formed streams: 0..6 (thorough 12) lists over X.509 (any certificate size, 0-5 entries), SHA-256 (up to 40 entries), externally-managed, plus valid-but-undecodable / unknown / headered lists in a quarter of the streams; the .esl files and captured variables of the repository; databases built by random append/remove/append-list histories and then encoded and decoded, two thirds of them starting with a list that holds one entry more than once (decoded [A,B,A] / [a,b,a,a], or built by SignatureList.AppendBytes from the DER and the PEM form of one certificate) or with PEM handed to the list-level API, followed by removals of that entry; and list-level appends to decoded lists that hold no entry but carry a signature size; one sixth of the histories start with an EXTERNALLY-MANAGED list built by the database-level Append or by the list-level AppendBytes + AppendList from a one-byte value (the only well-formed size) and a value of 0, 2 or 32 bytes in either order, encoded and decoded after every step, and the random histories use that type with the same five values (F37). Oracle on every encode-decode step: when all lists of the built database are of the types the decoder handles (X.509, SHA-256, externally-managed) the library's own decoder must accept the encoding, and the decoded database must encode to the same bytes (an equal database). Every stream is decoded through a bytes.Reader, a bytes.Buffer, a one-byte-at-a-time reader, a data-with-EOF reader or a half-count reader (chosen by a checksum of the input) over a private copy that is overwritten before the decoded database is inspected. SIZE CLASSES (streams kept in the case as a description - layout and salt - and built when evaluated; all entries pseudo-random and different, so every decoded entry is held against its own bytes of the input and the first differing entry is named): SHA-256, X.509 and externally-managed lists with 127 / 128 / 129 / 256 / 257 / 260 / 385 / 512 / 1023 entries (counts around powers of two, where a decoder that reads entries in batches changes its path), ONE list whose body exceeds 64 KiB (1366, 1365+1366, 2200 SHA-256 entries; 4 certificates of 20 000 bytes, 3 of 40 000, 2 of exactly 64 KiB, of 64 KiB + 1 and of 90 000 bytes); LIST BOUNDARIES AT POWERS OF TWO: streams in which a list ends exactly at offset 2^12, 2^16 and 2^20 (a stream longer than 1 MiB; thorough: 2^8..2^22, 2^24), followed by a further list or lists (which must be decoded), by nothing, by bytes that are no list or by a cut-off header (an error, never a shorter database). Streams above 100 KiB are judged against the harness's own walk of the stream (walkSpec, written from the layout in the statement); on every smaller stream the Lean Spec codec is asked as well and the two must agree (a disagreement is a tie failure). ENTRY CLASSES that random bytes never produce (240 streams, a list of the class among 0..2 ordinary ones): one owner+data entry two or more times in a list (adjacent or apart), X.509 entries whose bytes are PEM text (distinct or repeated), equal data under different owners / one owner with different data, all-zero entries. READERS THAT FAIL: the fixtures and 60 generated well-formed streams are decoded through a reader that delivers the first k bytes and then fails with a non-EOF error (I/O error, closed file, deadline, closed pipe; the error arriving after or together with the last bytes) for k = 0, every boundary between two lists and the end of the stream (all kinds, both modes) and seven positions inside every list; oracle: a nil error only together with exactly the lists of the whole stream - a failure must not be taken for the end of the database. SEVERAL DECODERS AT THE SAME TIME (120 groups of 2 or 3 streams, two thirds of them of one layout with other owners and data): each stream is decoded on its own goroutine through a reader that parks inside Read - before it touches the destination, or after the bytes are in place but before Read returns - and hands control to the next decoder following a switch plan that is part of the case (every parking point, every 2nd / 3rd, mixed, random; full reads, 1- and 5-byte reads), so exactly one goroutine runs at a time and every run is deterministic; oracle: every call returns what the same call through the same reader returns alone. ENTRY POINTS: on every evaluated stream SignatureDatabase.Unmarshal (into a receiver that held another list; same verdict, same lists, whole buffer consumed), ReadSignatureList (the first list, exactly ListSize bytes consumed; io.EOF on empty input), Marshal into an empty buffer and into one that already holds content (that content stays, the encoding follows), WriteSignatureDatabase into a plain io.Writer and the concatenation of SignatureList.Bytes() must agree with ReadSignatureDatabase / Bytes(), so the oracles apply to them too. EDITS BETWEEN TWO ENCODINGS OF ONE DATABASE OBJECT (160 histories, thorough 8000): in these the object is encoded only at the observation points of the history - operation B (Bytes / Marshal / WriteSignatureDatabase / the lists' own Bytes(), rotating; the object stays in use) after about every third operation and operation E - and is only edited between them (the harness takes its own view from the exported fields of the lists instead of calling Bytes() after every step); each history also holds a REPLACEMENT block on one list of a handled type (SHA-256, X.509, externally-managed): 2..4 entries of one size appended, the database encoded, then 1..3 times an entry removed and another entry of the same type and size appended (either order; so the list is exactly as long as at the last encoding), sometimes a removal or an append alone, the database encoded again after each; oracle at every observation: the bytes written decode (Spec codec) to exactly the lists, owners and data the object holds at that moment. The histories use, for every third append / removal / query, the entry points AppendSignature / RemoveSignature / SigDataExists. Non-trivial: non-empty stream; distinct = distinct byte strings / histories / (streams, plan) groups.",
		Assume: []string{"`handled` list types are X.509, SHA-256 (size 48) and externally-managed (size 17) with an empty header, as in the decoder's switch"},
		Eval:   c07Eval, Gen: c07Gen,
	})
	register("C08", &PropDef{
		Rule:   "near-grammar byte strings derived from generated well-formed streams of handled types: EVERY truncation point, sweeps of ListSize / HeaderSize / SignatureSize of the last list over {0,1,15,16,17,27,28,29,exact±1,+Size,2x,2^31,2^32-1,...}, trailing garbage / zeros of 1..40 bytes, a valid stream followed by the first 16/20/24/28 bytes of another list, unsupported types, single bit flips; plus the repository fixtures and cuts of them. Sources that FAIL instead of ending: every generated well-formed stream (and every fixture; positions sampled for streams above 800 bytes) is also handed to ReadSignatureDatabase and ReadSignatureList through a reader that delivers the first k bytes and then fails with a non-EOF error (I/O error, closed file, deadline exceeded, closed pipe; the error arriving after or together with the last bytes) for EVERY k in 0..len - all kinds and both modes at k = 0 and at every list boundary, where a clean end would be legitimate, the kind rotating elsewhere; oracle: the input did not end, so an error that does not match io.EOF is required and no database / list may be returned. SIZE CLASSES (streams kept in the case as a description - layout and salt - and built when evaluated; all entries pseudo-random and different, so every decoded entry is held against its own bytes of the input and the first differing entry is named): SHA-256, X.509 and externally-managed lists with 127 / 128 / 129 / 256 / 257 / 260 / 385 / 512 / 1023 entries (counts around powers of two, where a decoder that reads entries in batches changes its path), ONE list whose body exceeds 64 KiB (1366, 1365+1366, 2200 SHA-256 entries; 4 certificates of 20 000 bytes, 3 of 40 000, 2 of exactly 64 KiB, of 64 KiB + 1 and of 90 000 bytes); LIST BOUNDARIES AT POWERS OF TWO: streams in which a list ends exactly at offset 2^12, 2^16 and 2^20 (a stream longer than 1 MiB; thorough: 2^8..2^22, 2^24), followed by a further list or lists (which must be decoded), by nothing, by bytes that are no list or by a cut-off header (an error, never a shorter database). Streams above 100 KiB are judged against the harness's own walk of the stream (walkSpec, written from the layout in the statement); on every smaller stream the Lean Spec codec is asked as well and the two must agree (a disagreement is a tie failure). LISTS WITHOUT ENTRIES (ListSize = 28 + HeaderSize, where the size equation holds for any SignatureSize and only the explicit bounds decide): types X.509 (also with a 3-byte header), SHA-256, externally-managed, SHA-1, unknown x SignatureSize in 0..18, 27, 28, 47..49, 2^16, 2^31-1, 2^31, 2^32-1, each alone, twice, in front of, behind and between well-formed lists. HEADER WITH DATA BEHIND THE LIST: lists of every type (X.509 of three sizes, SHA-256, externally-managed, SHA-1, unknown) with 0..2 entries and a HeaderSize swept around the multiples of the list's SignatureSize (1, 15, 16, 28, 100, Size-1, Size, Size+1, 2xSize, 2xSize+1, 3xSize), as a list that carries a header of that many bytes (ListSize counts it) and as a header-less list whose HeaderSize field alone is set, each alone and FOLLOWED by exactly HeaderSize bytes that are no list, by HeaderSize + SignatureSize such bytes, by HeaderSize + 28 zero bytes, by one and by two well-formed lists of at least HeaderSize bytes - the size equation counts the header, so a success must return exactly the lists of the layout and may not cut entries out of the bytes behind the list. LISTSIZE BELOW 28 x SIGNATURESIZE: every ListSize 0..27 crossed with every SignatureSize 16..64 for all five types (HeaderSize 0; thorough also 4 and 16), alone, in front of a well-formed list and between two (quick: one of the three positions per combination, rotating; thorough: all three) - no count of signatures satisfies the equation, so all of them are errors, never an empty list followed by the rest of the database. ENTRY CLASSES random bytes never produce (80 streams + truncations of them): one entry several times in a list, PEM-shaped X.509 entry bytes, equal data under different owners, all-zero entries - accepted only as exactly the lists the layout defines, never as a shorter, de-duplicated or re-coded database. ENTRY POINTS: on every stream SignatureDatabase.Unmarshal (receiver that held another list) and ReadSignatureList on the first list must give the verdict / lists of ReadSignatureDatabase and consume the whole buffer / exactly ListSize bytes, and Marshal (empty destination and one holding content), WriteSignatureDatabase into a plain writer and the lists' own Bytes() must give the bytes of Bytes(). Non-trivial: non-empty; distinct = distinct byte strings (x failure position, kind, mode).",
		Assume: []string{},
		Eval:   c08Eval, Gen: c08Gen,
	})
}
