package main

import (
	"bytes"
	"encoding/binary"
	"errors"
	"fmt"
	"hash/crc32"
	"io"
	"os"
	"path/filepath"
	"strings"
	"syscall"
	"time"

	"github.com/foxboron/go-uefi/efi/signature"
	"github.com/foxboron/go-uefi/efi/util"
)

// streamEval decodes one byte string with the real decoder, the Lean Impl model and the Lean Spec.
// prop = "C07": report the inverse-on-well-formed-data oracle; prop = "C08": report the strictness oracle.
func streamEval(c *Ctx, cs Case, prop string) {
	if cs.S("fault") != "" {
		// a failing case is reduced to the bytes the reader delivered (what lies behind the failure never reaches the decoder)
		n0 := c.NFailures()
		faultEval(c, cs, prop)
		if at := int(cs.I("faultat")); c.NFailures() > n0 && at >= 0 && at < len(unhx(cs.S("bytes"))) {
			cand := Case{}
			for k, v := range cs {
				cand[k] = v
			}
			cand["bytes"] = hx(unhx(cs.S("bytes"))[:at])
			if fs := c.Probe(func(p *Ctx) { faultEval(p, cand, prop) }); len(fs) > 0 {
				c.ReplaceFailuresFrom(n0, fs)
			}
		}
		return
	}
	b := unhx(cs.S("bytes"))
	cls := cs.S("class")
	if cls == "" {
		cls = "unclassified"
	}
	var db signature.SignatureDatabase
	var err error
	t0 := time.Now()
	// the reader kind is derived from the input so that replays are exact; the source is destroyed
	// before the decoded database is looked at (no aliasing of the input)
	src := newSrcReader(readerKinds[(len(b)+int(crc32.ChecksumIEEE(b)))%len(readerKinds)], b)
	panicked, pmsg := safely(func() { db, err = signature.ReadSignatureDatabase(src.r) })
	src.clobber()
	dt := time.Since(t0)
	goObs := "err"
	var reenc []byte
	if panicked {
		goObs = "panic"
	} else if err == nil {
		reenc = db.Bytes()
		goObs = "ok " + goDbStr(db) + " reenc=" + hx(reenc)
		// an encoding that is still held is a value of its own: encoding something else must not change it
		snap := append([]byte{}, reenc...)
		safely(func() {
			o := signature.NewSignatureDatabase()
			o.Append(signature.CERT_SHA256_GUID, util.EFIGUID{Data1: 0x11111111}, bytes.Repeat([]byte{0x11}, 32))
			_ = o.Bytes()
			for _, l := range db {
				_ = l.Bytes()
			}
		})
		if !bytes.Equal(reenc, snap) {
			c.Fail(Failure{Kind: "property", What: "the bytes returned by SignatureDatabase.Bytes() changed when another database / list was encoded (the result aliases memory that is reused)", Case: cs, Go: clip(hx(reenc)), Spec: clip(hx(snap))})
			reenc = snap
		}
	}
	c.Count(cs.Key(), len(b) > 0, prop+"/"+cls+"/"+strings.SplitN(goObs, " ", 2)[0])
	c.Class("reader=" + src.kind)
	if len(b) < 200 {
		c.Sample(cs)
	}
	r := c.Drv.Ask("sigdb.read", hx(b))
	// r = "model=<...> spec=<...>"
	mi := strings.Index(r, " spec=")
	if !strings.HasPrefix(r, "model=") || mi < 0 {
		c.Fail(Failure{Kind: "tie", What: "driver answer malformed", Case: cs, Model: r})
		return
	}
	model, spec := r[len("model="):mi], r[mi+len(" spec="):]
	c.Trace()
	if model != goObs {
		c.Fail(Failure{Kind: "tie", What: "ReadSignatureDatabase: model and implementation disagree", Case: cs, Model: clip(model), Go: clip(goObs)})
	}
	c.GenTie(cs, "ReadSignatureDatabase / Bytes", model, "gen.sigdb.read", hx(b))
	fail := func(what, matcher string) {
		c.Fail(Failure{Kind: "property", Matcher: matcher, What: what, Case: cs, Go: clip(goObs), Spec: clip(spec)})
	}
	if panicked {
		fail("decoder panicked: "+pmsg, "")
		return
	}
	if dt > 3*time.Second {
		fail(fmt.Sprintf("decoding %d bytes took %v", len(b), dt), "")
	}
	specLists := []specList(nil)
	specOK := strings.HasPrefix(spec, "some ")
	if specOK {
		specLists = parseLists(spec[5:])
	}
	if prop == "C08" && err == nil {
		// success only if the whole input is well-formed lists, and exactly those lists
		if !specOK {
			fail("decoding succeeded on input that is not a well-formed sequence of signature lists", c08Matcher(b))
		} else {
			want := []string{}
			for _, l := range specLists {
				sg := []string{}
				for _, s := range l.sigs {
					sg = append(sg, s[0]+":"+s[1])
				}
				want = append(want, fmt.Sprintf("%s;%s;%s;%s;%s;%s", l.typ, l.listSize, l.hdrSize, l.size, l.hdr, strings.Join(sg, ",")))
				if l.typ == hx(tSHA256) && l.size != "48" {
					fail("a SHA-256 list with signature size != 48 was accepted", "")
				}
			}
			w := strings.Join(want, "|")
			if len(want) == 0 {
				w = "[]"
			}
			if goDbStr(db) != w {
				fail("decoded database differs from the lists the specification's layout defines", "")
			}
		}
	}
	if prop == "C07" && specOK {
		handled := true
		for _, l := range specLists {
			switch {
			case l.hdrSize != "0":
				handled = false
			case l.typ == hx(tX509):
			case l.typ == hx(tSHA256) && l.size == "48":
			case l.typ == hx(tEXT) && l.size == "17":
			default:
				handled = false
			}
		}
		if handled {
			if err != nil {
				fail("a well-formed stream of handled list types was rejected", "")
			} else {
				if !bytes.Equal(reenc, b) {
					fail("encoding the decoded database does not reproduce the input", c07Matcher(specLists))
				}
				// field-by-field
				if len(db) != len(specLists) {
					fail("decoded a different number of lists", "")
				} else {
					for i, l := range db {
						sl := specLists[i]
						if hx(wireGUID(l.SignatureType)) != sl.typ || fmt.Sprint(l.Size) != sl.size || fmt.Sprint(l.ListSize) != sl.listSize {
							fail("decoded list header differs from the specification's layout", "")
						}
						if sl.typ == hx(tEXT) {
							continue // whether externally-managed data is exposed is covered by the re-encoding check
						}
						if len(l.Signatures) != len(sl.sigs) {
							fail("decoded a different number of signatures", "")
							continue
						}
						for j, s := range l.Signatures {
							if hx(wireGUID(s.Owner)) != sl.sigs[j][0] || hx(s.Data) != sl.sigs[j][1] {
								fail("decoded owner/data differ from the specification's layout", "")
							}
						}
					}
				}
			}
		}
	}
}

// ---- sources that fail ----
//
// The inputs of the property reach the decoder through an io.Reader, and a reader has a third way to
// stop besides "more data" and io.EOF: it fails (I/O error, closed file, deadline, broken pipe). Then
// the input has NOT ended: whatever was delivered so far is not "the whole input consumed as
// well-formed lists", so decoding must report an error - at every position, also exactly between two
// lists and before the first byte, where a clean end of input would be legitimate.

var faultKinds = []string{"io-error", "closed", "timeout", "broken-pipe"}
var faultModes = []string{"after-data", "with-data"}

func faultErr(kind string) error {
	switch kind {
	case "closed":
		return os.ErrClosed
	case "timeout":
		return os.ErrDeadlineExceeded
	case "broken-pipe":
		return io.ErrClosedPipe
	}
	return &os.PathError{Op: "read", Path: "db", Err: syscall.EIO}
}

// faultReader delivers data and then fails with err on every further call; withData: the call that
// delivers the last bytes already returns err (both are behaviours io.Reader permits)
type faultReader struct {
	data     []byte
	pos      int
	err      error
	withData bool
	hit      bool // the failure was handed to the caller
}

func (r *faultReader) Read(p []byte) (int, error) {
	if len(p) == 0 {
		return 0, nil
	}
	if r.pos >= len(r.data) {
		r.hit = true
		return 0, r.err
	}
	n := copy(p, r.data[r.pos:])
	r.pos += n
	if r.withData && r.pos == len(r.data) {
		r.hit = true
		return n, r.err
	}
	return n, nil
}

func faultEval(c *Ctx, cs Case, prop string) {
	b := unhx(cs.S("bytes"))
	at := int(cs.I("faultat"))
	if at < 0 || at > len(b) {
		return
	}
	kind, mode := cs.S("fault"), cs.S("faultmode")
	mk := func() *faultReader {
		return &faultReader{data: append([]byte{}, b[:at]...), err: faultErr(kind), withData: mode == "with-data"}
	}
	scribble := func(r *faultReader) {
		for i := range r.data {
			r.data[i] = 0xEE
		}
	}
	fail := func(what, goObs string) {
		c.Fail(Failure{Kind: "property", What: what, Case: cs, Go: clip(goObs),
			Spec: fmt.Sprintf("an error: the reader failed (%v) after delivering %d of %d bytes, the input did not end", faultErr(kind), at, len(b))})
	}
	// the whole database
	r := mk()
	var db signature.SignatureDatabase
	var err error
	panicked, pmsg := safely(func() { db, err = signature.ReadSignatureDatabase(r) })
	scribble(r)
	obs := "err"
	switch {
	case panicked:
		obs = "panic"
	case err == nil:
		obs = "ok"
	}
	c.Count(cs.Key(), len(b) > 0, prop+"/read-fault/"+kind+"/"+mode+"/"+obs)
	switch {
	case panicked:
		fail("decoder panicked: "+pmsg, "panic")
	case err == nil:
		fail(fmt.Sprintf("ReadSignatureDatabase returned a database of %d list(s) and no error although its reader failed: a read failure was taken for the end of the database", len(db)), "ok "+goDbStr(db))
	case r.hit && errors.Is(err, io.EOF):
		fail("ReadSignatureDatabase reports a failed read as an error matching io.EOF (the end-of-input signal)", "err "+err.Error())
	}
	// the single-list entry point: io.EOF is its "no more lists" answer and must not be given for a failed read
	r = mk()
	var l *signature.SignatureList
	panicked, pmsg = safely(func() { l, err = signature.ReadSignatureList(r) })
	scribble(r)
	switch {
	case panicked:
		fail("ReadSignatureList panicked: "+pmsg, "panic")
	case r.hit && err != nil && errors.Is(err, io.EOF):
		fail("ReadSignatureList answers io.EOF (no more lists) although its reader failed", "err "+err.Error())
	case r.hit && err == nil && !(mode == "with-data" && r.pos == len(r.data) && l != nil && int(l.ListSize) == at):
		// the failure reached the decoder while it was reading this list: only a list that was
		// complete with the very call that carried the failure may be returned
		fail("ReadSignatureList returned a list and no error although the reader failed while the list was read", "ok "+goListStr(l))
	}
}

// listBoundaries walks the ListSize fields of a stream (independent of the library): offsets at which a list starts or the stream ends
func listBoundaries(b []byte) []int {
	out := []int{0}
	off := 0
	for off+28 <= len(b) {
		ls := int(binary.LittleEndian.Uint32(b[off+16:]))
		if ls < 28 || off+ls > len(b) {
			break
		}
		off += ls
		out = append(out, off)
	}
	return out
}

// faultCases emits, for one stream, a failing reader at every list boundary (all failure kinds, both
// delivery modes) and at the other positions (every one, or a sample of them for long streams) with the kind rotating
func faultCases(c *Ctx, b []byte, salt int, emit func(Case)) {
	isB := map[int]bool{}
	if c.NFailures() >= 8 {
		return
	}
	for _, o := range listBoundaries(b) {
		isB[o] = true
		for _, k := range faultKinds {
			for _, m := range faultModes {
				emit(Case{"op": "stream", "class": "read-fault/boundary", "bytes": hx(b), "fault": k, "faultmode": m, "faultat": int64(o)})
			}
		}
	}
	stride := 1
	if len(b) > c.P(800, 4000) {
		stride = len(b)/c.P(400, 2000) + 1
	}
	for at := 0; at <= len(b); at += stride {
		if !isB[at] {
			emit(Case{"op": "stream", "class": "read-fault/inside", "bytes": hx(b), "fault": faultKinds[(at+salt)%len(faultKinds)],
				"faultmode": faultModes[(at/len(faultKinds)+salt)%len(faultModes)], "faultat": int64(at)})
		}
	}
}

func clip(s string) string {
	if len(s) > 600 {
		return s[:600] + "…"
	}
	return s
}

func c07Matcher(ls []specList) string {
	for _, l := range ls {
		if l.typ == hx(tEXT) {
			return "c07.external_management_data_dropped"
		}
	}
	return ""
}

func c08Matcher(b []byte) string { return "" }

// ---- generators ----

func randBytes(c *Ctx, n int) []byte {
	b := make([]byte, n)
	c.Rng.Read(b)
	return b
}

type genList struct {
	typ  []byte
	hdr  []byte
	size int
	sigs [][2][]byte
}

func (l genList) enc() []byte { return encodeList(l.typ, l.hdr, l.size, l.sigs) }

func genWFList(c *Ctx, handledOnly bool) genList {
	k := c.Rng.Intn(10)
	var l genList
	nsig := []int{0, 1, 1, 2, 3, 5}[c.Rng.Intn(6)]
	switch {
	case k < 4:
		l.typ, l.size = tX509, 16+[]int{1, 17, 100, 700, 1500, c.Rng.Intn(2000) + 1}[c.Rng.Intn(6)]
	case k < 7:
		l.typ, l.size = tSHA256, 48
		if c.Rng.Intn(3) == 0 {
			nsig = 1 + c.Rng.Intn(40)
		}
	case k < 8:
		l.typ, l.size = tEXT, 17
	default:
		if handledOnly {
			l.typ, l.size = tX509, 16+c.Rng.Intn(64)
		} else {
			switch c.Rng.Intn(4) {
			case 0:
				l.typ, l.size = tSHA1, 36
			case 1:
				l.typ, l.size = tUnknown, 16+c.Rng.Intn(40)
			case 2:
				l.typ, l.size, l.hdr = tX509, 16+c.Rng.Intn(40), randBytes(c, 1+c.Rng.Intn(8)) // non-empty header
			case 3:
				l.typ, l.size = tSHA256, 16+c.Rng.Intn(64) // wrong size for SHA-256
			}
		}
	}
	for i := 0; i < nsig; i++ {
		l.sigs = append(l.sigs, [2][]byte{randBytes(c, 16), randBytes(c, l.size-16)})
	}
	return l
}

func genStream(c *Ctx, handledOnly bool, maxLists int) ([]genList, []byte) {
	n := c.Rng.Intn(maxLists + 1)
	var ls []genList
	var b []byte
	for i := 0; i < n; i++ {
		l := genWFList(c, handledOnly)
		ls = append(ls, l)
		b = append(b, l.enc()...)
	}
	return ls, b
}

func fixtureStreams(c *Ctx) [][]byte {
	var out [][]byte
	// captured variables (4-byte attribute prefix) and .esl files shipped with the repository
	pats := []string{"efi/signature/testdata/*.esl", "tests/data/signatures/*/*.esl", "tests/ovmf/keys/*/*.esl", "efi/efitest/testdata/*/*"}
	for _, p := range pats {
		ms, _ := filepath.Glob(filepath.Join(c.RepoDir, p))
		for _, m := range ms {
			base := filepath.Base(m)
			b, err := os.ReadFile(m)
			if err != nil || len(b) == 0 {
				continue
			}
			if strings.HasSuffix(m, ".esl") {
				out = append(out, b)
			} else if strings.HasPrefix(base, "db-") || strings.HasPrefix(base, "dbx-") || strings.HasPrefix(base, "KEK-") || strings.HasPrefix(base, "PK-") ||
				strings.HasPrefix(base, "dbDefault-") || strings.HasPrefix(base, "dbxDefault-") || strings.HasPrefix(base, "KEKDefault-") || strings.HasPrefix(base, "PKDefault-") {
				if len(b) > 4 {
					out = append(out, b[4:])
				}
			}
		}
	}
	return out
}

func c07Eval(c *Ctx, cs Case) {
	if cs.S("op") == "history" {
		historyShrunk(c, cs, "C07")
		return
	}
	streamEval(c, cs, "C07")
}

func c07Gen(c *Ctx) {
	fx := fixtureStreams(c)
	c.Note("fixture_streams", len(fx))
	for _, b := range fx {
		streamEval(c, Case{"op": "stream", "class": "fixture", "bytes": hx(b)}, "C07")
	}
	for i := 0; i < c.N(1500, 60000); i++ {
		ls, b := genStream(c, c.Rng.Intn(4) != 0, c.P(6, 12))
		cls := fmt.Sprintf("wf/%dlists", len(ls))
		for _, l := range ls {
			if bytes.Equal(l.typ, tEXT) {
				cls += "+ext"
				break
			}
		}
		streamEval(c, Case{"op": "stream", "class": cls, "bytes": hx(b)}, "C07")
		if c.NFailures() >= 8 {
			return
		}
	}
	// databases built through the library's own operations
	u := newC09Universe(c)
	for i := 0; i < c.N(500, 20000); i++ {
		h := genHistory(c, u, c.P(10, 30))
		ops := h["ops"].([]interface{})
		// C07 also reaches what C09 deliberately leaves out: lists holding one entry more than once
		// (decoded, or built through the list-level API from the DER and the PEM form of one
		// certificate) and PEM handed to SignatureList.AppendBytes directly
		o0, o1 := hx(u.owners[0]), hx(u.owners[1])
		var pre []interface{}
		switch i % 6 {
		case 1:
			pre = []interface{}{fmt.Sprintf("LM,%s,%s", hx(tX509), o0+":"+hx(u.data[5])), "E"}
		case 2:
			pre = []interface{}{fmt.Sprintf("LM,%s,%s", hx(tX509), o0+":"+hx(u.data[4])+"+"+o0+":"+hx(u.data[5])+"+"+o1+":"+hx(u.data[6])), "E",
				fmt.Sprintf("R,%s,%s,%s", hx(tX509), o0, hx(u.data[4])), "E"}
		case 3:
			h["start"] = hx(encodeList(tSHA256, nil, 48, [][2][]byte{{u.owners[0], u.data[0]}, {u.owners[1], u.data[1]}, {u.owners[0], u.data[0]}}))
			pre = []interface{}{fmt.Sprintf("R,%s,%s,%s", hx(tSHA256), o0, hx(u.data[0])), "E"}
		case 4:
			h["start"] = hx(encodeList(tX509, nil, len(u.data[4])+16, [][2][]byte{{u.owners[0], u.data[4]}, {u.owners[0], u.data[6]}, {u.owners[0], u.data[4]}, {u.owners[0], u.data[4]}}))
			pre = []interface{}{fmt.Sprintf("R,%s,%s,%s", hx(tX509), o0, hx(u.data[4])), "E", fmt.Sprintf("R,%s,%s,%s", hx(tX509), o0, hx(u.data[4])), "E"}
		}
		if i%12 == 11 {
			// decoded lists without entries keep their SignatureSize; list-level appends to them
			// (matching and not matching that size) must keep the size fields consistent
			h["start"] = hx(append(encodeList(tSHA256, nil, 48, nil), encodeList(tX509, nil, 100, nil)...))
			pre = []interface{}{fmt.Sprintf("LA,0,%s:%s", o0, hx(u.data[0])), "E", fmt.Sprintf("LA,1,%s:%s", o1, hx(u.data[4])), "E",
				fmt.Sprintf("LA,1,%s:%s", o0, hx(u.data[6])), "E"}
		}
		if i%12 == 5 {
			pre = []interface{}{fmt.Sprintf("LM,%s,-", hx([][]byte{tSHA256, tX509}[(i/12)%2])), "E"} // known finding F20
		}
		ops = append(pre, ops...)
		h["ops"] = append(ops, "E")
		historyShrunk(c, h, "C07")
		if c.NFailures() >= 8 {
			return
		}
	}
}

func c08Eval(c *Ctx, cs Case) { streamEval(c, cs, "C08") }

func putU32(b []byte, off int, v uint32) []byte {
	o := append([]byte{}, b...)
	if off+4 <= len(o) {
		binary.LittleEndian.PutUint32(o[off:], v)
	}
	return o
}

func c08Gen(c *Ctx) {
	emit := func(cls string, b []byte) {
		streamEval(c, Case{"op": "stream", "class": cls, "bytes": hx(b)}, "C08")
	}
	emitFault := func(cs Case) { streamEval(c, cs, "C08") }
	for i, b := range fixtureStreams(c) {
		faultCases(c, b, i, emitFault)
	}
	for _, b := range fixtureStreams(c) {
		emit("fixture", b)
		for _, cut := range []int{1, 15, 16, 20, 24, 27, 28, 29, 44, len(b) - 1, len(b) - 16, len(b) / 2} {
			if cut > 0 && cut < len(b) {
				emit("fixture-cut", b[:cut])
			}
		}
	}
	n := c.N(120, 4000)
	for i := 0; i < n && c.NFailures() < 8; i++ {
		maxL := 3
		ls, b := genStream(c, true, maxL)
		if len(ls) == 0 {
			emit("wf/empty", b)
			faultCases(c, b, i, emitFault)
			continue
		}
		// keep lists small so that every truncation point can be tried
		if len(b) > c.P(700, 3000) {
			continue
		}
		emit("wf", b)
		// a source that fails instead of ending: at every position of the stream
		faultCases(c, b, i, emitFault)
		// every truncation point (exhaustive)
		for cut := 1; cut < len(b); cut++ {
			emit("truncated", b[:cut])
		}
		// field sweeps on the last list
		lastOff := len(b) - len(ls[len(ls)-1].enc())
		last := ls[len(ls)-1]
		exact := uint32(28 + len(last.hdr) + len(last.sigs)*last.size)
		vals := []uint32{0, 1, 15, 16, 17, 27, 28, 29, exact - 1, exact + 1, exact + uint32(last.size), 2 * exact, 1 << 31, 0xffffffff, uint32(last.size), uint32(last.size) - 1, uint32(last.size) + 1}
		for _, v := range vals {
			emit("sweep/listsize", putU32(b, lastOff+16, v))
			emit("sweep/hdrsize", putU32(b, lastOff+20, v))
			if v >= 16 || i%8 == 0 { // sizes below 16 cost a 4 GiB allocation on an unrepaired tree: sample them
				emit("sweep/sigsize", putU32(b, lastOff+24, v))
			}
		}
		// trailing garbage and a following header prefix
		for _, g := range []int{1, 2, 15, 16, 17, 27, 28, 40} {
			emit("trailing-garbage", append(append([]byte{}, b...), randBytes(c, g)...))
			emit("trailing-zeros", append(append([]byte{}, b...), make([]byte, g)...))
		}
		nl := genWFList(c, true).enc()
		for _, p := range []int{16, 20, 24, 28} {
			if p <= len(nl) {
				emit("valid+header-prefix", append(append([]byte{}, b...), nl[:p]...))
			}
		}
		// unsupported types and non-empty headers
		nh, nb := genStream(c, false, 2)
		if len(nh) > 0 {
			emit("unsupported-or-header", append(append([]byte{}, b...), nb...))
		}
		// byte-level mutation
		m := append([]byte{}, b...)
		m[c.Rng.Intn(len(m))] ^= byte(1 << uint(c.Rng.Intn(8)))
		emit("bitflip", m)
	}
}

func init() {
	register("C07", &PropDef{
		Rule:   "well-formed streams: 0..6 (thorough 12) lists over X.509 (any certificate size, 0-5 entries), SHA-256 (up to 40 entries), externally-managed, plus valid-but-undecodable / unknown / headered lists in a quarter of the streams; the .esl files and captured variables of the repository; databases built by random append/remove/append-list histories and then encoded and decoded, two thirds of them starting with a list that holds one entry more than once (decoded [A,B,A] / [a,b,a,a], or built by SignatureList.AppendBytes from the DER and the PEM form of one certificate) or with PEM handed to the list-level API, followed by removals of that entry; and list-level appends to decoded lists that hold no entry but carry a signature size. Every stream is decoded through a bytes.Reader, a bytes.Buffer, a one-byte-at-a-time reader, a data-with-EOF reader or a half-count reader (chosen by a checksum of the input) over a private copy that is overwritten before the decoded database is inspected. Non-trivial: non-empty stream; distinct = distinct byte strings / histories.",
		Assume: []string{"`handled` list types are X.509, SHA-256 (size 48) and externally-managed (size 17) with an empty header, as in the decoder's switch"},
		Eval:   c07Eval, Gen: c07Gen,
	})
	register("C08", &PropDef{
		Rule:   "near-grammar byte strings derived from generated well-formed streams of handled types: EVERY truncation point, sweeps of ListSize / HeaderSize / SignatureSize of the last list over {0,1,15,16,17,27,28,29,exact±1,+Size,2x,2^31,2^32-1,...}, trailing garbage / zeros of 1..40 bytes, a valid stream followed by the first 16/20/24/28 bytes of another list, unsupported types, single bit flips; plus the repository fixtures and cuts of them. Sources that FAIL instead of ending: every generated well-formed stream (and every fixture; positions sampled for streams above 800 bytes) is also handed to ReadSignatureDatabase and ReadSignatureList through a reader that delivers the first k bytes and then fails with a non-EOF error (I/O error, closed file, deadline exceeded, closed pipe; the error arriving after or together with the last bytes) for EVERY k in 0..len - all kinds and both modes at k = 0 and at every list boundary, where a clean end would be legitimate, the kind rotating elsewhere; oracle: the input did not end, so an error that does not match io.EOF is required and no database / list may be returned. Non-trivial: non-empty; distinct = distinct byte strings (x failure position, kind, mode).",
		Assume: []string{},
		Eval:   c08Eval, Gen: c08Gen,
	})
}
