package main

import (
	"bytes"
	"crypto"
	"crypto/rand"
	"crypto/rsa"
	_ "crypto/sha1"
	"crypto/sha256"
	_ "crypto/sha512"
	"crypto/x509"
	"encoding/asn1"
	"encoding/pem"
	"fmt"
	"math/big"
	"os"
	"os/exec"
	"path/filepath"
	"sort"
	"strings"
	"time"

	"crypto/x509/pkix"
)

// OpenSSL-produced blobs (only when the CLI exists; the evidence says which legs ran)
func opensslSeeds(c *Ctx) []p7Seed {
	ossl := opensslPath()
	if ossl == "" {
		c.Note("openssl", "not found: OpenSSL legs skipped")
		return nil
	}
	dir, err := os.MkdirTemp("", "vcheck-ossl")
	if err != nil {
		return nil
	}
	defer os.RemoveAll(dir)
	k1 := poolKey(c, 2048, 1)
	sh := certShapes(c)[1]
	os.WriteFile(filepath.Join(dir, "content.bin"), []byte("content signed by openssl\n"), 0o644)
	var seeds []p7Seed
	ran := []string{}
	type osslCfg struct {
		bits  int
		args  []string
		shape *certShape // nil: the long-named self-signed certificate valid now
	}
	var cfgs []osslCfg
	for _, a := range [][]string{
		{"smime"}, {"smime", "-nodetach"}, {"smime", "-nosmimecap"}, {"smime", "-nocerts"}, {"smime", "-nodetach", "-nosmimecap"},
		{"cms"}, {"cms", "-nodetach"}, {"cms", "-nosmimecap"}, {"cms", "-cades"}, {"cms", "-nodetach", "-nocerts"},
	} {
		cfgs = append(cfgs, osslCfg{2048, a, nil})
	}
	// the signer's RSA key need not have a modulus of a whole number of bytes
	for _, bits := range oddModulusBits(c) {
		cfgs = append(cfgs, osslCfg{bits, []string{"smime"}, nil}, osslCfg{bits, []string{"cms", "-nodetach"}, nil})
	}
	// signer certificates that are expired, not yet valid or without a validity period when OpenSSL signs
	// (it puts the current time into signingTime and does not look at the signer's validity period)
	for i, vs := range validityShapes(time.Now(), true) {
		vs := vs
		if i == 0 || (!c.Thorough && i%2 == 0 && i != 8) {
			continue
		}
		cfgs = append(cfgs, osslCfg{2048, [][]string{{"smime"}, {"cms", "-nodetach"}, {"cms"}}[i%3], &vs})
	}
	// signer entries WITHOUT signed attributes (RFC 2315 section 9.3: the signature is over the content octets
	// directly): such blobs have to parse; the property ties success to signed attributes, so they do not verify
	for _, a := range [][]string{{"smime", "-noattr", "-nodetach"}, {"cms", "-noattr", "-nodetach"}, {"smime", "-noattr"}} {
		cfgs = append(cfgs, osslCfg{2048, a, nil})
	}
	// the certificates field present WITHOUT the signer's own certificate (the chain is shipped, the verifier holds
	// the leaf): -nocerts -certfile <the issuing CA's certificate>, signer issued by that CA; and signed attributes
	// without the optional signingTime (cms -no_signing_time; older CLIs do not know the flag: that leg is skipped)
	caShape := certShapes(c)[9]
	os.WriteFile(filepath.Join(dir, "chain.pem"), pem.EncodeToMemory(&pem.Block{Type: "CERTIFICATE", Bytes: issuerCertOf(c, caShape).Raw}), 0o644)
	for _, a := range [][]string{{"smime", "-nocerts", "-certfile", "@chain"}, {"cms", "-nodetach", "-nocerts", "-certfile", "@chain"}, {"cms", "-nocerts", "-certfile", "@chain", "-nosmimecap"}} {
		cfgs = append(cfgs, osslCfg{2048, a, &caShape})
	}
	for _, a := range [][]string{{"cms", "-no_signing_time"}, {"cms", "-no_signing_time", "-nodetach", "-nosmimecap"}, {"cms", "-no_signing_time", "-nocerts", "-certfile", "@chain"}} {
		cfgs = append(cfgs, osslCfg{2048, a, &caShape})
	}
	for _, oc := range cfgs {
		cfg := oc.args
		k0 := poolKey(c, oc.bits, 0)
		sh := sh
		if oc.shape != nil {
			sh = *oc.shape
		}
		right, twin, other := makeRSACert(k0, sh), makeRSACert(k1, sh), makeRSACert(k1, certShapes(c)[0])
		os.WriteFile(filepath.Join(dir, "key.pem"), pem.EncodeToMemory(&pem.Block{Type: "RSA PRIVATE KEY", Bytes: x509.MarshalPKCS1PrivateKey(k0)}), 0o600)
		os.WriteFile(filepath.Join(dir, "cert.pem"), pem.EncodeToMemory(&pem.Block{Type: "CERTIFICATE", Bytes: right.Raw}), 0o644)
		out := filepath.Join(dir, "out.der")
		os.Remove(out)
		args := append([]string{cfg[0], "-sign", "-binary", "-md", "sha256", "-signer", filepath.Join(dir, "cert.pem"), "-inkey", filepath.Join(dir, "key.pem"),
			"-in", filepath.Join(dir, "content.bin"), "-outform", "DER", "-out", out}, cfg[1:]...)
		for i, a := range args {
			if a == "@chain" {
				args[i] = filepath.Join(dir, "chain.pem")
			}
		}
		cmd := exec.Command(ossl, args...)
		cmd.Env = append(os.Environ(), "OPENSSL_CONF=/dev/null")
		if err := cmd.Run(); err != nil {
			continue
		}
		b, err := os.ReadFile(out)
		if err != nil || len(b) == 0 {
			continue
		}
		name := "openssl/" + fmt.Sprint(cfg)
		if oc.bits != 2048 {
			name += fmt.Sprintf("/rsa%d", oc.bits)
		}
		if oc.shape != nil {
			name += "/" + strings.SplitN(oc.shape.desc, "/", 3)[1]
		}
		ran = append(ran, name)
		noattr := false
		for _, a := range cfg {
			noattr = noattr || a == "-noattr"
		}
		seeds = append(seeds, p7Seed{name, b, right, twin, other, !noattr})
	}
	c.Note("openssl", map[string]interface{}{"path": ossl, "configurations": ran})
	return seeds
}

// CMS SignedData in the shape OpenSSL emits (DER-sorted SET OF signed attributes, optional S/MIME
// capabilities, eContent as OCTET STRING when attached), built with encoding/asn1 so that the C16
// check stays meaningful when the CLI is absent.
type cmsAttr struct {
	Type   asn1.ObjectIdentifier
	Values asn1.RawValue
}

func cmsShapedSeeds(c *Ctx) []p7Seed {
	k0, k1 := poolKey(c, 2048, 0), poolKey(c, 2048, 1)
	var seeds []p7Seed
	// a self-signed signer and one issued by a CA (issuer and subject differ)
	for _, sh := range []certShape{certShapes(c)[2], certShapes(c)[9], certShapes(c)[11], certShapes(c)[12], certShapes(c)[14]} {
		right, twin, other := makeRSACert(k0, sh), makeRSACert(k1, sh), makeRSACert(k1, certShapes(c)[0])
		for _, attached := range []bool{false, true} {
			for _, smimecap := range []bool{false, true} {
				for _, withCerts := range []bool{true, false} {
					b := buildCMS(k0, right, []byte("harness-built CMS content"), attached, smimecap, withCerts)
					if b != nil {
						seeds = append(seeds, p7Seed{fmt.Sprintf("cms-shaped/%s/attached=%v/smimecap=%v/certs=%v", sh.desc, attached, smimecap, withCerts), b, right, twin, other, true})
					}
				}
			}
		}
	}
	// signer entries without signed attributes, the signature made directly over the content octets (what
	// "openssl smime -sign -noattr" emits), content attached and detached
	for _, sh := range []certShape{certShapes(c)[2], certShapes(c)[9]} {
		right, twin, other := makeRSACert(k0, sh), makeRSACert(k1, sh), makeRSACert(k1, certShapes(c)[0])
		for _, attached := range []bool{true, false} {
			if b := buildCMSOpt(k0, right, []byte("harness-built CMS content"), attached, false, true, time.Now(), true); b != nil {
				seeds = append(seeds, p7Seed{fmt.Sprintf("cms-shaped/no-signed-attributes/%s/attached=%v", sh.desc, attached), b, right, twin, other, false})
			}
		}
	}
	// signers whose RSA modulus length is not a multiple of 8 bits (self-signed and CA-issued)
	for _, bits := range oddModulusBits(c) {
		ko := poolKey(c, bits, 0)
		for _, sh := range []certShape{certShapes(c)[2], certShapes(c)[9]} {
			right, twin, other := makeRSACert(ko, sh), makeRSACert(k1, sh), makeRSACert(k1, certShapes(c)[0])
			for _, attached := range []bool{false, true} {
				if b := buildCMS(ko, right, []byte("harness-built CMS content"), attached, !attached, true); b != nil {
					seeds = append(seeds, p7Seed{fmt.Sprintf("cms-shaped/rsa%d/%s/attached=%v", bits, sh.desc, attached), b, right, twin, other, true})
				}
			}
		}
	}
	return seeds
}

// ---- producer configurations that change the ORDER and the NUMBER of what a signer entry / a SignedData holds ----

// oidOfDERLength: an object identifier under 1.3.6.1.4.1.311.21.8 whose DER contents octets are exactly n long (n >= 9)
func oidOfDERLength(n int) asn1.ObjectIdentifier {
	o := asn1.ObjectIdentifier{1, 3, 6, 1, 4, 1, 311, 21, 8}
	for i := 9; i < n; i++ {
		o = append(o, 1+i%100)
	}
	return o
}

// cmsExtraAttrs: additional signed attributes by where their DER encoding sorts among contentType, signingTime and
// messageDigest (X.690 11.6: the elements of a SET OF are ordered by their encodings, so a shorter attribute comes
// first and equally long ones are ordered by their first differing octet): shorter than every well-known attribute;
// longer than signingTime and shorter than messageDigest; exactly as long as messageDigest with an attribute type
// that sorts in front of it / behind it; two values in one attribute; longer than everything.
func cmsExtraAttrs() []struct {
	name  string
	attrs [][]byte
} {
	attr := func(oid asn1.ObjectIdentifier, values ...[]byte) []byte {
		sort.Slice(values, func(i, j int) bool { return bytes.Compare(values[i], values[j]) < 0 })
		return tlv(0x30, append(mustMarshal(oid, ""), tlv(0x31, bytes.Join(values, nil))...))
	}
	octets := func(n int, fill byte) []byte { return tlv(0x04, bytes.Repeat([]byte{fill}, n)) }
	pkcs9 := func(n int) asn1.ObjectIdentifier { return asn1.ObjectIdentifier{1, 2, 840, 113549, 1, 9, n} }
	tiny := attr(asn1.ObjectIdentifier{2, 999, 3}, mustMarshal(5, ""))
	mid := attr(asn1.ObjectIdentifier{1, 2, 840, 113549, 1, 9, 16, 2, 4}, octets(16, 0x5a))
	type ea = struct {
		name  string
		attrs [][]byte
	}
	return []ea{
		{"shorter-than-content-type", [][]byte{tiny}},
		{"between-signing-time-and-message-digest", [][]byte{mid}},
		{"as-long-as-message-digest/type-sorts-in-front", [][]byte{attr(pkcs9(2), octets(32, 0x11))}},
		{"as-long-as-message-digest/type-sorts-behind", [][]byte{attr(pkcs9(52), octets(32, 0xee))}},
		{"two-values", [][]byte{attr(asn1.ObjectIdentifier{2, 999, 7}, mustMarshal(7, ""), mustMarshal(300, ""))}},
		{"short-and-medium-and-long", [][]byte{tiny, mid, attr(asn1.ObjectIdentifier{2, 999, 9}, octets(200, 0x33))}},
	}
}

// cmsVariantSeeds: harness-built signatures in OpenSSL's shape under the producer configurations of the quantifier
// that move things around: (a) an encapsulated content type other than data - object identifiers of 3, 10, 12 ... 24
// and 38 DER octets (openssl cms -econtent_type): the signed contentType attribute grows with it and changes its
// place in the DER-sorted attribute SET (13 octets: as long as signingTime, from 14 on behind it); (b) additional
// signed attributes of every size class of cmsExtraAttrs; (c) SEVERAL signers of one content, each with the digest
// algorithm of its choice (CMS_add1_signer / openssl cms -resign -md ...): a SHA-1, SHA-384 or SHA-512 co-signer in
// front of or behind the SHA-256 signer, content attached and detached. The property asks of each: parses; verifies
// against the certificate of the signer that used SHA-256 and signed attributes; is rejected for any other
// certificate; the re-encoding of every entry's parsed attributes reproduces the signed bytes. For the co-signer's
// own certificate (an entry that carries no RSA-SHA256 signature) only parsing is asked here; C04's oracle judges it.
func cmsVariantSeeds(c *Ctx) []p7Seed {
	k0, k1, k3 := poolKey(c, 2048, 0), poolKey(c, 2048, 1), poolKey(c, 2048, 3)
	sh := certShapes(c)
	right, twin, other := makeRSACert(k0, sh[2]), makeRSACert(k1, sh[2]), makeRSACert(k1, sh[0])
	content := []byte("harness-built CMS content")
	var seeds []p7Seed
	add := func(name string, o cmsOpts) {
		o.content = content
		if b := buildCMSGen(k0, right, o); b != nil {
			seeds = append(seeds, p7Seed{name, b, right, twin, other, true})
		}
	}
	for i, o := range []asn1.ObjectIdentifier{{2, 999, 1}, {1, 3, 6, 1, 4, 1, 311, 2, 1, 4}, oidOfDERLength(12), oidOfDERLength(13), oidOfDERLength(14), oidOfDERLength(15), oidOfDERLength(24), oidOfDERLength(38)} {
		n := len(mustMarshal(o, "")) - 2
		add(fmt.Sprintf("cms-shaped/econtent-type-of-%d-octets/attached=%v", n, i%2 == 0), cmsOpts{attached: i%2 == 0, smimecap: i%3 == 0, withCerts: true, eContentType: o})
		if c.Thorough {
			add(fmt.Sprintf("cms-shaped/econtent-type-of-%d-octets/attached=%v", n, i%2 != 0), cmsOpts{attached: i%2 != 0, smimecap: i%3 != 0, withCerts: false, eContentType: o})
		}
	}
	for i, x := range cmsExtraAttrs() {
		add("cms-shaped/extra-signed-attribute/"+x.name, cmsOpts{attached: i%2 == 1, smimecap: i%3 == 2, withCerts: i%4 != 3, extraAttrs: x.attrs})
		if c.Thorough {
			add("cms-shaped/extra-signed-attribute/"+x.name+"/econtent-type-of-14-octets", cmsOpts{attached: i%2 == 0, withCerts: true, extraAttrs: x.attrs, eContentType: oidOfDERLength(14)})
		}
	}
	// several signers
	coCert := makeRSACert(k3, sh[9])
	coTwin := makeRSACert(k1, sh[9])
	for i, h := range []crypto.Hash{crypto.SHA512, crypto.SHA1, crypto.SHA384, crypto.SHA256} {
		for _, attached := range []bool{true, false} {
			for _, coFirst := range []bool{false, true} {
				if !c.Thorough && !attached && coFirst != (i%2 == 0) {
					continue
				}
				o := cmsOpts{content: content, attached: attached, smimecap: i%2 == 0, withCerts: true, coSigners: []cmsSigner{{k3, coCert, h}}, coFirst: coFirst}
				b := buildCMSGen(k0, right, o)
				if b == nil {
					continue
				}
				name := fmt.Sprintf("cms-shaped/two-signers/sha256+%s-co-signer/attached=%v/co-signer-first=%v", cmsHashNames[h], attached, coFirst)
				seeds = append(seeds, p7Seed{name, b, right, twin, other, true})
				// the same blob asked under the co-signer's certificate
				seeds = append(seeds, p7Seed{name + "/under-the-co-signer's-certificate", b, coCert, coTwin, other, h == crypto.SHA256})
			}
		}
	}
	// three signers: SHA-512, SHA-256 (the one asked for), SHA-1
	if b := buildCMSGen(k3, coCert, cmsOpts{content: content, attached: true, withCerts: false, hash: crypto.SHA512,
		coSigners: []cmsSigner{{k0, right, crypto.SHA256}, {k1, other, crypto.SHA1}}}); b != nil {
		seeds = append(seeds, p7Seed{"cms-shaped/three-signers/sha512+sha256+sha1", b, right, twin, makeRSACert(k1, sh[3]), true})
	}
	return seeds
}

// opensslVariantSeeds: the OpenSSL CLI (when it exists) signing under encapsulated content types other than data
// (cms -econtent_type with object identifiers of 10, 13, 14 and 24 DER octets, detached and -nodetach, with and
// without S/MIME capabilities): OpenSSL orders the signed attributes by their DER encodings, so the contentType
// attribute moves behind signingTime once the identifier has 14 octets
func opensslVariantSeeds(c *Ctx) []p7Seed {
	ossl := opensslPath()
	if ossl == "" {
		return nil
	}
	dir, err := os.MkdirTemp("", "vcheck-ossl-variant")
	if err != nil {
		return nil
	}
	defer os.RemoveAll(dir)
	k0, k1 := poolKey(c, 2048, 0), poolKey(c, 2048, 1)
	sh := certShapes(c)[1]
	right, twin, other := makeRSACert(k0, sh), makeRSACert(k1, sh), makeRSACert(k1, certShapes(c)[0])
	os.WriteFile(filepath.Join(dir, "content.bin"), []byte("content signed by openssl\n"), 0o644)
	os.WriteFile(filepath.Join(dir, "key.pem"), pem.EncodeToMemory(&pem.Block{Type: "RSA PRIVATE KEY", Bytes: x509.MarshalPKCS1PrivateKey(k0)}), 0o600)
	os.WriteFile(filepath.Join(dir, "cert.pem"), pem.EncodeToMemory(&pem.Block{Type: "CERTIFICATE", Bytes: right.Raw}), 0o644)
	var seeds []p7Seed
	ran := []string{}
	for i, o := range []asn1.ObjectIdentifier{{1, 3, 6, 1, 4, 1, 311, 2, 1, 4}, oidOfDERLength(13), oidOfDERLength(14), oidOfDERLength(24)} {
		cfgs := [][]string{{"-nodetach"}, {}, {"-nosmimecap"}, {"-nodetach", "-nosmimecap"}}
		if !c.Thorough {
			cfgs = [][]string{cfgs[i%4], cfgs[(i+2)%4]}
		}
		for _, cfg := range cfgs {
			out := filepath.Join(dir, "out.der")
			os.Remove(out)
			args := append([]string{"cms", "-sign", "-binary", "-md", "sha256", "-signer", filepath.Join(dir, "cert.pem"), "-inkey", filepath.Join(dir, "key.pem"),
				"-in", filepath.Join(dir, "content.bin"), "-outform", "DER", "-out", out, "-econtent_type", o.String()}, cfg...)
			cmd := exec.Command(ossl, args...)
			cmd.Env = append(os.Environ(), "OPENSSL_CONF=/dev/null")
			if err := cmd.Run(); err != nil {
				continue
			}
			b, err := os.ReadFile(out)
			if err != nil || len(b) == 0 {
				continue
			}
			name := fmt.Sprintf("openssl/cms -econtent_type <%d octets> %v", len(mustMarshal(o, ""))-2, cfg)
			ran = append(ran, name)
			seeds = append(seeds, p7Seed{name, b, right, twin, other, true})
		}
	}
	c.Note("openssl content types", ran)
	return seeds
}

// attachedContents: kinds of signed content by what the octets look like to a DER reader. The property
// quantifies over all contents; an attached signature carries them as the value of an OCTET STRING (CMS) and the
// signed message digest is over exactly those octets, whatever they happen to parse as: text, arbitrary bytes,
// a single byte, nothing, or a file that is itself exactly one DER element (a .der certificate, a key, a CSR,
// another signature blob: one SEQUENCE; an OCTET STRING holding a SEQUENCE; a SET), one DER element followed
// by a further byte, and bytes that only start like an element.
func attachedContents(c *Ctx, cert *x509.Certificate, nested []byte) []struct {
	name string
	b    []byte
} {
	type ct = struct {
		name string
		b    []byte
	}
	small := []byte{0x30, 0x03, 0x02, 0x01, 0x2a}
	out := []ct{
		{"text", []byte("content signed by a third-party tool\n")},
		{"der-sequence/small", small},
		{"der-sequence/certificate", cert.Raw},
		{"der-sequence/signature-blob", nested},
		{"der-octet-string-holding-a-sequence", tlv(0x04, small)},
		{"der-set", tlv(0x31, small[2:])},
		{"der-sequence-then-one-byte", append(append([]byte{}, small...), 0x00)},
		{"starts-like-a-sequence", []byte{0x30, 0x82, 0x01, 0x00, 'x', 'y'}},
		{"single-zero-byte", []byte{0}},
		{"binary-1k", randBytes(c, 1024)},
	}
	var res []ct
	for _, x := range out {
		if len(x.b) > 0 {
			res = append(res, x)
		}
	}
	return res
}

// contentKindSeeds: attached signatures over each kind of content, made by the OpenSSL CLI (smime and cms, -nodetach)
// when it exists and built in the harness in OpenSSL's shape; plus one detached OpenSSL signature per kind (the
// content is not in the blob then: has to verify all the same)
func contentKindSeeds(c *Ctx) []p7Seed {
	k0, k1 := poolKey(c, 2048, 0), poolKey(c, 2048, 1)
	sh := certShapes(c)[1]
	right, twin, other := makeRSACert(k0, sh), makeRSACert(k1, sh), makeRSACert(k1, certShapes(c)[0])
	nested := buildCMS(k0, right, []byte("inner content"), true, false, true)
	contents := attachedContents(c, right, nested)
	var seeds []p7Seed
	for i, ct := range contents {
		if b := buildCMS(k0, right, ct.b, true, i%2 == 0, i%3 != 0); b != nil {
			seeds = append(seeds, p7Seed{"cms-shaped/attached-content/" + ct.name, b, right, twin, other, true})
		}
	}
	ossl := opensslPath()
	if ossl == "" {
		return seeds
	}
	dir, err := os.MkdirTemp("", "vcheck-ossl-content")
	if err != nil {
		return seeds
	}
	defer os.RemoveAll(dir)
	os.WriteFile(filepath.Join(dir, "key.pem"), pem.EncodeToMemory(&pem.Block{Type: "RSA PRIVATE KEY", Bytes: x509.MarshalPKCS1PrivateKey(k0)}), 0o600)
	os.WriteFile(filepath.Join(dir, "cert.pem"), pem.EncodeToMemory(&pem.Block{Type: "CERTIFICATE", Bytes: right.Raw}), 0o644)
	ran := []string{}
	for i, ct := range contents {
		os.WriteFile(filepath.Join(dir, "content.bin"), ct.b, 0o644)
		cfgs := [][]string{{"smime", "-nodetach"}, {"cms", "-nodetach"}}
		if !c.Thorough { // quick: the two tools alternate over the kinds; every third kind also detached
			cfgs = cfgs[i%2 : i%2+1]
		}
		if c.Thorough || i%3 == 1 {
			cfgs = append(cfgs, []string{[]string{"cms", "smime"}[i%2]})
		}
		for _, cfg := range cfgs {
			out := filepath.Join(dir, "out.der")
			os.Remove(out)
			args := append([]string{cfg[0], "-sign", "-binary", "-md", "sha256", "-signer", filepath.Join(dir, "cert.pem"), "-inkey", filepath.Join(dir, "key.pem"),
				"-in", filepath.Join(dir, "content.bin"), "-outform", "DER", "-out", out}, cfg[1:]...)
			cmd := exec.Command(ossl, args...)
			cmd.Env = append(os.Environ(), "OPENSSL_CONF=/dev/null")
			if err := cmd.Run(); err != nil {
				continue
			}
			b, err := os.ReadFile(out)
			if err != nil || len(b) == 0 {
				continue
			}
			name := "openssl/" + fmt.Sprint(cfg) + "/content/" + ct.name
			ran = append(ran, name)
			seeds = append(seeds, p7Seed{name, b, right, twin, other, true})
		}
	}
	c.Note("openssl content kinds", ran)
	return seeds
}

// validityShapes: signer certificates whose validity period stands in every relation to the signing
// time t of the signature: covering it, ended before it (by a year, by a second), starting after it (in
// a second, in a year), starting or ending exactly at it, a single instant equal to it, and no validity
// period at all (both dates the zero time, as in certificates made by this library and sbctl). The
// property asks for verification against the signer's certificate - the key -; UEFI does not look at
// validity periods, and OpenSSL signs with an expired or not yet valid certificate without complaint.
func validityShapes(t time.Time, self bool) []certShape {
	t = t.UTC().Truncate(time.Second)
	y := 365 * 24 * time.Hour
	var zero time.Time
	var out []certShape
	for i, v := range []struct {
		desc   string
		nb, na time.Time
	}{
		{"covers", t.Add(-y), t.Add(y)},
		{"expired-a-year-before", t.Add(-2 * y), t.Add(-y)},
		{"expired-a-second-before", t.Add(-y), t.Add(-time.Second)},
		{"valid-from-a-second-after", t.Add(time.Second), t.Add(y)},
		{"valid-from-a-year-after", t.Add(y), t.Add(2 * y)},
		{"ends-at-signing-time", t.Add(-y), t},
		{"starts-at-signing-time", t, t.Add(y)},
		{"instant-at-signing-time", t, t},
		{"no-validity-period", zero, zero},
		{"no-not-before", zero, t.Add(-y)},
	} {
		sh := certShape{issuer: pkix.Name{CommonName: "validity " + v.desc}, serial: big.NewInt(int64(8000 + i)),
			desc: fmt.Sprintf("validity/%s/%d/self=%v", v.desc, t.Unix(), self), validity: true, notBefore: v.nb, notAfter: v.na}
		if !self {
			sh.issuer = pkix.Name{CommonName: "Validity Root CA"}
			sh.subject = &pkix.Name{CommonName: "leaf " + v.desc}
		}
		out = append(out, sh)
	}
	return out
}

// signatures whose signed signingTime lies inside, outside and on the border of the signer
// certificate's validity period (signing now, in the past and in the future)
func validitySeeds(c *Ctx) []p7Seed {
	k0, k1 := poolKey(c, 2048, 0), poolKey(c, 2048, 1)
	var seeds []p7Seed
	now := time.Now()
	for ti, t := range []time.Time{now, time.Date(2011, 6, 1, 12, 0, 0, 0, time.UTC), time.Date(2049, 12, 31, 23, 59, 59, 0, time.UTC)} {
		for si, sh := range validityShapes(t, ti != 1) {
			if !c.Thorough && ti > 0 && si%3 != ti {
				continue // quick tier: every relation for a signature made now, a third of them for each other signing time
			}
			right, twin, other := makeRSACert(k0, sh), makeRSACert(k1, sh), makeRSACert(k1, certShapes(c)[0])
			attached := si%2 == 0
			if b := buildCMSAt(k0, right, []byte("harness-built CMS content"), attached, si%3 == 0, si%4 != 3, t); b != nil {
				seeds = append(seeds, p7Seed{fmt.Sprintf("cms-shaped/%s/signed=%s", sh.desc, t.UTC().Format("2006-01-02")), b, right, twin, other, true})
			}
		}
	}
	// the default certificates of the harness (valid 2023..2033) with a signing time before and after that period
	sh := certShapes(c)[2]
	right, twin, other := makeRSACert(k0, sh), makeRSACert(k1, sh), makeRSACert(k1, certShapes(c)[0])
	for _, t := range []time.Time{right.NotBefore.Add(-time.Second), right.NotBefore, right.NotAfter, right.NotAfter.Add(time.Second), time.Date(1999, 1, 1, 0, 0, 0, 0, time.UTC)} {
		if b := buildCMSAt(k0, right, []byte("harness-built CMS content"), false, true, true, t); b != nil {
			seeds = append(seeds, p7Seed{fmt.Sprintf("cms-shaped/%s/signed=%d", sh.desc, t.Unix()), b, right, twin, other, true})
		}
	}
	return seeds
}

// issuerCertOf: the (self-signed) certificate of the CA that issued the certificates of a CA-issued shape - the
// CA key is pool key 2 (makeRSACert), its subject the shape's issuer name
func issuerCertOf(c *Ctx, sh certShape) *x509.Certificate {
	return makeRSACert(poolKey(c, 2048, 2), certShape{issuer: sh.issuer, serial: big.NewInt(1), desc: "issuer-of/" + sh.desc})
}

// certFieldSeeds: "certificate inclusion on/off" is not all a producer can do with the certificates field: it is a
// bag of certificates the verifier MAY find useful. A producer that ships the chain and expects the verifier to hold
// the leaf (openssl -nocerts -certfile chain.pem) sends a field that is present but does not hold the signer's own
// certificate: the issuing CA only, an unrelated certificate only, both. The signature still names its signer by
// issuer and serial and must verify against the signer's certificate (and not against the twin / a stranger).
func certFieldSeeds(c *Ctx) []p7Seed {
	k0, k1 := poolKey(c, 2048, 0), poolKey(c, 2048, 1)
	var seeds []p7Seed
	shapes := certShapes(c)
	for i, sh := range []certShape{shapes[9], shapes[10], shapes[12], shapes[2], shapes[13]} {
		right, twin, other := makeRSACert(k0, sh), makeRSACert(k1, sh), makeRSACert(k1, shapes[0])
		var fields []struct {
			name  string
			certs []*x509.Certificate
		}
		add := func(n string, cs ...*x509.Certificate) {
			fields = append(fields, struct {
				name  string
				certs []*x509.Certificate
			}{n, cs})
		}
		if sh.subject != nil {
			ca := issuerCertOf(c, sh)
			add("issuer-only", ca)
			add("issuer+unrelated", ca, other)
		} else {
			add("unrelated-only", other)
			add("two-unrelated", other, makeRSACert(k1, shapes[3]))
		}
		for j, f := range fields {
			for _, attached := range []bool{false, true} {
				if !c.Thorough && attached != ((i+j)%2 == 0) {
					continue
				}
				if b := buildCMSGen(k0, right, cmsOpts{content: []byte("harness-built CMS content"), attached: attached, smimecap: j == 0, certsInstead: f.certs}); b != nil {
					seeds = append(seeds, p7Seed{fmt.Sprintf("cms-shaped/certificates-without-the-signers/%s/%s/attached=%v", f.name, sh.desc, attached), b, right, twin, other, true})
				}
			}
		}
	}
	return seeds
}

// optionalAttrSeeds: contentType and messageDigest are the mandatory signed attributes; signingTime is optional
// (openssl cms -no_signing_time, Authenticode signers that timestamp by countersignature). Signed attributes
// WITHOUT it, alone, with S/MIME capabilities and with further attributes, attached and detached.
func optionalAttrSeeds(c *Ctx) []p7Seed {
	k0, k1 := poolKey(c, 2048, 0), poolKey(c, 2048, 1)
	var seeds []p7Seed
	shapes := certShapes(c)
	extra := cmsExtraAttrs()
	for i, sh := range []certShape{shapes[2], shapes[9]} {
		right, twin, other := makeRSACert(k0, sh), makeRSACert(k1, sh), makeRSACert(k1, shapes[0])
		for _, attached := range []bool{false, true} {
			for _, smimecap := range []bool{false, true} {
				for k := 0; k < 2; k++ {
					o := cmsOpts{content: []byte("harness-built CMS content"), attached: attached, smimecap: smimecap, withCerts: true, noSigningTime: true}
					name := "plain"
					if k == 1 {
						if len(extra) == 0 || (!c.Thorough && attached == smimecap) {
							continue
						}
						e := extra[(i+len(seeds))%len(extra)]
						o.extraAttrs = e.attrs
						name = "with/" + e.name
					}
					if b := buildCMSGen(k0, right, o); b != nil {
						seeds = append(seeds, p7Seed{fmt.Sprintf("cms-shaped/no-signing-time/%s/%s/attached=%v/smimecap=%v", name, sh.desc, attached, smimecap), b, right, twin, other, true})
					}
				}
			}
		}
	}
	return seeds
}

func mustMarshal(v interface{}, params string) []byte {
	b, err := asn1.MarshalWithParams(v, params)
	if err != nil {
		panic(err)
	}
	return b
}

func buildCMS(key *rsa.PrivateKey, cert *x509.Certificate, content []byte, attached, smimecap, withCerts bool) []byte {
	return buildCMSAt(key, cert, content, attached, smimecap, withCerts, time.Now())
}

// buildCMSAt: the same with a given signingTime attribute (UTCTime, so a year in 1950..2049)
func buildCMSAt(key *rsa.PrivateKey, cert *x509.Certificate, content []byte, attached, smimecap, withCerts bool, signingTime time.Time) []byte {
	return buildCMSOpt(key, cert, content, attached, smimecap, withCerts, signingTime, false)
}

// buildCMSOpt: noAttrs leaves the signed attributes out; the signature is then over the content octets (RFC 2315 section 9.3)
func buildCMSOpt(key *rsa.PrivateKey, cert *x509.Certificate, content []byte, attached, smimecap, withCerts bool, signingTime time.Time, noAttrs bool) []byte {
	return buildCMSGen(key, cert, cmsOpts{content: content, attached: attached, smimecap: smimecap, withCerts: withCerts, signingTime: signingTime, noAttrs: noAttrs})
}

// cmsSigner: a further signer of the same content, with the digest algorithm it uses for its message digest
// and its signature (0: SHA-256)
type cmsSigner struct {
	key  *rsa.PrivateKey
	cert *x509.Certificate
	hash crypto.Hash
}

type cmsOpts struct {
	content                       []byte
	attached, smimecap, withCerts bool
	signingTime                   time.Time
	noAttrs                       bool
	eContentType                  asn1.ObjectIdentifier // nil: id-data
	extraAttrs                    [][]byte              // further signed attributes, each one complete DER Attribute
	hash                          crypto.Hash           // the digest algorithm of the first signer (0: SHA-256)
	coSigners                     []cmsSigner           // further signer entries over the same content
	coFirst                       bool                  // the further entries stand in front of the first signer's
	certsInstead                  []*x509.Certificate   // non-nil: the certificates field holds exactly these, not the signers' own
	noSigningTime                 bool                  // the optional signingTime attribute is left out of the signed attributes
}

var cmsHashOIDs = map[crypto.Hash]asn1.ObjectIdentifier{
	crypto.SHA1:   {1, 3, 14, 3, 2, 26},
	crypto.SHA256: {2, 16, 840, 1, 101, 3, 4, 2, 1},
	crypto.SHA384: {2, 16, 840, 1, 101, 3, 4, 2, 2},
	crypto.SHA512: {2, 16, 840, 1, 101, 3, 4, 2, 3},
}

var cmsHashNames = map[crypto.Hash]string{crypto.SHA1: "sha1", crypto.SHA256: "sha256", crypto.SHA384: "sha384", crypto.SHA512: "sha512"}

func hashOf(h crypto.Hash, b []byte) []byte {
	w := h.New()
	w.Write(b)
	return w.Sum(nil)
}

// buildCMSGen: a CMS SignedData in OpenSSL's shape. Every signer entry carries the signed attributes contentType
// (= the encapsulated content type), signingTime and messageDigest (under the signer's own digest algorithm) plus
// the optional ones, as a DER-sorted SET OF, and an RSA PKCS#1 v1.5 signature under that digest algorithm over it.
func buildCMSGen(key *rsa.PrivateKey, cert *x509.Certificate, o cmsOpts) []byte {
	oidData := asn1.ObjectIdentifier{1, 2, 840, 113549, 1, 7, 1}
	oidSD := asn1.ObjectIdentifier{1, 2, 840, 113549, 1, 7, 2}
	oidRSA := asn1.ObjectIdentifier{1, 2, 840, 113549, 1, 1, 1}
	ect := o.eContentType
	if ect == nil {
		ect = oidData
	}
	if o.signingTime.IsZero() {
		o.signingTime = time.Now()
	}
	set := func(inner []byte) asn1.RawValue {
		return asn1.RawValue{FullBytes: append(append([]byte{0x31}, derLen(len(inner))...), inner...)}
	}
	alg := func(o asn1.ObjectIdentifier) []byte {
		return mustMarshal(struct {
			O asn1.ObjectIdentifier
			N asn1.RawValue
		}{o, asn1.NullRawValue}, "")
	}
	seq := func(parts ...[]byte) []byte {
		var b []byte
		for _, p := range parts {
			b = append(b, p...)
		}
		return append(append([]byte{0x30}, derLen(len(b))...), b...)
	}
	tagged := func(tag byte, inner []byte) []byte {
		return append(append([]byte{tag}, derLen(len(inner))...), inner...)
	}
	entry := func(s cmsSigner) []byte {
		h := s.hash
		if h == 0 {
			h = crypto.SHA256
		}
		md := hashOf(h, o.content)
		attrs := [][]byte{
			mustMarshal(cmsAttr{asn1.ObjectIdentifier{1, 2, 840, 113549, 1, 9, 3}, set(mustMarshal(ect, ""))}, ""),
			mustMarshal(cmsAttr{asn1.ObjectIdentifier{1, 2, 840, 113549, 1, 9, 4}, set(mustMarshal(md, ""))}, ""),
		}
		if !o.noSigningTime {
			attrs = append(attrs, mustMarshal(cmsAttr{asn1.ObjectIdentifier{1, 2, 840, 113549, 1, 9, 5}, set(mustMarshal(o.signingTime.UTC().Truncate(time.Second), "utc"))}, ""))
		}
		if o.smimecap {
			// S/MIME capabilities: SEQUENCE OF SEQUENCE { OID } (aes256-cbc, aes128-cbc), long enough to sort last
			caps := mustMarshal([]struct{ O asn1.ObjectIdentifier }{{asn1.ObjectIdentifier{2, 16, 840, 1, 101, 3, 4, 1, 42}}, {asn1.ObjectIdentifier{2, 16, 840, 1, 101, 3, 4, 1, 2}},
				{asn1.ObjectIdentifier{1, 2, 840, 113549, 3, 7}}, {asn1.ObjectIdentifier{2, 16, 840, 1, 101, 3, 4, 1, 22}}}, "")
			attrs = append(attrs, mustMarshal(cmsAttr{asn1.ObjectIdentifier{1, 2, 840, 113549, 1, 9, 15}, set(caps)}, ""))
		}
		for _, x := range o.extraAttrs {
			attrs = append(attrs, append([]byte{}, x...))
		}
		sort.Slice(attrs, func(i, j int) bool { return bytes.Compare(attrs[i], attrs[j]) < 0 }) // DER SET OF ordering
		var body []byte
		for _, a := range attrs {
			body = append(body, a...)
		}
		signed := append(append([]byte{0x31}, derLen(len(body))...), body...)
		dg := hashOf(h, signed)
		if o.noAttrs {
			dg = md
		}
		sig, err := rsa.SignPKCS1v15(rand.Reader, s.key, h, dg)
		if err != nil {
			return nil
		}
		if o.noAttrs {
			return seq(mustMarshal(1, ""), seq(s.cert.RawIssuer, mustMarshal(s.cert.SerialNumber, "")), alg(cmsHashOIDs[h]), alg(oidRSA), mustMarshal(sig, ""))
		}
		return seq(mustMarshal(1, ""), seq(s.cert.RawIssuer, mustMarshal(s.cert.SerialNumber, "")), alg(cmsHashOIDs[h]), tagged(0xa0, body), alg(oidRSA), mustMarshal(sig, ""))
	}
	signers := []cmsSigner{{key, cert, o.hash}}
	if o.coFirst {
		signers = append(append([]cmsSigner{}, o.coSigners...), signers...)
	} else {
		signers = append(signers, o.coSigners...)
	}
	var sis, certs []byte
	var algs [][]byte
	for _, s := range signers {
		e := entry(s)
		if e == nil {
			return nil
		}
		sis = append(sis, e...)
		certs = append(certs, s.cert.Raw...)
		h := s.hash
		if h == 0 {
			h = crypto.SHA256
		}
		a := alg(cmsHashOIDs[h])
		dup := false
		for _, b := range algs {
			dup = dup || bytes.Equal(a, b)
		}
		if !dup {
			algs = append(algs, a)
		}
	}
	sort.Slice(algs, func(i, j int) bool { return bytes.Compare(algs[i], algs[j]) < 0 })
	eci := mustMarshal(ect, "")
	if o.attached {
		eci = append(eci, tagged(0xa0, mustMarshal(o.content, ""))...)
	}
	parts := [][]byte{mustMarshal(1, ""), tagged(0x31, bytes.Join(algs, nil)), seq(eci)}
	if o.certsInstead != nil {
		certs = nil
		for _, ec := range o.certsInstead {
			certs = append(certs, ec.Raw...)
		}
		parts = append(parts, tagged(0xa0, certs))
	} else if o.withCerts {
		parts = append(parts, tagged(0xa0, certs))
	}
	parts = append(parts, tagged(0x31, sis))
	sd := seq(parts...)
	return seq(mustMarshal(oidSD, ""), tagged(0xa0, sd))
}

func c16Eval(c *Ctx, cs Case) {
	if cs.S("op") == "attrs" {
		c16Attrs(c, cs)
		return
	}
	if cs.S("op") == "attrs-history" {
		c16AttrsHistory(c, cs)
		return
	}
	p7Eval(c, cs, "C16")
}

// a history of reconstructions: several signatures are parsed, the signed-attribute encoding of each is
// reconstructed (Attributes.Marshal) in the given order - some more than once - and EVERY result is kept. When the
// history is over each kept result must (still) be exactly the bytes that were signed in its own signature:
// a reconstruction is a value of its own, whatever is reconstructed before or after it.
func c16AttrsHistory(c *Ctx, cs Case) {
	blobs := strList(cs["blobs"])
	order := caseInts(cs["order"])
	c.Count(cs.Key(), true, fmt.Sprintf("C16/attrs-history/%d-signatures/%d-reconstructions", len(blobs), len(order)))
	type parsedBlob struct {
		marshal []func() []byte // one per signer entry; nil: the entry has no signed attributes
		want    [][]byte        // the signed attributes as transmitted, located with encoding/asn1
		model   []string
	}
	var ps []*parsedBlob
	for _, bh := range blobs {
		blob := unhx(bh)
		pb := &parsedBlob{want: transmittedAttrs(blob)}
		safely(func() {
			p, err := pkcs7Parse(blob)
			if err != nil {
				return
			}
			for _, si := range p.SignerInfo {
				if a := si.AuthenticatedAttributes; a != nil {
					pb.marshal = append(pb.marshal, a.Marshal)
				} else {
					pb.marshal = append(pb.marshal, nil)
				}
			}
		})
		c.Trace()
		pb.model = splitAttrs(c.Drv.Ask("p7.attrs", bh, "1"))
		ps = append(ps, pb)
	}
	type kept struct {
		step, blob, signer int
		got, atCall        []byte
	}
	var held []kept
	for step, bi := range order {
		if bi < 0 || bi >= len(ps) {
			continue
		}
		for si, m := range ps[bi].marshal {
			if m == nil {
				continue
			}
			var got []byte
			if pan, msg := safely(func() { got = m() }); pan {
				c.Fail(Failure{Kind: "property", What: "Attributes.Marshal panicked in a history of reconstructions: " + msg, Case: cs, Go: "panic"})
				return
			}
			held = append(held, kept{step, bi, si, got, append([]byte{}, got...)})
		}
	}
	for _, k := range held {
		pb := ps[k.blob]
		if k.signer < len(pb.model) && pb.model[k.signer] != "noattrs" && !strings.HasPrefix(pb.model[k.signer], "marshal="+hx(k.atCall)+" ") {
			c.Fail(Failure{Kind: "tie", What: "Attributes.Marshal in a history of reconstructions: model and implementation disagree", Case: cs, Model: clip(pb.model[k.signer]), Go: clip("marshal=" + hx(k.atCall))})
		}
		if k.signer >= len(pb.want) || pb.want[k.signer] == nil {
			continue
		}
		w := pb.want[k.signer]
		switch {
		case bytes.Equal(k.got, w):
		case bytes.Equal(k.atCall, w):
			c.Fail(Failure{Kind: "property", What: fmt.Sprintf("a reconstructed signed-attribute encoding that was still held changed when later reconstructions were made (reconstruction %d of the history, signature %d): the result is not a value of its own", k.step, k.blob), Case: cs, Go: clip("now=" + hx(k.got)), Spec: clip("as returned and as signed=" + hx(w))})
		default:
			c.Fail(Failure{Kind: "property", What: fmt.Sprintf("in a history of reconstructions, reconstructing the signed-attribute encoding from the parsed values does not reproduce the bytes that were signed (reconstruction %d, signature %d)", k.step, k.blob), Case: cs, Go: clip("marshal=" + hx(k.atCall)), Spec: clip("marshal=" + hx(w))})
		}
	}
}

// re-encoding the parsed signed attributes reproduces exactly the bytes that were signed
func c16Attrs(c *Ctx, cs Case) {
	blob := unhx(cs.S("blob"))
	goObs := ""
	if tz := cs.S("tz"); tz != "" {
		// the library parses, re-encodes and verifies in a process whose local time zone is tz
		w, offset := c16ZoneWorker(c, tz)
		res := w.Do("p7.reencode", map[string]string{"b": cs.S("blob"), "cert": cs.S("cert")}, 20*time.Second)
		c.Count(cs.Key(), offset != 0, fmt.Sprintf("C16/attrs/%s/zone/%s", cs.S("class"), tz))
		parts := strings.SplitN(res.Out, "|", 2)
		if res.Class != "ok" || len(parts) != 2 {
			c.Fail(Failure{Kind: "property", What: "parsing, re-encoding the signed attributes and verifying did not finish with a result in a process whose local time zone is " + tz, Case: cs, Go: clip(res.Class + " " + res.Out + res.Panic)})
			return
		}
		goObs = parts[1]
		// which zone the process runs in is no part of the signature: the verdict is the one given under UTC
		if cd := cs.S("cert"); cd != "" {
			if cert, err := x509.ParseCertificate(unhx(cd)); err == nil {
				if here := goP7Class(blob, cert); parts[0] != here {
					c.Fail(Failure{Kind: "property", What: "ParsePKCS7+Verify of a third-party signature answers differently in a process whose local time zone is " + tz, Case: cs, Go: parts[0], Spec: here + " (the answer of this process)"})
				}
				if cs.S("expect") == "accept" && parts[0] != "ok true" {
					c.Fail(Failure{Kind: "property", What: "a third-party signature with signed attributes does not verify against the signer's certificate in a process whose local time zone is " + tz, Case: cs, Go: parts[0], Spec: "ok true"})
				}
			}
		}
	} else {
		goObs = goAttrsStr(blob)
		c.Count(cs.Key(), true, "C16/attrs/"+cs.S("class"))
	}
	c.Trace()
	m := c.Drv.Ask("p7.attrs", hx(blob), "1")
	if m != goObs {
		c.Fail(Failure{Kind: "tie", What: "Attributes.Marshal / transmitted attributes: model and implementation disagree", Case: cs, Model: clip(m), Go: clip(goObs)})
	}
	// oracle: Marshal() of the parsed values == the transmitted signed attributes (independently located with encoding/asn1)
	want := transmittedAttrs(blob)
	for i, w := range want {
		parts := splitAttrs(goObs)
		if i >= len(parts) {
			break
		}
		if w == nil {
			continue
		}
		if parts[i] != "marshal="+hx(w)+" transmitted="+hx(w) {
			c.Fail(Failure{Kind: "property", What: "reconstructing the signed-attribute encoding from the parsed values does not reproduce the bytes that were signed", Case: cs, Go: clip(parts[i]), Spec: clip("marshal=" + hx(w))})
		}
	}
	// "the bytes that were signed", asked of the signature itself: where the signer's certificate is known the
	// signature value of the entry (located with encoding/asn1) has to be an RSA-SHA256 signature, under that
	// certificate's key, over the reconstruction the library returns
	if cd := cs.S("cert"); cd != "" {
		cert, err := x509.ParseCertificate(unhx(cd))
		if err != nil {
			return
		}
		pub, ok := cert.PublicKey.(*rsa.PublicKey)
		if !ok {
			return
		}
		parts := splitAttrs(goObs)
		for i, si := range stdSigners(blob) {
			if i >= len(parts) || len(si.Attrs.FullBytes) == 0 || !strings.HasPrefix(parts[i], "marshal=") {
				continue
			}
			if !bytes.Equal(si.IAS.Issuer.FullBytes, cert.RawIssuer) || si.IAS.Serial == nil || si.IAS.Serial.Cmp(cert.SerialNumber) != 0 {
				continue
			}
			m := unhx(strings.TrimPrefix(strings.SplitN(parts[i], " ", 2)[0], "marshal="))
			h := sha256.Sum256(m)
			if rsa.VerifyPKCS1v15(pub, crypto.SHA256, h[:], si.Sig) != nil {
				c.Fail(Failure{Kind: "property", What: "the reconstructed signed-attribute encoding is not what the signer signed: the entry's signature is not a signature by the signer's key over it", Case: cs, Go: clip(parts[i])})
			}
		}
	}
}

// ---- the verifying process in another local time zone ----

// c16Zones: local time zones of the process that parses, re-encodes and verifies: east and west of UTC, a zone with
// an offset that is no whole number of hours, fixed offsets at both ends, and UTC itself for contrast
var c16Zones = []string{"Asia/Tokyo", "America/St_Johns", "Europe/Berlin", "Etc/GMT+12", "Etc/GMT-14", "UTC"}

var c16Workers = map[string]*Worker{}
var c16Offsets = map[string]int{}

func c16ZoneWorker(c *Ctx, tz string) (*Worker, int) {
	if w, ok := c16Workers[tz]; ok {
		return w, c16Offsets[tz]
	}
	w := c.NewWorker(4<<20, "TZ="+tz)
	c16Workers[tz] = w
	if res := w.Do("tz.probe", map[string]string{}, 10*time.Second); res.Class == "ok" {
		if f := strings.Fields(res.Out); len(f) == 2 {
			c16Offsets[tz] = atoi(f[0])
			c.Note("verifying zone "+tz, fmt.Sprintf("offset %ss from UTC", f[0]))
		}
	}
	return w, c16Offsets[tz]
}

func init() {
	// worker side: verify and re-encode in this process (whose TZ the parent chose): "<verdict>|<attrs string>"
	workerOps["p7.reencode"] = func(a map[string]string) (string, string) {
		blob := unhx(a["b"])
		verdict := "-"
		if cd := unhx(a["cert"]); len(cd) > 0 {
			if cert, err := x509.ParseCertificate(cd); err == nil {
				verdict = goP7Class(blob, cert)
			}
		}
		return "ok", verdict + "|" + goAttrsStr(blob)
	}
}

// the signer entries of a blob, located with encoding/asn1
func stdSigners(blob []byte) []stdSignerInfo {
	var sd stdSignedData
	var ci stdContentInfo
	if rest, err := asn1.Unmarshal(blob, &ci); err == nil && len(rest) == 0 && ci.Type.Equal(asn1.ObjectIdentifier{1, 2, 840, 113549, 1, 7, 2}) {
		if _, err := asn1.Unmarshal(ci.Content.Bytes, &sd); err != nil {
			return nil
		}
	} else if _, err := asn1.Unmarshal(blob, &sd); err != nil {
		return nil
	}
	return sd.Signers
}

func c16Gen(c *Ctx) {
	var seeds []p7Seed
	seeds = append(seeds, opensslSeeds(c)...)
	seeds = append(seeds, cmsShapedSeeds(c)...)
	seeds = append(seeds, validitySeeds(c)...)
	seeds = append(seeds, contentKindSeeds(c)...)
	seeds = append(seeds, cmsVariantSeeds(c)...)
	seeds = append(seeds, opensslVariantSeeds(c)...)
	seeds = append(seeds, certFieldSeeds(c)...)
	seeds = append(seeds, optionalAttrSeeds(c)...)
	defer func() {
		for tz, w := range c16Workers {
			w.Close()
			delete(c16Workers, tz)
		}
	}()
	all := p7Seeds(c, false)
	for _, s := range all {
		if len(s.name) > 8 && s.name[:8] == "fixture/" {
			seeds = append(seeds, s)
		}
	}
	names := []string{}
	for _, s := range seeds {
		names = append(names, s.name)
		for _, kc := range []struct {
			kind, expect string
			cert         *x509.Certificate
		}{{"right", "accept", s.right}, {"twin", "reject", s.twin}, {"other", "reject", s.other}} {
			exp := kc.expect
			if !s.canVerify && kc.kind == "right" {
				exp = "parse" // sbsign / sbvarsign artefacts: must parse; whether they verify is decided by C04's oracle
			}
			// the same question is also asked of ONE parsed object that answers for several certificates in turn: the
			// signer's certificate after a twin (same issuer and serial, another key) and between two such calls, the
			// twin / the unrelated certificate after the signer's and between two such calls
			prev := s.right
			if kc.kind == "right" {
				prev = s.twin
			}
			p7Eval(c, Case{"op": "p7", "class": "third-party", "certkind": kc.kind, "expect": exp, "blob": hx(s.blob), "cert": hx(kc.cert.Raw), "prevcert": hx(prev.Raw), "seed": s.name}, "C16")
		}
		ac := Case{"op": "attrs", "class": "third-party", "blob": hx(s.blob), "seed": s.name}
		if s.canVerify {
			ac["cert"] = hx(s.right.Raw)
		}
		c16Attrs(c, ac)
		// the same two questions (verdict for the signer's certificate, reconstruction of the signed attributes) asked
		// of a process that runs in another local time zone. Quick: the zones rotate over the seeds, two per seed;
		// thorough: every zone for every seed
		if s.canVerify {
			for zi, tz := range c16Zones {
				if !c.Thorough && zi != len(names)%len(c16Zones) && zi != (len(names)+3)%len(c16Zones) {
					continue
				}
				c16Attrs(c, Case{"op": "attrs", "class": "third-party", "blob": hx(s.blob), "seed": s.name, "cert": hx(s.right.Raw), "tz": tz, "expect": "accept"})
			}
		}
	}
	c.Note("seeds", names)
	// histories of reconstructions over several signatures with all results kept: every window of three seeds
	// (neighbours in the list and one further away, so producers and attribute sets of different sizes meet),
	// each reconstructed twice in two different orders; thorough: random histories over up to six seeds as well
	hist := func(idx []int, order []int) {
		var bl []string
		var sn []string
		for _, i := range idx {
			bl = append(bl, hx(seeds[i].blob))
			sn = append(sn, seeds[i].name)
		}
		c16AttrsHistory(c, Case{"op": "attrs-history", "blobs": bl, "order": intsI(order), "seeds": sn})
	}
	for i := range seeds {
		if n := len(seeds); n >= 3 && c.NFailures() < 6 {
			hist([]int{i, (i + 1) % n, (i + 7) % n}, []int{0, 1, 2, 0, 2, 1})
		}
	}
	for i := 0; i < c.N(0, 400) && len(seeds) > 0 && c.NFailures() < 6; i++ {
		var idx, order []int
		for j := 0; j < 2+c.Rng.Intn(5); j++ {
			idx = append(idx, c.Rng.Intn(len(seeds)))
		}
		for j := 0; j < 2+c.Rng.Intn(12); j++ {
			order = append(order, c.Rng.Intn(len(idx)))
		}
		hist(idx, order)
	}
}

func init() {
	register("C16", &PropDef{
		Rule:   "OpenSSL smime/cms x {detached, -nodetach} x {-nosmimecap} x {-nocerts} x {-cades} produced at check time when the CLI exists, and smime/cms -noattr (no signed attributes: has to parse, need not verify); harness-built CMS SignedData in OpenSSL's shape (DER-sorted attribute SET, S/MIME capabilities on/off, attached/detached, certificates on/off, signer self-signed or issued by a CA, the signer's certificate itself signed with SHA-256, SHA-384 or SHA-512, a hand-encoded multi-valued-RDN name; signer keys of 2048 bits and - OpenSSL smime / cms -nodetach and harness-built - of 2047 and 2049 bits [thorough: also 3001, 4095], i.e. RSA moduli that are not a whole number of bytes long); signer certificates whose validity period stands in every relation to the signed signingTime (covering it, expired a year / a second before it, valid only from a second / a year after it, ending or starting exactly at it, a single instant equal to it, no validity period at all = both dates the zero time, only NotBefore zero; self-signed and CA-issued) for signatures made now [all relations], in 2011 and in 2049 [quick: a third of the relations each], the default 2023..2033 certificate with a signingTime one second before / exactly at / one second after either end and in 1999, and OpenSSL smime / cms signing now with such expired / not yet valid / period-less certificates - validity periods play no part in the property: the signature must verify against the signer's certificate and be rejected for the twin and the unrelated one; ATTACHED signatures over each kind of content by what its octets look like to a DER reader (text, 1 KiB of random bytes, a single zero byte, a file that is itself exactly one DER SEQUENCE - a small one, a .der certificate, another signature blob -, one OCTET STRING holding a SEQUENCE, one SET, a SEQUENCE followed by one more byte, bytes that only start like a SEQUENCE), harness-built in OpenSSL's shape and made by OpenSSL smime / cms -nodetach (quick: the two tools alternate over the kinds, every third kind also detached; thorough: both, and detached, for every kind); the sbsign / sbvarsign artefacts of the repository; a certificates field that is PRESENT but does not hold the signer's own certificate (the chain is shipped, the verifier holds the leaf): harness-built with the issuing CA's certificate only, the CA's and an unrelated one, one or two unrelated ones only (CA-issued and self-signed signers, attached / detached), and openssl smime / cms -nocerts -certfile <CA certificate> - it must verify against the signer's certificate like any other; signed attributes WITHOUT the optional signingTime attribute: harness-built (alone, with S/MIME capabilities, with additional signed attributes; attached / detached) and openssl cms -no_signing_time (plain, -nodetach -nosmimecap, -nocerts -certfile) - they must verify, and the reconstruction from the parsed values must be the transmitted bytes (no attribute the signer did not sign). Harness-built blobs without signed attributes (signature over the content octets, attached and detached) have to parse. Each is parsed and verified against the signer's certificate, a twin (same issuer+serial, other key) and an unrelated certificate - on a fresh parsed object and on ONE parsed object that answers for several certificates in turn, in both orders (signer's certificate after the twin: Verify(twin), Verify(signer), Verify(twin), Verify(signer); twin and unrelated certificate after the signer's) -, and its signed attributes are re-encoded and compared with the transmitted bytes located with encoding/asn1; where the blob verifies, the entry's signature is checked with crypto/rsa under the signer's key over the re-encoding itself. The verifying process's local time zone: for every blob with signed attributes the verdict for the signer's certificate and the reconstruction of the signed attributes are also asked of worker processes started with TZ = Asia/Tokyo, America/St_Johns, Europe/Berlin, Etc/GMT+12, Etc/GMT-14 and UTC (quick: two zones per blob, rotating; thorough: all six; the worker reports its offset, a case counts as non-trivial when it is not zero): the blob must verify there, the verdict must be the one given in this process, and the reconstruction must be the transmitted bytes (signingTime is a UTCTime ending in Z, whatever the zone of the process that re-encodes it). Histories of reconstructions: for every window of three seeds (two neighbours and one seven places on) the three signatures are parsed, Attributes.Marshal is called on them in the order 0,1,2,0,2,1 with EVERY result kept, and at the end each kept result must still be the bytes signed in its own signature (thorough: 400 random histories over 2-6 seeds and 2-13 reconstructions as well). Producer configurations that move things around (cmsVariantSeeds, opensslVariantSeeds): (a) an encapsulated content type other than data - object identifiers of 3, 10, 12, 13, 14, 15, 24 and 38 DER octets, harness-built (attached / detached alternating; thorough: both) and openssl cms -econtent_type with 10, 13, 14 and 24 octets (quick: two of {-nodetach, detached, -nosmimecap, both} each; thorough: all four): the signed contentType attribute grows with the identifier and changes its place in the DER-sorted SET (as long as signingTime at 13 octets, behind it from 14 on); (b) additional signed attributes by where their encoding sorts: shorter than contentType, between signingTime and messageDigest, exactly as long as messageDigest with a type that sorts in front of / behind it, one attribute with two values, and a short, a medium and a long one together (thorough: each also under a 14-octet content type); (c) SEVERAL signers of one content with a digest algorithm each: the SHA-256 signer in front of or behind a co-signer that uses SHA-512, SHA-1, SHA-384 or SHA-256 for its message digest and its signature (attached: both orders; detached: one order in quick, both in thorough), and three signers SHA-512 + SHA-256 + SHA-1; each must verify against the SHA-256 signer's certificate (whatever the other entries hold), be rejected for its twin and a stranger, has to parse when asked under the co-signer's certificate, and EVERY entry's attributes must re-encode to the transmitted bytes. Every case is non-trivial; distinct = distinct (blob, certificate).",
		Assume: []string{"which OpenSSL configurations ran is recorded in notes.openssl; nothing depends on the CLI being present"},
		Eval:   c16Eval, Gen: c16Gen,
	})
}

func splitAttrs(s string) []string {
	var out []string
	for _, p := range bytes.Split([]byte(s), []byte(" marshal=")) {
		out = append(out, string(p))
	}
	for i := 1; i < len(out); i++ {
		out[i] = "marshal=" + out[i]
	}
	return out
}

// per signer: "marshal=<hex> transmitted=<hex>" or "noattrs", joined by spaces; "err" if the blob does not parse
func goAttrsStr(blob []byte) string {
	var out []string
	var perr error
	pan, _ := safely(func() {
		p, err := pkcs7Parse(blob)
		if err != nil {
			perr = err
			return
		}
		for _, si := range p.SignerInfo {
			if si.AuthenticatedAttributes == nil {
				out = append(out, "noattrs")
				continue
			}
			m := "panic"
			safely(func() { m = hx(si.AuthenticatedAttributes.Marshal()) })
			out = append(out, "marshal="+m+" transmitted="+hx(rawAttrs(si.AuthenticatedAttributes)))
		}
	})
	if pan {
		return "panic"
	}
	if perr != nil {
		return "err"
	}
	s := ""
	for i, o := range out {
		if i > 0 {
			s += " "
		}
		s += o
	}
	return s
}

// the signed attributes of every signer as transmitted (re-tagged SET), located with encoding/asn1
func transmittedAttrs(blob []byte) [][]byte {
	var sd stdSignedData
	var ci stdContentInfo
	if rest, err := asn1.Unmarshal(blob, &ci); err == nil && len(rest) == 0 && ci.Type.Equal(asn1.ObjectIdentifier{1, 2, 840, 113549, 1, 7, 2}) {
		if _, err := asn1.Unmarshal(ci.Content.Bytes, &sd); err != nil {
			return nil
		}
	} else if _, err := asn1.Unmarshal(blob, &sd); err != nil {
		return nil
	}
	var out [][]byte
	for _, si := range sd.Signers {
		if len(si.Attrs.FullBytes) == 0 {
			out = append(out, nil)
		} else {
			out = append(out, append([]byte{0x31}, si.Attrs.FullBytes[1:]...))
		}
	}
	return out
}
