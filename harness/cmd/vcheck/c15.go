package main

import (
	"bytes"
	"crypto"
	"crypto/rsa"
	"crypto/x509"
	"fmt"
	"io"
	"os"
	"path/filepath"
	"strconv"
	"strings"
	"sync"
	"time"

	"github.com/foxboron/go-uefi/authenticode"
	"github.com/foxboron/go-uefi/efi"
	"github.com/foxboron/go-uefi/efi/attributes"
	efs "github.com/foxboron/go-uefi/efi/fs"
	"github.com/foxboron/go-uefi/efi/signature"
	"github.com/foxboron/go-uefi/efivar"
	"github.com/foxboron/go-uefi/efivarfs"
	"github.com/foxboron/go-uefi/efivarfs/fswrapper"
	"github.com/foxboron/go-uefi/pkcs7"
	"github.com/spf13/afero"
)

// ---- fault-injecting dependencies ----

type faultCounter struct {
	mu     sync.Mutex
	n      int
	faultK int
	kind   string
}

func (f *faultCounter) step() bool {
	f.mu.Lock()
	defer f.mu.Unlock()
	k := f.n
	f.n++
	return k == f.faultK
}

type faultSigner struct {
	inner crypto.Signer
	fc    *faultCounter
}

func (s faultSigner) Public() crypto.PublicKey { return s.inner.Public() }
func (s faultSigner) Sign(r io.Reader, d []byte, o crypto.SignerOpts) ([]byte, error) {
	if s.fc.step() {
		return nil, errInjected
	}
	return s.inner.Sign(r, d, o)
}

type faultReaderAt struct {
	inner io.ReaderAt
	fc    *faultCounter
}

func (r faultReaderAt) ReadAt(p []byte, off int64) (int, error) {
	if r.fc.step() {
		if r.fc.kind == "short" && len(p) > 1 {
			n, _ := r.inner.ReadAt(p[:len(p)-1], off)
			return n, io.ErrUnexpectedEOF
		}
		// the reader ends early (the file was truncated after Parse saw it): a short count with io.EOF
		if r.fc.kind == "short-eof" && len(p) > 1 {
			n, _ := r.inner.ReadAt(p[:len(p)-1], off)
			return n, io.EOF
		}
		if r.fc.kind == "eof0" {
			return 0, io.EOF
		}
		// outside the io.ReaderAt contract, but the kind of fault the property names: a short count without an error
		if r.fc.kind == "short-nil" {
			if len(p) <= 1 {
				return 0, nil
			}
			n, _ := r.inner.ReadAt(p[:len(p)-1], off)
			return n, nil
		}
		if r.fc.kind == "zero-nil" {
			return 0, nil
		}
		return 0, errInjected
	}
	return r.inner.ReadAt(p, off)
}

func init() {
	// one operation under one fault; k = -1 runs it clean. Output: "<result> calls=<n> trace=<…> state=<…>"
	workerOps["fault.run"] = func(a map[string]string) (string, string) {
		k, _ := strconv.Atoi(a["k"])
		kind := a["kind"]
		key := poolKeyDir(a["verif"], 2048, 0)
		cert := makeRSACert(key, certShapes(nil)[0])
		img := unhx(a["img"])
		payload := unhx(a["payload"])
		opReads := -1
		sfc := &faultCounter{faultK: -1}
		rfc := &faultCounter{faultK: -1, kind: kind}
		rec := newRecFs(afero.NewMemMapFs())
		rec.kind = kind
		switch a["dep"] {
		case "signer":
			sfc.faultK = k
		case "reader":
			rfc.faultK = k
		case "fs":
			rec.faultK = k
		}
		signer := faultSigner{key, sfc}
		fw := fswrapper.NewMemoryWrapper()
		fw.SetFS(rec)
		store := efivarfs.Open(&efivarfs.EFIFS{FSWrapper: fw})
		v := efivar.Db
		result, state := "", "n/a"
		switch a["op"] {
		case "sign-blob":
			b, err := pkcs7.SignPKCS7(signer, cert, pkcs7.OIDData, payload)
			result = resOf(err, b != nil)
		case "sign-variable":
			_, m, err := signature.SignEFIVariable(v, rawValue(payload), signer, cert)
			result = resOf(err, m != nil)
		case "write-variable":
			result = resOf(store.WriteVar(v, rawValue(payload)), true)
		case "write-variable-legacy", "write-variable-legacy-name", "write-variable-legacy-efi":
			// the legacy package-level writers, over the filesystem installed with fs.SetFS
			old := efs.Fs
			efs.SetFS(rec)
			result = resOf(legacyWrite(a["op"], v, payload), true)
			efs.SetFS(old)
		case "signed-update":
			result = resOf(store.WriteSignedUpdate(v, rawValue(payload), signer, cert), true)
		case "read-variable":
			mem := afero.NewMemMapFs()
			afero.WriteFile(mem, "/sys/firmware/efi/efivars/db-"+canonGUIDText(*v.GUID), append(v.Attributes.Bytes(), payload...), 0o644)
			rec = newRecFs(mem)
			rec.kind = kind
			if a["dep"] == "fs" {
				rec.faultK = k
			}
			fw.SetFS(rec)
			var pv probeValue
			err := store.GetVar(v, &pv)
			result = resOf(err, true)
			if err == nil && !bytes.Equal(pv.got, payload) {
				result = "wrong-value"
			}
		case "read-variable-legacy":
			// the legacy package-level reader (F31: it used to drop a failed Close of the file it read from)
			mem := afero.NewMemMapFs()
			afero.WriteFile(mem, "/sys/firmware/efi/efivars/db-"+canonGUIDText(*v.GUID), append(v.Attributes.Bytes(), payload...), 0o644)
			rec = newRecFs(mem)
			rec.kind = kind
			if a["dep"] == "fs" {
				rec.faultK = k
			}
			old := efs.Fs
			efs.SetFS(rec)
			_, buf, err := attributes.ReadEfivarsWithGuid(v.Name, *v.GUID)
			efs.SetFS(old)
			result = resOf(err, true)
			if err == nil && (buf == nil || !bytes.Equal(buf.Bytes(), payload)) {
				result = "wrong-value"
			}
		case "parse-image":
			p, err := authenticode.Parse(faultReaderAt{bytes.NewReader(img), rfc})
			result = resOf(err, p != nil)
			opReads = rfc.n
			if err == nil {
				rfc.mu.Lock()
				rfc.faultK = -1
				rfc.mu.Unlock()
				state = "digest:" + hx(p.Hash(crypto.SHA256))
			}
		case "hash-image":
			p, err := authenticode.Parse(bytes.NewReader(img))
			if err != nil {
				return "err", "parse"
			}
			p2, err := authenticode.Parse(faultReaderAt{bytes.NewReader(img), &faultCounter{faultK: -1}})
			_ = p2
			// the reader handed to Parse is the one Hash reads through: fault only after Parse
			fr := faultReaderAt{bytes.NewReader(img), rfc}
			rfc.faultK = -1
			p, err = authenticode.Parse(fr)
			if err != nil {
				return "err", "parse"
			}
			rfc.mu.Lock()
			rfc.n, rfc.faultK = 0, k
			rfc.mu.Unlock()
			want := a["digest"]
			d := p.Hash(crypto.SHA256)
			switch {
			case d == nil:
				result = "err"
			case want != "" && hx(d) != want:
				result = "wrong-digest:" + hx(d)
			default:
				result = "ok"
			}
		case "sign-image", "verify-image":
			var fr io.ReaderAt = bytes.NewReader(img)
			if a["dep"] == "reader" {
				rfc.faultK = -1
				fr = faultReaderAt{bytes.NewReader(img), rfc}
			}
			p, err := authenticode.Parse(fr)
			if err != nil {
				return "err", "parse"
			}
			before := append([]byte{}, p.Bytes()...) // snapshot before the fault is armed (Bytes reads through the reader)
			sb, _ := p.Signatures()
			if a["dep"] == "reader" {
				rfc.mu.Lock()
				rfc.n, rfc.faultK = 0, k
				rfc.mu.Unlock()
			}
			if a["op"] == "sign-image" {
				_, err = p.Sign(signer, cert)
				result = resOf(err, true)
				opReads = rfc.n
				rfc.mu.Lock()
				rfc.faultK = -1
				rfc.mu.Unlock()
				sa, _ := p.Signatures()
				state = "unchanged"
				if !bytes.Equal(before, p.Bytes()) || len(sa) != len(sb) {
					state = "changed"
				}
			} else {
				ok, err := p.Verify(cert)
				result = resOf(err, true)
				if err == nil && !ok {
					result = "ok-false"
				}
			}
		default:
			return "bad-op", a["op"]
		}
		if opReads < 0 {
			opReads = rfc.n
		}
		calls := sfc.n + opReads
		if a["dep"] == "fs" {
			calls = rec.Calls()
		}
		writes := 0
		for _, l := range rec.Log() {
			if strings.HasPrefix(l, "write(") || strings.HasPrefix(l, "openfile(") {
				writes++
			}
		}
		return "ok", fmt.Sprintf("%s calls=%d fswrites=%d state=%s sigcalls=%d readcalls=%d", result, calls, writes, state, sfc.n, opReads)
	}
}

// the three entry points of the legacy package-level writer for the variable v: by name and GUID, by name alone
// (the library derives the vendor GUID), and efi.WriteEFIVariable (the library also chooses the attributes)
func legacyWrite(op string, v efivar.Efivar, payload []byte) error {
	switch op {
	case "write-variable-legacy-name":
		return attributes.WriteEfivars(v.Name, v.Attributes, payload)
	case "write-variable-legacy-efi":
		return efi.WriteEFIVariable(v.Name, payload)
	}
	return attributes.WriteEfivarsWithGuid(v.Name, v.Attributes, payload, *v.GUID)
}

func resOf(err error, have bool) string {
	if err != nil {
		return "err"
	}
	return "ok"
}

var c15Worker *Worker
var _ = rsa.PublicKey{}
var _ = x509.Certificate{}

func c15Run(c *Ctx, args map[string]string) wRes {
	if c15Worker == nil {
		c15Worker = c.NewWorker(3 << 20)
	}
	args["verif"] = c.VerifDir
	return c15Worker.Do("fault.run", args, 30*time.Second)
}

// one (operation, dependency, input): count the calls of the clean run, then fail every call k in turn
func c15Eval(c *Ctx, cs Case) {
	op, dep := cs.S("operation"), cs.S("dep")
	base := map[string]string{"op": op, "dep": dep, "img": cs.S("img"), "payload": cs.S("payload"), "k": "-1", "kind": "error"}
	if op == "hash-image" {
		if d, cl := goDigest(unhx(cs.S("img")), crypto.SHA256); cl == "ok" {
			base["digest"] = hx(d)
		}
	}
	clean := c15Run(c, base)
	fail := func(what, goObs string, k int, kind, matcher string) {
		cc := Case{}
		for kk, v := range cs {
			cc[kk] = v
		}
		cc["k"], cc["kind"] = int64(k), kind
		c.Fail(Failure{Kind: "property", Matcher: matcher, What: fmt.Sprintf("%s, %s call %d fails (%s): %s", op, dep, k, kind, what), Case: cc, Go: goObs})
	}
	if clean.Class != "ok" || !strings.HasPrefix(clean.Out, "ok ") {
		fail("the fault-free run did not succeed", clean.Class+" "+clean.Out, -1, "none", "")
		return
	}
	field := func(s, key string) string { return fieldAfter(s, key+"=") }
	n := 0
	switch dep {
	case "signer":
		n, _ = strconv.Atoi(field(clean.Out, "sigcalls"))
	case "reader":
		n, _ = strconv.Atoi(field(clean.Out, "readcalls"))
	case "fs":
		n, _ = strconv.Atoi(field(clean.Out, "calls"))
	}
	c.Note("calls/"+op+"/"+dep, n)
	only := int(cs.I("only_k"))
	kinds := []string{"error"}
	if dep == "fs" {
		kinds = []string{"error", "short1", "short0"}
	} else if dep == "reader" {
		kinds = []string{"error", "short", "short-nil", "zero-nil"}
		if op != "parse-image" {
			// after Parse the sizes are known: a reader that ends early is a failure, not a shorter file
			kinds = append(kinds, "short-eof", "eof0")
		}
	}
	for k := 0; k < n; k++ {
		if _, has := cs["only_k"]; has && k != only {
			continue
		}
		for _, kind := range kinds {
			a := map[string]string{}
			for kk, v := range base {
				a[kk] = v
			}
			a["k"], a["kind"] = fmt.Sprint(k), kind
			res := c15Run(c, a)
			c.Count(fmt.Sprintf("%s|%d|%s", cs.Key(), k, kind), true, fmt.Sprintf("fault/%s/%s/%s/%s", op, dep, kind, res.Class))
			if k == 0 && kind == "error" {
				c.Sample(Case{"operation": op, "dep": dep, "k": k, "kind": kind, "result": res.Out})
			}
			if res.Class != "ok" {
				m := ""
				if res.Class == "exit" && dep == "signer" {
					m = "c15.signer_error_exits"
				}
				fail("the process did not keep running: "+res.Class, res.Out+res.Panic, k, kind, m)
				continue
			}
			result := strings.SplitN(res.Out, " ", 2)[0]
			// correspondence with the Lean model of the streamed digest under a failing reader
			// (Model/MultiFault.lean): same outcome class, and the same digest when there is one
			if op == "hash-image" && dep == "reader" {
				ki := map[string]int{"error": 0, "short": 1, "short-eof": 2, "eof0": 3, "short-nil": 4, "zero-nil": 5}[kind]
				m := c.Drv.Ask("pe.hashfault", cs.S("img"), "fault", fmt.Sprint(k), fmt.Sprint(ki))
				goCls := "nil"
				switch {
				case result == "ok":
					goCls = "ok " + base["digest"]
				case strings.HasPrefix(result, "wrong-digest:"):
					goCls = "ok " + strings.TrimPrefix(result, "wrong-digest:")
				}
				if m != goCls {
					cc := Case{}
					for kk, v := range cs {
						cc[kk] = v
					}
					cc["only_k"] = int64(k)
					c.Fail(Failure{Kind: "tie", What: fmt.Sprintf("Hash under a failing reader (read %d, %s): model and implementation disagree", k, kind), Case: cc, Model: clip(m), Go: clip(goCls)})
				}
			}
			// a short count is only a fault for the call that moves data
			if (kind == "short1" || kind == "short0") && !faultBites(c, a, k) {
				continue
			}
			if (kind == "short-nil" || kind == "zero-nil") && result == strings.SplitN(clean.Out, " ", 2)[0] && field(res.Out, "state") == field(clean.Out, "state") {
				// a short count without an error is no failure for a sequential read (io.ReadFull and io.Copy ask again):
				// what counts is that nothing wrong comes back. Equal to the clean run: the data were delivered after all.
				c.Count(fmt.Sprintf("%s|%d|%s|benign", cs.Key(), k, kind), false, "fault/"+op+"/reader/"+kind+"/benign-retried")
				continue
			}
			if result != "err" && op == "parse-image" && kind == "short" && field(res.Out, "state") == field(clean.Out, "state") {
				// debug/pe ignores the error of its 4-byte PE-signature read; a short read that still delivers
				// "PE" leaves the two zero bytes that the signature has anyway. The image is parsed from
				// complete data and its digest is the right one: no wrong value is returned (noted in DESIGN.md).
				c.Count(fmt.Sprintf("%s|%d|%s|benign", cs.Key(), k, kind), false, "fault/parse-image/reader/short/benign-stdlib-ignored-error")
				continue
			}
			if result != "err" {
				m := ""
				if dep == "fs" && strings.Contains(faultedCall(c, a, k), "close") {
					m = "c15.close_error_dropped"
				}
				fail("success (or a value) was reported: "+result, res.Out, k, kind, m)
			}
			if op == "sign-image" && field(res.Out, "state") != "unchanged" {
				fail("a failed signing changed the image object", res.Out, k, kind, "")
			}
			if (op == "signed-update" || op == "sign-variable") && dep == "signer" && field(res.Out, "fswrites") != "0" {
				fail("a failed signed update wrote to the filesystem", res.Out, k, kind, "")
			}
			c.Trace()
		}
	}
}

// which call of the clean trace has index k (fs only)? and does a short count apply to it?
var traceCache = map[string][]string{}

func cleanTrace(c *Ctx, a map[string]string) []string {
	key := a["op"] + a["payload"]
	if t, ok := traceCache[key]; ok {
		return t
	}
	// re-run locally on a recording filesystem (no faults) to learn the call sequence
	rec := newRecFs(afero.NewMemMapFs())
	fw := fswrapper.NewMemoryWrapper()
	fw.SetFS(rec)
	store := efivarfs.Open(&efivarfs.EFIFS{FSWrapper: fw})
	v := efivar.Db
	switch a["op"] {
	case "write-variable":
		store.WriteVar(v, rawValue(unhx(a["payload"])))
	case "signed-update":
		key := poolKey(c, 2048, 0)
		store.WriteSignedUpdate(v, rawValue(unhx(a["payload"])), key, makeRSACert(key, certShapes(c)[0]))
	case "read-variable":
		mem := afero.NewMemMapFs()
		afero.WriteFile(mem, "/sys/firmware/efi/efivars/db-"+canonGUIDText(*v.GUID), append(v.Attributes.Bytes(), unhx(a["payload"])...), 0o644)
		rec = newRecFs(mem)
		fw.SetFS(rec)
		var pv probeValue
		store.GetVar(v, &pv)
	}
	traceCache[key] = rec.Log()
	return rec.Log()
}

func faultedCall(c *Ctx, a map[string]string, k int) string {
	t := cleanTrace(c, a)
	if k < len(t) {
		return t[k]
	}
	return ""
}

func faultBites(c *Ctx, a map[string]string, k int) bool {
	call := faultedCall(c, a, k)
	// a Read that delivers fewer bytes without an error is legal for an io.Reader (io.ReadFull asks again);
	// only a short *write* is a failure
	return strings.HasPrefix(call, "write(")
}

func c15Gen(c *Ctx) {
	defer func() {
		if c15Worker != nil {
			c15Worker.Close()
			c15Worker = nil
		}
	}()
	var images [][]byte
	if b, err := os.ReadFile(filepath.Join(c.RepoDir, "authenticode/testdata/test.pecoff")); err == nil {
		images = append(images, b)
	}
	for i := 0; i < c.N(1, 20); i++ {
		s := genPeSpec(c, false)
		s.CertBodies = nil
		images = append(images, buildPE(s).img)
	}
	u := newC09Universe(c)
	payloads := [][]byte{encodeList(tSHA256, nil, 48, [][2][]byte{{u.owners[0], u.data[0]}}), nil, randBytes(c, 100)}
	_ = attributes.EFI_VARIABLE_APPEND_WRITE
	for _, pl := range payloads {
		for _, od := range [][2]string{{"sign-blob", "signer"}, {"sign-variable", "signer"}, {"write-variable", "fs"}, {"write-variable-legacy", "fs"}, {"write-variable-legacy-name", "fs"}, {"write-variable-legacy-efi", "fs"}, {"signed-update", "signer"}, {"signed-update", "fs"}, {"read-variable", "fs"}, {"read-variable-legacy", "fs"}} {
			if c.NFailures() >= 12 {
				return
			}
			c15Eval(c, Case{"op": "faults", "operation": od[0], "dep": od[1], "payload": hx(pl)})
		}
	}
	for _, img := range images {
		signed, _, err := signImage(c, img, 0)
		if err != nil {
			continue
		}
		for _, od := range [][2]string{{"parse-image", "reader"}, {"hash-image", "reader"}, {"sign-image", "signer"}, {"sign-image", "reader"}} {
			if c.NFailures() >= 12 {
				return
			}
			c15Eval(c, Case{"op": "faults", "operation": od[0], "dep": od[1], "img": hx(img)})
		}
		// an image that already carries a signature: Parse also reads the certificate table
		for _, od := range [][2]string{{"parse-image", "reader"}, {"hash-image", "reader"}, {"sign-image", "reader"}, {"verify-image", "reader"}} {
			c15Eval(c, Case{"op": "faults", "operation": od[0], "dep": od[1], "img": hx(signed)})
		}
	}
}

func init() {
	register("C15", &PropDef{
		Rule:   "operations {sign blob, sign variable, write variable, signed update, read variable, parse / hash / sign / verify image} x the dependency they use (crypto.Signer, afero.Fs/afero.File, io.ReaderAt): the calls of the fault-free run are counted and then EVERY call position k is failed in turn (exhaustive per input) with each fault kind (error; for the filesystem also a write/read count of n-1 and of 0; for the reader also a short count with io.ErrUnexpectedEOF and, once Parse has fixed the sizes, a short count with io.EOF and an empty read with io.EOF), on unsigned and on already signed images, in a worker process. Write variable is exercised through the object API (EFIFS over FSWrapper.SetFS) and through the three entry points of the legacy package-level writer (attributes.WriteEfivarsWithGuid, attributes.WriteEfivars, efi.WriteEFIVariable, filesystem installed with fs.SetFS), each at every call position (OpenFile, Write, Close) with every filesystem fault kind. Checked: the result is an error (no digest for Hash), never success or a wrong value; a failed signing leaves Bytes() and Signatures() unchanged; a failed signer writes nothing. Every (operation, input, k, kind) is non-trivial and distinct.",
		Assume: []string{"a short count counts as a fault only on the call that moves data (Write / Read)", "during Parse an early io.EOF from the caller's reader is indistinguishable from a shorter file and is not injected there"},
		Eval:   c15Eval, Gen: c15Gen,
	})
}
