package main

import (
	"bytes"
	"crypto"
	"crypto/rsa"
	"crypto/x509"
	"fmt"
	"io"
	"os"
	"path/filepath"
	"strconv"
	"strings"
	"sync"
	"time"

	"github.com/foxboron/go-uefi/authenticode"
	"github.com/foxboron/go-uefi/efi"
	"github.com/foxboron/go-uefi/efi/attributes"
	efs "github.com/foxboron/go-uefi/efi/fs"
	"github.com/foxboron/go-uefi/efi/signature"
	"github.com/foxboron/go-uefi/efivar"
	"github.com/foxboron/go-uefi/efivarfs"
	"github.com/foxboron/go-uefi/efivarfs/fswrapper"
	"github.com/foxboron/go-uefi/pkcs7"
	"github.com/spf13/afero"
)

// ---- fault-injecting dependencies ----

type faultCounter struct {
	mu     sync.Mutex
	n      int
	faultK int
	kind   string
}

func (f *faultCounter) step() bool {
	f.mu.Lock()
	defer f.mu.Unlock()
	k := f.n
	f.n++
	return k == f.faultK
}

type faultSigner struct {
	inner crypto.Signer
	fc    *faultCounter
}

func (s faultSigner) Public() crypto.PublicKey { return s.inner.Public() }
func (s faultSigner) Sign(r io.Reader, d []byte, o crypto.SignerOpts) ([]byte, error) {
	if s.fc.step() {
		return nil, injectedErr(s.fc.kind)
	}
	return s.inner.Sign(r, d, o)
}

type faultReaderAt struct {
	inner io.ReaderAt
	fc    *faultCounter
}

func (r faultReaderAt) ReadAt(p []byte, off int64) (int, error) {
	if r.fc.step() {
		if r.fc.kind == "short" && len(p) > 1 {
			n, _ := r.inner.ReadAt(p[:len(p)-1], off)
			return n, io.ErrUnexpectedEOF
		}
		// the reader ends early (the file was truncated after Parse saw it): a short count with io.EOF
		if r.fc.kind == "short-eof" && len(p) > 1 {
			n, _ := r.inner.ReadAt(p[:len(p)-1], off)
			return n, io.EOF
		}
		if r.fc.kind == "eof0" {
			return 0, io.EOF
		}
		// outside the io.ReaderAt contract, but the kind of fault the property names: a short count without an error
		if r.fc.kind == "short-nil" {
			if len(p) <= 1 {
				return 0, nil
			}
			n, _ := r.inner.ReadAt(p[:len(p)-1], off)
			return n, nil
		}
		if r.fc.kind == "zero-nil" {
			return 0, nil
		}
		// no data and an error: the plain one, or one that wraps a sentinel (a wrapped io.EOF is a failed read,
		// not the end of the image)
		return 0, injectedErr(r.fc.kind)
	}
	return r.inner.ReadAt(p, off)
}

// faultStream is a caller-supplied sequential image reader (io.Reader) whose k-th Read fails: with no data, or
// (kind "short") with part of the data and the error. An early io.EOF is not injected: on a sequential reader
// it is the end of the data. A short count without an error is legal for an io.Reader.
type faultStream struct {
	inner io.Reader
	fc    *faultCounter
}

func (r faultStream) Read(p []byte) (int, error) {
	if r.fc.step() {
		if r.fc.kind == "short" && len(p) > 1 {
			n, _ := r.inner.Read(p[:len(p)/2])
			return n, errInjected
		}
		return 0, injectedErr(r.fc.kind)
	}
	return r.inner.Read(p)
}

// the variable file of v in the efivarfs directory
func c15VarPath(v efivar.Efivar) string {
	return "/sys/firmware/efi/efivars/" + v.Name + "-" + canonGUIDText(*v.GUID)
}

func init() {
	// one operation under one fault; k = -1 runs it clean. Output: "<result> calls=<n> trace=<…> state=<…>"
	workerOps["fault.run"] = func(a map[string]string) (string, string) {
		k, _ := strconv.Atoi(a["k"])
		kind := a["kind"]
		key := poolKeyDir(a["verif"], 2048, 0)
		cert := makeRSACert(key, certShapes(nil)[0])
		img := unhx(a["img"])
		payload := unhx(a["payload"])
		opReads := -1
		sfc := &faultCounter{faultK: -1, kind: kind}
		rfc := &faultCounter{faultK: -1, kind: kind}
		rec := newRecFs(afero.NewMemMapFs())
		rec.kind = kind
		switch a["dep"] {
		case "signer":
			sfc.faultK = k
		case "reader", "stream":
			rfc.faultK = k
		case "fs":
			rec.faultK = k
		}
		signer := faultSigner{key, sfc}
		fw := fswrapper.NewMemoryWrapper()
		fw.SetFS(rec)
		store := efivarfs.Open(&efivarfs.EFIFS{FSWrapper: fw})
		// a store that holds one variable file, behind the recording / fault-injecting filesystem
		holding := func(path string, content []byte) {
			mem := afero.NewMemMapFs()
			afero.WriteFile(mem, path, content, 0o644)
			rec = newRecFs(mem)
			rec.kind = kind
			if a["dep"] == "fs" {
				rec.faultK = k
			}
			fw.SetFS(rec)
		}
		legacy := func(f func()) { // the package-level API, over the filesystem installed with fs.SetFS
			old := efs.Fs
			efs.SetFS(rec)
			defer efs.SetFS(old)
			f()
		}
		v := efivar.Db
		result, state := "", "n/a"
		switch a["op"] {
		case "sign-blob":
			b, err := pkcs7.SignPKCS7(signer, cert, pkcs7.OIDData, payload)
			result = resOf(err, b != nil)
		case "sign-variable":
			_, m, err := signature.SignEFIVariable(v, rawValue(payload), signer, cert)
			result = resOf(err, m != nil)
		case "write-variable":
			result = resOf(store.WriteVar(v, rawValue(payload)), true)
		case "write-variable-legacy", "write-variable-legacy-name", "write-variable-legacy-efi":
			// the legacy package-level writers, over the filesystem installed with fs.SetFS
			old := efs.Fs
			efs.SetFS(rec)
			result = resOf(legacyWrite(a["op"], v, payload), true)
			efs.SetFS(old)
		case "signed-update":
			result = resOf(store.WriteSignedUpdate(v, rawValue(payload), signer, cert), true)
		case "read-variable":
			mem := afero.NewMemMapFs()
			afero.WriteFile(mem, "/sys/firmware/efi/efivars/db-"+canonGUIDText(*v.GUID), append(v.Attributes.Bytes(), payload...), 0o644)
			rec = newRecFs(mem)
			rec.kind = kind
			if a["dep"] == "fs" {
				rec.faultK = k
			}
			fw.SetFS(rec)
			var pv probeValue
			err := store.GetVar(v, &pv)
			result = resOf(err, true)
			if err == nil && !bytes.Equal(pv.got, payload) {
				result = "wrong-value"
			}
		case "read-variable-legacy":
			// the legacy package-level reader (F31: it used to drop a failed Close of the file it read from)
			mem := afero.NewMemMapFs()
			afero.WriteFile(mem, "/sys/firmware/efi/efivars/db-"+canonGUIDText(*v.GUID), append(v.Attributes.Bytes(), payload...), 0o644)
			rec = newRecFs(mem)
			rec.kind = kind
			if a["dep"] == "fs" {
				rec.faultK = k
			}
			old := efs.Fs
			efs.SetFS(rec)
			_, buf, err := attributes.ReadEfivarsWithGuid(v.Name, *v.GUID)
			efs.SetFS(old)
			result = resOf(err, true)
			if err == nil && (buf == nil || !bytes.Equal(buf.Bytes(), payload)) {
				result = "wrong-value"
			}
		case "read-variable-file", "read-variable-legacy-file", "read-variable-legacy-name":
			// the other entry points of the two readers: by full path (object and package-level), and by name
			// alone (the package-level reader derives the vendor GUID)
			holding(c15VarPath(v), append(v.Attributes.Bytes(), payload...))
			var buf *bytes.Buffer
			var err error
			switch a["op"] {
			case "read-variable-file":
				_, buf, err = fw.ReadEfivarsFile(c15VarPath(v))
			case "read-variable-legacy-file":
				legacy(func() { _, buf, err = attributes.ReadEfivarsFile(c15VarPath(v)) })
			default:
				legacy(func() { _, buf, err = attributes.ReadEfivars(v.Name) })
			}
			result = resOf(err, true)
			if err == nil && (buf == nil || !bytes.Equal(buf.Bytes(), payload)) {
				result = "wrong-value"
			}
		case "read-db", "read-db-legacy":
			// the typed getters of the signature database (payload: an encoded database)
			holding(c15VarPath(v), append(v.Attributes.Bytes(), payload...))
			var db *signature.SignatureDatabase
			var err error
			if a["op"] == "read-db" {
				db, err = store.Getdb()
			} else {
				legacy(func() { db, err = efi.Getdb() })
			}
			result = resOf(err, true)
			if err == nil && (db == nil || !bytes.Equal(db.Bytes(), payload)) {
				result = "wrong-value"
			}
		case "read-bool", "read-bool-legacy":
			// SecureBoot holds 1. The package-level getter has no error result: whatever it returns is reported as the value.
			sb := efivar.SecureBoot
			holding(c15VarPath(sb), append(sb.Attributes.Bytes(), 1))
			var on bool
			var err error
			if a["op"] == "read-bool" {
				on, err = store.GetSecureBoot()
			} else {
				legacy(func() { on = efi.GetSecureBoot() })
			}
			result = resOf(err, true)
			if err == nil && !on {
				result = "wrong-value"
			}
		case "read-bootorder", "read-bootorder-legacy":
			// BootOrder holds two entries. Neither getter has an error result.
			bo := efivar.BootOrder
			holding(c15VarPath(bo), append(bo.Attributes.Bytes(), 1, 0, 0x1a, 0))
			var names []string
			if a["op"] == "read-bootorder" {
				names = store.GetBootOrder()
			} else {
				legacy(func() { names = efi.GetBootOrder() })
			}
			result = "ok"
			if strings.Join(names, ",") != "Boot0001,Boot001A" {
				result = "wrong-value"
			}
		case "write-file":
			result = resOf(fw.WriteFile(c15VarPath(v), payload, 0o644), true)
		case "read-file":
			holding(c15VarPath(v), payload)
			b, err := fw.ReadFile(c15VarPath(v))
			result = resOf(err, true)
			if err == nil && !bytes.Equal(b, payload) {
				result = "wrong-value"
			}
		case "sign-authenticode":
			// the exported signing routine under Sign: the image content comes from a caller-supplied io.Reader
			b, err := authenticode.SignAuthenticode(signer, cert, faultStream{bytes.NewReader(img), rfc}, crypto.SHA256)
			result = resOf(err, b != nil)
		case "verify-authenticode":
			// the exported verification routine under Verify: a signature over img, checked against img read
			// through a caller-supplied io.Reader
			sig, err := authenticode.SignAuthenticode(key, cert, bytes.NewReader(img), crypto.SHA256)
			if err != nil {
				return "err", "sign"
			}
			ac, err := authenticode.ParseAuthenticode(sig)
			if err != nil {
				return "err", "parse-signature"
			}
			ok, err := ac.Verify(cert, faultStream{bytes.NewReader(img), rfc})
			result = resOf(err, true)
			if err == nil && !ok {
				result = "ok-false"
			}
		case "open-image":
			// the image read back through Open(): the reader it returns reads through the caller's io.ReaderAt
			fr := faultReaderAt{bytes.NewReader(img), rfc}
			rfc.faultK = -1
			p, err := authenticode.Parse(fr)
			if err != nil {
				return "err", "parse"
			}
			whole := append([]byte{}, p.Bytes()...)
			rfc.mu.Lock()
			rfc.n, rfc.faultK = 0, k
			rfc.mu.Unlock()
			got, err := io.ReadAll(p.Open())
			result = resOf(err, true)
			if err == nil && !bytes.Equal(got, whole) {
				result = fmt.Sprintf("wrong-value:%d-of-%d-bytes", len(got), len(whole))
			}
		case "bytes-image":
			// Bytes() has no error result: whatever it returns is reported as the image
			fr := faultReaderAt{bytes.NewReader(img), rfc}
			rfc.faultK = -1
			p, err := authenticode.Parse(fr)
			if err != nil {
				return "err", "parse"
			}
			whole := append([]byte{}, p.Bytes()...)
			rfc.mu.Lock()
			rfc.n, rfc.faultK = 0, k
			rfc.mu.Unlock()
			got := p.Bytes()
			result = "ok"
			if !bytes.Equal(got, whole) {
				result = fmt.Sprintf("wrong-value:%d-of-%d-bytes", len(got), len(whole))
			}
		case "parse-image":
			p, err := authenticode.Parse(faultReaderAt{bytes.NewReader(img), rfc})
			result = resOf(err, p != nil)
			opReads = rfc.n
			if err == nil {
				rfc.mu.Lock()
				rfc.faultK = -1
				rfc.mu.Unlock()
				state = "digest:" + hx(p.Hash(crypto.SHA256))
			}
		case "hash-image":
			p, err := authenticode.Parse(bytes.NewReader(img))
			if err != nil {
				return "err", "parse"
			}
			p2, err := authenticode.Parse(faultReaderAt{bytes.NewReader(img), &faultCounter{faultK: -1}})
			_ = p2
			// the reader handed to Parse is the one Hash reads through: fault only after Parse
			fr := faultReaderAt{bytes.NewReader(img), rfc}
			rfc.faultK = -1
			p, err = authenticode.Parse(fr)
			if err != nil {
				return "err", "parse"
			}
			rfc.mu.Lock()
			rfc.n, rfc.faultK = 0, k
			rfc.mu.Unlock()
			want := a["digest"]
			d := p.Hash(crypto.SHA256)
			switch {
			case d == nil:
				result = "err"
			case want != "" && hx(d) != want:
				result = "wrong-digest:" + hx(d)
			default:
				result = "ok"
			}
		case "sign-image", "verify-image":
			var fr io.ReaderAt = bytes.NewReader(img)
			if a["dep"] == "reader" {
				rfc.faultK = -1
				fr = faultReaderAt{bytes.NewReader(img), rfc}
			}
			p, err := authenticode.Parse(fr)
			if err != nil {
				return "err", "parse"
			}
			before := append([]byte{}, p.Bytes()...) // snapshot before the fault is armed (Bytes reads through the reader)
			sb, _ := p.Signatures()
			if a["dep"] == "reader" {
				rfc.mu.Lock()
				rfc.n, rfc.faultK = 0, k
				rfc.mu.Unlock()
			}
			if a["op"] == "sign-image" {
				_, err = p.Sign(signer, cert)
				result = resOf(err, true)
				opReads = rfc.n
				rfc.mu.Lock()
				rfc.faultK = -1
				rfc.mu.Unlock()
				sa, _ := p.Signatures()
				state = "unchanged"
				if !bytes.Equal(before, p.Bytes()) || len(sa) != len(sb) {
					state = "changed"
				}
			} else {
				ok, err := p.Verify(cert)
				result = resOf(err, true)
				if err == nil && !ok {
					result = "ok-false"
				}
			}
		default:
			return "bad-op", a["op"]
		}
		if opReads < 0 {
			opReads = rfc.n
		}
		calls := sfc.n + opReads
		if a["dep"] == "fs" {
			calls = rec.Calls()
		}
		writes := 0
		for _, l := range rec.Log() {
			if strings.HasPrefix(l, "write(") || strings.HasPrefix(l, "openfile(") {
				writes++
			}
		}
		// the names of the filesystem calls in order (the parent learns from the fault-free run which call has index k)
		names := []string{}
		for _, l := range rec.Log() {
			names = append(names, strings.TrimSuffix(strings.SplitN(l, "(", 2)[0], "!"))
		}
		return "ok", fmt.Sprintf("%s calls=%d fswrites=%d state=%s sigcalls=%d readcalls=%d ops=%s", result, calls, writes, state, sfc.n, opReads, strings.Join(names, ","))
	}
}

// the three entry points of the legacy package-level writer for the variable v: by name and GUID, by name alone
// (the library derives the vendor GUID), and efi.WriteEFIVariable (the library also chooses the attributes)
func legacyWrite(op string, v efivar.Efivar, payload []byte) error {
	switch op {
	case "write-variable-legacy-name":
		return attributes.WriteEfivars(v.Name, v.Attributes, payload)
	case "write-variable-legacy-efi":
		return efi.WriteEFIVariable(v.Name, payload)
	}
	return attributes.WriteEfivarsWithGuid(v.Name, v.Attributes, payload, *v.GUID)
}

func resOf(err error, have bool) string {
	if err != nil {
		return "err"
	}
	return "ok"
}

var c15Worker *Worker
var _ = rsa.PublicKey{}
var _ = x509.Certificate{}

func c15Run(c *Ctx, args map[string]string) wRes {
	if c15Worker == nil {
		c15Worker = c.NewWorker(3 << 20)
	}
	args["verif"] = c.VerifDir
	return c15Worker.Do("fault.run", args, 30*time.Second)
}

// one (operation, dependency, input): count the calls of the clean run, then fail every call k in turn
func c15Eval(c *Ctx, cs Case) {
	op, dep := cs.S("operation"), cs.S("dep")
	base := map[string]string{"op": op, "dep": dep, "img": cs.S("img"), "payload": cs.S("payload"), "k": "-1", "kind": "error"}
	if op == "hash-image" {
		if d, cl := goDigest(unhx(cs.S("img")), crypto.SHA256); cl == "ok" {
			base["digest"] = hx(d)
		}
	}
	clean := c15Run(c, base)
	fail := func(what, goObs string, k int, kind, matcher string) {
		cc := Case{}
		for kk, v := range cs {
			cc[kk] = v
		}
		cc["k"], cc["kind"] = int64(k), kind
		c.Fail(Failure{Kind: "property", Matcher: matcher, What: fmt.Sprintf("%s, %s call %d fails (%s): %s", op, dep, k, kind, what), Case: cc, Go: goObs})
	}
	if clean.Class != "ok" || !strings.HasPrefix(clean.Out, "ok ") {
		fail("the fault-free run did not succeed", clean.Class+" "+clean.Out, -1, "none", "")
		return
	}
	field := func(s, key string) string { return fieldAfter(s, key+"=") }
	n := 0
	switch dep {
	case "signer":
		n, _ = strconv.Atoi(field(clean.Out, "sigcalls"))
	case "reader", "stream":
		n, _ = strconv.Atoi(field(clean.Out, "readcalls"))
	case "fs":
		n, _ = strconv.Atoi(field(clean.Out, "calls"))
	}
	c.Note("calls/"+op+"/"+dep, n)
	// which filesystem call has index k: the call sequence of the fault-free run as the worker recorded it
	// (so every operation, the package-level ones included, is judged at its Write and at its Close)
	fsOps := strings.Split(field(clean.Out, "ops"), ",")
	faultedCall := func(k int) string {
		if dep == "fs" && k < len(fsOps) {
			return fsOps[k]
		}
		return ""
	}
	only := int(cs.I("only_k"))
	kinds := []string{"error"}
	if dep == "fs" {
		kinds = []string{"error", "short1", "short0"}
	} else if dep == "reader" {
		kinds = []string{"error", "short", "short-nil", "zero-nil"}
		if op != "parse-image" {
			// after Parse the sizes are known: a reader that ends early is a failure, not a shorter file
			kinds = append(kinds, "short-eof", "eof0")
		}
	} else if dep == "stream" {
		kinds = []string{"error", "short"}
	}
	// the identity of the error: for every dependency the failing call also returns errors that WRAP a sentinel
	// (io.EOF, io.ErrUnexpectedEOF, fs.ErrClosed, context.Canceled, context.DeadlineExceeded).  The call failed: a
	// wrapped io.EOF is not the bare io.EOF that ends a file or a stream.
	kinds = append(kinds, wrappedFaultKinds...)
	// a case may name the fault kinds it wants ("kinds") and the filesystem calls it leaves out ("skip_calls"):
	// the generator uses this to keep the classes of the reported findings (see c15Gen) out of the routine run
	if ks := cs.S("kinds"); ks != "" {
		var sel []string
		for _, kd := range kinds {
			if strings.Contains(","+ks+",", ","+kd+",") {
				sel = append(sel, kd)
			}
		}
		kinds = sel
	}
	skipCalls := cs.S("skip_calls")
	for k := 0; k < n; k++ {
		if _, has := cs["only_k"]; has && k != only {
			continue
		}
		if skipCalls != "" && faultedCall(k) != "" && strings.Contains(","+skipCalls+",", ","+faultedCall(k)+",") {
			continue
		}
		for _, kind := range kinds {
			a := map[string]string{}
			for kk, v := range base {
				a[kk] = v
			}
			a["k"], a["kind"] = fmt.Sprint(k), kind
			res := c15Run(c, a)
			c.Count(fmt.Sprintf("%s|%d|%s", cs.Key(), k, kind), true, fmt.Sprintf("fault/%s/%s/%s/%s", op, dep, kind, res.Class))
			if k == 0 && kind == "error" {
				c.Sample(Case{"operation": op, "dep": dep, "k": k, "kind": kind, "result": res.Out})
			}
			if res.Class != "ok" {
				m := ""
				if res.Class == "exit" && dep == "signer" {
					m = "c15.signer_error_exits"
				}
				fail("the process did not keep running: "+res.Class, res.Out+res.Panic, k, kind, m)
				continue
			}
			result := strings.SplitN(res.Out, " ", 2)[0]
			// correspondence with the Lean model of the streamed digest under a failing reader
			// (Model/MultiFault.lean): same outcome class, and the same digest when there is one
			if op == "hash-image" && dep == "reader" {
				ki := map[string]int{"error": 0, "short": 1, "short-eof": 2, "eof0": 3, "short-nil": 4, "zero-nil": 5}[kind]
				m := c.Drv.Ask("pe.hashfault", cs.S("img"), "fault", fmt.Sprint(k), fmt.Sprint(ki))
				goCls := "nil"
				switch {
				case result == "ok":
					goCls = "ok " + base["digest"]
				case strings.HasPrefix(result, "wrong-digest:"):
					goCls = "ok " + strings.TrimPrefix(result, "wrong-digest:")
				}
				if m != goCls {
					cc := Case{}
					for kk, v := range cs {
						cc[kk] = v
					}
					cc["only_k"] = int64(k)
					c.Fail(Failure{Kind: "tie", What: fmt.Sprintf("Hash under a failing reader (read %d, %s): model and implementation disagree", k, kind), Case: cc, Model: clip(m), Go: clip(goCls)})
				}
			}
			// a short count is only a fault for the call that moves data
			// (a Read that delivers fewer bytes without an error is legal for an io.Reader - io.ReadFull asks
			// again; only a short *write* is a failure)
			if (kind == "short1" || kind == "short0") && faultedCall(k) != "write" {
				continue
			}
			if (kind == "short1" || kind == "short0") && op == "write-file" && cs.S("payload") == "-" {
				continue // nothing to write: a count of 0 is the full count (the variable writers always have the 4 attribute bytes)
			}
			if (kind == "short-nil" || kind == "zero-nil") && result == strings.SplitN(clean.Out, " ", 2)[0] && field(res.Out, "state") == field(clean.Out, "state") {
				// a short count without an error is no failure for a sequential read (io.ReadFull and io.Copy ask again):
				// what counts is that nothing wrong comes back. Equal to the clean run: the data were delivered after all.
				c.Count(fmt.Sprintf("%s|%d|%s|benign", cs.Key(), k, kind), false, "fault/"+op+"/reader/"+kind+"/benign-retried")
				continue
			}
			if result != "err" && op == "parse-image" && kind == "short" && field(res.Out, "state") == field(clean.Out, "state") {
				// debug/pe ignores the error of its 4-byte PE-signature read; a short read that still delivers
				// "PE" leaves the two zero bytes that the signature has anyway. The image is parsed from
				// complete data and its digest is the right one: no wrong value is returned (noted in DESIGN.md).
				c.Count(fmt.Sprintf("%s|%d|%s|benign", cs.Key(), k, kind), false, "fault/parse-image/reader/short/benign-stdlib-ignored-error")
				continue
			}
			if result != "err" {
				m := ""
				if dep == "fs" && faultedCall(k) == "close" {
					m = "c15.close_error_dropped"
				}
				fail("success (or a value) was reported: "+result, res.Out, k, kind, m)
			}
			if op == "sign-image" && field(res.Out, "state") != "unchanged" {
				fail("a failed signing changed the image object", res.Out, k, kind, "")
			}
			if (op == "signed-update" || op == "sign-variable") && dep == "signer" && field(res.Out, "fswrites") != "0" {
				fail("a failed signed update wrote to the filesystem", res.Out, k, kind, "")
			}
			c.Trace()
		}
	}
}

func c15Gen(c *Ctx) {
	defer func() {
		if c15Worker != nil {
			c15Worker.Close()
			c15Worker = nil
		}
	}()
	var images [][]byte
	nMulti := 0
	if b, err := os.ReadFile(filepath.Join(c.RepoDir, "authenticode/testdata/test.pecoff")); err == nil {
		images = append(images, b)
	}
	for i := 0; i < c.N(1, 20); i++ {
		s := genPeSpec(c, false)
		s.CertBodies = nil
		images = append(images, buildPE(s).img)
	}
	u := newC09Universe(c)
	payloads := [][]byte{encodeList(tSHA256, nil, 48, [][2][]byte{{u.owners[0], u.data[0]}}), nil, randBytes(c, 100)}
	_ = attributes.EFI_VARIABLE_APPEND_WRITE
	for pi, pl := range payloads {
		for _, od := range [][2]string{{"sign-blob", "signer"}, {"sign-variable", "signer"}, {"write-variable", "fs"}, {"write-variable-legacy", "fs"}, {"write-variable-legacy-name", "fs"}, {"write-variable-legacy-efi", "fs"}, {"signed-update", "signer"}, {"signed-update", "fs"}, {"read-variable", "fs"}, {"read-variable-legacy", "fs"}} {
			if c.NFailures() >= 12 {
				return
			}
			c15Eval(c, Case{"op": "faults", "operation": od[0], "dep": od[1], "payload": hx(pl)})
		}
		// the other public entry points of the same functionality
		more := [][2]string{{"read-variable-file", "fs"}, {"read-variable-legacy-file", "fs"}, {"read-variable-legacy-name", "fs"}}
		if pi != 2 { // the typed getters decode the value: an encoded database and the empty one
			more = append(more, [2]string{"read-db", "fs"}, [2]string{"read-db-legacy", "fs"})
		}
		if pi == 0 {
			more = append(more, [2]string{"read-bool", "fs"})
		}
		for _, od := range more {
			if c.NFailures() >= 12 {
				return
			}
			cs := Case{"op": "faults", "operation": od[0], "dep": od[1], "payload": hx(pl)}
			if od[0] == "read-db-legacy" {
				// Not generated (by design of the legacy helpers in efi/efi.go, which is outside the files C15 is anchored in; noted in
				// DESIGN.md section 7): the package-level getters efi.GetPK / GetKEK / Getdb / Getdbx
				// answer ANY failure whose error wraps io.EOF (errors.Is(err, io.EOF): a failed open, stat, read or close
				// of a layered filesystem alike) with an empty database and no error.  The kind stays available for replays.
				var ks []string
				for _, kd := range append([]string{"error", "short1", "short0"}, wrappedFaultKinds...) {
					if kd != "wraps-eof" {
						ks = append(ks, kd)
					}
				}
				cs["kinds"] = strings.Join(ks, ",")
			}
			c15Eval(c, cs)
		}
		// The generic file methods of the filesystem wrapper (F36: WriteFile used to drop the count of Write, ReadFile the
		// error of Close). A failed Stat in ReadFile is not injected: like os.ReadFile it uses the size as a capacity
		// hint only, and the data it then returns are complete (see Assume).
		c15Eval(c, Case{"op": "faults", "operation": "write-file", "dep": "fs", "payload": hx(pl)})
		c15Eval(c, Case{"op": "faults", "operation": "read-file", "dep": "fs", "payload": hx(pl), "skip_calls": "stat"})
		// Not generated (outside the statement: these signatures have no error result, noted in DESIGN.md section 7): the getters - efi.GetSecureBoot / efi.GetSetupMode (false),
		// efi.GetBootOrder and Efivarfs.GetBootOrder (no names) answer a failed read with a value
		// (operations read-bool-legacy, read-bootorder, read-bootorder-legacy of the worker).
	}
	for _, img := range images {
		signed, _, err := signImage(c, img, 0)
		if err != nil {
			continue
		}
		for _, od := range [][2]string{{"parse-image", "reader"}, {"hash-image", "reader"}, {"sign-image", "signer"}, {"sign-image", "reader"},
			{"sign-authenticode", "signer"}, {"sign-authenticode", "stream"}, {"verify-authenticode", "stream"}} {
			if c.NFailures() >= 12 {
				return
			}
			c15Eval(c, Case{"op": "faults", "operation": od[0], "dep": od[1], "img": hx(img)})
		}
		// the image read back through Open(). Not generated (outside the statement's operations, noted in DESIGN.md section 7): when the caller's
		// reader ends early after Parse (a short count with io.EOF, an empty read with io.EOF) the reader returned
		// by Open() delivers the image with the missing bytes left out and no error (Hash, Sign and Verify report
		// the same fault as an error since F21). Bytes() (operation bytes-image) has no error result at all and
		// returns what it got under every fault kind.
		c15Eval(c, Case{"op": "faults", "operation": "open-image", "dep": "reader", "img": hx(img), "kinds": "error,short,short-nil,zero-nil," + strings.Join(wrappedFaultKinds, ",")})
		// an image that already carries a signature: Parse also reads the certificate table
		for _, od := range [][2]string{{"parse-image", "reader"}, {"hash-image", "reader"}, {"sign-image", "reader"}, {"verify-image", "reader"}} {
			c15Eval(c, Case{"op": "faults", "operation": od[0], "dep": od[1], "img": hx(signed)})
		}
		// images that carry SEVERAL signatures (dual signing, a vendor's signature next to the owner's), by different
		// certificates; the certificate handed to Verify (key 0) is that of the LAST signature, so Verify looks at
		// every signature before it finds its signer (until F38 it read the image once per signature, since then once
		// per call - the positions are those of the fault-free run either way): a read that fails is a failed read of
		// the operation, whichever signature was being checked
		multi := [][]int{{1, 0}}
		if c.Thorough {
			multi = append(multi, []int{1, 2, 0}, []int{0, 1})
		}
		for _, signers := range multi {
			cur, ok := img, true
			for _, ki := range signers {
				next, _, err := signImage(c, cur, ki)
				if err != nil {
					ok = false
					break
				}
				cur = next
			}
			if !ok || c.NFailures() >= 12 {
				continue
			}
			if p, err := authenticode.Parse(bytes.NewReader(cur)); err == nil {
				if sigs, _ := p.Signatures(); len(sigs) != len(signers) {
					c.Note("multi_signed_image_not_built", fmt.Sprintf("%d signatures after %d signings", len(sigs), len(signers)))
					continue
				}
			}
			nMulti++
			for _, od := range [][2]string{{"verify-image", "reader"}, {"hash-image", "reader"}} {
				c15Eval(c, Case{"op": "faults", "operation": od[0], "dep": od[1], "img": hx(cur), "signatures": int64(len(signers))})
			}
		}
	}
	c.Note("images_with_several_signatures", nMulti)
}

func init() {
	register("C15", &PropDef{
		Rule:   "operations {sign blob, sign variable, write variable, signed update, read variable, parse / hash / sign / verify image} x the dependency they use (crypto.Signer, afero.Fs/afero.File, io.ReaderAt): the calls of the fault-free run are counted and then EVERY call position k is failed in turn (exhaustive per input) with each fault kind (error; for the filesystem also a write/read count of n-1 and of 0; for the reader also a short count with io.ErrUnexpectedEOF and, once Parse has fixed the sizes, a short count with io.EOF and an empty read with io.EOF), on unsigned and on already signed images, in a worker process. THE IDENTITY OF THE ERROR: for every dependency (signer, filesystem call, ReaderAt, sequential reader) and at every call position the failing call also returns, with no data, an error that WRAPS a sentinel - io.EOF (fmt.Errorf(\"...: %w\", io.EOF), as layered / remote filesystems and network readers produce), io.ErrUnexpectedEOF, fs.ErrClosed (inside a *fs.PathError), context.Canceled, context.DeadlineExceeded: the call failed, and a wrapped io.EOF is not the bare io.EOF that ends a file or stream, so the operation must return an error and no value (for the Lean model of the streamed digest these are the plain error). IMAGES WITH SEVERAL SIGNATURES: every image is also signed twice by different certificates (thorough: also three times, and with the matching certificate first) and Verify is run with the certificate of the LAST signature under every reader fault kind at every ReadAt of the fault-free run - Verify looks at every signature before it finds its signer (it read the image once per signature until F38 and reads it once per call since; the ReadAt positions are those counted in the fault-free run either way), and a read that fails while an earlier signature is being checked is a failed read of the operation; Hash is run on these images too. Write variable is exercised through the object API (EFIFS over FSWrapper.SetFS) and through the three entry points of the legacy package-level writer (attributes.WriteEfivarsWithGuid, attributes.WriteEfivars, efi.WriteEFIVariable, filesystem installed with fs.SetFS), each at every call position (OpenFile, Write, Close) with every filesystem fault kind. The other public entry points of the same operations are failed in the same way: read variable through FSWrapper.ReadEfivarsFile, attributes.ReadEfivarsFile and attributes.ReadEfivars (name alone), through the typed getters Efivarfs.Getdb / efi.Getdb (the value returned without an error must be the stored database) and Efivarfs.GetSecureBoot; FSWrapper.WriteFile (every fault kind incl. short writes, F36) and FSWrapper.ReadFile (open, read and close faults); authenticode.SignAuthenticode with a failing signer and with a caller-supplied io.Reader whose k-th Read fails (no data, or half the data with the error), Authenticode.Verify with such a reader, and the image read back through Open() (error, short count with io.ErrUnexpectedEOF, short counts without an error). Which filesystem call has index k (a short count bites on Write only, a dropped Close is named as such) is taken from the call sequence the worker recorded in the fault-free run, for every operation. Reported finding left out of the routine run (the kind stays available for replays): efi.Getdb and its siblings GetPK / GetKEK / Getdbx answer a failure whose error wraps io.EOF with an empty database and no error, so read-db-legacy is run without the wraps-eof kind. Not generated, because they lie outside the statement (noted in DESIGN.md section 7; the worker operations exist for replays): a reader that ends early with io.EOF under Open(), Bytes() and the getters that have no error result (efi.GetSecureBoot / GetSetupMode / GetBootOrder, Efivarfs.GetBootOrder), a failed Stat in FSWrapper.ReadFile. Checked: the result is an error (no digest for Hash), never success or a wrong value; a failed signing leaves Bytes() and Signatures() unchanged; a failed signer writes nothing. Every (operation, input, k, kind) is non-trivial and distinct.",
		Assume: []string{"a short count counts as a fault only on the call that moves data (Write / Read)", "during Parse an early io.EOF from the caller's reader is indistinguishable from a shorter file and is not injected there", "an early io.EOF from a caller-supplied sequential io.Reader (SignAuthenticode, Authenticode.Verify) is the end of the data and is not injected", "FSWrapper.ReadFile uses Stat only for a capacity hint (as os.ReadFile does): a failed Stat is not a fault of the read and is not injected"},
		Eval:   c15Eval, Gen: c15Gen,
	})
}
