package main

import (
	"bytes"
	"crypto"
	"crypto/sha256"
	"debug/pe"
	"fmt"
	"hash/crc32"
	"io"
	"os"
	"path/filepath"
	"strings"
	"time"

	_ "crypto/sha1"
	_ "crypto/sha512"

	"github.com/foxboron/go-uefi/authenticode"
)

// eofAtEnd is a conforming io.ReaderAt that reports io.EOF together with a read that reaches the
// end of the input (the io.ReaderAt contract allows either err == EOF or err == nil there)
type eofAtEnd struct{ b []byte }

func (r eofAtEnd) ReadAt(p []byte, off int64) (int, error) {
	if off < 0 || off > int64(len(r.b)) {
		return 0, io.EOF
	}
	n := copy(p, r.b[off:])
	if n < len(p) || int(off)+n == len(r.b) {
		return n, io.EOF
	}
	return n, nil
}

// c01Reader picks the io.ReaderAt an image is parsed through; the reader kind is a function of the input:
// replays are exact
func c01Reader(img []byte) io.ReaderAt {
	var rd io.ReaderAt = bytes.NewReader(img)
	switch k := crc32.ChecksumIEEE(img); k % 5 {
	case 1:
		rd = eofAtEnd{img}
	case 2:
		// a reader the caller has already read from: ReadAt ignores the read position, Len() does not
		br := bytes.NewReader(img)
		io.CopyN(io.Discard, br, int64(k>>8)%int64(len(img)+1))
		rd = br
	case 3:
		// a window into a larger buffer (an image embedded in a container)
		big := make([]byte, 0, len(img)+96)
		big = append(big, bytes.Repeat([]byte{0xEE}, 40)...)
		big = append(big, img...)
		big = append(big, bytes.Repeat([]byte{0xDD}, 56)...)
		rd = io.NewSectionReader(bytes.NewReader(big), 40, int64(len(img)))
	case 4:
		sr := strings.NewReader(string(img))
		io.CopyN(io.Discard, sr, int64(k>>8)%9)
		rd = sr
	}
	return rd
}

func goParse(img []byte) (p *authenticode.PECOFFBinary, class string) {
	var err error
	rd := c01Reader(img)
	if pan, _ := safely(func() { p, err = authenticode.Parse(rd) }); pan {
		return nil, "panic"
	}
	if err != nil {
		return nil, "err"
	}
	return p, "ok"
}

func goDigest(img []byte, h crypto.Hash) (digest []byte, class string) {
	p, class := goParse(img)
	if class != "ok" {
		return nil, class
	}
	if pan, _ := safely(func() { digest = p.Hash(h) }); pan {
		return nil, "panic"
	}
	if digest == nil {
		return nil, "nodigest"
	}
	return digest, "ok"
}

// c01Session asks ONE parsed image for its digest several times, as a caller does that looks the image up under
// more than one algorithm (SHA-1 and SHA-256 deny lists, a SHA-384 measurement): the digest is a function of the
// image and of the algorithm of THIS call only. The sequence runs through all four algorithms in an order that is
// a function of the image and then repeats the first one. A digest that was handed out belongs to the caller:
// every other one is overwritten before the next call (a later answer must not depend on it), the others are
// held and must not change while later digests are computed.
func c01Session(cs Case, img, pre []byte, fail func(what, goObs, spec, matcher string)) {
	p, class := goParse(img)
	if class != "ok" {
		return // reported by the single-call oracle
	}
	algs := []crypto.Hash{crypto.SHA256, crypto.SHA1, crypto.SHA384, crypto.SHA512}
	k := crc32.ChecksumIEEE(img) >> 3
	for i := len(algs) - 1; i > 0; i-- { // a permutation chosen by the image
		j := int(k % uint32(i+1))
		k /= uint32(i + 1)
		algs[i], algs[j] = algs[j], algs[i]
	}
	algs = append(algs, algs[0], algs[1])
	var held, snaps [][]byte
	for i, h := range algs {
		var d []byte
		if pan, _ := safely(func() { d = p.Hash(h) }); pan {
			fail(fmt.Sprintf("call %d on one parsed image: Hash(%v) panicked", i+1, h), "panic", "", "")
			return
		}
		hh := h.New()
		hh.Write(pre)
		if want := hh.Sum(nil); !bytes.Equal(d, want) {
			fail(fmt.Sprintf("call %d on one parsed image (algorithms so far %v): the %v digest differs from that of the specification's hash input", i+1, algs[:i+1], h), hx(d), hx(want), "")
			return
		}
		for j := range held {
			if !bytes.Equal(held[j], snaps[j]) {
				fail(fmt.Sprintf("the digest returned by call %d on one parsed image changed during call %d (the result aliases memory that is reused)", j+1, i+1), hx(held[j]), hx(snaps[j]), "")
				return
			}
		}
		if i%2 == 0 {
			for x := range d {
				d[x] ^= 0xA5
			}
		}
		held, snaps = append(held, d), append(snaps, append([]byte{}, d...))
	}
}

func fieldAfter(s, key string) string {
	i := strings.Index(s, key)
	if i < 0 {
		return ""
	}
	r := s[i+len(key):]
	if j := strings.IndexByte(r, ' '); j >= 0 {
		r = r[:j]
	}
	return r
}

// c01Image: digest = Spec on the padded image; flips change it iff the position is covered
func c01Image(c *Ctx, cs Case, img []byte, cls string, positions []int) {
	if os.Getenv("VERIF_DEBUG") != "" {
		t0 := time.Now()
		defer func() {
			fmt.Fprintf(os.Stderr, "c01Image %s len=%d flips=%d %v\n", cls, len(img), len(positions), time.Since(t0))
		}()
	}
	c.Count(cs.Key(), len(img) > 256, "image/"+cls)
	c.Sample(cs)
	fail := func(what, goObs, spec, matcher string) {
		c.Fail(Failure{Kind: "property", Matcher: matcher, What: what, Case: cs, Go: clip(goObs), Spec: clip(spec)})
	}
	spec := c.Drv.Ask("pe.spec", hx(img))
	wf := fieldAfter(spec, "wf=")
	pre := unhx(fieldAfter(spec, "pre="))
	if wf != "true" {
		if cs.S("op") == "image" {
			c.Fail(Failure{Kind: "tie", What: "generator produced an image the Spec does not consider well-formed", Case: cs, Model: spec[:min(len(spec), 40)]})
		}
		return
	}
	want := sha256.Sum256(pre)
	got, gc := goDigest(img, crypto.SHA256)
	if gc != "ok" {
		fail("Parse/Hash failed on a well-formed image", gc, "digest "+hx(want[:]), "")
		return
	}
	if !bytes.Equal(got, want[:]) {
		m := ""
		if len(specOfCase(cs).SecSizes) == 0 && specOfCase(cs).SohSlack == 0 && specOfCase(cs).NDirs == 5 {
			m = "c01.empty_third_range"
		}
		fail("digest differs from the Authenticode PE hash of the specification applied to the padded image", hx(got), hx(want[:]), m)
	}
	// the hash is generic in the algorithm, and one parsed image answers any number of calls
	c01Session(cs, img, pre, fail)
	// correspondence: the Impl model's pre-image
	c.Trace()
	mh := c.Drv.Ask("pe.hash", hx(img))
	mpre := unhx(fieldAfter(mh, "pre="))
	if md := sha256.Sum256(mpre); !strings.HasPrefix(mh, "ok ") || !bytes.Equal(md[:], got) {
		c.Fail(Failure{Kind: "tie", What: "Impl hash stream differs from what Parse().Hash digests", Case: cs, Model: clip(mh[:min(len(mh), 120)]), Go: hx(got)})
	}
	if !bytes.Equal(mpre, pre) {
		c.Fail(Failure{Kind: "tie", What: "Impl hash stream differs from Spec.authInputPadded (theorem C01_impl_eq_spec would be false here)", Case: cs})
	}
	if len(positions) == 0 {
		return
	}
	// byte changes
	args := []string{hx(img)}
	masks := make([]byte, len(positions))
	for i, p := range positions {
		masks[i] = byte(1 << uint(c.Rng.Intn(8)))
		if c.Rng.Intn(4) == 0 {
			masks[i] = 0xff
		}
		args = append(args, fmt.Sprintf("%d:%d", p, masks[i]))
	}
	ans := strings.Split(c.Drv.Ask("pe.flips", args...), " ")
	if len(ans) != len(positions) {
		c.Fail(Failure{Kind: "tie", What: "pe.flips answer malformed", Case: cs, Model: clip(strings.Join(ans, " "))})
		return
	}
	for i, p := range positions {
		f := strings.Split(ans[i], "/") // class / wf-after / spec-pre-changed
		if len(f) != 3 || p >= len(img) {
			continue
		}
		f0 := f[0]
		c.Count(fmt.Sprintf("%s@%d^%d", cs.Key(), p, masks[i]), true, "flip/"+f[0]+"/wf="+f[1])
		if f[1] != "true" {
			continue // the changed file is no longer a well-formed image: outside the property's domain
		}
		mut := append([]byte{}, img...)
		mut[p] ^= masks[i]
		g2, gc2 := goDigest(mut, crypto.SHA256)
		if gc2 == "err" {
			// debug/pe validates more than the Spec's well-formedness (machine whitelist, symbol table and
			// relocation pointers, section names): a changed file it rejects is outside the domain. That is asked
			// of debug/pe itself: an image that is well-formed and that it accepts has a digest
			if f, perr := pe.NewFile(bytes.NewReader(mut)); perr == nil {
				f.Close()
				fail(fmt.Sprintf("Parse rejects a well-formed image that debug/pe accepts (byte %d, class %s, changed)", p, f0), "err", "a digest", "")
				continue
			}
			c.Count(fmt.Sprintf("%s@%d rejected", cs.Key(), p), false, "flip/rejected-by-debug-pe")
			continue
		}
		if gc2 != "ok" {
			fail(fmt.Sprintf("Parse/Hash %s on a well-formed image (byte %d changed)", gc2, p), gc2, "", "")
			continue
		}
		changed := !bytes.Equal(g2, got)
		c.Trace()
		if fmt.Sprint(changed) != f[2] {
			c.Fail(Failure{Kind: "tie", What: fmt.Sprintf("byte %d (%s): model pre-image changed=%s but the implementation's digest changed=%v", p, f[0], f[2], changed), Case: cs})
		}
		switch f[0] {
		case "covered":
			if !changed {
				fail(fmt.Sprintf("changing covered byte %d does not change the digest", p), "unchanged", "changed", "")
			}
		case "excluded":
			if changed {
				fail(fmt.Sprintf("changing excluded byte %d changes the digest", p), "changed", "unchanged", "")
			}
		}
	}
}

func c01Eval(c *Ctx, cs Case) {
	switch cs.S("op") {
	case "image":
		s := specOfCase(cs)
		b := buildPE(s)
		cs["_dd"] = int64(b.dd)
		c01Image(c, cs, b.img, s.class(), flipPositions(c, b))
	case "file":
		img, err := os.ReadFile(filepath.Join(c.RepoDir, cs.S("path")))
		if err != nil || len(img) == 0 {
			return
		}
		c01Image(c, cs, img, "fixture", randomPositions(c, len(img), 12))
	}
}

// a stratified sample of positions: every header field class, checksum, directory entries, section
// table, slack, every section, gaps, tail, certificate table
func flipPositions(c *Ctx, b builtPE) []int {
	r := c.Rng
	n := len(b.img)
	ps := []int{0, 1, 0x3c, 0x3d, 0x3f, b.ck - 1, b.ck, b.ck + 3, b.ck + 4, b.dd - 1, b.dd, b.dd + 3, b.dd + 4, b.dd + 7, b.dd + 8, b.soh - 1, b.soh, n - 1}
	for i, o := range b.secOff {
		_ = i
		ps = append(ps, o, o-1)
	}
	if b.certSize > 0 {
		ps = append(ps, b.certOff, b.certOff+8, b.certOff+r.Intn(b.certSize), b.certOff-1)
	}
	ps = append(ps, b.bodyEnd-1, b.bodyEnd-2)
	for i := 0; i < 6; i++ {
		ps = append(ps, r.Intn(n))
	}
	var out []int
	seen := map[int]bool{}
	for _, p := range ps {
		if p >= 0 && p < n && !seen[p] {
			seen[p] = true
			out = append(out, p)
		}
	}
	return out
}

func randomPositions(c *Ctx, n, k int) []int {
	var out []int
	for i := 0; i < k; i++ {
		out = append(out, c.Rng.Intn(n))
	}
	return out
}

func c01Gen(c *Ctx) {
	for _, f := range []string{"tests/data/binary/HelloWorld.efi", "tests/data/binary/HelloWorld.efi.signed", "tests/data/binary/test.pecoff", "authenticode/testdata/test.pecoff", "authenticode/testdata/test.pecoff.signed", "tests/data/binary/linuxx64.efi.stub"} {
		c01Eval(c, Case{"op": "file", "path": f})
	}
	// images laid out so that a boundary between two hashed parts falls exactly on a multiple of a
	// read size in the hashed stream (io.Copy reads 32 KiB at a time; bytes.Buffer grows from 512):
	// a reader that mishandles "offset == end of part" is silent everywhere else
	for i := 0; i < c.N(4, 150) && c.NFailures() < 8; i++ {
		s := genPeSpec(c, false)
		for len(s.SecSizes) < 2 {
			s.SecSizes = append(s.SecSizes, 1+c.Rng.Intn(900))
			s.Gaps = append(s.Gaps, 0)
			s.HdrOrder = append(s.HdrOrder, len(s.HdrOrder))
		}
		for j := 0; j < len(s.SecSizes) && j < 3; j++ {
			for _, a := range []int{32768, 512} {
				if a == 512 && !c.Thorough && j > 0 {
					continue
				}
				c01Eval(c, specCase(alignSpec(s, j, a)))
			}
		}
	}
	for i := 0; i < c.N(500, 30000) && c.NFailures() < 8; i++ {
		s := genPeSpec(c, i%25 == 0)
		c01Eval(c, specCase(s))
	}
}

// alignSpec grows section j (file order) so that it ends at file offset = 12 (mod a): in the hashed
// stream, which omits the 4 checksum bytes and the 8 directory-entry bytes, the boundary after it
// then sits on a multiple of a
func alignSpec(s peSpec, j, a int) peSpec {
	t := s
	t.SecSizes = append([]int{}, s.SecSizes...)
	b := buildPE(t)
	end := b.secOff[j] + t.SecSizes[j]
	t.SecSizes[j] += ((12-end)%a + a) % a
	if t.SecSizes[j] == s.SecSizes[j] && end < a {
		t.SecSizes[j] += a
	}
	return t
}

func init() {
	register("C01", &PropDef{
		Rule:   "generated well-formed images over {PE32, PE32+} x e_lfanew {0x40, 0x48, 0x80, random} x 5..16 data directories x 0..8 (thorough: ..96) sections x size classes {0,1,7,8,9,512,random, >32 KiB and >64 KiB every 25th image so that io.Copy's 32 KiB reads cross part boundaries} x part boundaries aligned to 32 KiB / 512 B in the hashed stream (section ends at offset = 12 mod the read size) x header order (random permutation / file order) x gaps x SizeOfHeaders slack x trailing length {0,1,7,8,9,random} x certificate table {none, 1, 2 entries} x, for every third image, a left-over directory-entry address with size 0 when there is no table {1, inside the headers, inside the sections, end of the sections, inside the trailing data, file end, padded file end, beyond the file, 2^32-1} x 3 machine types; the repository's binaries; per image ~25 stratified byte changes (header fields, checksum, directory entry, section table, slack, section boundaries, gaps, tail, certificate table); a changed image that is still well-formed and that Parse rejects counts as outside the domain only when debug/pe.NewFile itself rejects it, and a changed directory-entry byte is judged like any other excluded byte. Every image is also parsed once and asked for its digest six times on that one object, running through SHA-1/256/384/512 in an order chosen by the image and then repeating the first two; every answer is compared with that algorithm over the specification's hash input, every other returned slice is overwritten by the caller before the next call, and the remaining ones are held and must not change. Half of the images (by a checksum of their bytes) are read through a conforming io.ReaderAt that reports io.EOF together with the read that reaches the end of the file. Non-trivial: image longer than 256 bytes / every flip; distinct = distinct specs and (image, position, mask).",
		Assume: []string{"debug/pe.NewFile accepts the generated headers (machine type from its whitelist, no symbol table, no relocations, section names not starting with '/')", "SHA-256 does not collide on the pre-images compared"},
		Eval:   c01Eval, Gen: c01Gen,
	})
}
