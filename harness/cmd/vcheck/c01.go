package main

import (
	"bytes"
	"crypto"
	"crypto/sha256"
	"debug/pe"
	"encoding/binary"
	"fmt"
	"hash/crc32"
	"io"
	"os"
	"path/filepath"
	"sort"
	"strings"
	"time"

	_ "crypto/sha1"
	_ "crypto/sha512"

	"github.com/foxboron/go-uefi/authenticode"
)

// eofAtEnd is a conforming io.ReaderAt that reports io.EOF together with a read that reaches the
// end of the input (the io.ReaderAt contract allows either err == EOF or err == nil there)
type eofAtEnd struct{ b []byte }

func (r eofAtEnd) ReadAt(p []byte, off int64) (int, error) {
	if off < 0 || off > int64(len(r.b)) {
		return 0, io.EOF
	}
	n := copy(p, r.b[off:])
	if n < len(p) || int(off)+n == len(r.b) {
		return n, io.EOF
	}
	return n, nil
}

// c01Reader picks the io.ReaderAt an image is parsed through; the reader kind is a function of the input:
// replays are exact
func c01Reader(img []byte) io.ReaderAt {
	var rd io.ReaderAt = bytes.NewReader(img)
	switch k := crc32.ChecksumIEEE(img); k % 6 {
	case 5:
		// a section reader declared LARGER than the data behind it (the io.NewSectionReader(r, 0, 1<<63-1) idiom to
		// get a ReadSeeker out of a ReaderAt of unknown size, or a generous upper bound): its Size() is not the
		// length of the image, reads behind the data end with io.EOF as on any reader
		rd = io.NewSectionReader(bytes.NewReader(img), 0, int64(len(img))+[]int64{1, 7, 8, 4096, 1 << 40, 1<<63 - 1 - int64(len(img))}[(k>>8)%6])
	case 1:
		rd = eofAtEnd{img}
	case 2:
		// a reader the caller has already read from: ReadAt ignores the read position, Len() does not
		br := bytes.NewReader(img)
		io.CopyN(io.Discard, br, int64(k>>8)%int64(len(img)+1))
		rd = br
	case 3:
		// a window into a larger buffer (an image embedded in a container)
		big := make([]byte, 0, len(img)+96)
		big = append(big, bytes.Repeat([]byte{0xEE}, 40)...)
		big = append(big, img...)
		big = append(big, bytes.Repeat([]byte{0xDD}, 56)...)
		rd = io.NewSectionReader(bytes.NewReader(big), 40, int64(len(img)))
	case 4:
		sr := strings.NewReader(string(img))
		io.CopyN(io.Discard, sr, int64(k>>8)%9)
		rd = sr
	}
	return rd
}

func goParse(img []byte) (p *authenticode.PECOFFBinary, class string) {
	var err error
	rd := c01Reader(img)
	if pan, _ := safely(func() { p, err = authenticode.Parse(rd) }); pan {
		return nil, "panic"
	}
	if err != nil {
		return nil, "err"
	}
	return p, "ok"
}

func goDigest(img []byte, h crypto.Hash) (digest []byte, class string) {
	p, class := goParse(img)
	if class != "ok" {
		return nil, class
	}
	if pan, _ := safely(func() { digest = p.Hash(h) }); pan {
		return nil, "panic"
	}
	if digest == nil {
		return nil, "nodigest"
	}
	return digest, "ok"
}

// c01Session asks ONE parsed image for its digest several times, as a caller does that looks the image up under
// more than one algorithm (SHA-1 and SHA-256 deny lists, a SHA-384 measurement): the digest is a function of the
// image and of the algorithm of THIS call only. The sequence runs through all four algorithms in an order that is
// a function of the image and then repeats the first one. A digest that was handed out belongs to the caller:
// every other one is overwritten before the next call (a later answer must not depend on it), the others are
// held and must not change while later digests are computed.
func c01Session(cs Case, img, pre []byte, fail func(what, goObs, spec, matcher string)) {
	p, class := goParse(img)
	if class != "ok" {
		return // reported by the single-call oracle
	}
	algs := []crypto.Hash{crypto.SHA256, crypto.SHA1, crypto.SHA384, crypto.SHA512}
	k := crc32.ChecksumIEEE(img) >> 3
	for i := len(algs) - 1; i > 0; i-- { // a permutation chosen by the image
		j := int(k % uint32(i+1))
		k /= uint32(i + 1)
		algs[i], algs[j] = algs[j], algs[i]
	}
	algs = append(algs, algs[0], algs[1])
	var held, snaps [][]byte
	for i, h := range algs {
		var d []byte
		if pan, _ := safely(func() { d = p.Hash(h) }); pan {
			fail(fmt.Sprintf("call %d on one parsed image: Hash(%v) panicked", i+1, h), "panic", "", "")
			return
		}
		hh := h.New()
		hh.Write(pre)
		if want := hh.Sum(nil); !bytes.Equal(d, want) {
			fail(fmt.Sprintf("call %d on one parsed image (algorithms so far %v): the %v digest differs from that of the specification's hash input", i+1, algs[:i+1], h), hx(d), hx(want), "")
			return
		}
		for j := range held {
			if !bytes.Equal(held[j], snaps[j]) {
				fail(fmt.Sprintf("the digest returned by call %d on one parsed image changed during call %d (the result aliases memory that is reused)", j+1, i+1), hx(held[j]), hx(snaps[j]), "")
				return
			}
		}
		if i%2 == 0 {
			for x := range d {
				d[x] ^= 0xA5
			}
		}
		held, snaps = append(held, d), append(snaps, append([]byte{}, d...))
	}
}

// c01Algs: the algorithms a caller asks for, in an order chosen by k
func c01Algs(k uint32) []crypto.Hash {
	algs := []crypto.Hash{crypto.SHA256, crypto.SHA1, crypto.SHA384, crypto.SHA512}
	for i := len(algs) - 1; i > 0; i-- {
		j := int(k % uint32(i+1))
		k /= uint32(i + 1)
		algs[i], algs[j] = algs[j], algs[i]
	}
	return algs
}

// c01Concurrent asks ONE parsed image for its digest from two or three goroutines at the same time (SHA-256 for a
// signature, SHA-1 for a deny list, ...). The statement is about "the digest the library reports" for the image,
// whoever else is asking: each of the overlapping calls must return that algorithm over the specification's hash
// input. The image is parsed through a reader that lets the harness fix the interleaving (sched.go): the calls
// take turns at read granularity under a schedule that is a function of the image, so that each call is parked
// in the middle of Hash while the others make progress, and the run is repeatable.
func c01Concurrent(c *Ctx, cs Case, img, pre []byte, fail func(what, goObs, spec, matcher string)) {
	k := crc32.ChecksumIEEE(img)
	sch := newTurnSched()
	var p *authenticode.PECOFFBinary
	var err error
	if pan, _ := safely(func() { p, err = authenticode.Parse(turnReader{c01Reader(img), sch}) }); pan || err != nil {
		return // reported by the single-call oracle
	}
	algs := c01Algs(k >> 5)[:2+int(k>>3)%2]
	if k&4 != 0 {
		algs[1] = algs[0] // the same algorithm twice as well
	}
	// the first call is parked at its first or second read, later turns last 0..3 reads
	quanta := []int{int(k & 1)}
	for x := k >> 9; len(quanta) < 7; x >>= 2 {
		quanta = append(quanta, int(x&3))
	}
	got := make([][]byte, len(algs))
	pans := make([]bool, len(algs))
	calls := make([]func(), len(algs))
	for i := range algs {
		i := i
		calls[i] = func() { pans[i], _ = safely(func() { got[i] = p.Hash(algs[i]) }) }
	}
	parks, free := sch.run(quanta, calls...)
	c.Class(fmt.Sprintf("concurrent-hash/goroutines=%d/overlapped=%v", len(algs), parks > 0))
	if free {
		c.Class("concurrent-hash/schedule-abandoned")
	}
	for i, h := range algs {
		hh := h.New()
		hh.Write(pre)
		want := hh.Sum(nil)
		switch {
		case pans[i]:
			fail(fmt.Sprintf("Hash(%v) panicked while %d calls of Hash on the one parsed image overlap (algorithms %v, schedule %v)", h, len(algs), algs, quanta), "panic", hx(want), "")
		case !bytes.Equal(got[i], want):
			fail(fmt.Sprintf("goroutine %d of %d asking one parsed image for its digest at the same time (algorithms %v, turns of %v reads): the %v digest reported is not that of the specification's hash input", i, len(algs), algs, quanta, h), hx(got[i]), hx(want), "")
		}
	}
	want := sha256.Sum256(pre)
	var after []byte
	if pan, _ := safely(func() { after = p.Hash(crypto.SHA256) }); pan || !bytes.Equal(after, want[:]) {
		fail("the digest reported after the overlapping calls on one parsed image have returned differs from the specification's", hx(after), hx(want[:]), "")
	}
}

// laterReader is the io.ReaderAt of an image whose storage changes AFTER it was parsed: from some moment on only
// the first `limit` bytes can be read - a file that is truncated (or a download that was cut) while it is open.
// A read that ends there returns what is left together with io.EOF (hard: with an error that is not io.EOF,
// a medium that fails from that offset on).
type laterReader struct {
	data  []byte
	limit int
	hard  bool
}

func (r *laterReader) ReadAt(p []byte, off int64) (int, error) {
	d := r.data[:r.limit]
	end := io.EOF
	if r.hard {
		end = errInjected
	}
	if off < 0 || off >= int64(len(d)) {
		return 0, end
	}
	n := copy(p, d[off:])
	if n < len(p) {
		return n, end
	}
	return n, nil
}

// c01Later: the sections are read when the digest is asked for, not when the image is parsed. Whatever Hash
// reports for a parsed image must be THE digest of that image: when the bytes cannot be read any more the only
// other answer is "no digest" (nil), never the digest of what could still be read. Once the storage is whole again
// the digest is reported again.
func c01Later(c *Ctx, cs Case, img, pre []byte, fail func(what, goObs, spec, matcher string)) {
	rd := &laterReader{data: img, limit: len(img)}
	var p *authenticode.PECOFFBinary
	var err error
	if pan, _ := safely(func() { p, err = authenticode.Parse(rd) }); pan || err != nil {
		return // reported by the single-call oracle
	}
	want := sha256.Sum256(pre)
	n := len(img)
	k := int(crc32.ChecksumIEEE(img) >> 4)
	type cut struct {
		limit int
		hard  bool
	}
	cuts := []cut{{0, false}, {1, false}, {n / 4, false}, {n / 2, false}, {3 * n / 4, false}, {n - 9, false}, {n - 1, false}, {k % n, false}, {(k / 7) % n, true}, {n / 2, true}}
	if dd, body := peOffsets(img); body > 0 && body <= n && dd < n {
		// around the ends of the hashed data and of the headers' hashed ranges
		cuts = append(cuts, cut{body - 1, false}, cut{body, false}, cut{dd, false}, cut{dd + 8, false})
	}
	for _, ct := range cuts {
		if ct.limit < 0 || ct.limit >= n {
			continue
		}
		rd.limit, rd.hard = ct.limit, ct.hard
		var d []byte
		pan, _ := safely(func() { d = p.Hash(crypto.SHA256) })
		cl := "nil"
		switch {
		case pan:
			cl = "panic"
		case bytes.Equal(d, want[:]):
			cl = "digest" // nothing that is hashed was cut off
		case d != nil:
			cl = "other"
		}
		c.Class("hash-after-truncation/" + cl)
		if cl == "panic" || cl == "other" {
			fail(fmt.Sprintf("only the first %d of %d bytes of the parsed image can still be read (read at the cut ends with %v): Hash reports a digest that is not the digest of the image", ct.limit, n, map[bool]string{false: "io.EOF", true: "an error"}[ct.hard]), cl+" "+hx(d), "nil, or "+hx(want[:]), "")
			break
		}
	}
	rd.limit, rd.hard = n, false
	var d []byte
	if pan, _ := safely(func() { d = p.Hash(crypto.SHA256) }); pan || !bytes.Equal(d, want[:]) {
		fail("the image is whole again after having been unreadable in part: Hash on the parsed image does not report its digest", hx(d), hx(want[:]), "")
	}
}

// c01Batch: SEVERAL images are parsed one after the other and asked for their digests only afterwards, the way a
// tool does that first collects every file it is going to sign, verify or measure. The statement is about "the
// digest the library reports" for an image: it is a function of that image alone, whatever else the process has
// parsed between Parse and Hash. The case lists the images (specs of the generator; followers of the first one
// share its layout with other contents, or differ in the length of the data after the last section, or are
// unrelated, or are the same file again) and the mode: 0 - parse all, then ask every object (in the order and
// under the algorithms chosen by the case, every object at least twice); 1 - after each Parse ask every object
// parsed so far. Every answer must be that algorithm over the specification's hash input of ITS image.
func c01Batch(c *Ctx, cs Case) {
	var specs []peSpec
	if xs, ok := cs["images"].([]interface{}); ok {
		for _, x := range xs {
			switch m := x.(type) {
			case Case:
				specs = append(specs, specOfCase(m))
			case map[string]interface{}:
				specs = append(specs, specOfCase(Case(m)))
			}
		}
	}
	if len(specs) < 2 {
		return
	}
	fail := func(what, goObs, spec string) {
		c.Fail(Failure{Kind: "property", What: what, Case: cs, Go: clip(goObs), Spec: clip(spec)})
	}
	imgs := make([][]byte, len(specs))
	pres := make([][]byte, len(specs))
	desc := make([]string, len(specs))
	for i, s := range specs {
		imgs[i] = buildPE(s).img
		spec := c.Drv.Ask("pe.spec", hx(imgs[i]))
		if fieldAfter(spec, "wf=") != "true" {
			c.Fail(Failure{Kind: "tie", What: "generator produced an image the Spec does not consider well-formed", Case: cs, Model: spec[:min(len(spec), 40)]})
			return
		}
		pres[i] = unhx(fieldAfter(spec, "pre="))
		want := sha256.Sum256(pres[i])
		if ind := msDigest(imgs[i], crypto.SHA256); !bytes.Equal(ind, want[:]) {
			c.Fail(Failure{Kind: "tie", What: "the Lean Spec's hash input and the harness's independent Go rendering of the specification's steps 3-14 give different digests for a well-formed image (one of the two oracles is wrong)", Case: cs, Model: hx(want[:]), Go: hx(ind)})
			return
		}
		desc[i] = fmt.Sprintf("%d bytes, %d after the last section, table %d", len(imgs[i]), s.Trailing, len(s.CertBodies))
	}
	mode := int(cs.I("mode"))
	// modes 2 and 3 are modes 0 and 1 of a process that also LOOKS AT the signatures of what it parses and does the
	// padding arithmetic of a certificate table itself: right after each Parse the object is asked for its
	// Signatures() (the walk over the certificate table, alignment bytes included - they are excluded from every
	// digest, whatever they hold), and the caller asks the exported PaddingBytes for the padding of that file length
	// and fills the slice it is handed (it is the caller's: a buffer to build a padded copy in). Neither is an
	// operation on another image: the digests stay what they are.
	listing := mode >= 2
	mode %= 2
	c.Count(cs.Key(), true, fmt.Sprintf("batch/images=%d/mode=%d/listing=%v", len(specs), mode, listing))
	c.Sample(cs)
	k := uint32(cs.I("ask"))
	parsed := make([]*authenticode.PECOFFBinary, len(specs))
	bad := map[int]bool{}
	ask := func(i int, h crypto.Hash, when string) {
		if bad[i] {
			return // reported once
		}
		var d []byte
		pan, _ := safely(func() { d = parsed[i].Hash(h) })
		hh := h.New()
		hh.Write(pres[i])
		if want := hh.Sum(nil); pan || !bytes.Equal(d, want) {
			bad[i] = true
			obs := hx(d)
			if pan {
				obs = "panic"
			}
			for j := range specs { // is it the digest of another image of the batch?
				hj := h.New()
				hj.Write(pres[j])
				if j != i && bytes.Equal(d, hj.Sum(nil)) {
					obs += fmt.Sprintf(" (the %v digest of image %d)", h, j)
				}
			}
			fail(fmt.Sprintf("%d images parsed one after the other (mode %d, signatures listed and padding computed by the caller after each Parse: %v): the %v digest of image %d (%s), asked %s, is not that of the specification's hash input of that image", len(specs), mode, listing, h, i, desc[i], when), obs, hx(want))
		}
	}
	for i := range specs {
		var err error
		if pan, _ := safely(func() { parsed[i], err = authenticode.Parse(c01Reader(imgs[i])) }); pan || err != nil {
			fail(fmt.Sprintf("Parse failed on well-formed image %d of a batch of %d", i, len(specs)), fmt.Sprint(pan, err), "")
			return
		}
		if listing {
			var nsig int
			var serr error
			if pan, _ := safely(func() {
				sl, e := parsed[i].Signatures()
				nsig, serr = len(sl), e
			}); pan || serr != nil || nsig != len(specs[i].CertBodies) {
				fail(fmt.Sprintf("Signatures() of well-formed image %d of a batch of %d does not list the %d entries of its certificate table", i, len(specs), len(specs[i].CertBodies)), fmt.Sprint(pan, serr, nsig), "")
			}
			safely(func() {
				pad, _ := authenticode.PaddingBytes(len(imgs[i]), 8)
				for x := range pad {
					pad[x] = 0xA5 ^ byte(x)
				}
			})
			c.Class(fmt.Sprintf("batch/listing/table-entries=%d/alignment-bytes-not-zero=%v/file-length-mod-8=%d", len(specs[i].CertBodies), specs[i].CertPad && len(specs[i].CertBodies) > 0, len(imgs[i])%8))
		}
		if mode == 1 {
			for j := 0; j <= i; j++ {
				ask(j, c01Algs(k + uint32(i))[j%4], fmt.Sprintf("after image %d was parsed", i))
			}
		}
	}
	// all are parsed: every object is asked, first in an order chosen by the case, then backwards
	order := make([]int, len(specs))
	for i := range order {
		order[i] = i
	}
	for i, x := len(order)-1, k>>4; i > 0; i-- {
		j := int(x % uint32(i+1))
		x /= uint32(i + 1)
		order[i], order[j] = order[j], order[i]
	}
	for n, i := range order {
		ask(i, crypto.SHA256, fmt.Sprintf("after all %d images were parsed (query %d)", len(specs), n))
	}
	for n := len(order) - 1; n >= 0; n-- {
		ask(order[n], c01Algs(k >> 2)[n%4], fmt.Sprintf("after all %d images were parsed and asked for their SHA-256 digests", len(specs)))
	}
}

// msDigest is a second, independent rendering of "Calculating the PE Image Hash" (steps 3-14 of the Microsoft
// Authenticode document) in Go, on the image zero-padded to 8 bytes. It reads the header fields with
// encoding/binary only - neither the library, debug/pe nor the Lean Spec are involved - so it cross-checks the Lean
// Spec (the oracle of this property) and is applied to the changed images too. nil when a field points outside.
func msDigest(img []byte, h crypto.Hash) (digest []byte) {
	defer func() {
		if recover() != nil {
			digest = nil
		}
	}()
	b := append([]byte{}, img...)
	for len(b)%8 != 0 {
		b = append(b, 0)
	}
	le16 := func(o int) int { return int(binary.LittleEndian.Uint16(b[o:])) }
	le32 := func(o int) int { return int(binary.LittleEndian.Uint32(b[o:])) }
	lfanew := le32(0x3c)
	opt := lfanew + 24
	certDir := opt + 128 // data directory 4 of a PE32 optional header ...
	if le16(opt) == 0x20b {
		certDir = opt + 144 // ... and of a PE32+ one
	}
	checksum := opt + 64
	sizeOfHeaders := le32(opt + 60)
	hh := h.New()
	hh.Write(b[:checksum])                 // 3, 4
	hh.Write(b[checksum+4 : certDir])      // 5, 6
	hh.Write(b[certDir+8 : sizeOfHeaders]) // 7
	sum := sizeOfHeaders                   // 8
	type sec struct{ ptr, size int }
	var secs []sec
	tab := opt + le16(lfanew+20)
	for i := 0; i < le16(lfanew+6); i++ { // 9
		if z := le32(tab + 40*i + 16); z != 0 {
			secs = append(secs, sec{le32(tab + 40*i + 20), z})
		}
	}
	sort.SliceStable(secs, func(i, j int) bool { return secs[i].ptr < secs[j].ptr }) // 10
	for _, s := range secs {                                                         // 11-13
		hh.Write(b[s.ptr : s.ptr+s.size])
		sum += s.size
	}
	if end := len(b) - le32(certDir+4); end > sum { // 14
		hh.Write(b[sum:end])
	}
	return hh.Sum(nil)
}

func fieldAfter(s, key string) string {
	i := strings.Index(s, key)
	if i < 0 {
		return ""
	}
	r := s[i+len(key):]
	if j := strings.IndexByte(r, ' '); j >= 0 {
		r = r[:j]
	}
	return r
}

// c01Image: digest = Spec on the padded image; flips change it iff the position is covered
func c01Image(c *Ctx, cs Case, img []byte, cls string, positions []int) {
	if os.Getenv("VERIF_DEBUG") != "" {
		t0 := time.Now()
		defer func() {
			fmt.Fprintf(os.Stderr, "c01Image %s len=%d flips=%d %v\n", cls, len(img), len(positions), time.Since(t0))
		}()
	}
	c.Count(cs.Key(), len(img) > 256, "image/"+cls)
	c.Sample(cs)
	c01PaddingTie(c, cs, len(img), 8)
	fail := func(what, goObs, spec, matcher string) {
		c.Fail(Failure{Kind: "property", Matcher: matcher, What: what, Case: cs, Go: clip(goObs), Spec: clip(spec)})
	}
	spec := c.Drv.Ask("pe.spec", hx(img))
	wf := fieldAfter(spec, "wf=")
	pre := unhx(fieldAfter(spec, "pre="))
	if wf != "true" {
		if cs.S("op") == "image" {
			c.Fail(Failure{Kind: "tie", What: "generator produced an image the Spec does not consider well-formed", Case: cs, Model: spec[:min(len(spec), 40)]})
		}
		return
	}
	want := sha256.Sum256(pre)
	if ind := msDigest(img, crypto.SHA256); !bytes.Equal(ind, want[:]) {
		c.Fail(Failure{Kind: "tie", What: "the Lean Spec's hash input and the harness's independent Go rendering of the specification's steps 3-14 give different digests for a well-formed image (one of the two oracles is wrong)", Case: cs, Model: hx(want[:]), Go: hx(ind)})
	}
	got, gc := goDigest(img, crypto.SHA256)
	if gc != "ok" {
		fail("Parse/Hash failed on a well-formed image", gc, "digest "+hx(want[:]), "")
		return
	}
	if !bytes.Equal(got, want[:]) {
		m := ""
		if len(specOfCase(cs).SecSizes) == 0 && specOfCase(cs).SohSlack == 0 && specOfCase(cs).NDirs == 5 {
			m = "c01.empty_third_range"
		}
		fail("digest differs from the Authenticode PE hash of the specification applied to the padded image", hx(got), hx(want[:]), m)
	}
	// the hash is generic in the algorithm, and one parsed image answers any number of calls
	c01Session(cs, img, pre, fail)
	// ... also when the calls overlap in time, and when the image's storage shrinks after Parse
	c01Concurrent(c, cs, img, pre, fail)
	c01Later(c, cs, img, pre, fail)
	// correspondence: the Impl model's pre-image
	c.Trace()
	mh := c.Drv.Ask("pe.hash", hx(img))
	mpre := unhx(fieldAfter(mh, "pre="))
	if md := sha256.Sum256(mpre); !strings.HasPrefix(mh, "ok ") || !bytes.Equal(md[:], got) {
		c.Fail(Failure{Kind: "tie", What: "Impl hash stream differs from what Parse().Hash digests", Case: cs, Model: clip(mh[:min(len(mh), 120)]), Go: hx(got)})
	}
	if !bytes.Equal(mpre, pre) {
		c.Fail(Failure{Kind: "tie", What: "Impl hash stream differs from Spec.authInputPadded (theorem C01_impl_eq_spec would be false here)", Case: cs})
	}
	if len(positions) == 0 {
		return
	}
	// byte changes
	args := []string{hx(img)}
	masks := make([]byte, len(positions))
	for i, p := range positions {
		masks[i] = byte(1 << uint(c.Rng.Intn(8)))
		if c.Rng.Intn(4) == 0 {
			masks[i] = 0xff
		}
		args = append(args, fmt.Sprintf("%d:%d", p, masks[i]))
	}
	ans := strings.Split(c.Drv.Ask("pe.flips", args...), " ")
	if len(ans) != len(positions) {
		c.Fail(Failure{Kind: "tie", What: "pe.flips answer malformed", Case: cs, Model: clip(strings.Join(ans, " "))})
		return
	}
	for i, p := range positions {
		f := strings.Split(ans[i], "/") // class / wf-after / spec-pre-changed
		if len(f) != 3 || p >= len(img) {
			continue
		}
		f0 := f[0]
		c.Count(fmt.Sprintf("%s@%d^%d", cs.Key(), p, masks[i]), true, "flip/"+f[0]+"/wf="+f[1])
		if f[1] != "true" {
			continue // the changed file is no longer a well-formed image: outside the property's domain
		}
		mut := append([]byte{}, img...)
		mut[p] ^= masks[i]
		g2, gc2 := goDigest(mut, crypto.SHA256)
		if gc2 == "err" {
			// debug/pe validates more than the Spec's well-formedness (machine whitelist, symbol table and
			// relocation pointers, section names): a changed file it rejects is outside the domain. That is asked
			// of debug/pe itself: an image that is well-formed and that it accepts has a digest
			if f, perr := pe.NewFile(bytes.NewReader(mut)); perr == nil {
				f.Close()
				fail(fmt.Sprintf("Parse rejects a well-formed image that debug/pe accepts (byte %d, class %s, changed)", p, f0), "err", "a digest", "")
				continue
			}
			c.Count(fmt.Sprintf("%s@%d rejected", cs.Key(), p), false, "flip/rejected-by-debug-pe")
			continue
		}
		if gc2 != "ok" {
			fail(fmt.Sprintf("Parse/Hash %s on a well-formed image (byte %d changed)", gc2, p), gc2, "", "")
			continue
		}
		// the changed file is a well-formed image of its own: its digest is the specification's, computed here
		// without the library and without the Lean Spec
		if ind := msDigest(mut, crypto.SHA256); !bytes.Equal(g2, ind) {
			fail(fmt.Sprintf("byte %d (%s) changed, the file is still a well-formed image: its digest differs from the specification's steps 3-14 applied to the changed file", p, f0), hx(g2), hx(ind), "")
		}
		changed := !bytes.Equal(g2, got)
		c.Trace()
		if fmt.Sprint(changed) != f[2] {
			c.Fail(Failure{Kind: "tie", What: fmt.Sprintf("byte %d (%s): model pre-image changed=%s but the implementation's digest changed=%v", p, f[0], f[2], changed), Case: cs})
		}
		switch f[0] {
		case "covered":
			if !changed {
				fail(fmt.Sprintf("changing covered byte %d does not change the digest", p), "unchanged", "changed", "")
			}
		case "excluded":
			// A change of the directory entry's SIZE field that leaves the file a well-formed image (128 -> 0: the
			// entry then locates no table) moves the former table bytes from the excluded to the covered part: the
			// specification's own steps give another digest for that file, and the comparison with the independent
			// rendering of those steps above has judged it. (Found by the thorough tier on the unchanged tree.)
			if dd, _ := peOffsets(img); p >= dd+4 && p < dd+8 {
				c.Count(fmt.Sprintf("%s@%d size-field", cs.Key(), p), false, "flip/excluded/size-field-relocates-the-table")
				break
			}
			if changed {
				fail(fmt.Sprintf("changing excluded byte %d changes the digest", p), "changed", "unchanged", "")
			}
		}
	}
}

// c01PaddingTie: authenticode.PaddingBytes (the padding arithmetic behind the hashed stream and the certificate-table
// entries) against the code TRANSLATED from it (Gen.lean; theorems C01g_padding*): padLen, the length of the slice
// and whether it is all zero
func c01PaddingTie(c *Ctx, cs Case, srcLen, blockSize int) {
	if c.GenDrv == nil {
		return
	}
	goObs := ""
	if pan, _ := safely(func() {
		pad, n := authenticode.PaddingBytes(srcLen, blockSize)
		zero := true
		for _, x := range pad {
			zero = zero && x == 0
		}
		goObs = fmt.Sprintf("%d %d %v", n, len(pad), zero)
	}); pan {
		goObs = "panic"
	}
	c.GenTieGo(cs, fmt.Sprintf("PaddingBytes(%d, %d)", srcLen, blockSize), goObs, "gen.padding", fmt.Sprint(srcLen), fmt.Sprint(blockSize))
}

func c01Eval(c *Ctx, cs Case) {
	switch cs.S("op") {
	case "batch":
		c01Batch(c, cs)
	case "padding":
		c01PaddingTie(c, cs, int(cs.I("n")), int(cs.I("blk")))
	case "image":
		s := specOfCase(cs)
		b := buildPE(s)
		cs["_dd"] = int64(b.dd)
		c01Image(c, cs, b.img, s.class(), flipPositions(c, b))
	case "file":
		img, err := os.ReadFile(filepath.Join(c.RepoDir, cs.S("path")))
		if err != nil || len(img) == 0 {
			return
		}
		c01Image(c, cs, img, "fixture", randomPositions(c, len(img), 12))
	}
}

// a stratified sample of positions: every header field class, checksum, directory entries, section
// table, slack, every section, gaps, tail, certificate table
func flipPositions(c *Ctx, b builtPE) []int {
	r := c.Rng
	n := len(b.img)
	ps := []int{0, 1, 0x3c, 0x3d, 0x3f, b.ck - 1, b.ck, b.ck + 3, b.ck + 4, b.dd - 1, b.dd, b.dd + 3, b.dd + 4, b.dd + 7, b.dd + 8, b.soh - 1, b.soh, n - 1}
	for i, o := range b.secOff {
		_ = i
		ps = append(ps, o, o-1)
	}
	if b.certSize > 0 {
		ps = append(ps, b.certOff, b.certOff+8, b.certOff+r.Intn(b.certSize), b.certOff-1)
	}
	ps = append(ps, b.bodyEnd-1, b.bodyEnd-2)
	for i := 0; i < 6; i++ {
		ps = append(ps, r.Intn(n))
	}
	var out []int
	seen := map[int]bool{}
	for _, p := range ps {
		if p >= 0 && p < n && !seen[p] {
			seen[p] = true
			out = append(out, p)
		}
	}
	return out
}

func randomPositions(c *Ctx, n, k int) []int {
	var out []int
	for i := 0; i < k; i++ {
		out = append(out, c.Rng.Intn(n))
	}
	return out
}

func c01Gen(c *Ctx) {
	// the padding arithmetic on its own: every length 0..40 and the neighbourhood of every power of two below 2^62,
	// with the library's block size and with other block sizes (powers of two: the domain of C01g_padding_pow2;
	// a few others and negative lengths validate the translation of `&^` outside it)
	if c.GenDrv != nil {
		var lens []int
		for n := 0; n <= 40; n++ {
			lens = append(lens, n)
		}
		for k := 6; k <= 61; k++ {
			for d := -9; d <= 9; d++ {
				lens = append(lens, (1<<uint(k))+d)
			}
		}
		lens = append(lens, (1<<62)-1, (1<<62)-8, -1, -5, -8, -1000003)
		for i, n := range lens {
			c01Eval(c, Case{"op": "padding", "n": int64(n), "blk": int64(8)})
			if i%7 == 0 && n >= 0 {
				for _, blk := range []int{1, 2, 4, 16, 512, 4096, 3, 12} {
					c01Eval(c, Case{"op": "padding", "n": int64(n), "blk": int64(blk)})
				}
			}
		}
	}
	for _, f := range []string{"tests/data/binary/HelloWorld.efi", "tests/data/binary/HelloWorld.efi.signed", "tests/data/binary/test.pecoff", "authenticode/testdata/test.pecoff", "authenticode/testdata/test.pecoff.signed", "tests/data/binary/linuxx64.efi.stub"} {
		c01Eval(c, Case{"op": "file", "path": f})
	}
	// images laid out so that a boundary between two hashed parts falls exactly on a multiple of a
	// read size in the hashed stream (io.Copy reads 32 KiB at a time; bytes.Buffer grows from 512):
	// a reader that mishandles "offset == end of part" is silent everywhere else
	for i := 0; i < c.N(4, 150) && c.NFailures() < 8; i++ {
		s := genPeSpec(c, false)
		for len(s.SecSizes) < 2 {
			s.SecSizes = append(s.SecSizes, 1+c.Rng.Intn(900))
			s.Gaps = append(s.Gaps, 0)
			s.HdrOrder = append(s.HdrOrder, len(s.HdrOrder))
		}
		for j := 0; j < len(s.SecSizes) && j < 3; j++ {
			for _, a := range []int{32768, 512} {
				if a == 512 && !c.Thorough && j > 0 {
					continue
				}
				c01Eval(c, specCase(alignSpec(s, j, a)))
			}
		}
	}
	// several images parsed before any of them is hashed
	for i := 0; i < c.N(60, 3000) && c.NFailures() < 8; i++ {
		r := c.Rng
		s := genPeSpec(c, i%40 == 39)
		if i%2 == 0 && s.Trailing == 0 {
			s.Trailing = []int{1, 7, 8, 9, 1 + r.Intn(300), 300 + r.Intn(4000)}[r.Intn(6)]
		}
		mode := i % 4
		kinds := 5
		if mode >= 2 {
			// the batches whose images are also listed (Signatures) start, two times out of three, from an image with a
			// certificate table whose entries do not end on an 8-byte boundary and whose alignment bytes are as found
			// on disk (not zero); the followers may then also be that image without its table
			kinds = 7
			if i%3 != 0 {
				if len(s.CertBodies) == 0 {
					s.CertBodies = []int{1 + r.Intn(1500)}
				}
				for j := range s.CertBodies {
					if (8+s.CertBodies[j])%8 == 0 {
						s.CertBodies[j] += 1 + r.Intn(7)
					}
				}
				s.CertPad = true
			}
		}
		images := []interface{}{specCase(s)}
		for n := 1 + r.Intn(3); n > 0; n-- {
			t := s
			switch r.Intn(kinds) {
			case 5, 6: // the same image without its certificate table, with another amount of data after the last section
				t.CertBodies, t.CertPad = nil, false
				t.Seed = r.Int63()
				t.Trailing = []int{1, 7, 9, 1 + r.Intn(300), 300 + r.Intn(4000), s.Trailing}[r.Intn(6)]
			case 0: // the same layout, other contents
				t.Seed = r.Int63()
			case 1, 2: // ... and another amount of data after the last section
				t.Seed = r.Int63()
				t.Trailing = []int{0, 1, 7, 8, 9, max(s.Trailing-1, 0), s.Trailing + 1, r.Intn(300), 300 + r.Intn(4000)}[r.Intn(9)]
			case 3: // an unrelated image
				t = genPeSpec(c, false)
			case 4: // the same file once more
			}
			images = append(images, specCase(t))
		}
		c01Eval(c, Case{"op": "batch", "images": images, "mode": int64(mode), "ask": int64(r.Intn(1 << 20))})
	}
	for i := 0; i < c.N(500, 30000) && c.NFailures() < 8; i++ {
		s := genPeSpec(c, i%25 == 0)
		c01Eval(c, specCase(s))
	}
}

// alignSpec grows section j (file order) so that it ends at file offset = 12 (mod a): in the hashed
// stream, which omits the 4 checksum bytes and the 8 directory-entry bytes, the boundary after it
// then sits on a multiple of a
func alignSpec(s peSpec, j, a int) peSpec {
	t := s
	t.SecSizes = append([]int{}, s.SecSizes...)
	b := buildPE(t)
	end := b.secOff[j] + t.SecSizes[j]
	t.SecSizes[j] += ((12-end)%a + a) % a
	if t.SecSizes[j] == s.SecSizes[j] && end < a {
		t.SecSizes[j] += a
	}
	return t
}

func init() {
	register("C01", &PropDef{
		Rule:   "generated well-formed images over {PE32, PE32+} x e_lfanew {0x40, 0x48, 0x80, random} x 5..16 data directories x 0..8 (thorough: ..96) sections x size classes {0,1,7,8,9,512,random, >32 KiB and >64 KiB every 25th image so that io.Copy's 32 KiB reads cross part boundaries} x part boundaries aligned to 32 KiB / 512 B in the hashed stream (section ends at offset = 12 mod the read size) x header order (random permutation / file order) x gaps x SizeOfHeaders slack x trailing length {0,1,7,8,9,random} x certificate table {none, 1, 2 entries} x, for every third image, a left-over directory-entry address with size 0 when there is no table {1, inside the headers, inside the sections, end of the sections, inside the trailing data, file end, padded file end, beyond the file, 2^32-1} x 3 machine types; the repository's binaries; per image ~25 stratified byte changes (header fields, checksum, directory entry, section table, slack, section boundaries, gaps, tail, certificate table); a changed image that is still well-formed and that Parse rejects counts as outside the domain only when debug/pe.NewFile itself rejects it, and a changed directory-entry byte is judged like any other excluded byte. Every image is also parsed once and asked for its digest six times on that one object, running through SHA-1/256/384/512 in an order chosen by the image and then repeating the first two; every answer is compared with that algorithm over the specification's hash input, every other returned slice is overwritten by the caller before the next call, and the remaining ones are held and must not change. Every image is also parsed once through a caller-supplied io.ReaderAt that fixes the interleaving of goroutines (sched.go) and asked for its digest by two or three goroutines AT THE SAME TIME (algorithms, possibly the same one twice, chosen by the image): the calls take turns at read granularity - the first call is parked inside its first or second read, later turns last 0..3 reads, a function of the image - and every one of the overlapping calls, and a call after them, must return its algorithm over the specification's hash input. And every image is parsed through a reader whose storage shrinks AFTER Parse (only the first L bytes remain readable, the read at the cut ending with io.EOF or with another error; L in {0, 1, n/4, n/2, 3n/4, n-9, n-1, two positions chosen by the image, the end of the hashed data and the one before, both ends of the certificate-table directory entry}): whatever Hash then reports must be nil or the specification digest of the image that was parsed (never the digest of the readable part), and the digest is reported again once the storage is whole. Half of the images (by a checksum of their bytes) are read through a conforming io.ReaderAt that reports io.EOF together with the read that reaches the end of the file. One image in six (by that checksum) is parsed through an io.SectionReader declared LARGER than the image (by 1, 7, 8, 4096, 2^40 bytes, or up to 2^63-1): its Size() is not the file length, reads behind the data end with io.EOF. SEVERAL IMAGES PARSED BEFORE ANY IS HASHED: 60 batches (thorough 3000) of 2..4 images are parsed one after the other and asked for their digests only afterwards (mode 0: all parsed, then every object asked for SHA-256 in an order chosen by the batch and then, backwards, for one of SHA-1/256/384/512; mode 1: after each Parse every object parsed so far is asked); the followers of the first image have the same layout with other contents, the same layout with another amount of data after the last section ({0,1,7,8,9, one less, one more, <300, 300..4300} bytes), are unrelated images, or are the same file again, and every second batch starts from an image with data after its last section; every answer must be that algorithm over the specification's hash input of ITS image, whatever was parsed between its Parse and its Hash. Half of the batches (modes 2 and 3 = modes 0 and 1 with LISTING) belong to a process that also looks at the signatures of what it parses: right after each Parse the object is asked for Signatures() (which must list the entries of its table) and the caller asks the exported PaddingBytes(file length, 8) and fills the slice it gets with its own bytes; two of three of these batches start from an image with a certificate table whose entries do NOT end on an 8-byte boundary and whose alignment bytes are NOT ZERO (they are part of the excluded table; class alignment-bytes-not-zero), followed - besides the follower kinds above - by that image WITHOUT its table and with {1,7,9,<300,300..4300, the same} bytes after the last section (file length not a multiple of 8: the hash input ends in the zero padding); every digest must still be the specification's, whatever table was walked and whatever the caller did with its padding slice in between. Non-trivial: image longer than 256 bytes / every flip / every batch; distinct = distinct specs, (image, position, mask) and batches.",
		Assume: []string{"debug/pe.NewFile accepts the generated headers (machine type from its whitelist, no symbol table, no relocations, section names not starting with '/')", "SHA-256 does not collide on the pre-images compared"},
		Eval:   c01Eval, Gen: c01Gen,
	})
}
