package main

import (
	"bytes"
	"crypto"
	"crypto/ecdsa"
	"crypto/ed25519"
	"crypto/elliptic"
	"crypto/rand"
	"crypto/rsa"
	"crypto/sha256"
	"crypto/x509"
	"crypto/x509/pkix"
	"encoding/asn1"
	"encoding/pem"
	"fmt"
	"math/big"
	"os"
	"path/filepath"
	"strings"
	"sync"
	"time"

	mozpkcs7 "go.mozilla.org/pkcs7"
)

// ---- key pool (RSA key generation is slow; keys are cached under .build and are not part of any
// replay: replay files carry the blobs and the certificate fields) ----

type keyCert struct {
	key  *rsa.PrivateKey
	cert *x509.Certificate
}

var keyMu sync.Mutex
var keyCache = map[string]*rsa.PrivateKey{}

func poolKey(c *Ctx, bits, idx int) *rsa.PrivateKey { return poolKeyDir(c.VerifDir, bits, idx) }

func poolKeyDir(verifDir string, bits, idx int) *rsa.PrivateKey {
	keyMu.Lock()
	defer keyMu.Unlock()
	caVerifDir = verifDir
	name := fmt.Sprintf("rsa%d-%d.pem", bits, idx)
	if k, ok := keyCache[name]; ok {
		return k
	}
	dir := filepath.Join(verifDir, ".build", "keys")
	os.MkdirAll(dir, 0o755)
	p := filepath.Join(dir, name)
	if b, err := os.ReadFile(p); err == nil {
		if blk, _ := pem.Decode(b); blk != nil {
			if k, err := x509.ParsePKCS1PrivateKey(blk.Bytes); err == nil {
				keyCache[name] = k
				return k
			}
		}
	}
	k := genRSAKey(bits)
	// several processes (shards, workers) may get here at once: the first link wins and everybody uses the winner
	tmp := fmt.Sprintf("%s.%d.tmp", p, os.Getpid())
	os.WriteFile(tmp, pem.EncodeToMemory(&pem.Block{Type: "RSA PRIVATE KEY", Bytes: x509.MarshalPKCS1PrivateKey(k)}), 0o600)
	os.Link(tmp, p)
	os.Remove(tmp)
	if b, err := os.ReadFile(p); err == nil {
		if blk, _ := pem.Decode(b); blk != nil {
			if kk, err := x509.ParsePKCS1PrivateKey(blk.Bytes); err == nil {
				k = kk
			}
		}
	}
	keyCache[name] = k
	return k
}

// genRSAKey makes an RSA key whose modulus has exactly `bits` bits, for any bit length: also one that
// is not a multiple of 8 (or of 2), which some library versions refuse to generate themselves.
func genRSAKey(bits int) *rsa.PrivateKey {
	if k, err := rsa.GenerateKey(rand.Reader, bits); err == nil && k.N.BitLen() == bits {
		return k
	}
	one, e := big.NewInt(1), big.NewInt(65537)
	for {
		p, err1 := rand.Prime(rand.Reader, (bits+1)/2)
		q, err2 := rand.Prime(rand.Reader, bits/2)
		if err1 != nil || err2 != nil {
			panic(fmt.Sprint(err1, err2))
		}
		n := new(big.Int).Mul(p, q)
		if p.Cmp(q) == 0 || n.BitLen() != bits {
			continue
		}
		phi := new(big.Int).Mul(new(big.Int).Sub(p, one), new(big.Int).Sub(q, one))
		d := new(big.Int).ModInverse(e, phi)
		if d == nil {
			continue
		}
		k := &rsa.PrivateKey{PublicKey: rsa.PublicKey{N: n, E: 65537}, D: d, Primes: []*big.Int{p, q}}
		k.Precompute()
		if k.Validate() != nil {
			continue
		}
		return k
	}
}

// oddModulusBits: RSA modulus lengths that are not a multiple of 8 bits (one bit below and one bit
// above a byte boundary, ...): the signature is ceil(bits/8) octets long, floor(bits/8) is one less.
func oddModulusBits(c *Ctx) []int {
	if c.Thorough {
		return []int{2047, 2049, 3001, 4095}
	}
	return []int{2047, 2049}
}

type certShape struct {
	issuer  pkix.Name
	serial  *big.Int
	desc    string
	subject *pkix.Name              // non-nil: issued by a CA named `issuer` (issuer and subject differ); nil: self-signed
	sigAlg  x509.SignatureAlgorithm // how the certificate itself is signed (0: SHA256WithRSA)
	rawName []byte                  // non-nil: this DER RDNSequence is the name (encodings Go's pkix.Name would not produce)
	// validity: when set, the certificate's validity period is exactly [notBefore, notAfter] (either may be the
	// zero time, i.e. no validity period at all) instead of the default 2023-11-14 .. 2033-05-18
	validity            bool
	notBefore, notAfter time.Time
}

var caVerifDir string // where the pool keys live (set by poolKeyDir); the CA key is pool key 2

func certShapes(_ *Ctx) []certShape {
	long := strings.Repeat("Very Long Organisation Name ", 8)
	b20 := make([]byte, 20)
	for i := range b20 {
		b20[i] = 0xff
	}
	b20[0] = 0x7f
	hi := new(big.Int).SetBytes([]byte{0x80, 0, 0, 1})    // high bit set: needs a leading zero octet
	lz := new(big.Int).SetBytes([]byte{0x00, 0x7f, 0xff}) // leading zero in the source bytes
	return []certShape{
		{issuer: pkix.Name{CommonName: "a"}, serial: big.NewInt(1), desc: "short/1"},
		{issuer: pkix.Name{CommonName: "Platform Key", Organization: []string{long}, Country: []string{"NO"}}, serial: big.NewInt(127), desc: "long/127"},
		{issuer: pkix.Name{CommonName: "db", Organization: []string{"O1", "O2"}, OrganizationalUnit: []string{"U1", "U2"}, Locality: []string{"L"}}, serial: big.NewInt(128), desc: "multi/128"},
		{issuer: pkix.Name{CommonName: "hi"}, serial: hi, desc: "short/highbit"},
		{issuer: pkix.Name{CommonName: "lz"}, serial: lz, desc: "short/leadingzero"},
		{issuer: pkix.Name{CommonName: "KEK éè"}, serial: new(big.Int).SetBytes(b20), desc: "utf8/20bytes"},
		{issuer: pkix.Name{CommonName: "x"}, serial: new(big.Int).Lsh(big.NewInt(1), 159), desc: "short/2^159"},
		{issuer: pkix.Name{CommonName: "y"}, serial: big.NewInt(255), desc: "short/255"},
		{issuer: pkix.Name{CommonName: "z"}, serial: big.NewInt(256), desc: "short/256"},
		// issued by a CA: issuer and subject are different names
		{issuer: pkix.Name{CommonName: "Test Root CA", Organization: []string{"Verification"}}, serial: big.NewInt(4097), desc: "ca-issued/4097", subject: &pkix.Name{CommonName: "leaf signer"}},
		{issuer: pkix.Name{CommonName: "R"}, serial: new(big.Int).SetBytes([]byte{0xC3, 0x50, 0x00}), desc: "ca-issued/highbit", subject: &pkix.Name{CommonName: "A considerably longer subject than issuer", Country: []string{"SE"}}},
		// the certificate itself carries a SHA-384 / SHA-512 signature (nothing to do with the SignerInfo's algorithms)
		{issuer: pkix.Name{CommonName: "sha384 cert"}, serial: big.NewInt(384), desc: "self/sha384WithRSA", sigAlg: x509.SHA384WithRSA},
		{issuer: pkix.Name{CommonName: "Root 512"}, serial: big.NewInt(512), desc: "ca-issued/sha512WithRSA", sigAlg: x509.SHA512WithRSA, subject: &pkix.Name{CommonName: "leaf 512"}},
		// names as other tools encode them: UTF8String values + emailAddress (IA5String); a multi-valued RDN; CN before C
		{serial: big.NewInt(7001), desc: "rawname/utf8+email", rawName: rdnSeq([][]atv{{{oidCN, 0x0c, "openssl style name"}}, {{oidEmail, 0x16, "a@example.org"}}})},
		{serial: big.NewInt(7002), desc: "rawname/multivalued-rdn", rawName: rdnSeq([][]atv{{{oidO, 0x13, "org"}, {oidCN, 0x13, "multi"}}})},
		{serial: big.NewInt(7003), desc: "rawname/cn-first", rawName: rdnSeq([][]atv{{{oidCN, 0x0c, "cn first"}}, {{oidC, 0x13, "NO"}}, {{oidDC, 0x16, "example"}}})},
	}
}

// ---- hand-encoded distinguished names ----
type atv struct {
	oid   []byte
	tag   byte // string type: 0x0c UTF8String, 0x13 PrintableString, 0x16 IA5String
	value string
}

var (
	oidCN    = []byte{0x55, 0x04, 0x03}
	oidC     = []byte{0x55, 0x04, 0x06}
	oidO     = []byte{0x55, 0x04, 0x0a}
	oidEmail = []byte{0x2a, 0x86, 0x48, 0x86, 0xf7, 0x0d, 0x01, 0x09, 0x01}
	oidDC    = []byte{0x09, 0x92, 0x26, 0x89, 0x93, 0xf2, 0x2c, 0x64, 0x01, 0x19}
)

func tlv(tag byte, body []byte) []byte {
	return append(append([]byte{tag}, derLen(len(body))...), body...)
}

// rdnSeq encodes RDNSequence ::= SEQUENCE OF SET OF SEQUENCE { type OID, value string }; the
// attribute-value pairs of one RDN are given in DER SET OF order by the caller
func rdnSeq(rdns [][]atv) []byte {
	var seq []byte
	for _, rdn := range rdns {
		var set []byte
		for _, a := range rdn {
			set = append(set, tlv(0x30, append(tlv(0x06, a.oid), tlv(a.tag, []byte(a.value))...))...)
		}
		seq = append(seq, tlv(0x31, set)...)
	}
	return tlv(0x30, seq)
}

// nonRSATwin: a certificate with the issuer and serial of `cert` whose key is not an RSA key
func nonRSATwin(cert *x509.Certificate, kind string) *x509.Certificate {
	certMu.Lock()
	defer certMu.Unlock()
	ck := fmt.Sprintf("twin-%s/%x/%s", kind, cert.RawIssuer, cert.SerialNumber)
	if c, ok := certCache[ck]; ok {
		return c
	}
	tmpl := &x509.Certificate{SerialNumber: cert.SerialNumber, RawSubject: cert.RawIssuer, NotBefore: time.Unix(1700000000, 0), NotAfter: time.Unix(2000000000, 0),
		KeyUsage: x509.KeyUsageDigitalSignature, BasicConstraintsValid: true}
	var pub crypto.PublicKey
	var signer crypto.Signer
	seed := sha256.Sum256([]byte("verif non-RSA twin " + kind))
	switch kind {
	case "ed25519":
		k := ed25519.NewKeyFromSeed(seed[:])
		pub, signer = k.Public(), k
	default:
		k, err := ecdsa.GenerateKey(elliptic.P256(), rand.Reader)
		if err != nil {
			panic(err)
		}
		pub, signer = &k.PublicKey, k
	}
	der, err := x509.CreateCertificate(rand.Reader, tmpl, tmpl, pub, signer)
	if err != nil {
		panic(err)
	}
	c, err := x509.ParseCertificate(der)
	if err != nil {
		panic(err)
	}
	certCache[ck] = c
	return c
}

var certMu sync.Mutex
var certCache = map[string]*x509.Certificate{}

func makeRSACert(key *rsa.PrivateKey, sh certShape) *x509.Certificate {
	certMu.Lock()
	defer certMu.Unlock()
	ck := fmt.Sprintf("%x/%s", key.N.Bytes()[:8], sh.desc)
	if c, ok := certCache[ck]; ok {
		return c
	}
	tmpl := &x509.Certificate{SerialNumber: sh.serial, Subject: sh.issuer, NotBefore: time.Unix(1700000000, 0), NotAfter: time.Unix(2000000000, 0),
		KeyUsage: x509.KeyUsageDigitalSignature, BasicConstraintsValid: true, SignatureAlgorithm: sh.sigAlg, RawSubject: sh.rawName}
	if sh.validity {
		tmpl.NotBefore, tmpl.NotAfter = sh.notBefore, sh.notAfter
	}
	parent, signer := tmpl, key
	if sh.subject != nil {
		keyMu.Lock()
		dir := caVerifDir
		keyMu.Unlock()
		signer = poolKeyDir(dir, 2048, 2)
		parent = &x509.Certificate{SerialNumber: big.NewInt(1), Subject: sh.issuer, NotBefore: time.Unix(1700000000, 0), NotAfter: time.Unix(2000000000, 0),
			KeyUsage: x509.KeyUsageCertSign, BasicConstraintsValid: true, IsCA: true}
		leaf := *tmpl
		leaf.Subject = *sh.subject
		tmpl = &leaf
	}
	der, err := x509.CreateCertificate(rand.Reader, tmpl, parent, &key.PublicKey, signer)
	if err != nil {
		panic(err)
	}
	cert, err := x509.ParseCertificate(der)
	if err != nil {
		panic(err)
	}
	certCache[ck] = cert
	return cert
}

func certArgs(cert *x509.Certificate) []string {
	pub, ok := cert.PublicKey.(*rsa.PublicKey)
	if !ok {
		return []string{hx(cert.RawIssuer), cert.SerialNumber.String(), "0", "0"}
	}
	return []string{hx(cert.RawIssuer), cert.SerialNumber.String(), pub.N.String(), fmt.Sprint(pub.E)}
}

func loadRepoKeyCert(c *Ctx, keyPath, certPath string) *keyCert {
	kb, err1 := os.ReadFile(filepath.Join(c.RepoDir, keyPath))
	cb, err2 := os.ReadFile(filepath.Join(c.RepoDir, certPath))
	if err1 != nil || err2 != nil {
		return nil
	}
	kblk, _ := pem.Decode(kb)
	cblk, _ := pem.Decode(cb)
	if kblk == nil || cblk == nil {
		return nil
	}
	var key *rsa.PrivateKey
	if k, err := x509.ParsePKCS8PrivateKey(kblk.Bytes); err == nil {
		key, _ = k.(*rsa.PrivateKey)
	} else if k, err := x509.ParsePKCS1PrivateKey(kblk.Bytes); err == nil {
		key = k
	}
	cert, err := x509.ParseCertificate(cblk.Bytes)
	if key == nil || err != nil {
		return nil
	}
	return &keyCert{key, cert}
}

// ---- an independent verifier on encoding/asn1 + crypto/rsa (RFC 2315 section 9 / RFC 5652 section 5) ----

type stdSignerInfo struct {
	Version int
	IAS     struct {
		Issuer asn1.RawValue
		Serial *big.Int
	}
	DigestAlg asn1.RawValue
	Attrs     asn1.RawValue `asn1:"optional,tag:0"`
	SigAlg    asn1.RawValue
	Sig       []byte
	Unsigned  asn1.RawValue `asn1:"optional,tag:1"`
}

type stdSignedData struct {
	Version    int
	DigestAlgs asn1.RawValue
	ECI        struct {
		Type    asn1.ObjectIdentifier
		Content asn1.RawValue `asn1:"optional,explicit,tag:0"`
	}
	Certs   asn1.RawValue   `asn1:"optional,tag:0"`
	CRLs    asn1.RawValue   `asn1:"optional,tag:1"`
	Signers []stdSignerInfo `asn1:"set"`
}

type stdContentInfo struct {
	Type    asn1.ObjectIdentifier
	Content asn1.RawValue `asn1:"explicit,tag:0"`
}

var oidMD = asn1.ObjectIdentifier{1, 2, 840, 113549, 1, 9, 4}

// stdVerify: does the blob carry a valid signature by cert over `detached` (nil: use the
// encapsulated content)?  Returns (accepted, parsed).
func stdVerify(blob []byte, cert *x509.Certificate, detached []byte) (bool, bool) {
	var sd stdSignedData
	var ci stdContentInfo
	if rest, err := asn1.Unmarshal(blob, &ci); err == nil && len(rest) == 0 && ci.Type.Equal(asn1.ObjectIdentifier{1, 2, 840, 113549, 1, 7, 2}) {
		if _, err := asn1.Unmarshal(ci.Content.Bytes, &sd); err != nil {
			return false, false
		}
	} else if _, err := asn1.Unmarshal(blob, &sd); err != nil {
		return false, false
	}
	var content []byte
	have := false
	if len(sd.ECI.Content.FullBytes) > 0 {
		// encoding/asn1 leaves an explicitly tagged RawValue unparsed: Bytes is the element inside [0]
		var inner asn1.RawValue
		if _, err := asn1.Unmarshal(sd.ECI.Content.Bytes, &inner); err != nil {
			return false, false
		}
		content, have = inner.Bytes, true // value octets of the element inside [0]
	} else if detached != nil {
		content, have = detached, true
	}
	pub, ok := cert.PublicKey.(*rsa.PublicKey)
	if !ok {
		return false, true
	}
	for _, si := range sd.Signers {
		if !bytes.Equal(si.IAS.Issuer.FullBytes, cert.RawIssuer) || si.IAS.Serial == nil || si.IAS.Serial.Cmp(cert.SerialNumber) != 0 {
			continue
		}
		if len(si.Attrs.FullBytes) == 0 {
			continue
		}
		signed := append([]byte{0x31}, si.Attrs.FullBytes[1:]...)
		h := sha256.Sum256(signed)
		if rsa.VerifyPKCS1v15(pub, crypto.SHA256, h[:], si.Sig) != nil {
			continue
		}
		if have {
			var md []byte
			rest := si.Attrs.Bytes
			for len(rest) > 0 {
				var a struct {
					Type   asn1.ObjectIdentifier
					Values asn1.RawValue `asn1:"set"`
				}
				var err error
				rest, err = asn1.Unmarshal(rest, &a)
				if err != nil {
					md = nil
					break
				}
				if a.Type.Equal(oidMD) {
					var v []byte
					if _, err := asn1.Unmarshal(a.Values.Bytes, &v); err == nil {
						md = v
					}
				}
			}
			want := sha256.Sum256(content)
			if !bytes.Equal(md, want[:]) {
				continue
			}
		}
		return true, true
	}
	return false, true
}

// mozVerify: go.mozilla.org/pkcs7 as a second independent implementation. detached != nil sets the content.
func mozVerify(blob []byte, cert *x509.Certificate, detached []byte) (accepted bool, parsed bool) {
	defer func() {
		if recover() != nil {
			accepted, parsed = false, false
		}
	}()
	p, err := mozpkcs7.Parse(blob)
	if err != nil {
		return false, false
	}
	if detached != nil {
		p.Content = detached
	}
	// this implementation also compares signingTime with the validity period of the certificate it is handed; the
	// validity of the certificate is no part of what is asked of it here (as with openssl -noverify): it is handed
	// the certificate with an unbounded period
	unbounded := *cert
	unbounded.NotBefore, unbounded.NotAfter = time.Time{}, time.Date(9999, 12, 31, 23, 59, 59, 0, time.UTC)
	p.Certificates = []*x509.Certificate{&unbounded}
	return p.Verify() == nil, true
}

func mustCert(der []byte) *x509.Certificate {
	c, err := x509.ParseCertificate(der)
	if err != nil {
		panic(err)
	}
	return c
}
