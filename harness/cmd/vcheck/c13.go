package main

import (
	"bufio"
	"bytes"
	"crypto"
	"crypto/sha1"
	"crypto/x509"
	"encoding/asn1"
	"encoding/binary"
	"fmt"
	"io"
	"os"
	"path/filepath"
	"strings"
	"testing/iotest"
	"time"

	"github.com/foxboron/go-uefi/authenticode"
	"github.com/foxboron/go-uefi/efi/signature"
	"github.com/foxboron/go-uefi/pkcs7"
)

// streamKinds are the kinds of io.Reader through which callers hand a byte string to the decoders
// that take an io.Reader. They differ in what they offer besides Read (Len, Size, Seek, ReadAt,
// Stat, buffering, nothing at all) and in how much one Read delivers, so a decoder that sizes or
// bounds its work through one of these extras is also seen on the readers that lack it.
var streamKinds = []string{"bytes.Reader", "bytes.Buffer", "bufio.Reader", "io.SectionReader", "os.File", "io.Pipe", "read-only", "one-byte"}

// streamOf returns b as a reader of the given kind; done releases what the reader holds.
func streamOf(kind string, b []byte) (r io.Reader, done func()) {
	done = func() {}
	switch kind {
	case "bytes.Buffer":
		return bytes.NewBuffer(append([]byte{}, b...)), done
	case "bufio.Reader":
		return bufio.NewReaderSize(bytes.NewReader(b), 16), done
	case "io.SectionReader":
		return io.NewSectionReader(bytes.NewReader(b), 0, int64(len(b))), done
	case "os.File": // an open file that is already unlinked: nothing is left behind if the process dies
		if f, err := os.CreateTemp("", "vcheck-stream-"); err == nil {
			os.Remove(f.Name())
			f.Write(b)
			f.Seek(0, io.SeekStart)
			return f, func() { f.Close() }
		}
		return struct{ io.Reader }{bytes.NewReader(b)}, done
	case "io.Pipe": // a stream whose length nobody knows before its end
		pr, pw := io.Pipe()
		go func() { pw.Write(b); pw.Close() }()
		return pr, func() { pr.Close() }
	case "read-only": // nothing but Read
		return struct{ io.Reader }{bytes.NewReader(b)}, done
	case "one-byte":
		return iotest.OneByteReader(bytes.NewReader(b)), done
	}
	return bytes.NewReader(b), done
}

func init() {
	// image entry points: Parse, Signatures, Hash, Bytes, Verify
	workerOps["pe.all"] = func(a map[string]string) (string, string) {
		img := unhx(a["b"])
		var cert *x509.Certificate
		if c := unhx(a["cert"]); len(c) > 0 {
			cert, _ = x509.ParseCertificate(c)
		}
		p, err := authenticode.Parse(bytes.NewReader(img))
		if err != nil {
			return "err", "parse"
		}
		out := "parse-ok"
		if _, err := p.Signatures(); err != nil {
			out += " sigs-err"
		} else {
			out += " sigs-ok"
		}
		if d := p.Hash(crypto.SHA256); d == nil {
			out += " hash-nil"
		} else {
			out += " hash-ok"
		}
		for _, h := range []crypto.Hash{crypto.SHA1, crypto.SHA384, crypto.SHA512} { // the other digests Authenticode signatures use
			if h.Available() {
				out += fmt.Sprintf(" %d", len(p.Hash(h)))
			}
		}
		out += fmt.Sprintf(" bytes-%d", len(p.Bytes()))
		if cert != nil {
			ok, err := p.Verify(cert)
			out += fmt.Sprintf(" verify-%v-%s", ok, errCls(err))
		}
		return "ok", out
	}
	// the WIN_CERTIFICATE that wraps a signature in the certificate table, from any kind of io.Reader
	workerOps["wincert.all"] = func(a map[string]string) (string, string) {
		r, done := streamOf(a["reader"], unhx(a["b"]))
		defer done()
		w, err := signature.ReadWinCertificate(r)
		if err != nil {
			return "err", ""
		}
		return "ok", fmt.Sprintf("len=%d rev=%d type=%d cert=%s", w.Length, w.Revision, uint16(w.CertType), hx(w.Certificate))
	}
	// signature entry points: ParsePKCS7, ParseAuthenticode, Verify
	workerOps["p7.all"] = func(a map[string]string) (string, string) {
		blob := unhx(a["b"])
		var cert *x509.Certificate
		if c := unhx(a["cert"]); len(c) > 0 {
			cert, _ = x509.ParseCertificate(c)
		}
		out := ""
		p, err := pkcs7.ParsePKCS7(blob)
		out += "p7-" + errCls(err)
		if err == nil && cert != nil {
			ok, err := p.Verify(cert)
			out += fmt.Sprintf(" verify-%v-%s", ok, errCls(err))
			p.HasCertificate(cert)
		}
		if err == nil {
			// re-serialising what was parsed: the signed attributes of every signer entry
			for _, si := range p.SignerInfo {
				if si.AuthenticatedAttributes != nil {
					out += fmt.Sprintf(" attrs-%d", len(si.AuthenticatedAttributes.Marshal()))
				}
			}
		}
		au, err := authenticode.ParseAuthenticode(blob)
		out += " auth-" + errCls(err)
		if err == nil && cert != nil {
			ok, err := au.Verify(cert, bytes.NewReader([]byte("image bytes")))
			out += fmt.Sprintf(" averify-%v-%s", ok, errCls(err))
		}
		return "ok", out
	}
}

var c13Worker *Worker

func c13Eval(c *Ctx, cs Case) {
	if cs.I("sigs_n") > 0 { // size scaling: a large image with many signatures, built from its description
		c13ScaleEval(c, cs)
		return
	}
	ep := cs.S("ep")
	b := unhx(cs.S("b"))
	if n := int(cs.I("overlap_nsec")); n > 0 { // generated on the fly: keeps replay and corpus files small
		b = overlapPE(n, int(cs.I("overlap_size")))
	}
	if c13Worker == nil {
		c13Worker = c.NewWorker(3<<20, "GOMEMLIMIT=2GiB")
		c13Worker.MaxTimeouts = 3 // a library that hangs on every input costs 3 timeouts, not one per input
	}
	// the time an input may take is proportional to its size (limit); a worker that is still silent after
	// ten times that is taken to hang and is killed
	limit := int64(500 + len(b)/1000)
	args13 := map[string]string{"b": hx(b), "cert": cs.S("cert"), "reader": cs.S("reader")}
	res := c13Worker.Do(ep, args13, time.Duration(10*limit)*time.Millisecond)
	// Wall-clock time belongs to the machine as much as to the code: on a box that is busy with other work a
	// 1 KB input has been seen to take 600-2000 ms, or to miss its deadline, once - and 2 ms when asked again.
	// A verdict about time is therefore re-measured (twice at most, the best run counts): time that is a property of
	// the input comes back every time, a scheduling accident does not.
	for try := 0; try < 2 && (res.Class == "timeout" || ((res.Class == "ok" || res.Class == "err") && res.Ms > limit)); try++ {
		c.Class("untrusted/" + ep + "/time-verdict-remeasured")
		r2 := c13Worker.Do(ep, args13, time.Duration(10*limit)*time.Millisecond)
		if r2.Class == "not-run" {
			break
		}
		if r2.Class != "timeout" && (res.Class == "timeout" || r2.Ms < res.Ms) {
			res = r2
		}
	}
	if res.Class == "not-run" { // the worker gave up after repeated timeouts, which are reported
		c.Class("untrusted/" + ep + "/not-run-after-timeouts")
		return
	}
	c.Count(cs.Key(), len(b) > 0, "untrusted/"+ep+"/"+cs.S("class")+"/"+res.Class)
	if len(b) < 100 {
		c.Sample(cs)
	}
	fail := func(what, matcher string) {
		c.Fail(Failure{Kind: "property", Matcher: matcher, What: ep + " (" + cs.S("class") + "): " + what, Case: cs, Go: fmt.Sprintf("%s alloc=%d ms=%d %s %s", res.Class, res.Alloc, res.Ms, res.Panic, clip(res.Out))})
	}
	// memory proportional to the input: parsing keeps a few copies of the file (debug/pe, the rest
	// buffer, Bytes(), the discard pass) and DER parsing allocates per element
	budget := 64*uint64(len(b)) + (4 << 20)
	if strings.HasPrefix(ep, "pe.") {
		// debug/pe reads a declared string table / section through internal/saferio, which allocates up to one
		// 10 MiB chunk for a declared size before it notices that the file is shorter: a fixed amount of the
		// standard library, not one governed by the input (found by the seed-3 sweep: 10 494 320 bytes for a
		// 2240-byte image whose symbol-table pointer leads to a declared length just under 10 MiB)
		budget += 10 << 20
	}
	switch res.Class {
	case "ok", "err":
		if res.Alloc > budget {
			fail(fmt.Sprintf("allocated %d bytes for a %d-byte input", res.Alloc, len(b)), "c13.alloc")
		}
		if res.Ms > limit { // time proportional to the input: 1 µs per byte + 0.5 s
			fail(fmt.Sprintf("took %d ms for a %d-byte input (limit %d ms: time must be proportional to the input size)", res.Ms, len(b), limit), "c13.time")
		}
	case "panic":
		fail("panicked", "c13.panic")
	case "exit":
		fail("terminated the process", "c13.exit")
	case "oom":
		fail(fmt.Sprintf("ran out of memory on a %d-byte input (allocation unrelated to the input size)", len(b)), "c13.alloc")
	case "timeout":
		fail(fmt.Sprintf("did not finish: no answer %d ms after a %d-byte input was handed over (limit %d ms), the worker was killed", res.Ms, len(b), limit), "c13.hang")
	}
	// correspondence: outcome class of the Lean models where they exist
	if ep == "wincert.all" && (res.Class == "ok" || res.Class == "err") {
		// what is decoded does not depend on the kind of reader: the model reads the same bytes
		c.Trace()
		m := c.Drv.Ask("wincert.read", hx(b))
		if i := strings.Index(m, " rest="); i >= 0 {
			m = m[:i]
		}
		if got := strings.TrimSpace(res.Class + " " + res.Out); m != got {
			c.Fail(Failure{Kind: "tie", What: "ReadWinCertificate: result differs from the Lean model", Case: cs, Model: clip(m), Go: clip(got)})
		}
	}
	if ep == "p7.all" && (res.Class == "ok") {
		c.Trace()
		certsOk := "1"
		cf := c.Drv.Ask("p7.certs", hx(b))
		if strings.HasPrefix(cf, "some ") {
			if _, err := x509.ParseCertificates(unhx(cf[5:])); err != nil {
				certsOk = "0"
			}
		}
		m := c.Drv.Ask("p7.parse", hx(b), certsOk)
		want := "p7-err"
		if strings.HasPrefix(m, "ok ") {
			want = "p7-ok"
		}
		if !strings.HasPrefix(res.Out, want) {
			c.Fail(Failure{Kind: "tie", What: "ParsePKCS7: outcome class differs from the Lean model", Case: cs, Model: want, Go: res.Out})
		}
	}
}

// header-field mutations of a valid image, following the quantifier text
func c13ImageMutants(c *Ctx, img []byte, emit func(class string, b []byte)) {
	pe := int(binary.LittleEndian.Uint32(img[0x3c:]))
	opt := pe + 24
	plus := binary.LittleEndian.Uint16(img[opt:]) == 0x20b
	dd := opt + 128
	ndirsOff := opt + 92
	if plus {
		dd = opt + 144
		ndirsOff = opt + 108
	}
	nsec := int(binary.LittleEndian.Uint16(img[pe+6:]))
	secTab := opt + int(binary.LittleEndian.Uint16(img[pe+20:]))
	u32 := []uint32{0, 1, 7, 8, 0x3f, 0x40, 0x1000, uint32(len(img) - 1), uint32(len(img)), uint32(len(img) + 1), 0x7fffffff, 0x80000000, 0xfffffff0, 0xffffffff}
	set32 := func(off int, v uint32) []byte {
		m := append([]byte{}, img...)
		if off+4 <= len(m) {
			binary.LittleEndian.PutUint32(m[off:], v)
		}
		return m
	}
	set16 := func(off int, v uint16) []byte {
		m := append([]byte{}, img...)
		if off+2 <= len(m) {
			binary.LittleEndian.PutUint16(m[off:], v)
		}
		return m
	}
	for _, v := range u32 {
		emit("e_lfanew", set32(0x3c, v))
		emit("SizeOfHeaders", set32(opt+60, v))
		emit("NumberOfRvaAndSizes", set32(ndirsOff, v))
		emit("certdir-address", set32(dd, v))
		emit("certdir-size", set32(dd+4, v))
		for i := 0; i < nsec; i++ {
			if i >= 3 && i != nsec-1 { // the first three and the last section
				continue
			}
			emit("section-size", set32(secTab+40*i+16, v))
			emit("section-offset", set32(secTab+40*i+20, v))
		}
	}
	for _, v := range []uint16{0, 1, 2, 0x5f, 0x60, 0x70, 0xe0, 0xf0, 0xffff} {
		emit("SizeOfOptionalHeader", set16(pe+20, v))
		emit("NumberOfSections", set16(pe+6, v))
	}
	if nsec >= 2 { // overlapping sections
		m := append([]byte{}, img...)
		copy(m[secTab+40+16:secTab+40+24], m[secTab+16:secTab+24])
		emit("overlapping-sections", m)
	}
	for cut := 0; cut < len(img); cut += 1 + len(img)/50 {
		emit("truncated", img[:cut])
	}
	for i := 0; i < c.N(60, 2000); i++ {
		m := append([]byte{}, img...)
		p := c.Rng.Intn(min(len(m), 0x400))
		m[p] = byte(c.Rng.Intn(256))
		emit("header-byteset", m)
	}
	// WIN_CERTIFICATE dwLength inside the certificate table
	if t := tableOf(img); len(t) >= 8 {
		_, be := peOffsets(img)
		va := int(binary.LittleEndian.Uint32(img[dd:]))
		_ = be
		for _, v := range []uint32{0, 1, 7, 8, 9, uint32(len(t)), uint32(len(t) + 1), 0x7fffffff, 0xffffffff} {
			emit("wincert-dwLength", set32(va, v))
		}
		// entries of OTHER certificate types (WIN_CERT_TYPE_EFI_GUID 0x0EF1, X.509 0x0001, 0, 0xffff - the table may
		// hold them next to PKCS#7 entries) in every place of the table: the first entry retyped, a foreign entry in
		// front of and behind the genuine ones, with dwLength swept over the small values, the table length and its
		// neighbours, and the top of the 32-bit range (2^32-16 .. 2^32-1, where rounding up to 8 wraps around)
		top := []uint32{0xfffffff0, 0xfffffff7, 0xfffffff8, 0xfffffff9, 0xfffffffa, 0xfffffffc, 0xfffffffe, 0xffffffff}
		for ti, typ := range []uint16{0x0EF1, 0x0001, 0x0000, 0xffff, 0x0002} {
			lens := append([]uint32{0, 7, 8, 9, 16, uint32(len(t) - 8), uint32(len(t) - 1), uint32(len(t)), uint32(len(t) + 1), uint32(len(t) + 8), 0x7ffffff9, 0x80000000}, top...)
			for vi, v := range lens {
				if typ != 0x0002 {
					m := set32(va, v)
					binary.LittleEndian.PutUint16(m[va+6:], typ)
					emit("wincert-type-x-dwLength/first-entry", m)
				}
				if va+len(t) != len(img) || (!c.Thorough && (vi+ti)%2 == 0 && v < 0xfffffff0) {
					continue
				}
				// a 16-byte foreign entry (header + 8 bytes) declaring v, in front of / behind the table's own entries
				fe := mkWinCert(v, 0x0200, typ, []byte("foreign!"))
				for _, front := range []bool{true, false} {
					nt := append(append([]byte{}, t...), fe...)
					if front {
						nt = append(append([]byte{}, fe...), t...)
					}
					m := append(append([]byte{}, img[:va]...), nt...)
					binary.LittleEndian.PutUint32(m[dd+4:], uint32(len(nt)))
					emit(fmt.Sprintf("wincert-type-x-dwLength/foreign-entry-front=%v", front), m)
				}
			}
		}
		// a table that is still the tail of the file but ends early: the file cut by 1..9, 15, 16, 17 bytes (inside
		// the padding behind the last entry, inside the entry) with the directory size lowered to match, so that
		// Parse's "the table is the tail of the file" check is met
		sz := int(binary.LittleEndian.Uint32(img[dd+4:]))
		for _, cut := range []int{1, 2, 3, 4, 5, 6, 7, 8, 9, 15, 16, 17, len(t) - 9, len(t) - 8, len(t) - 1} {
			if cut <= 0 || cut >= sz || cut >= len(img) {
				continue
			}
			m := append([]byte{}, img[:len(img)-cut]...)
			binary.LittleEndian.PutUint32(m[dd+4:], uint32(sz-cut))
			emit("certdir-tail-cut", m)
		}
	}
}

// notDER: byte strings that are not a readable DER element (cryptobyte reads nothing from them), and
// readable elements of the wrong kind; placed where a parser expects a sequence of elements
var notDER = []struct {
	name string
	b    []byte
}{
	{"truncated-element", []byte{0x30, 0x05, 0x00}}, // declares 5 content octets, has 1
	{"lone-zero-byte", []byte{0x00}},                // a stray padding byte
	{"lone-tag", []byte{0x30}},                      // identifier octet without a length
	{"length-beyond-input", []byte{0x04, 0x84, 0x7f, 0xff, 0xff, 0xff}},
	{"indefinite-length", []byte{0x30, 0x80, 0x00, 0x00}},
	{"non-minimal-length", []byte{0x30, 0x81, 0x01, 0x00}},
	{"high-tag-number", []byte{0x1f, 0x81, 0x00, 0x00}},
	{"readable-then-truncated", []byte{0x05, 0x00, 0x31, 0x03, 0x02}},
}

var readableOddities = []struct {
	name string
	b    []byte
}{
	{"empty", nil},
	{"well-formed-attribute", []byte{0x30, 0x0f, 0x06, 0x09, 0x2a, 0x86, 0x48, 0x86, 0xf7, 0x0d, 0x01, 0x09, 0x06, 0x31, 0x02, 0x05, 0x00}},
	{"attribute-without-type", []byte{0x30, 0x02, 0x05, 0x00}},
	{"attribute-without-values", []byte{0x30, 0x03, 0x06, 0x01, 0x2a}},
	{"octet-string-instead-of-attribute", []byte{0x04, 0x00}},
	{"many-empty-attributes", bytes.Repeat([]byte{0x30, 0x00}, 200)},
}

// p7OptionalFields emits the blob with the OPTIONAL fields of the SignedData syntax that the library never
// writes itself - unauthenticatedAttributes [1] at the end of every signer entry, crls [1] in front of the signer
// entries - holding each kind of content: nothing, well-formed and ill-shaped readable elements, and bytes that
// are no DER element at all. With allNodes, the unreadable bytes are also placed behind the last child of every
// constructed element of the blob outside the certificates (lengths of the enclosing elements adjusted, so only
// that element is damaged; inside the certificates too in the thorough tier). Of the contents, those with index
// = rot (mod stride) are emitted: callers rotate rot over their blobs, so every content is used with some blob.
func p7OptionalFields(c *Ctx, blob []byte, rot, stride int, allNodes bool, emit func(class string, b []byte)) {
	roots, ok := parseDER(blob)
	if !ok || len(roots) == 0 {
		return
	}
	type content struct {
		name string
		b    []byte
	}
	var contents []content
	for _, x := range readableOddities {
		contents = append(contents, content{"readable/" + x.name, x.b})
	}
	for _, x := range notDER {
		contents = append(contents, content{"unreadable/" + x.name, x.b})
		contents = append(contents, content{"unreadable/attribute-then-" + x.name, append(append([]byte{}, readableOddities[1].b...), x.b...)})
	}
	raw := func(tag byte, body []byte) *derNode { return &derNode{tag: tag, leaf: append([]byte{}, body...)} } // encoded as tag, length, body as is
	for ci, ct := range contents {
		if stride > 1 && ci%stride != rot%stride {
			continue
		}
		r := roots[0].clone()
		sd := p7SignedDataOf(r)
		if len(sd.kids) < 4 || sd.kids[len(sd.kids)-1].tag != 0x31 || len(sd.kids[len(sd.kids)-1].kids) == 0 {
			return
		}
		signers := sd.kids[len(sd.kids)-1]
		for _, si := range signers.kids {
			if si.compound {
				si.kids = append(si.kids, raw(0xa1, ct.b))
			}
		}
		emit("optional-field/unauthenticated-attributes/"+ct.name, r.encode())
		r = roots[0].clone()
		sd = p7SignedDataOf(r)
		n := len(sd.kids)
		sd.kids = append(sd.kids[:n-1:n-1], raw(0xa1, ct.b), sd.kids[n-1])
		emit("optional-field/crls/"+ct.name, r.encode())
	}
	if !allNodes {
		return
	}
	var nodes []*derNode
	inCert := map[*derNode]bool{}
	roots[0].walk(nil, func(n, p *derNode) {
		nodes = append(nodes, n)
		// the elements of the certificates field: [0] whose children are Certificate ::= SEQUENCE { tbs, alg, BIT STRING }
		inCert[n] = p != nil && (inCert[p] || (p.tag == 0xa0 && n.tag == 0x30 && len(n.kids) == 3 && n.kids[2].tag == 0x03))
	})
	for i, n := range nodes {
		if !n.compound || (inCert[n] && !c.Thorough) {
			continue
		}
		kinds := notDER
		if !c.Thorough { // one kind per element, all kinds over the elements of a blob
			kinds = notDER[(i+rot)%len(notDER) : (i+rot)%len(notDER)+1]
		}
		for _, x := range kinds {
			r := roots[0].clone()
			j := 0
			var target *derNode
			r.walk(nil, func(m, _ *derNode) {
				if j == i {
					target = m
				}
				j++
			})
			var body []byte
			for _, k := range target.kids {
				body = append(body, k.encode()...)
			}
			target.compound, target.kids, target.leaf = false, nil, append(body, x.b...)
			emit("unreadable-tail-in-element/"+x.name, r.encode())
		}
	}
}

// p7SignerIdentifierForms emits the blob with every signer entry's version field set to each CMSVersion value 0..5
// crossed with each form the sid (SignerIdentifier) field can take: the issuerAndSerialNumber SEQUENCE as it is, the
// [0] subjectKeyIdentifier alternative of RFC 5652 section 5.3 (IMPLICIT, primitive: the key identifier octets; with
// the key identifier of the verifying certificate, with an empty one), the same tag in constructed form holding an
// OCTET STRING, and no sid at all. The RFC ties version 3 to the key-identifier form and version 1 to issuer and
// serial; an untrusted blob can carry any combination, and whatever the parser accepts the verifier must cope with.
func p7SignerIdentifierForms(blob, keyID []byte, emit func(class string, b []byte)) {
	roots, ok := parseDER(blob)
	if !ok || len(roots) == 0 {
		return
	}
	forms := []struct {
		name string
		sid  func(old *derNode) *derNode // nil result: the field is left out
	}{
		{"issuer-and-serial", func(old *derNode) *derNode { return old }},
		{"subject-key-identifier", func(*derNode) *derNode { return &derNode{tag: 0x80, leaf: append([]byte{}, keyID...)} }},
		{"subject-key-identifier-empty", func(*derNode) *derNode { return &derNode{tag: 0x80} }},
		{"subject-key-identifier-constructed", func(*derNode) *derNode {
			return &derNode{tag: 0xa0, compound: true, kids: []*derNode{{tag: 0x04, leaf: append([]byte{}, keyID...)}}}
		}},
		{"absent", func(*derNode) *derNode { return nil }},
	}
	for v := 0; v <= 5; v++ {
		for _, f := range forms {
			r := roots[0].clone()
			sd := p7SignedDataOf(r)
			if len(sd.kids) < 4 || sd.kids[len(sd.kids)-1].tag != 0x31 || len(sd.kids[len(sd.kids)-1].kids) == 0 {
				return
			}
			done := false
			for _, si := range sd.kids[len(sd.kids)-1].kids {
				if !si.compound || len(si.kids) < 2 || si.kids[0].tag != 0x02 {
					continue
				}
				si.kids[0].leaf = []byte{byte(v)}
				if sid := f.sid(si.kids[1]); sid != nil {
					si.kids[1] = sid
				} else {
					si.kids = append(si.kids[:1:1], si.kids[2:]...)
				}
				done = true
			}
			if done {
				emit(fmt.Sprintf("signer-identifier/version-%d/%s", v, f.name), r.encode())
			}
		}
	}
}

// subjectKeyID: the key identifier of a certificate (its subjectKeyIdentifier extension, else the SHA-1 of its
// subjectPublicKey bits, RFC 5280 section 4.2.1.2 method 1)
func subjectKeyID(cert *x509.Certificate) []byte {
	if cert == nil {
		return bytes.Repeat([]byte{0x5a}, 20)
	}
	if len(cert.SubjectKeyId) > 0 {
		return cert.SubjectKeyId
	}
	var spki struct {
		Alg asn1.RawValue
		Key asn1.BitString
	}
	if _, err := asn1.Unmarshal(cert.RawSubjectPublicKeyInfo, &spki); err != nil {
		return bytes.Repeat([]byte{0x5a}, 20)
	}
	h := sha1.Sum(spki.Key.Bytes)
	return h[:]
}

// c13InProcess runs a step of the generator in which the library works on valid inputs in this
// process. Unlike a worker, a step that never returns cannot be killed: it is reported and the run ends
// (the process exits with the report while the step is still spinning).
func c13InProcess(c *Ctx, what string, f func()) bool {
	d := time.Duration(c.P(60, 900)) * time.Second
	done := make(chan struct{})
	go func() { defer close(done); f() }()
	select {
	case <-done:
		return true
	case <-time.After(d):
		c.Fail(Failure{Kind: "property", Matcher: "c13.hang", What: fmt.Sprintf("%s did not finish within %v (in the harness process itself: no input to replay, the rest of the run was not executed)", what, d),
			Case: Case{"op": "untrusted", "ep": "in-process", "class": "valid"}})
		return false
	}
}

func mkWinCert(dw uint32, rev, typ uint16, body []byte) []byte {
	b := make([]byte, 8, 8+len(body))
	binary.LittleEndian.PutUint32(b, dw)
	binary.LittleEndian.PutUint16(b[4:], rev)
	binary.LittleEndian.PutUint16(b[6:], typ)
	return append(b, body...)
}

// a PE32+ image whose nsec section headers all point at the same `size` bytes
func overlapPE(nsec, size int) []byte {
	lf := 0x40
	optSize := 112 + 8*16
	secTab := lf + 24 + optSize
	soh := secTab + 40*nsec
	img := make([]byte, soh+size)
	img[0], img[1] = 'M', 'Z'
	binary.LittleEndian.PutUint32(img[0x3c:], uint32(lf))
	copy(img[lf:], "PE\x00\x00")
	binary.LittleEndian.PutUint16(img[lf+4:], 0x8664)
	binary.LittleEndian.PutUint16(img[lf+6:], uint16(nsec))
	binary.LittleEndian.PutUint16(img[lf+20:], uint16(optSize))
	binary.LittleEndian.PutUint16(img[lf+24:], 0x20b)
	binary.LittleEndian.PutUint32(img[lf+24+60:], uint32(soh))
	binary.LittleEndian.PutUint32(img[lf+24+108:], 16)
	for i := 0; i < nsec; i++ {
		e := secTab + 40*i
		copy(img[e:], "sec")
		binary.LittleEndian.PutUint32(img[e+16:], uint32(size))
		binary.LittleEndian.PutUint32(img[e+20:], uint32(soh))
	}
	return img
}

// c13ManySigs builds a large signed image from its description (the case holds the description, not the
// megabytes): the unsigned image `base`, `trailing` bytes of data behind its last section (the file is brought to
// a multiple of 8 first), and a certificate table - the tail of the file, directory entry set to match - that
// holds the signature blob `sig` n times, each in a WIN_CERTIFICATE padded to 8 bytes: what n calls of
// AppendSignature(sig) produce.
func c13ManySigs(base []byte, trailing, n int, sig []byte) []byte {
	img := c13Padded(base, trailing)
	e := winCert(sig)
	table := make([]byte, 0, n*len(e))
	for i := 0; i < n; i++ {
		table = append(table, e...)
	}
	return withTable(img, table)
}

// c13Padded: base brought to a multiple of 8 and followed by `trailing` bytes (rounded down to a multiple of 8)
// of a fixed pattern that is neither constant nor periodic in a power of two.
func c13Padded(base []byte, trailing int) []byte {
	img := make([]byte, 0, len(base)+8+trailing)
	img = append(img, base...)
	for len(img)%8 != 0 {
		img = append(img, 0)
	}
	var blk [8 * 509]byte
	for i := range blk {
		blk[i] = byte(i*131 + i>>8 + 7)
	}
	for trailing >= 8 {
		k := min(trailing, len(blk))
		k -= k % 8
		img = append(img, blk[:k]...)
		trailing -= k
	}
	return img
}

// c13ScaleEval runs the image entry points on a file of several megabytes that carries the same signature n
// times, and checks that time and memory stay proportional to the size of the file: against the absolute budgets
// of every other input (1 µs per byte + 0.5 s; 64 bytes per byte), and - so that the verdict does not depend on
// how fast the machine is - against the time the file's two PARTS take on their own: the same image with the
// signature once, and the same n entries behind the image without the trailing data (signed by the same key:
// "sig0"). Work proportional to the input is additive over such a split (parse and check n entries + read and
// hash the image), work that is not - the image hashed once per entry - is the product. The whole may take at
// most 8 x the sum of the parts + 0.1 s. Each measurement is the best of up to three runs.
func c13ScaleEval(c *Ctx, cs Case) {
	ep := cs.S("ep")
	base, sig, sig0 := unhx(cs.S("b")), unhx(cs.S("sig")), unhx(cs.S("sig0"))
	n, trailing := int(cs.I("sigs_n")), int(cs.I("sigs_trailing"))
	if len(base) < 0x100 || len(sig) == 0 || n <= 0 {
		return
	}
	if c13Worker == nil {
		c13Worker = c.NewWorker(3<<20, "GOMEMLIMIT=2GiB")
		c13Worker.MaxTimeouts = 3
	}
	whole := c13ManySigs(base, trailing, n, sig)
	limitUs := int64(500000 + len(whole)) // 1 µs per byte + 0.5 s
	once := func(in []byte, tmoUs int64) (wRes, int64) {
		// the deadline also covers handing the file over (hex in a JSON line), which the measured time does not
		res := c13Worker.Do(ep, map[string]string{"b": hx(in), "cert": cs.S("cert")}, time.Duration(tmoUs)*time.Microsecond+5*time.Second)
		us := res.Us
		if us == 0 {
			us = res.Ms * 1000
		}
		return res, us
	}
	desc := fmt.Sprintf("a %d-byte file (image of %d bytes + %d bytes of trailing data, certificate table of %d entries of %d bytes)", len(whole), len(base), trailing, n, len(winCert(sig)))
	var res wRes
	us, partsUs := int64(-1), int64(-1)
	fail := func(what, matcher string) {
		c.Fail(Failure{Kind: "property", Matcher: matcher, What: ep + " (" + cs.S("class") + "): " + what, Case: cs, Go: fmt.Sprintf("%s alloc=%d us=%d parts_us=%d %s %s", res.Class, res.Alloc, us, partsUs, res.Panic, clip(res.Out))})
	}
	counted := false
	split := cs.I("split") > 0 && len(sig0) > 0
	var imagePart, tablePart []byte
	if split {
		imagePart = c13ManySigs(base, trailing, 1, sig)
		tablePart = c13ManySigs(base, 0, n, sig0)
	}
	var verdict func()
	for try := 0; try < 3; try++ {
		// a file that got no answer after twice its limit is cut off: it has failed the limit whatever comes later
		r, u := once(whole, 2*limitUs)
		if !counted {
			counted = true
			if r.Class == "not-run" {
				c.Class("untrusted/" + ep + "/not-run-after-timeouts")
				return
			}
			c.Count(cs.Key(), true, "untrusted/"+ep+"/"+cs.S("class")+"/"+r.Class)
			c.Sample(cs)
		}
		if r.Class != "ok" && r.Class != "err" {
			res, us = r, u
			switch r.Class {
			case "timeout":
				fail(fmt.Sprintf("did not finish: no answer %d ms after %s was handed over (limit %d ms: time must be proportional to the input size), the worker was killed", r.Ms, desc, limitUs/1000), "c13.time")
			case "panic":
				fail("panicked on "+desc, "c13.panic")
			case "exit":
				fail("terminated the process on "+desc, "c13.exit")
			case "oom":
				fail("ran out of memory on "+desc, "c13.alloc")
			}
			return
		}
		if us < 0 || u < us {
			res, us = r, u
		}
		verdict = nil
		if us > limitUs {
			verdict = func() {
				fail(fmt.Sprintf("took %d µs for %s (limit %d µs: time must be proportional to the input size)", us, desc, limitUs), "c13.time")
			}
		}
		if split && verdict == nil {
			a, au := once(imagePart, 2*limitUs)
			b, bu := once(tablePart, 2*limitUs)
			if (a.Class == "ok" || a.Class == "err") && (b.Class == "ok" || b.Class == "err") {
				if partsUs < 0 || au+bu < partsUs {
					partsUs = au + bu
				}
				if us > 8*partsUs+100000 {
					verdict = func() {
						fail(fmt.Sprintf("took %d µs for %s, but %d µs for its two parts on their own (the image with one entry: %d bytes; the %d entries behind the image without the trailing data: %d bytes): more than 8 x + 0.1 s, the time depends on more than the input size", us, desc, partsUs, len(imagePart), n, len(tablePart)), "c13.time")
					}
				}
			}
		}
		if verdict == nil {
			break
		}
	}
	c.Note(fmt.Sprintf("scale/%s/%s/%d+%d/%d", ep, cs.S("class"), len(base), trailing, n), fmt.Sprintf("%d bytes: %d µs (limit %d µs); parts on their own: %d µs; alloc %d", len(whole), us, limitUs, partsUs, res.Alloc))
	if verdict != nil {
		verdict()
	}
	if res.Alloc > 64*uint64(len(whole))+(14<<20) {
		fail(fmt.Sprintf("allocated %d bytes for %s", res.Alloc, desc), "c13.alloc")
	}
	if want := cs.S("want"); want != "" && !strings.Contains(res.Out, want) {
		// the generator's own files are well-formed and signed: another answer means the timing compares nothing
		c.Fail(Failure{Kind: "property", What: ep + " (" + cs.S("class") + "): " + desc + " signed by the harness was not answered with " + want, Case: cs, Go: res.Class + " " + clip(res.Out)})
	}
}

// spcLinkVariants: the inside of an SpcIndirectDataContent (as authenticode.CreateSpcIndirectDataContent builds it) with
// its SpcPeImageData - the value beside the image digest that says what was signed, a structure every signer fills in
// its own way and that is as attacker-controlled as the rest of the signature - replaced by each form the syntax allows:
//
//	SpcPeImageData ::= SEQUENCE { flags SpcPeImageFlags DEFAULT { includeResources }, file SpcLink }
//	SpcLink        ::= CHOICE   { url [0] IMPLICIT IA5STRING, moniker [1] IMPLICIT SpcSerializedObject, file [2] EXPLICIT SpcString }
//	SpcString      ::= CHOICE   { unicode [0] IMPLICIT BMPSTRING, ascii [1] IMPLICIT IA5STRING }
//
// every alternative with strings of 0, 1, 2, 3, 27, 28, 29 and 300 bytes (a BMPString of odd length is not a string of
// 16-bit characters), the SpcSerializedObject with serialised data of 0..3 bytes and without its fields, an empty and an
// unknown alternative at both levels, the link inside the [0] wrapper signers emit and without it, no link at all, and
// the flags as the library writes them, with unused bits, and left out (rotating over the links).
func spcLinkVariants(spc []byte) (names []string, out [][]byte) {
	roots, ok := parseDER(spc)
	if !ok || len(roots) != 2 || !roots[0].compound || len(roots[0].kids) != 2 || roots[0].kids[1].tag != 0x30 {
		return nil, nil
	}
	text := func(n int) []byte { // the first n bytes of the big-endian UTF-16 text signers put here, repeated
		var t []byte
		for len(t) < n {
			for _, ch := range "<<<Obsolete>>>" {
				t = append(t, 0, byte(ch))
			}
		}
		return t[:n]
	}
	ascii := func(n int) []byte { return bytes.Repeat([]byte("file.efi;"), n/9+1)[:n] }
	prim := func(tag byte, b []byte) *derNode { return &derNode{tag: tag, leaf: b} }
	cons := func(tag byte, kids ...*derNode) *derNode { return &derNode{tag: tag, compound: true, kids: kids} }
	type link struct {
		name string
		n    *derNode // nil: no link
	}
	var links []link
	for _, n := range []int{0, 1, 2, 3, 27, 28, 29, 300} {
		links = append(links, link{fmt.Sprintf("file-unicode-%d", n), cons(0xa2, prim(0x80, text(n)))})
		if n != 2 && n != 28 {
			links = append(links, link{fmt.Sprintf("file-ascii-%d", n), cons(0xa2, prim(0x81, ascii(n)))})
			links = append(links, link{fmt.Sprintf("url-%d", n), prim(0x80, ascii(n))})
		}
	}
	for _, n := range []int{0, 1, 2, 3} {
		links = append(links, link{fmt.Sprintf("moniker-%d", n), cons(0xa1, prim(0x04, bytes.Repeat([]byte{0xa6}, 16)), prim(0x04, text(n)))})
	}
	links = append(links, link{"moniker-empty", cons(0xa1)}, link{"file-empty", cons(0xa2)}, link{"file-unknown-alternative", cons(0xa2, prim(0x82, text(3)))},
		link{"unknown-alternative", prim(0x83, text(3))}, link{"missing", nil})
	flagForms := []*derNode{prim(0x03, []byte{0}), prim(0x03, []byte{5, 0xa0}), nil}
	for i, l := range links {
		for _, wrapped := range []bool{true, false} {
			if !wrapped && (l.n == nil || i%3 != 0) {
				continue
			}
			r0, r1 := roots[0].clone(), roots[1].clone()
			var kids []*derNode
			fl := flagForms[i%len(flagForms)]
			if fl != nil {
				kids = append(kids, fl)
			}
			name := l.name
			switch {
			case l.n == nil:
			case wrapped:
				kids = append(kids, cons(0xa0, l.n))
			default:
				kids = append(kids, l.n)
				name += "/bare"
			}
			r0.kids[1].kids = kids
			names = append(names, fmt.Sprintf("%s/flags%d", name, i%len(flagForms)))
			out = append(out, append(r0.encode(), r1.encode()...))
		}
	}
	return names, out
}

// a section table of nsec headers whose declared sizes add up to nsec x size: when that sum is at or just above a
// multiple of 2^31 / 2^32 it is, in the 32-bit width of the header fields, no more than the file holds
func wrapSectionTables(c *Ctx) (out [][2]int) {
	type st struct{ size, total int64 }
	sts := []st{{1 << 20, 1 << 31}, {1 << 20, 1 << 32}, {1 << 20, 1 << 33}, {256 << 10, 1 << 32}}
	if c.Thorough {
		sts = append(sts, st{128 << 10, 1 << 32}, st{512 << 10, 1 << 33}, st{512 << 10, 1 << 34}, st{1 << 20, 3 << 32}, st{1 << 20, 15 << 32}, st{2 << 20, 1 << 32}, st{64 << 10, 1 << 31})
	}
	for _, x := range sts {
		for _, d := range []int64{-1, 0, 1} {
			if n := x.total/x.size + d; n >= 1 && n <= 65535 {
				out = append(out, [2]int{int(n), int(x.size)})
			}
		}
	}
	return out
}

func c13Gen(c *Ctx) {
	defer func() {
		if c13Worker != nil {
			c13Worker.Close()
			c13Worker = nil
		}
	}()
	k0 := poolKey(c, 2048, 0)
	cert := makeRSACert(k0, certShapes(c)[0])
	emit := func(ep, class string, b []byte) {
		if c.NFailures() < 40 {
			c13Eval(c, Case{"op": "untrusted", "ep": ep, "class": class, "cert": hx(cert.Raw), "b": hx(b)})
		}
	}
	var images [][]byte
	for _, f := range []string{"authenticode/testdata/test.pecoff", "authenticode/testdata/test.pecoff.signed"} {
		if b, err := os.ReadFile(filepath.Join(c.RepoDir, f)); err == nil {
			images = append(images, b)
		}
	}
	// the seed images and blobs are signed by the library in this process (valid inputs)
	var seeds []p7Seed
	type signedImage struct{ img, sig []byte }
	var signedImages []signedImage
	type spcImage struct {
		class    string
		img, sig []byte
	}
	var spcImages []spcImage
	if !c13InProcess(c, "parsing and signing the valid generated images and signature blobs", func() {
		for i := 0; i < c.N(2, 40); i++ {
			s := genPeSpec(c, false)
			s.CertBodies = nil
			img := buildPE(s).img
			if signed, sig, err := signImage(c, img, 0); err == nil {
				images = append(images, signed)
				signedImages = append(signedImages, signedImage{signed, sig})
			} else {
				images = append(images, img)
			}
			if i < c.P(1, 4) {
				// the same image signed over each form of the SpcPeImageData / SpcLink (the library's own PKCS#7 signer
				// over a content built here: signatures that verify), appended to the image's certificate table
				if p, err := authenticode.Parse(bytes.NewReader(img)); err == nil {
					spc, _ := authenticode.CreateSpcIndirectDataContent(p.Hash(crypto.SHA256), crypto.SHA256)
					names, contents := spcLinkVariants(spc)
					for j, content := range contents {
						sig, err := pkcs7.SignPKCS7(k0, cert, authenticode.OIDSpcIndirectDataContent, content)
						if err != nil {
							continue
						}
						if q, err := authenticode.Parse(bytes.NewReader(img)); err == nil && q.AppendSignature(sig) == nil {
							spcImages = append(spcImages, spcImage{names[j], q.Bytes(), sig})
						}
					}
				}
			}
			if i == 0 { // the same image with section headers that declare raw data without a file pointer
				s.NoBits, s.Trailing = []int{64, 1 + c.Rng.Intn(2000)}, 2100
				images = append(images, buildPE(s).img)
			}
		}
		seeds = p7Seeds(c, false)
	}) {
		return
	}
	if c.Thorough {
		if b, err := os.ReadFile(filepath.Join(c.RepoDir, "tests/data/binary/HelloWorld.efi.signed")); err == nil {
			images = append(images, b)
		}
	}
	for _, img := range images {
		emit("pe.all", "valid", img)
		c13ImageMutants(c, img, func(class string, b []byte) { emit("pe.all", class, b) })
	}
	emit("pe.all", "empty", nil)
	emit("pe.all", "mz-only", []byte("MZ"))
	// signatures whose SpcPeImageData / SpcLink takes each form of its syntax: inside the signed image (parsed, listed,
	// hashed, re-serialised, verified with the signer's certificate) and alone (ParsePKCS7, ParseAuthenticode, both Verifys)
	c.Note("spc_link_forms_signed", len(spcImages))
	for _, si := range spcImages {
		emit("pe.all", "spc-link/"+si.class, si.img)
		emit("p7.all", "spc-link/"+si.class, si.sig)
	}
	// what an image entry point does with the signature INSIDE the certificate table: the signed images with
	// their own signature replaced by each derived blob (targeted forgeries: every object identifier - digest
	// algorithm of the SpcIndirectDataContent DigestInfo, of the SignedData, of the signer entry, content types,
	// attribute types, signature algorithm - replaced by each of seven siblings, dropped signed attributes, several
	// signer entries, blobs inside blobs; optional fields with readable and unreadable content; a sample of the
	// generic mutations), verified through PECOFFBinary.Verify with the signer's certificate
	{
		k1 := poolKey(c, 2048, 1)
		shapes := certShapes(c)
		for i, si := range signedImages {
			if i >= c.P(2, 8) {
				break
			}
			sd := p7Seed{name: "image-signature", blob: si.sig, right: cert, twin: makeRSACert(k1, shapes[0]), other: makeRSACert(k1, shapes[1])}
			inTable := func(class string, b []byte) { emit("pe.all", "table-entry/"+class, withTable(si.img, winCert(b))) }
			// the signed image verified with certificates its signature names whose key is not an RSA key
			for _, kind := range []string{"ecdsa", "ed25519"} {
				c13Eval(c, Case{"op": "untrusted", "ep": "pe.all", "class": "valid/named-" + kind + "-cert", "cert": hx(nonRSATwin(cert, kind).Raw), "b": hx(si.img)})
			}
			forgeries(c, sd, inTable)
			p7OptionalFields(c, si.sig, i, c.P(2, 1), false, inTable)
			p7SignerIdentifierForms(si.sig, subjectKeyID(cert), inTable)
			n := 0
			mutateBlob(c, si.sig, func(class string, b []byte) {
				n++
				if c.Thorough || n%5 == 0 {
					inTable(class, b)
				}
			})
		}
	}
	// WIN_CERTIFICATEs (the wrapper of a signature in the certificate table): the entries of the signed
	// images and signature blobs in a fresh wrapper, handed to ReadWinCertificate through every kind of
	// io.Reader, with dwLength swept below, at and far beyond the data that follow the header
	var wcs [][]byte
	for _, img := range images {
		if t := tableOf(img); len(t) >= 8 {
			if dw := int(binary.LittleEndian.Uint32(t)); dw >= 8 && dw <= len(t) {
				wcs = append(wcs, t[:dw])
			}
		}
	}
	for i, sd := range seeds {
		if i%7 == 0 {
			wcs = append(wcs, mkWinCert(uint32(8+len(sd.blob)), 0x0200, 0x0002, sd.blob))
		}
	}
	wcs = append(wcs, mkWinCert(8, 0x0200, 0x0002, nil), mkWinCert(24, 0x0200, 0x0EF1, randBytes(c, 16)))
	if n := c.P(4, 40); len(wcs) > n {
		wcs = append(wcs[:n-2:n-2], wcs[len(wcs)-2:]...)
	}
	for _, wc := range wcs {
		for _, kind := range streamKinds {
			emitWC := func(class string, b []byte) {
				if c.NFailures() < 40 {
					c13Eval(c, Case{"op": "untrusted", "ep": "wincert.all", "class": class, "reader": kind, "cert": "-", "b": hx(b)})
				}
			}
			emitWC("valid", wc)
			emitWC("valid+trailing", append(append([]byte{}, wc...), randBytes(c, 1+c.Rng.Intn(24))...))
			n := uint32(len(wc))
			for _, v := range []uint32{0, 1, 7, 8, 9, n - 1, n, n + 1, n + 8, 2 * n, 1 << 16, 1 << 20, 1 << 24, 1 << 28, 0x7fffffff, 0x80000000, 0x80000008, 0xfffffff8, 0xffffffff} {
				m := putU32(wc, 0, v)
				emitWC("wincert-dwLength", m)
				if len(m) > 24 { // little data behind a header that declares a lot
					emitWC("wincert-dwLength/short-body", m[:8+c.Rng.Intn(17)])
				}
			}
			for cut := 0; cut < len(wc); cut += 1 + len(wc)/12 {
				emitWC("truncated", wc[:cut])
			}
			for _, rev := range []uint16{0, 0x0100, 0x0201, 0xffff} {
				m := append([]byte{}, wc...)
				binary.LittleEndian.PutUint16(m[4:], rev)
				emitWC("wincert-revision", m)
			}
		}
	}
	// many section headers that all name the same large range: the hashed stream is nsec x size
	c13Eval(c, Case{"op": "untrusted", "ep": "pe.all", "class": "many-overlapping-sections", "cert": hx(cert.Raw), "b": "-", "overlap_nsec": int64(c.P(5000, 12000)), "overlap_size": int64(1 << 20)})
	c13Eval(c, Case{"op": "untrusted", "ep": "pe.all", "class": "many-overlapping-sections", "cert": hx(cert.Raw), "b": "-", "overlap_nsec": int64(200), "overlap_size": int64(64 << 10)})
	// ... and section tables whose declared sizes add up to a multiple of 2^31 / 2^32 - one header less, exactly, one more
	// (2048 / 4096 / 8192 x 1 MiB, 16384 x 256 KiB, ...): in the 32-bit width of the header fields such a sum is no
	// more than the file holds. Whatever Parse makes of the table, the work stays proportional to the file
	for _, w := range wrapSectionTables(c) {
		if c.NFailures() < 40 {
			c13Eval(c, Case{"op": "untrusted", "ep": "pe.all", "class": "section-sizes-sum-near-2^31-2^32-multiple", "cert": hx(cert.Raw), "b": "-", "overlap_nsec": int64(w[0]), "overlap_size": int64(w[1])})
		}
	}
	// signatures
	for i, s := range seeds {
		if !c.Thorough && i%3 != 0 {
			continue
		}
		// verify with the certificate the blob's signer entry names (the deepest path), and with a stranger's
		emitP7 := func(class string, b []byte) {
			if c.NFailures() >= 40 {
				return
			}
			if s.right != nil {
				c13Eval(c, Case{"op": "untrusted", "ep": "p7.all", "class": class + "/signer-cert", "cert": hx(s.right.Raw), "b": hx(b)})
			}
			if s.right == nil || c.Rng.Intn(4) == 0 {
				c13Eval(c, Case{"op": "untrusted", "ep": "p7.all", "class": class + "/other-cert", "cert": hx(cert.Raw), "b": hx(b)})
			}
		}
		emitP7("valid", s.blob)
		// ... and with certificates the blob NAMES (issuer and serial number of its signer entry, public information)
		// whose public key is not an RSA key: the caller's trusted certificate may hold any kind of key
		if s.right != nil {
			for _, kind := range []string{"ecdsa", "ed25519"} {
				tw := nonRSATwin(s.right, kind)
				for _, v := range [][2]interface{}{{"valid", s.blob}} {
					c13Eval(c, Case{"op": "untrusted", "ep": "p7.all", "class": v[0].(string) + "/named-" + kind + "-cert", "cert": hx(tw.Raw), "b": hx(v[1].([]byte))})
				}
				n := 0
				forgeries(c, s, func(class string, b []byte) {
					if n++; c.Thorough || n%7 == 0 {
						c13Eval(c, Case{"op": "untrusted", "ep": "p7.all", "class": class + "/named-" + kind + "-cert", "cert": hx(tw.Raw), "b": hx(b)})
					}
				})
			}
		}
		forgeries(c, s, func(class string, b []byte) { emitP7(class, b) })
		// quick: a rotating quarter of the contents per blob (all of them for every ninth), element tails for every ninth
		p7OptionalFields(c, s.blob, i/3, map[bool]int{true: 1, false: c.P(4, 1)}[i%27 == 0], c.Thorough || i%27 == 0, emitP7)
		// every CMSVersion value of the signer entry x every form of its signer identifier (issuer and serial, [0] key identifier, ...)
		p7SignerIdentifierForms(s.blob, subjectKeyID(s.right), emitP7)
		n := 0
		mutateBlob(c, s.blob, func(class string, b []byte) {
			n++
			if c.Thorough || n%5 == 0 {
				emitP7(class, b)
			}
		})
		// oversized / truncated DER lengths at the outermost levels
		for _, l := range [][]byte{{0x84, 0xff, 0xff, 0xff, 0xff}, {0x84, 0x7f, 0xff, 0xff, 0xff}, {0x85, 1, 0, 0, 0, 0}, {0x80}, {0x83, 0xff, 0xff, 0xff}} {
			emit("p7.all", "oversized-length", append(append([]byte{0x30}, l...), s.blob[4:]...))
		}
	}
	emit("p7.all", "empty", nil)
	// size scaling of the image entry points: files of a few MB up to ~24 MB - a generated image and a repository
	// image followed by trailing data, signed once by the harness key, whose certificate table holds that signature
	// n times - parsed, listed, hashed, re-serialised and verified with the signer's certificate (the first entry
	// decides) and with a stranger's (every entry answers "not this certificate", so all n are looked at)
	{
		stranger := makeRSACert(poolKey(c, 2048, 1), certShapes(c)[1])
		type point struct {
			base        []byte
			trailing, n int
		}
		gs := genPeSpec(c, false)
		gs.CertBodies = nil
		gen := buildPE(gs).img
		repo := gen
		if b, err := os.ReadFile(filepath.Join(c.RepoDir, "authenticode/testdata/test.pecoff")); err == nil && len(b) >= 0x100 {
			repo = b
		}
		pts := []point{{gen, 9 << 19, 1000}, {repo, 16 << 20, 5000}}
		if c.Thorough {
			pts = append(pts, point{gen, 1 << 20, 250}, point{repo, 2 << 20, 500}, point{repo, 8 << 20, 2000}, point{gen, 11 << 20, 8000}, point{gen, 20 << 20, 2500})
		}
		t0 := time.Now()
		defer func() { c.Note("scale/wall_s", time.Since(t0).Seconds()) }()
		for i, pt := range pts {
			if !c.Mine(i) || c.NFailures() >= 40 || len(pt.base) < 0x100 {
				continue
			}
			var sig, sig0 []byte
			if !c13InProcess(c, "signing a valid image with trailing data", func() {
				_, sig, _ = signImage(c, c13Padded(pt.base, pt.trailing), 0)
				_, sig0, _ = signImage(c, c13Padded(pt.base, 0), 0)
			}) {
				return
			}
			if len(sig) == 0 || len(sig0) == 0 {
				c.Class("untrusted/pe.all/many-signatures/not-signed")
				continue
			}
			cs := func(class string, crt *x509.Certificate, want string, split int) Case {
				return Case{"op": "untrusted", "ep": "pe.all", "class": "many-signatures/" + class, "cert": hx(crt.Raw), "b": hx(pt.base), "sig": hx(sig), "sig0": hx(sig0),
					"sigs_n": int64(pt.n), "sigs_trailing": int64(pt.trailing), "want": want, "split": int64(split)}
			}
			c13Eval(c, cs("other-cert", stranger, "verify-false-err", 1))
			c13Eval(c, cs("signer-cert", cert, "verify-true-ok", 0))
		}
	}
}

func init() {
	register("C13", &PropDef{
		Rule:   "image entry points (Parse, Signatures, Hash, Bytes, Verify) and signature entry points (ParsePKCS7, ParseAuthenticode, both Verifys) in a sandboxed worker process (address-space limit, per-input timeout, TotalAlloc delta). Images: repository binaries, generated signed images and a generated image with two section headers that declare raw data without a file pointer (PointerToRawData = 0), under sweeps of e_lfanew, SizeOfOptionalHeader, NumberOfSections, NumberOfRvaAndSizes, SizeOfHeaders, section offsets/sizes (incl. overlap, 2^31, 2^32-1), certificate directory address/size beyond the file, WIN_CERTIFICATE dwLength (<8, huge), certificate-table entries of OTHER certificate types (0x0EF1 EFI_GUID, 0x0001 X.509, 0, 0xffff; and type 2 for the added entries) x dwLength in {0,7,8,9,16, table length -8/-1/+0/+1/+8, 2^31-7, 2^31, 2^32-16, 2^32-9 .. 2^32-1 (rounding up to 8 wraps around in 32 bits)}: the first entry of the table retyped, and a 16-byte entry of that type and declared length placed in front of and behind the table's own entries with the directory size to match (quick: every second small length, all the lengths at the top of the range), the file cut by 1..17 bytes (and down to 1, 8, 9 bytes of table) with the directory size lowered to match (a table that ends inside the padding of its last entry or inside the entry), every ~2% truncation point, random header bytes; the section sweeps cover the first three and the last section header (raw data at / beyond the end of the file included). Signatures inside the certificate table: two signed generated images with their own signature replaced by each derived blob - the targeted forgeries (every object identifier outside the certificates, among them the digest algorithm of the SpcIndirectDataContent DigestInfo, replaced by each of seven siblings (SHA-1/384/512, ...) alone and with a content change; dropped signed attributes; several signer entries; blobs nested inside blobs), the optional fields below, and a fifth of the generic mutations - parsed, listed, hashed (SHA-256 and SHA-1/384/512), re-serialised and verified through PECOFFBinary.Verify with the certificate of the signer. WIN_CERTIFICATEs (certificate-table entries of the signed images, signature blobs in a fresh wrapper, an empty and a GUID-typed one) are read by ReadWinCertificate through 8 kinds of io.Reader (bytes.Reader, bytes.Buffer, bufio.Reader, io.SectionReader, an open os.File, io.Pipe, a reader with no method but Read, a one-byte reader) with dwLength in {0,1,7,8,9,n-1,n,n+1,n+8,2n,2^16,2^20,2^24,2^28,2^31-1,2^31,2^32-8,2^32-1} over the full body and over 0..16 bytes of body, truncations and wrong revisions; the same time/memory oracle, and the decoded fields are compared with the Lean model of the reader for every kind. Signatures: library/fixture/CMS-shaped blobs under bit flips, per-leaf flips, structural DER edits, targeted forgeries (incl. dropped signed attributes, two-signer-entry combinations, and blobs nested inside blobs: unsigned attributes, certificates, CRLs, content, signer entries, trailing fields), oversized and truncated lengths; the OPTIONAL fields of the syntax that the library never writes (unauthenticatedAttributes [1] at the end of every signer entry, crls [1]) holding nothing / a well-formed attribute / ill-shaped readable elements / 200 empty attributes / bytes that are no DER element at all (truncated element, lone zero byte, lone tag, length beyond the input, indefinite and non-minimal length, high tag number, readable then truncated; alone and behind a well-formed attribute) - quick: a rotating quarter of these contents per blob, all of them for every ninth blob; and the same unreadable bytes behind the last child of every constructed element outside the certificates (every ninth blob; thorough: every blob, inside the certificates too); every signer entry's version field set to each CMSVersion value 0..5 crossed with each form of its signer identifier (issuerAndSerialNumber as it is, the [0] subjectKeyIdentifier alternative of RFC 5652 5.3 holding the key identifier of the verifying certificate or nothing, the same tag in constructed form, no identifier at all) - for the signature blobs and, inside the certificate table of the signed images, through PECOFFBinary.Verify; each verified with the certificate its signer entry names and, for a quarter, with a stranger's. VERIFYING CERTIFICATES WITH OTHER KEY KINDS: every valid signature blob and a seventh of its targeted forgeries (thorough: all), and the signed generated images through PECOFFBinary.Verify, are also verified with certificates that the signature NAMES - the issuer name and serial number of its signer entry - whose public key is an ECDSA P-256 or an Ed25519 key (the trusted certificate is the caller's and may hold any kind of key; the name and serial are public): an error or false, never a panic. Section tables whose declared sizes add up to a multiple of 2^31 / 2^32, with one header less, exactly, and one more (2047..2049, 4095..4097 and 8191..8193 headers naming the same 1 MiB of a file of 1 MiB plus headers, 16383..16385 x 256 KiB; thorough also 128 KiB, 512 KiB and 2 MiB ranges and 3 x and 15 x 2^32), built from their description: the sum is, in the 32-bit width of the header fields, no more than the file holds, and the time / memory oracle applies as to every input (Parse rejects, or the hashed stream stays proportional to the file). The SpcPeImageData of the signature (flags, SpcLink): one generated image [thorough: four] signed - by the library's own PKCS#7 signer, over a content built in the harness with the image's digest, so that the signature verifies - once for each form of the SpcLink: file/unicode (BMPString) of 0, 1, 2, 3, 27, 28, 29, 300 bytes, file/ascii and url of 0, 1, 3, 27, 29, 300 bytes, moniker with 0..3 bytes of serialised data and without its fields, an empty file alternative, unknown alternatives at both levels, no link at all, inside the [0] wrapper signers emit and (every third) without it, with the flags as the library writes them / with unused bits / left out; each signed image goes through the image entry points with the signer's certificate and each signature alone through ParsePKCS7, ParseAuthenticode and both Verifys. Size scaling of the image entry points (class many-signatures, built from a description: the case holds the small image, the signature and two numbers): a generated image followed by 4.5 MiB of trailing data whose certificate table holds the harness key's signature 1000 times (6 MB) and the repository image test.pecoff followed by 16 MiB with 5000 entries (23 MB) [thorough: also 1 MiB / 250, 2 MiB / 500, 8 MiB / 2000, 11 MiB / 8000, 20 MiB / 2500 entries], each entry padded to 8, directory size to match, the table the tail of the file - parsed, listed, hashed, re-serialised and verified with the signer's certificate (the first entry decides; the answer must be true) and with a stranger's (every entry answers \"not this certificate\", all n are looked at; the answer must be \"no valid signature\"): the absolute limits, cut off after twice the time limit (reported as \"did not finish\", matcher c13.time), and for the stranger's certificate a relative one that does not depend on the machine: the file may take at most 8 x the time of its two parts on their own (the same image with ONE entry + the same n entries behind the image without the trailing data, signed by the same key) + 0.1 s, best of 3 runs - work proportional to the input is additive over that split, the image hashed once per entry (F38) is their product. Non-trivial: non-empty input; distinct = distinct inputs.",
		Assume: []string{"allocation budget 64 bytes per input byte + 4 MiB; time limit 0.5 s + 1 µs per input byte; an input that got no answer after ten times its limit (at least 5 s) is reported as hanging and the worker is killed; after 3 such inputs the rest of the run is not executed (class not-run-after-timeouts)", "the large files with many signatures: the same limits, no answer after twice the time limit (+ 5 s for handing the file over) = did not finish; whole file <= 8 x (image with one entry + all entries behind the short image) + 0.1 s, best of 3", "wall-clock time and resident memory are runtime facts measured on the sampled inputs only"},
		Eval:   c13Eval, Gen: c13Gen,
	})
}
