package main

import (
	"bytes"
	"crypto"
	"crypto/sha256"
	"fmt"
	"io"
	"math/rand"
	"os"
	"os/exec"
	"path/filepath"
	"strings"
	"sync"
	"time"

	"github.com/foxboron/go-uefi/authenticode"
	"github.com/foxboron/go-uefi/efi/signature"
	"github.com/foxboron/go-uefi/efivar"
)

// one read-only call on one of the three shared objects; the result is reduced to a short digest
type pureObjs struct {
	img    *authenticode.PECOFFBinary
	db     *signature.SignatureDatabase
	upd    efivar.Marshallable
	cert   [2][]byte // DER of two certificates: signer, stranger
	auth   *signature.EFIVariableAuthentication2
	lists  []*signature.SignatureList
	owners [][]byte
	data   [][]byte
}

var pureMethods = []string{"img.Hash", "img.Bytes", "img.Open", "img.Signatures", "img.Verify0", "img.Verify1",
	"db.Bytes", "db.Marshal", "db.BytesExists0", "db.BytesExists1", "db.BytesExistsX509", "db.SigDataExists", "db.Exists", "upd.Marshal", "upd.Bytes",
	"auth.Marshal", "auth.Verify0", "auth.Verify1"}

func h8(b []byte) string { s := sha256.Sum256(b); return hx(s[:8]) }

func (o *pureObjs) call(m string) string {
	switch m {
	case "img.Hash":
		return h8(o.img.Hash(crypto.SHA256))
	case "img.Bytes":
		return h8(o.img.Bytes())
	case "img.Open":
		b, _ := io.ReadAll(o.img.Open())
		return h8(b)
	case "img.Signatures":
		s, err := o.img.Signatures()
		out := fmt.Sprint(len(s), err == nil)
		for _, w := range s {
			out += h8(w.Certificate)
		}
		return out
	case "img.Verify0", "img.Verify1":
		c := mustCert(o.cert[int(m[len(m)-1]-'0')])
		ok, err := o.img.Verify(c)
		return fmt.Sprint(ok, err == nil)
	case "db.Bytes":
		return h8(o.db.Bytes())
	case "db.Marshal":
		var b bytes.Buffer
		o.db.Marshal(&b)
		return h8(b.Bytes())
	case "db.BytesExists0":
		return fmt.Sprint(o.db.BytesExists(signature.CERT_SHA256_GUID, guidFromWire(o.owners[0]), o.data[0]))
	case "db.BytesExists1":
		return fmt.Sprint(o.db.BytesExists(signature.CERT_SHA256_GUID, guidFromWire(o.owners[1]), o.data[2]))
	case "db.SigDataExists":
		return fmt.Sprint(o.db.SigDataExists(signature.CERT_SHA256_GUID, &signature.SignatureData{Owner: guidFromWire(o.owners[0]), Data: o.data[0]}))
	case "db.Exists":
		return fmt.Sprint(o.db.Exists(signature.CERT_SHA256_GUID, o.lists[0]))
	case "db.BytesExistsX509": // a query for the type of a list that is not the first one
		return fmt.Sprint(o.db.BytesExists(signature.CERT_X509_GUID, guidFromWire(o.owners[0]), o.cert[0]))
	case "auth.Marshal": // the decoded authentication descriptor of the signed update
		var b bytes.Buffer
		o.auth.Marshal(&b)
		return h8(b.Bytes())
	case "auth.Verify0", "auth.Verify1":
		c := mustCert(o.cert[int(m[len(m)-1]-'0')])
		ok, err := o.auth.Verify(c)
		return fmt.Sprint(ok, err == nil)
	case "upd.Marshal":
		var b bytes.Buffer
		o.upd.Marshal(&b)
		return h8(b.Bytes())
	case "upd.Bytes":
		return h8(o.upd.Bytes())
	}
	return "?"
}

func init() {
	// build the shared objects, run a sequential order and then a concurrent schedule; report the results
	workerOps["pure.run"] = func(a map[string]string) (string, string) {
		seed := int64(atoi(a["seed"]))
		rng := rand.New(rand.NewSource(seed))
		key := poolKeyDir(a["verif"], 2048, 0)
		cert := makeRSACert(key, certShapes(nil)[0])
		stranger := makeRSACert(poolKeyDir(a["verif"], 2048, 1), certShapes(nil)[1])
		o := &pureObjs{cert: [2][]byte{cert.Raw, stranger.Raw}}
		p, err := authenticode.Parse(bytes.NewReader(unhx(a["img"])))
		if err != nil {
			return "err", "parse"
		}
		if _, err := p.Sign(key, cert); err != nil {
			return "err", "sign"
		}
		if a["reparse"] == "1" {
			p, _ = authenticode.Parse(bytes.NewReader(p.Bytes()))
		}
		o.img = p
		o.owners = [][]byte{bytes.Repeat([]byte{0x11}, 16), bytes.Repeat([]byte{0x22}, 16)}
		o.data = [][]byte{bytes.Repeat([]byte{0xaa}, 32), bytes.Repeat([]byte{0xbb}, 32), bytes.Repeat([]byte{0xcc}, 32)}
		db := signature.NewSignatureDatabase()
		db.Append(signature.CERT_SHA256_GUID, guidFromWire(o.owners[0]), o.data[0])
		db.Append(signature.CERT_SHA256_GUID, guidFromWire(o.owners[1]), o.data[1])
		db.Append(signature.CERT_X509_GUID, guidFromWire(o.owners[0]), cert.Raw)
		if a["decoded"] == "1" {
			d, _ := signature.ReadSignatureDatabase(bytes.NewReader(db.Bytes()))
			db = &d
		}
		o.db = db
		sl := signature.NewSignatureList(signature.CERT_SHA256_GUID)
		sl.AppendBytes(guidFromWire(o.owners[0]), o.data[0])
		o.lists = []*signature.SignatureList{sl}
		_, upd, err := signature.SignEFIVariable(efivar.Db, db, key, cert)
		if err != nil {
			return "err", "signvar"
		}
		o.upd = upd
		if o.auth, err = signature.ReadEFIVariableAuthencation2(bytes.NewReader(upd.Bytes())); err != nil {
			return "err", "read descriptor"
		}
		// reference results: first call of each method on the fresh objects
		ref := map[string]string{}
		var diffs []string
		for _, m := range pureMethods {
			ref[m] = o.call(m)
		}
		// sequential repetition in a random order
		nseq := atoi(a["nseq"])
		for i := 0; i < nseq; i++ {
			m := pureMethods[rng.Intn(len(pureMethods))]
			if got := o.call(m); got != ref[m] {
				diffs = append(diffs, fmt.Sprintf("seq#%d %s: %s != first result %s", i, m, got, ref[m]))
			}
		}
		// concurrent: g goroutines x n calls on the same objects
		g, n := atoi(a["goroutines"]), atoi(a["ncalls"])
		var wg sync.WaitGroup
		var mu sync.Mutex
		for t := 0; t < g; t++ {
			wg.Add(1)
			r := rand.New(rand.NewSource(seed*1000 + int64(t)))
			go func(t int) {
				defer wg.Done()
				for i := 0; i < n; i++ {
					m := pureMethods[r.Intn(len(pureMethods))]
					if got := o.call(m); got != ref[m] {
						mu.Lock()
						diffs = append(diffs, fmt.Sprintf("goroutine %d call %d %s: %s != first result %s", t, i, m, got, ref[m]))
						mu.Unlock()
					}
				}
			}(t)
		}
		wg.Wait()
		// and once more sequentially afterwards: nothing was consumed
		for _, m := range pureMethods {
			if got := o.call(m); got != ref[m] {
				diffs = append(diffs, fmt.Sprintf("after %s: %s != first result %s", m, got, ref[m]))
			}
		}
		refs := []string{}
		for _, m := range pureMethods {
			refs = append(refs, m+"="+ref[m])
		}
		if len(diffs) > 0 {
			return "ok", "DIFF " + strings.Join(diffs[:min(len(diffs), 5)], " ; ")
		}
		return "ok", "same " + strings.Join(refs, ",")
	}
}

// the worker for C19 is the race-detector build of this binary
func c19Worker(c *Ctx) *Worker {
	race := filepath.Join(c.VerifDir, ".build", "vcheck-race")
	if _, err := os.Stat(race); err != nil {
		c.Note("race_build", "missing: falling back to the plain build (no data-race detection)")
		return c.NewWorker(8 << 20)
	}
	w := &Worker{c: c, env: []string{"GORACE=halt_on_error=1 exitcode=66"}, memKB: 0}
	w.startCmd = func() *exec.Cmd { return exec.Command(race, "worker") }
	w.start()
	c.Note("race_build", "go build -race")
	return w
}

func c19Eval(c *Ctx, cs Case) {
	w := c19Worker(c)
	defer w.Close()
	var img []byte
	if cs.S("path") != "" {
		img, _ = os.ReadFile(filepath.Join(c.RepoDir, cs.S("path")))
	} else {
		s := specOfCase(cs)
		s.CertBodies = nil
		img = buildPE(s).img
	}
	res := w.Do("pure.run", map[string]string{"verif": c.VerifDir, "img": hx(img), "seed": fmt.Sprint(cs.I("seed2")), "nseq": fmt.Sprint(cs.I("nseq")),
		"goroutines": fmt.Sprint(cs.I("goroutines")), "ncalls": fmt.Sprint(cs.I("ncalls")), "reparse": fmt.Sprint(cs.I("reparse")), "decoded": fmt.Sprint(cs.I("decoded"))}, 120*time.Second)
	c.Count(cs.Key(), true, fmt.Sprintf("pure/g%d/%s", cs.I("goroutines"), res.Class))
	c.Sample(Case{"goroutines": cs.I("goroutines"), "ncalls": cs.I("ncalls"), "nseq": cs.I("nseq"), "result": clip(res.Out)})
	fail := func(what string) {
		c.Fail(Failure{Kind: "property", What: what, Case: cs, Go: clip(res.Class + " " + res.Out + " " + w.stderr.String())})
	}
	st := w.stderr.String()
	switch {
	case strings.Contains(st, "DATA RACE") || res.Class == "exit" && strings.Contains(res.Out, "DATA RACE"):
		fail("the race detector reported a data race between read-only operations")
	case res.Class != "ok":
		fail("the run did not complete: " + res.Class)
	case strings.HasPrefix(res.Out, "DIFF"):
		fail("a repeated or concurrent read-only call returned a different result than the first call")
	default:
		c.Trace()
		// correspondence with the Lean model: the model's methods are functions of the object, so the
		// single reference value per method is all there is to compare; Hash and Bytes are tied in C01/C03
	}
}

func c19Gen(c *Ctx) {
	for i := 0; i < c.N(6, 200) && c.NFailures() < 4; i++ {
		s := genPeSpec(c, i%5 == 4)
		cs := specCase(s)
		cs["op"] = "pure"
		cs["seed2"] = int64(c.Rng.Intn(1 << 30))
		cs["nseq"] = int64(40)
		cs["goroutines"] = int64([]int{2, 4, 8, 16}[i%4])
		cs["ncalls"] = int64(map[bool]int{false: 25, true: 100}[c.Thorough])
		cs["reparse"] = int64(i % 2)
		cs["decoded"] = int64((i / 2) % 2)
		c19Eval(c, cs)
	}
	c19Eval(c, Case{"op": "pure", "path": "authenticode/testdata/test.pecoff", "seed2": int64(7), "nseq": int64(40), "goroutines": int64(8), "ncalls": int64(map[bool]int{false: 25, true: 100}[c.Thorough]), "reparse": int64(0), "decoded": int64(1)})
}

func init() {
	register("C19", &PropDef{
		Rule:   "for each of several signed images (generated layouts and a repository binary; parsed-and-signed in place or re-parsed from bytes), a database (built or decoded) and a signed-update value: the 18 read-only methods (image: Hash, Bytes, Open, Signatures, Verify x2; database: Bytes, Marshal, BytesExists x3 incl. a type whose list is not the first, SigDataExists, Exists; signed update: Marshal, Bytes; its decoded descriptor: Marshal, Verify x2) are called once for reference, then 40 times sequentially in random order, then from 2/4/8/16 goroutines (25..100 random calls each) on the SAME objects, then once more each; every result must equal the first. The worker is the -race build, so any data race aborts the run. Every case is non-trivial; distinct = distinct (image, schedule seed, goroutine count).",
		Assume: []string{"data-race freedom under the Go memory model is a runtime fact: the race detector observes the schedules that happen to occur in the sampled runs"},
		Eval:   c19Eval, Gen: c19Gen,
	})
}
