package main

import (
	"bytes"
	"crypto"
	"crypto/sha256"
	"fmt"
	"io"
	"math/rand"
	"os"
	"os/exec"
	"path/filepath"
	"strings"
	"sync"
	"time"

	"github.com/foxboron/go-uefi/authenticode"
	"github.com/foxboron/go-uefi/efi/signature"
	"github.com/foxboron/go-uefi/efivar"
)

// one read-only call on one of the three shared objects; the result is reduced to a short digest
type pureObjs struct {
	img    *authenticode.PECOFFBinary
	db     *signature.SignatureDatabase
	upd    efivar.Marshallable
	cert   [2][]byte // DER of two certificates: signer, stranger
	auth   *signature.EFIVariableAuthentication2
	lists  []*signature.SignatureList
	owners [][]byte
	data   [][]byte
	last   [2][]byte         // owner and data of the last entry of the database's SHA-256 list
	keep   map[string][]byte // while non-nil: the byte slices returned by the first calls are kept here
}

// held remembers the slice a byte-returning method handed out (first call only, reference phase only)
func (o *pureObjs) held(m string, b []byte) []byte {
	if o.keep != nil {
		if _, ok := o.keep[m]; !ok {
			o.keep[m] = b
		}
	}
	return b
}

var pureMethods = []string{"img.Hash", "img.Bytes", "img.Open", "img.Signatures", "img.Verify0", "img.Verify1",
	"db.Bytes", "db.Marshal", "db.BytesExists0", "db.BytesExists1", "db.BytesExistsX509", "db.BytesExistsLast", "db.SigDataExists", "db.Exists", "upd.Marshal", "upd.Bytes",
	"auth.Marshal", "auth.Verify0", "auth.Verify1"}

func h8(b []byte) string { s := sha256.Sum256(b); return hx(s[:8]) }

func (o *pureObjs) call(m string) string {
	switch m {
	case "img.Hash":
		return h8(o.held(m, o.img.Hash(crypto.SHA256)))
	case "img.Bytes":
		return h8(o.held(m, o.img.Bytes()))
	case "img.Open":
		b, _ := io.ReadAll(o.img.Open())
		return h8(b)
	case "img.Signatures":
		s, err := o.img.Signatures()
		out := fmt.Sprint(len(s), err == nil)
		for _, w := range s {
			out += h8(w.Certificate)
		}
		return out
	case "img.Verify0", "img.Verify1":
		c := mustCert(o.cert[int(m[len(m)-1]-'0')])
		ok, err := o.img.Verify(c)
		return fmt.Sprint(ok, err == nil)
	case "db.Bytes":
		return h8(o.held(m, o.db.Bytes()))
	case "db.Marshal":
		var b bytes.Buffer
		o.db.Marshal(&b)
		return h8(o.held(m, b.Bytes()))
	case "db.BytesExistsLast": // the entry at the end of the (possibly long) SHA-256 list
		return fmt.Sprint(o.db.BytesExists(signature.CERT_SHA256_GUID, guidFromWire(o.last[0]), o.last[1]))
	case "db.BytesExists0":
		return fmt.Sprint(o.db.BytesExists(signature.CERT_SHA256_GUID, guidFromWire(o.owners[0]), o.data[0]))
	case "db.BytesExists1":
		return fmt.Sprint(o.db.BytesExists(signature.CERT_SHA256_GUID, guidFromWire(o.owners[1]), o.data[2]))
	case "db.SigDataExists":
		return fmt.Sprint(o.db.SigDataExists(signature.CERT_SHA256_GUID, &signature.SignatureData{Owner: guidFromWire(o.owners[0]), Data: o.data[0]}))
	case "db.Exists":
		return fmt.Sprint(o.db.Exists(signature.CERT_SHA256_GUID, o.lists[0]))
	case "db.BytesExistsX509": // a query for the type of a list that is not the first one
		return fmt.Sprint(o.db.BytesExists(signature.CERT_X509_GUID, guidFromWire(o.owners[0]), o.cert[0]))
	case "auth.Marshal": // the decoded authentication descriptor of the signed update
		var b bytes.Buffer
		o.auth.Marshal(&b)
		return h8(b.Bytes())
	case "auth.Verify0", "auth.Verify1":
		c := mustCert(o.cert[int(m[len(m)-1]-'0')])
		ok, err := o.auth.Verify(c)
		return fmt.Sprint(ok, err == nil)
	case "upd.Marshal":
		var b bytes.Buffer
		o.upd.Marshal(&b)
		return h8(b.Bytes())
	case "upd.Bytes":
		return h8(o.held(m, o.upd.Bytes()))
	}
	return "?"
}

func init() {
	// build the shared objects, run a sequential order and then a concurrent schedule; report the results
	workerOps["pure.run"] = func(a map[string]string) (string, string) {
		seed := int64(atoi(a["seed"]))
		rng := rand.New(rand.NewSource(seed))
		key := poolKeyDir(a["verif"], 2048, 0)
		cert := makeRSACert(key, certShapes(nil)[0])
		stranger := makeRSACert(poolKeyDir(a["verif"], 2048, 1), certShapes(nil)[1])
		o := &pureObjs{cert: [2][]byte{cert.Raw, stranger.Raw}}
		p, err := authenticode.Parse(bytes.NewReader(unhx(a["img"])))
		if err != nil {
			return "err", "parse"
		}
		if _, err := p.Sign(key, cert); err != nil {
			return "err", "sign"
		}
		if a["reparse"] == "1" {
			p, _ = authenticode.Parse(bytes.NewReader(p.Bytes()))
		}
		o.img = p
		o.owners = [][]byte{bytes.Repeat([]byte{0x11}, 16), bytes.Repeat([]byte{0x22}, 16)}
		o.data = [][]byte{bytes.Repeat([]byte{0xaa}, 32), bytes.Repeat([]byte{0xbb}, 32), bytes.Repeat([]byte{0xcc}, 32)}
		// the SHA-256 list: two fixed entries and `dbentries` more hashes in no particular order (a
		// revocation list holds hundreds in the order they were enrolled), then a certificate list
		sha := [][2][]byte{{o.owners[0], o.data[0]}, {o.owners[1], o.data[1]}}
		for i, n := 0, atoi(a["dbentries"]); i < n; i++ {
			h := make([]byte, 32)
			rng.Read(h)
			sha = append(sha, [2][]byte{o.owners[i%2], h})
		}
		if n := len(sha); n > 3 && bytes.Compare(sha[n-2][1], sha[n-1][1]) < 0 { // never ascending by accident
			sha[n-2], sha[n-1] = sha[n-1], sha[n-2]
		}
		o.last = sha[len(sha)-1]
		db := signature.NewSignatureDatabase()
		if a["decoded"] == "1" {
			// decoded from a stream that was encoded independently of the library
			wire := append(encodeList(tSHA256, nil, 48, sha), encodeList(tX509, nil, len(cert.Raw)+16, [][2][]byte{{o.owners[0], cert.Raw}})...)
			d, err := signature.ReadSignatureDatabase(bytes.NewReader(wire))
			if err != nil {
				return "err", "read database"
			}
			db = &d
		} else {
			for _, e := range sha {
				db.Append(signature.CERT_SHA256_GUID, guidFromWire(e[0]), e[1])
			}
			db.Append(signature.CERT_X509_GUID, guidFromWire(o.owners[0]), cert.Raw)
		}
		o.db = db
		sl := signature.NewSignatureList(signature.CERT_SHA256_GUID)
		sl.AppendBytes(guidFromWire(o.owners[0]), o.data[0])
		o.lists = []*signature.SignatureList{sl}
		_, upd, err := signature.SignEFIVariable(efivar.Db, db, key, cert)
		if err != nil {
			return "err", "signvar"
		}
		o.upd = upd
		if o.auth, err = signature.ReadEFIVariableAuthencation2(bytes.NewReader(upd.Bytes())); err != nil {
			return "err", "read descriptor"
		}
		// reference results: first call of each method on the fresh objects
		ref := map[string]string{}
		var diffs []string
		o.keep = map[string][]byte{}
		for _, m := range pureMethods {
			ref[m] = o.call(m)
		}
		kept := o.keep
		o.keep = nil
		// sequential repetition in a random order
		nseq := atoi(a["nseq"])
		for i := 0; i < nseq; i++ {
			m := pureMethods[rng.Intn(len(pureMethods))]
			if got := o.call(m); got != ref[m] {
				diffs = append(diffs, fmt.Sprintf("seq#%d %s: %s != first result %s", i, m, got, ref[m]))
			}
		}
		// concurrent: g goroutines x n calls on the same objects
		g, n := atoi(a["goroutines"]), atoi(a["ncalls"])
		var wg sync.WaitGroup
		var mu sync.Mutex
		for t := 0; t < g; t++ {
			wg.Add(1)
			r := rand.New(rand.NewSource(seed*1000 + int64(t)))
			go func(t int) {
				defer wg.Done()
				for i := 0; i < n; i++ {
					m := pureMethods[r.Intn(len(pureMethods))]
					if got := o.call(m); got != ref[m] {
						mu.Lock()
						diffs = append(diffs, fmt.Sprintf("goroutine %d call %d %s: %s != first result %s", t, i, m, got, ref[m]))
						mu.Unlock()
					}
				}
			}(t)
		}
		wg.Wait()
		// deterministic interleavings on FRESHLY parsed copies of the signed image (the free-running goroutines above
		// meet the objects after every method has been called once, and overlap where the machine's timing puts
		// them): the image is parsed through a caller-supplied io.ReaderAt that makes the goroutines take turns at
		// read granularity (sched.go), so the first call ever made on the object is parked in the middle - inside
		// its first read, or a later one - while another goroutine's call runs on the same object. Every ordered
		// pair of the image's methods, under three kinds of schedule; and triples. Each call must return what the
		// same call returns alone on a copy parsed from the same bytes.
		if nsched := atoi(a["nsched"]); nsched > 0 {
			signedBytes := append([]byte{}, o.img.Bytes()...)
			imgMethods := []string{"img.Hash", "img.Bytes", "img.Open", "img.Signatures", "img.Verify0", "img.Verify1"}
			withImg := func(q *authenticode.PECOFFBinary) *pureObjs { o2 := *o; o2.img, o2.keep = q, nil; return &o2 }
			alone := map[string]string{}
			if q, err := authenticode.Parse(bytes.NewReader(signedBytes)); err != nil {
				diffs = append(diffs, "the signed image does not re-parse: "+err.Error())
				nsched = 0
			} else {
				// "alone": the call as the first and only call on a copy of its own; the same copy `q`, asked for
				// everything in turn, must give the same answers (no method changes what a later one sees)
				for _, m := range imgMethods {
					q1, err := authenticode.Parse(bytes.NewReader(signedBytes))
					if err != nil {
						diffs = append(diffs, "the signed image does not re-parse: "+err.Error())
						continue
					}
					alone[m] = withImg(q1).call(m)
				}
				for _, m := range imgMethods {
					if g := withImg(q).call(m); g != alone[m] {
						diffs = append(diffs, fmt.Sprintf("order: %s on a parsed image that other read-only methods have been called on before: %s != %s as the first call on a fresh copy", m, g, alone[m]))
					}
				}
			}
			sch := newTurnSched()
			round := 0
			runRound := func(quanta []int, ms ...string) {
				if round++; round > nsched || len(diffs) >= 5 {
					return
				}
				q, err := authenticode.Parse(turnReader{bytes.NewReader(signedBytes), sch})
				if err != nil {
					diffs = append(diffs, "the signed image does not re-parse: "+err.Error())
					return
				}
				o2 := withImg(q)
				got := make([]string, len(ms))
				calls := make([]func(), len(ms))
				for i := range ms {
					i := i
					calls[i] = func() {
						if pan, msg := safely(func() { got[i] = o2.call(ms[i]) }); pan {
							got[i] = "panic: " + msg
						}
					}
				}
				_, free := sch.run(quanta, calls...)
				for i, m := range ms {
					if got[i] != alone[m] {
						diffs = append(diffs, fmt.Sprintf("scheduled: on a freshly parsed image the calls %v overlap (turns of %v reads, abandoned=%v); goroutine %d %s: %s != the result of the call alone %s", ms, quanta, free, i, m, got[i], alone[m]))
					}
				}
				for _, m := range imgMethods { // and the object answers as before afterwards
					if g := o2.call(m); g != alone[m] {
						diffs = append(diffs, fmt.Sprintf("scheduled: after the overlapping calls %v (turns of %v reads) %s: %s != %s", ms, quanta, m, g, alone[m]))
					}
				}
			}
			for _, m1 := range imgMethods {
				for _, m2 := range imgMethods {
					runRound([]int{0}, m1, m2)          // a hand-over at every read
					runRound([]int{0, 1 << 20}, m1, m2) // the first call is held in its first read until the second has returned
					runRound([]int{rng.Intn(3), rng.Intn(4), rng.Intn(4), rng.Intn(4), rng.Intn(4)}, m1, m2)
				}
			}
			for i := 0; i < 12; i++ {
				runRound([]int{rng.Intn(2), rng.Intn(3), rng.Intn(3), rng.Intn(4)}, imgMethods[rng.Intn(6)], imgMethods[rng.Intn(6)], imgMethods[rng.Intn(6)])
			}
		}
		// what a call hands to its caller - a returned slice, a destination buffer it has written to - is the
		// caller's from then on: the caller overwrites it, resets and reuses the buffer, appends to it. The object
		// must answer as before, and two destinations must not share memory.
		if a["own"] == "1" {
			scribble := func(b []byte) {
				for i := range b {
					b[i] ^= 0x5a
				}
			}
			own := func(what string, b []byte, ms ...string) {
				scribble(b)
				for _, m := range ms {
					if got := o.call(m); got != ref[m] {
						diffs = append(diffs, fmt.Sprintf("owned: after the caller overwrote the %d bytes returned by %s, %s: %s != first result %s", len(b), what, m, got, ref[m]))
					}
				}
			}
			own("img.Hash", o.img.Hash(crypto.SHA256), "img.Hash", "img.Verify0")
			own("img.Bytes", o.img.Bytes(), "img.Bytes", "img.Open", "img.Hash", "img.Signatures", "img.Verify0")
			if ws, err := o.img.Signatures(); err == nil {
				for _, w := range ws {
					scribble(w.Certificate)
				}
				own("img.Signatures (the certificate data of every entry)", nil, "img.Signatures", "img.Bytes", "img.Verify0")
			}
			own("db.Bytes", o.db.Bytes(), "db.Bytes", "db.Marshal", "db.BytesExists0", "db.BytesExistsX509", "db.BytesExistsLast")
			own("upd.Bytes", o.upd.Bytes(), "upd.Bytes", "upd.Marshal")
			type marshal struct {
				name string
				f    func(*bytes.Buffer)
			}
			for _, mf := range []marshal{{"upd.Marshal", o.upd.Marshal}, {"db.Marshal", o.db.Marshal}, {"auth.Marshal", o.auth.Marshal}} {
				note := func(what string, got, want []byte) {
					if !bytes.Equal(got, want) {
						diffs = append(diffs, fmt.Sprintf("owned: %s %s: %s (%d bytes) != %s (%d bytes)", mf.name, what, h8(got), len(got), h8(want), len(want)))
					}
				}
				var d bytes.Buffer
				mf.f(&d) // into an EMPTY destination
				first := append([]byte{}, d.Bytes()...)
				if h8(first) != ref[mf.name] {
					diffs = append(diffs, fmt.Sprintf("owned: %s into an empty destination: %s != first result %s", mf.name, h8(first), ref[mf.name]))
				}
				// the destination is recycled for something else
				d.Reset()
				d.Write(bytes.Repeat([]byte{0xC3}, len(first)))
				d.Write(bytes.Repeat([]byte{0x3C}, 64))
				var e bytes.Buffer
				mf.f(&e)
				note("after the destination of an earlier call was reset and reused", e.Bytes(), first)
				// behind existing content
				var g bytes.Buffer
				g.WriteString("hdr")
				mf.f(&g)
				note("into a destination that already holds 3 bytes", g.Bytes(), append([]byte("hdr"), first...))
				// two destinations, each extended by its owner
				var x, y bytes.Buffer
				mf.f(&x)
				mf.f(&y)
				x.WriteString("AAAAAAAA")
				y.WriteString("BBBBBBBB")
				note("first of two destinations, each extended by its owner afterwards", x.Bytes(), append(append([]byte{}, first...), "AAAAAAAA"...))
				note("second of two destinations, each extended by its owner afterwards", y.Bytes(), append(append([]byte{}, first...), "BBBBBBBB"...))
				// a destination's bytes are overwritten in place
				scribble(x.Bytes())
				scribble(y.Bytes())
				var z bytes.Buffer
				mf.f(&z)
				note("after the caller overwrote the bytes of earlier destinations", z.Bytes(), first)
			}
		}
		// and once more sequentially afterwards: nothing was consumed
		for _, m := range pureMethods {
			if got := o.call(m); got != ref[m] {
				diffs = append(diffs, fmt.Sprintf("after %s: %s != first result %s", m, got, ref[m]))
			}
		}
		// the byte slices the first calls returned are still held by the caller: all the later calls
		// must not have changed them (a result must not share memory with the object or later results)
		for _, m := range pureMethods {
			if b, ok := kept[m]; ok && h8(b) != ref[m] {
				diffs = append(diffs, fmt.Sprintf("held %s: the slice returned by the first call now reads %s, it was %s", m, h8(b), ref[m]))
			}
		}
		refs := []string{}
		for _, m := range pureMethods {
			refs = append(refs, m+"="+ref[m])
		}
		if len(diffs) > 0 {
			return "ok", "DIFF " + strings.Join(diffs[:min(len(diffs), 5)], " ; ")
		}
		return "ok", "same " + strings.Join(refs, ",")
	}
}

// the worker for C19 is the race-detector build of this binary
func c19Worker(c *Ctx) *Worker {
	race := filepath.Join(c.VerifDir, ".build", "vcheck-race")
	if _, err := os.Stat(race); err != nil {
		c.Note("race_build", "missing: falling back to the plain build (no data-race detection)")
		return c.NewWorker(8 << 20)
	}
	w := &Worker{c: c, env: []string{"GORACE=halt_on_error=1 exitcode=66"}, memKB: 0}
	w.startCmd = func() *exec.Cmd { return exec.Command(race, "worker") }
	w.start()
	c.Note("race_build", "go build -race")
	return w
}

func c19Eval(c *Ctx, cs Case) {
	w := c19Worker(c)
	defer w.Close()
	var img []byte
	if cs.S("path") != "" {
		img, _ = os.ReadFile(filepath.Join(c.RepoDir, cs.S("path")))
	} else {
		s := specOfCase(cs)
		s.CertBodies = nil
		img = buildPE(s).img
	}
	res := w.Do("pure.run", map[string]string{"verif": c.VerifDir, "img": hx(img), "seed": fmt.Sprint(cs.I("seed2")), "nseq": fmt.Sprint(cs.I("nseq")),
		"goroutines": fmt.Sprint(cs.I("goroutines")), "ncalls": fmt.Sprint(cs.I("ncalls")), "reparse": fmt.Sprint(cs.I("reparse")), "decoded": fmt.Sprint(cs.I("decoded")), "dbentries": fmt.Sprint(cs.I("dbentries")), "nsched": fmt.Sprint(cs.I("nsched")), "own": fmt.Sprint(cs.I("own"))}, 120*time.Second)
	c.Count(cs.Key(), true, fmt.Sprintf("pure/g%d/db%d/%s", cs.I("goroutines"), 2+cs.I("dbentries"), res.Class))
	c.Sample(Case{"goroutines": cs.I("goroutines"), "ncalls": cs.I("ncalls"), "nseq": cs.I("nseq"), "result": clip(res.Out)})
	fail := func(what string) {
		c.Fail(Failure{Kind: "property", What: what, Case: cs, Go: clip(res.Class + " " + res.Out + " " + w.stderr.String())})
	}
	st := w.stderr.String()
	switch {
	case strings.Contains(st, "DATA RACE") || res.Class == "exit" && strings.Contains(res.Out, "DATA RACE"):
		fail("the race detector reported a data race between read-only operations")
	case res.Class != "ok":
		fail("the run did not complete: " + res.Class)
	case strings.HasPrefix(res.Out, "DIFF"):
		fail("a repeated or concurrent read-only call returned a different result than the first call")
	default:
		c.Trace()
		// correspondence with the Lean model: the model's methods are functions of the object, so the
		// single reference value per method is all there is to compare; Hash and Bytes are tied in C01/C03
	}
}

func c19Gen(c *Ctx) {
	for i := 0; i < c.N(6, 200) && c.NFailures() < 4; i++ {
		s := genPeSpec(c, i%5 == 4)
		cs := specCase(s)
		cs["op"] = "pure"
		cs["seed2"] = int64(c.Rng.Intn(1 << 30))
		cs["nseq"] = int64(40)
		cs["goroutines"] = int64([]int{2, 4, 8, 16}[i%4])
		cs["ncalls"] = int64(map[bool]int{false: 25, true: 100}[c.Thorough])
		cs["reparse"] = int64(i % 2)
		cs["decoded"] = int64((i / 2) % 2)
		cs["dbentries"] = int64([]int{0, 62, 300, 63, 1000, 126}[i%6]) // SHA-256 list of 2, 64, 302, 65, 1002, 128 entries
		cs["nsched"] = int64(c.P(120, 120))                            // scheduled rounds on freshly parsed copies: 36 pairs x 3 kinds + 12 triples
		cs["own"] = int64(1)
		c19Eval(c, cs)
	}
	c19Eval(c, Case{"op": "pure", "path": "authenticode/testdata/test.pecoff", "seed2": int64(7), "nseq": int64(40), "goroutines": int64(8), "ncalls": int64(map[bool]int{false: 25, true: 100}[c.Thorough]), "reparse": int64(0), "decoded": int64(1), "dbentries": int64(198), "nsched": int64(120), "own": int64(1)})
}

func init() {
	register("C19", &PropDef{
		Rule:   "for each of several signed images (generated layouts and a repository binary; parsed-and-signed in place or re-parsed from bytes), a database (built through Append, or decoded from an independently encoded stream; its SHA-256 list holds 2, 64, 65, 128, 200, 302 or 1002 hashes in no particular order, followed by a certificate list) and a signed-update value: the 19 read-only methods (image: Hash, Bytes, Open, Signatures, Verify x2; database: Bytes, Marshal - both BEFORE any query -, BytesExists x4 incl. a type whose list is not the first and the last entry of the long list, SigDataExists, Exists; signed update: Marshal, Bytes; its decoded descriptor: Marshal, Verify x2) are called once for reference, then 40 times sequentially in random order, then from 2/4/8/16 goroutines (25..100 random calls each) on the SAME objects; then, on FRESHLY parsed copies of the signed image (one copy per round, so that the overlapping calls are the first ever made on the object), every ordered pair of the six image methods and 12 random triples are run by two / three goroutines under a deterministic interleaving: the copy is parsed through a caller-supplied io.ReaderAt that makes the goroutines take turns at read granularity (sched.go) - a hand-over at every read; the first call held inside its first read until the second has returned; random turns of 0..3 reads - and every call, and every method once more after the round, must return what the call returns alone on a copy parsed from the same bytes (120 rounds per image); then the caller treats what it was handed as its own: it overwrites the slices returned by Hash, Bytes (image, database, signed update) and the certificate data of the entries listed by Signatures, and for each Marshal (signed update, database, descriptor) it marshals into an empty buffer, resets that buffer and reuses it for other data, marshals behind 3 bytes already in the destination, marshals into two buffers and lets each owner append 8 bytes of its own, and overwrites those destinations in place - after each of which the methods of the object must answer as at first, each destination must hold exactly (its old content,) the first encoding (and its owner's trailer); then every method once more; every result must equal the first, and the byte slices returned by the first Hash / Bytes / Marshal calls, held throughout, must still read the same at the end. The worker is the -race build, so any data race aborts the run. Every case is non-trivial; distinct = distinct (image, schedule seed, goroutine count).",
		Assume: []string{"data-race freedom under the Go memory model is a runtime fact: the race detector observes the schedules that happen to occur in the sampled runs"},
		Eval:   c19Eval, Gen: c19Gen,
	})
}
