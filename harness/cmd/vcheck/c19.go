package main

import (
	"bytes"
	"crypto"
	"crypto/sha256"
	"encoding/binary"
	"fmt"
	"io"
	"math/rand"
	"os"
	"os/exec"
	"path/filepath"
	"strings"
	"sync"
	"time"

	"github.com/foxboron/go-uefi/authenticode"
	"github.com/foxboron/go-uefi/efi/signature"
	"github.com/foxboron/go-uefi/efivar"
)

// one read-only call on one of the three shared objects; the result is reduced to a short digest
type pureObjs struct {
	img    *authenticode.PECOFFBinary
	db     *signature.SignatureDatabase
	upd    efivar.Marshallable
	cert   [2][]byte // DER of two certificates: signer, stranger
	auth   *signature.EFIVariableAuthentication2
	lists  []*signature.SignatureList
	owners [][]byte
	data   [][]byte
	last   [2][]byte                  // owner and data of the last entry of the database's SHA-256 list
	raw    []byte                     // the bytes the image was parsed from (nil: signed in place)
	dbobjs []*signature.SignatureList // the list objects of the database, in order, as the caller put them there
	keep   map[string][]byte          // while non-nil: the byte slices returned by the first calls are kept here
	pem    []byte                     // PEM text of the stranger's certificate: the bytes of the database's PEM-shaped X.509 entries (when it has any)
	authT  [2]*signature.EFIVariableAuthentication2 // the descriptor of the signed update decoded behind an all-zero and an all-ones timestamp
}

// held remembers the slice a byte-returning method handed out (first call only, reference phase only)
func (o *pureObjs) held(m string, b []byte) []byte {
	if o.keep != nil {
		if _, ok := o.keep[m]; !ok {
			o.keep[m] = b
		}
	}
	return b
}

// img.Datadir and db.Lists are no calls: the caller reads what the object exposes - the exported directory entry of the
// parsed image; the length of the database, the identity of the list objects it holds and every field of every list
// (sigdb.go, goDbStr) - which no read-only method may change. Their reference values are taken BEFORE the first call.
var pureMethods = []string{"img.Datadir", "db.Lists", "img.Hash", "img.Bytes", "img.Open", "img.Signatures", "img.Verify0", "img.Verify1",
	"db.Bytes", "db.Marshal", "db.BytesExists0", "db.BytesExists1", "db.BytesExistsX509", "db.BytesExistsLast", "db.SigDataExists", "db.Exists", "db.BytesExistsPEM", "db.ExistsPEM", "upd.Marshal", "upd.Bytes",
	"auth.Marshal", "auth.Verify0", "auth.Verify1", "authZeroTime.Marshal", "authOnesTime.Marshal"}

func h8(b []byte) string { s := sha256.Sum256(b); return hx(s[:8]) }

func (o *pureObjs) call(m string) string {
	switch m {
	case "img.Datadir":
		return fmt.Sprintf("%d+%d", o.img.Datadir.VirtualAddress, o.img.Datadir.Size)
	case "db.Lists":
		same := len(*o.db) == len(o.dbobjs)
		for i := 0; same && i < len(o.dbobjs); i++ {
			same = (*o.db)[i] == o.dbobjs[i]
		}
		return fmt.Sprintf("%d lists, the caller's list objects in the caller's order: %v, fields %s", len(*o.db), same, h8([]byte(goDbStr(*o.db))))
	case "img.Hash":
		return h8(o.held(m, o.img.Hash(crypto.SHA256)))
	case "img.Bytes":
		return h8(o.held(m, o.img.Bytes()))
	case "img.Open":
		b, _ := io.ReadAll(o.img.Open())
		return h8(b)
	case "img.Signatures":
		s, err := o.img.Signatures()
		out := fmt.Sprint(len(s), err == nil)
		for _, w := range s {
			out += h8(w.Certificate)
		}
		return out
	case "img.Verify0", "img.Verify1":
		c := mustCert(o.cert[int(m[len(m)-1]-'0')])
		ok, err := o.img.Verify(c)
		return fmt.Sprint(ok, err == nil)
	case "db.Bytes":
		return h8(o.held(m, o.db.Bytes()))
	case "db.Marshal":
		var b bytes.Buffer
		o.db.Marshal(&b)
		return h8(o.held(m, b.Bytes()))
	case "db.BytesExistsLast": // the entry at the end of the (possibly long) SHA-256 list
		return fmt.Sprint(o.db.BytesExists(signature.CERT_SHA256_GUID, guidFromWire(o.last[0]), o.last[1]))
	case "db.BytesExists0":
		return fmt.Sprint(o.db.BytesExists(signature.CERT_SHA256_GUID, guidFromWire(o.owners[0]), o.data[0]))
	case "db.BytesExists1":
		return fmt.Sprint(o.db.BytesExists(signature.CERT_SHA256_GUID, guidFromWire(o.owners[1]), o.data[2]))
	case "db.SigDataExists":
		return fmt.Sprint(o.db.SigDataExists(signature.CERT_SHA256_GUID, &signature.SignatureData{Owner: guidFromWire(o.owners[0]), Data: o.data[0]}))
	case "db.Exists":
		return fmt.Sprint(o.db.Exists(signature.CERT_SHA256_GUID, o.lists[0]))
	case "db.BytesExistsPEM": // the X.509 entry whose stored bytes are PEM text, asked for by exactly these bytes (false when the database holds none)
		return fmt.Sprint(o.db.BytesExists(signature.CERT_X509_GUID, guidFromWire(o.owners[1]), o.pem))
	case "db.ExistsPEM": // the same through the list-valued query, the queried list filled in by hand with the stored bytes
		return fmt.Sprint(o.db.Exists(signature.CERT_X509_GUID, o.lists[1]))
	case "authZeroTime.Marshal", "authOnesTime.Marshal":
		var b bytes.Buffer
		o.authT[map[byte]int{'Z': 0, 'O': 1}[m[4]]].Marshal(&b)
		return h8(b.Bytes())
	case "db.BytesExistsX509": // a query for the type of a list that is not the first one
		return fmt.Sprint(o.db.BytesExists(signature.CERT_X509_GUID, guidFromWire(o.owners[0]), o.cert[0]))
	case "auth.Marshal": // the decoded authentication descriptor of the signed update
		var b bytes.Buffer
		o.auth.Marshal(&b)
		return h8(b.Bytes())
	case "auth.Verify0", "auth.Verify1":
		c := mustCert(o.cert[int(m[len(m)-1]-'0')])
		ok, err := o.auth.Verify(c)
		return fmt.Sprint(ok, err == nil)
	case "upd.Marshal":
		var b bytes.Buffer
		o.upd.Marshal(&b)
		return h8(b.Bytes())
	case "upd.Bytes":
		return h8(o.held(m, o.upd.Bytes()))
	}
	return "?"
}

func init() {
	// build the shared objects, run a sequential order and then a concurrent schedule; report the results
	workerOps["pure.run"] = func(a map[string]string) (string, string) {
		seed := int64(atoi(a["seed"]))
		rng := rand.New(rand.NewSource(seed))
		key := poolKeyDir(a["verif"], 2048, 0)
		cert := makeRSACert(key, certShapes(nil)[0])
		stranger := makeRSACert(poolKeyDir(a["verif"], 2048, 1), certShapes(nil)[1])
		o := &pureObjs{cert: [2][]byte{cert.Raw, stranger.Raw}}
		p, err := authenticode.Parse(bytes.NewReader(unhx(a["img"])))
		if err != nil {
			return "err", "parse"
		}
		if _, err := p.Sign(key, cert); err != nil {
			return "err", "sign"
		}
		switch a["reparse"] {
		case "1":
			o.raw = append([]byte{}, p.Bytes()...)
			p, _ = authenticode.Parse(bytes.NewReader(o.raw))
		case "2":
			// re-parsed from bytes whose certificate table ends WITHOUT the alignment padding behind its last entry
			// (unpadCertTable). The entry written by Sign must have a length that is no multiple of 8 for that: the
			// signer is the first of the certificate shapes for which it is.
			shapes := certShapes(nil)
			for si := 0; ; si++ {
				if raw, ok := unpadCertTable(p.Bytes()); ok {
					o.raw = raw
					break
				}
				if si+1 >= len(shapes) {
					return "err", "no signer certificate gives a WIN_CERTIFICATE whose length is not a multiple of 8"
				}
				cert = makeRSACert(key, shapes[si+1])
				o.cert[0] = cert.Raw
				if p, err = authenticode.Parse(bytes.NewReader(unhx(a["img"]))); err != nil {
					return "err", "parse"
				}
				if _, err := p.Sign(key, cert); err != nil {
					return "err", "sign"
				}
			}
			if p, err = authenticode.Parse(bytes.NewReader(o.raw)); err != nil {
				return "err", "parse of the signed image without the padding behind its last certificate: " + err.Error()
			}
		}
		o.img = p
		o.owners = [][]byte{bytes.Repeat([]byte{0x11}, 16), bytes.Repeat([]byte{0x22}, 16)}
		o.data = [][]byte{bytes.Repeat([]byte{0xaa}, 32), bytes.Repeat([]byte{0xbb}, 32), bytes.Repeat([]byte{0xcc}, 32)}
		// the SHA-256 list: two fixed entries and `dbentries` more hashes in no particular order (a
		// revocation list holds hundreds in the order they were enrolled), then a certificate list
		sha := [][2][]byte{{o.owners[0], o.data[0]}, {o.owners[1], o.data[1]}}
		for i, n := 0, atoi(a["dbentries"]); i < n; i++ {
			h := make([]byte, 32)
			rng.Read(h)
			sha = append(sha, [2][]byte{o.owners[i%2], h})
		}
		if n := len(sha); n > 3 && bytes.Compare(sha[n-2][1], sha[n-1][1]) < 0 { // never ascending by accident
			sha[n-2], sha[n-1] = sha[n-1], sha[n-2]
		}
		o.last = sha[len(sha)-1]
		db := signature.NewSignatureDatabase()
		if a["decoded"] == "1" {
			// decoded from a stream that was encoded independently of the library
			wire := append(encodeList(tSHA256, nil, 48, sha), encodeList(tX509, nil, len(cert.Raw)+16, [][2][]byte{{o.owners[0], cert.Raw}})...)
			d, err := signature.ReadSignatureDatabase(bytes.NewReader(wire))
			if err != nil {
				return "err", "read database"
			}
			db = &d
		} else {
			for _, e := range sha {
				db.Append(signature.CERT_SHA256_GUID, guidFromWire(e[0]), e[1])
			}
			db.Append(signature.CERT_X509_GUID, guidFromWire(o.owners[0]), cert.Raw)
		}
		// a database may hold X.509 entries whose bytes are PEM TEXT: Append / AppendBytes store DER, but the decoder
		// takes the entry bytes as they are (an .esl made from a .pem file) and so does AppendList of a list the
		// caller filled in by hand. One such entry, or two of one size under different owners, in a list of their
		// own behind the others - part of the decoded stream, or handed over with AppendList.
		o.pem = pemOf(stranger.Raw)
		if n := atoi(a["dbpem"]); n > 0 {
			es := [][2][]byte{{o.owners[1], o.pem}}
			if n > 1 {
				es = append(es, [2][]byte{o.owners[0], o.pem})
			}
			if a["decoded"] == "1" {
				d, err := signature.ReadSignatureDatabase(bytes.NewReader(append(db.Bytes(), encodeList(tX509, nil, len(o.pem)+16, es)...)))
				if err != nil {
					return "err", "read database with PEM-shaped entries"
				}
				db = &d
			} else {
				hand := &signature.SignatureList{SignatureType: signature.CERT_X509_GUID, ListSize: uint32(28 + len(es)*(len(o.pem)+16)), Size: uint32(len(o.pem) + 16), SignatureHeader: []byte{}}
				for _, e := range es {
					hand.Signatures = append(hand.Signatures, signature.SignatureData{Owner: guidFromWire(e[0]), Data: append([]byte{}, e[1]...)})
				}
				db.AppendList(hand)
			}
		}
		// a database may hold a list WITHOUT signatures: one the caller emptied in place through its own pointer to
		// the list (SignatureList.RemoveBytes / RemoveSignature take the entry out, the database keeps the list), or
		// a new, still empty list the caller added with AppendList. The lists are put together with AppendList: the
		// extra list in front of, between or behind the others.
		if kind := atoi(a["dbempty"]); kind > 0 {
			typ, d := signature.CERT_SHA256_GUID, make([]byte, 32)
			switch rng.Intn(3) {
			case 1:
				typ, d = signature.CERT_SHA1_GUID, make([]byte, 20)
			case 2:
				typ, d = signature.CERT_X509_GUID, append([]byte{}, stranger.Raw...)
			}
			if len(d) <= 32 {
				rng.Read(d)
			}
			extra := signature.NewSignatureList(typ)
			if kind == 1 {
				if err := extra.AppendBytes(guidFromWire(o.owners[1]), d); err != nil {
					return "err", "append to the extra list"
				}
			}
			at := []int{0, (len(*db) + 1) / 2, len(*db)}[atoi(a["dbemptypos"])%3]
			all := signature.NewSignatureDatabase()
			for i, l := range *db {
				if i == at {
					all.AppendList(extra)
				}
				all.AppendList(l)
			}
			if at >= len(*db) {
				all.AppendList(extra)
			}
			if kind == 1 {
				if rng.Intn(2) == 0 {
					err = extra.RemoveBytes(guidFromWire(o.owners[1]), d)
				} else {
					err = extra.RemoveSignature(signature.SignatureData{Owner: guidFromWire(o.owners[1]), Data: d})
				}
				if err != nil || len(extra.Signatures) != 0 {
					return "err", "emptying the extra list"
				}
			}
			db = all
		}
		o.db = db
		o.dbobjs = append([]*signature.SignatureList{}, *db...)
		sl := signature.NewSignatureList(signature.CERT_SHA256_GUID)
		sl.AppendBytes(guidFromWire(o.owners[0]), o.data[0])
		o.lists = []*signature.SignatureList{sl, {SignatureType: signature.CERT_X509_GUID, ListSize: uint32(28 + len(o.pem) + 16), Size: uint32(len(o.pem) + 16), SignatureHeader: []byte{},
			Signatures: []signature.SignatureData{{Owner: guidFromWire(o.owners[1]), Data: append([]byte{}, o.pem...)}}}}
		// reference results: the first call of each method on the fresh objects; what the objects expose (img.Datadir,
		// db.Lists) before any call
		ref := map[string]string{}
		var diffs []string
		// the database's encoders are the first calls ever made on it, each followed by a look at the database; the
		// signed update is made from it afterwards (SignEFIVariable serialises the value it is given)
		// (the membership queries for the PEM-shaped entry are asked before the first encoding and after it)
		for _, m := range []string{"db.Lists", "db.BytesExistsPEM", "db.ExistsPEM", "db.Bytes", "db.Lists", "db.BytesExistsPEM", "db.Marshal", "db.Lists", "db.ExistsPEM", "db.Bytes", "db.Marshal"} {
			got := o.call(m)
			if want, ok := ref[m]; !ok {
				ref[m] = got
			} else if got != want {
				diffs = append(diffs, fmt.Sprintf("fresh database, after its first encodings %s: %s != first result %s", m, got, want))
				break
			}
		}
		if _, both := ref["db.Marshal"]; both && ref["db.Bytes"] != ref["db.Marshal"] {
			diffs = append(diffs, fmt.Sprintf("fresh database: Bytes() returns %s, Marshal() writes %s", ref["db.Bytes"], ref["db.Marshal"]))
		}
		desc, upd, err := signature.SignEFIVariable(efivar.Db, db, key, cert)
		if err != nil {
			return "err", "signvar"
		}
		if got := o.call("db.Lists"); got != ref["db.Lists"] {
			diffs = append(diffs, fmt.Sprintf("after SignEFIVariable serialised the database db.Lists: %s != before %s", got, ref["db.Lists"]))
		}
		o.upd = upd
		if o.auth, err = signature.ReadEFIVariableAuthencation2(bytes.NewReader(upd.Bytes())); err != nil {
			return "err", "read descriptor"
		}
		// the same descriptor behind other timestamps - all-zero (a blob made without one, a value built as a literal)
		// and all-ones: a value like any other, whose encoding is a function of the value
		for k, fill := range []byte{0x00, 0xFF} {
			blob := append(bytes.Repeat([]byte{fill}, 16), upd.Bytes()[16:]...)
			if o.authT[k], err = signature.ReadEFIVariableAuthencation2(bytes.NewReader(blob)); err != nil {
				return "err", "read descriptor behind a constant timestamp"
			}
		}
		o.keep = map[string][]byte{}
		for _, m := range pureMethods {
			got := o.call(m)
			if want, ok := ref[m]; !ok {
				ref[m] = got
			} else if got != want {
				diffs = append(diffs, fmt.Sprintf("reference round %s: %s != first result %s", m, got, want))
			}
		}
		kept := o.keep
		o.keep = nil
		// sequential repetition in a random order
		nseq := atoi(a["nseq"])
		for i := 0; i < nseq; i++ {
			m := pureMethods[rng.Intn(len(pureMethods))]
			if got := o.call(m); got != ref[m] {
				diffs = append(diffs, fmt.Sprintf("seq#%d %s: %s != first result %s", i, m, got, ref[m]))
			}
		}
		// concurrent: g goroutines x n calls on the same objects
		g, n := atoi(a["goroutines"]), atoi(a["ncalls"])
		var wg sync.WaitGroup
		var mu sync.Mutex
		for t := 0; t < g; t++ {
			wg.Add(1)
			r := rand.New(rand.NewSource(seed*1000 + int64(t)))
			go func(t int) {
				defer wg.Done()
				for i := 0; i < n; i++ {
					m := pureMethods[r.Intn(len(pureMethods))]
					if got := o.call(m); got != ref[m] {
						mu.Lock()
						diffs = append(diffs, fmt.Sprintf("goroutine %d call %d %s: %s != first result %s", t, i, m, got, ref[m]))
						mu.Unlock()
					}
				}
			}(t)
		}
		wg.Wait()
		// deterministic interleavings on FRESHLY parsed copies of the signed image (the free-running goroutines above
		// meet the objects after every method has been called once, and overlap where the machine's timing puts
		// them): the image is parsed through a caller-supplied io.ReaderAt that makes the goroutines take turns at
		// read granularity (sched.go), so the first call ever made on the object is parked in the middle - inside
		// its first read, or a later one - while another goroutine's call runs on the same object. Every ordered
		// pair of the image's methods, under three kinds of schedule; and triples. Each call must return what the
		// same call returns alone on a copy parsed from the same bytes.
		if nsched := atoi(a["nsched"]); nsched > 0 {
			signedBytes := append([]byte{}, o.img.Bytes()...)
			if o.raw != nil {
				signedBytes = o.raw // the input the image was parsed from
			}
			imgMethods := []string{"img.Hash", "img.Bytes", "img.Open", "img.Signatures", "img.Verify0", "img.Verify1"}
			withImg := func(q *authenticode.PECOFFBinary) *pureObjs { o2 := *o; o2.img, o2.keep = q, nil; return &o2 }
			alone := map[string]string{}
			if q, err := authenticode.Parse(bytes.NewReader(signedBytes)); err != nil {
				diffs = append(diffs, "the signed image does not re-parse: "+err.Error())
				nsched = 0
			} else {
				// "alone": the call as the first and only call on a copy of its own; the same copy `q`, asked for
				// everything in turn, must give the same answers (no method changes what a later one sees)
				for _, m := range imgMethods {
					q1, err := authenticode.Parse(bytes.NewReader(signedBytes))
					if err != nil {
						diffs = append(diffs, "the signed image does not re-parse: "+err.Error())
						continue
					}
					alone[m] = withImg(q1).call(m)
				}
				for _, m := range imgMethods {
					if g := withImg(q).call(m); g != alone[m] {
						diffs = append(diffs, fmt.Sprintf("order: %s on a parsed image that other read-only methods have been called on before: %s != %s as the first call on a fresh copy", m, g, alone[m]))
					}
				}
			}
			sch := newTurnSched()
			round := 0
			runRound := func(quanta []int, ms ...string) {
				if round++; round > nsched || len(diffs) >= 5 {
					return
				}
				q, err := authenticode.Parse(turnReader{bytes.NewReader(signedBytes), sch})
				if err != nil {
					diffs = append(diffs, "the signed image does not re-parse: "+err.Error())
					return
				}
				o2 := withImg(q)
				got := make([]string, len(ms))
				calls := make([]func(), len(ms))
				for i := range ms {
					i := i
					calls[i] = func() {
						if pan, msg := safely(func() { got[i] = o2.call(ms[i]) }); pan {
							got[i] = "panic: " + msg
						}
					}
				}
				_, free := sch.run(quanta, calls...)
				for i, m := range ms {
					if got[i] != alone[m] {
						diffs = append(diffs, fmt.Sprintf("scheduled: on a freshly parsed image the calls %v overlap (turns of %v reads, abandoned=%v); goroutine %d %s: %s != the result of the call alone %s", ms, quanta, free, i, m, got[i], alone[m]))
					}
				}
				for _, m := range imgMethods { // and the object answers as before afterwards
					if g := o2.call(m); g != alone[m] {
						diffs = append(diffs, fmt.Sprintf("scheduled: after the overlapping calls %v (turns of %v reads) %s: %s != %s", ms, quanta, m, g, alone[m]))
					}
				}
			}
			for _, m1 := range imgMethods {
				for _, m2 := range imgMethods {
					runRound([]int{0}, m1, m2)          // a hand-over at every read
					runRound([]int{0, 1 << 20}, m1, m2) // the first call is held in its first read until the second has returned
					runRound([]int{rng.Intn(3), rng.Intn(4), rng.Intn(4), rng.Intn(4), rng.Intn(4)}, m1, m2)
				}
			}
			for i := 0; i < 12; i++ {
				runRound([]int{rng.Intn(2), rng.Intn(3), rng.Intn(3), rng.Intn(4)}, imgMethods[rng.Intn(6)], imgMethods[rng.Intn(6)], imgMethods[rng.Intn(6)])
			}
		}
		// what a call hands to its caller - a returned slice, a destination buffer it has written to - is the
		// caller's from then on: the caller overwrites it, resets and reuses the buffer, appends to it. The object
		// must answer as before, and two destinations must not share memory.
		if a["own"] == "1" {
			scribble := func(b []byte) {
				for i := range b {
					b[i] ^= 0x5a
				}
			}
			own := func(what string, b []byte, ms ...string) {
				scribble(b)
				for _, m := range ms {
					if got := o.call(m); got != ref[m] {
						diffs = append(diffs, fmt.Sprintf("owned: after the caller overwrote the %d bytes returned by %s, %s: %s != first result %s", len(b), what, m, got, ref[m]))
					}
				}
			}
			own("img.Hash", o.img.Hash(crypto.SHA256), "img.Hash", "img.Verify0")
			own("img.Bytes", o.img.Bytes(), "img.Bytes", "img.Open", "img.Hash", "img.Signatures", "img.Verify0")
			if ws, err := o.img.Signatures(); err == nil {
				for _, w := range ws {
					scribble(w.Certificate)
				}
				own("img.Signatures (the certificate data of every entry)", nil, "img.Signatures", "img.Bytes", "img.Verify0")
			}
			own("db.Bytes", o.db.Bytes(), "db.Bytes", "db.Marshal", "db.BytesExists0", "db.BytesExistsX509", "db.BytesExistsLast")
			own("upd.Bytes", o.upd.Bytes(), "upd.Bytes", "upd.Marshal")
			type marshal struct {
				name string
				f    func(*bytes.Buffer)
			}
			for _, mf := range []marshal{{"upd.Marshal", o.upd.Marshal}, {"db.Marshal", o.db.Marshal}, {"auth.Marshal", o.auth.Marshal}} {
				note := func(what string, got, want []byte) {
					if !bytes.Equal(got, want) {
						diffs = append(diffs, fmt.Sprintf("owned: %s %s: %s (%d bytes) != %s (%d bytes)", mf.name, what, h8(got), len(got), h8(want), len(want)))
					}
				}
				var d bytes.Buffer
				mf.f(&d) // into an EMPTY destination
				first := append([]byte{}, d.Bytes()...)
				if h8(first) != ref[mf.name] {
					diffs = append(diffs, fmt.Sprintf("owned: %s into an empty destination: %s != first result %s", mf.name, h8(first), ref[mf.name]))
				}
				// the destination is recycled for something else
				d.Reset()
				d.Write(bytes.Repeat([]byte{0xC3}, len(first)))
				d.Write(bytes.Repeat([]byte{0x3C}, 64))
				var e bytes.Buffer
				mf.f(&e)
				note("after the destination of an earlier call was reset and reused", e.Bytes(), first)
				// behind existing content
				var g bytes.Buffer
				g.WriteString("hdr")
				mf.f(&g)
				note("into a destination that already holds 3 bytes", g.Bytes(), append([]byte("hdr"), first...))
				// two destinations, each extended by its owner
				var x, y bytes.Buffer
				mf.f(&x)
				mf.f(&y)
				x.WriteString("AAAAAAAA")
				y.WriteString("BBBBBBBB")
				note("first of two destinations, each extended by its owner afterwards", x.Bytes(), append(append([]byte{}, first...), "AAAAAAAA"...))
				note("second of two destinations, each extended by its owner afterwards", y.Bytes(), append(append([]byte{}, first...), "BBBBBBBB"...))
				// a destination's bytes are overwritten in place
				scribble(x.Bytes())
				scribble(y.Bytes())
				var z bytes.Buffer
				mf.f(&z)
				note("after the caller overwrote the bytes of earlier destinations", z.Bytes(), first)
			}
		}
		// and once more sequentially afterwards: nothing was consumed - and, when the case says so, after a pause: the
		// result of a read-only call on an unchanged value is the same whenever the call is made
		if ms := atoi(a["pause"]); ms > 0 {
			time.Sleep(time.Duration(ms) * time.Millisecond)
		}
		for _, m := range pureMethods {
			if got := o.call(m); got != ref[m] {
				diffs = append(diffs, fmt.Sprintf("after %s: %s != first result %s", m, got, ref[m]))
			}
		}
		// the byte slices the first calls returned are still held by the caller: all the later calls
		// must not have changed them (a result must not share memory with the object or later results)
		for _, m := range pureMethods {
			if b, ok := kept[m]; ok && h8(b) != ref[m] {
				diffs = append(diffs, fmt.Sprintf("held %s: the slice returned by the first call now reads %s, it was %s", m, h8(b), ref[m]))
			}
		}
		// two parses of the same input serialise identically, whatever read-only calls one of them has answered
		if o.raw != nil {
			if q, err := authenticode.Parse(bytes.NewReader(o.raw)); err != nil {
				diffs = append(diffs, "the input of the image does not parse a second time: "+err.Error())
			} else {
				if got := h8(q.Bytes()); got != h8(o.img.Bytes()) || got != ref["img.Bytes"] {
					diffs = append(diffs, fmt.Sprintf("second parse: Bytes() of a fresh parse of the same input is %s; of the image that answered the read-only calls it is %s now and was %s at first", got, h8(o.img.Bytes()), ref["img.Bytes"]))
				}
				if q.Datadir != o.img.Datadir {
					diffs = append(diffs, fmt.Sprintf("second parse: Datadir of a fresh parse of the same input is %+v; of the image that answered the read-only calls %+v", q.Datadir, o.img.Datadir))
				}
			}
		}
		// THE CALLER GOES ON (last of all: the database is changed here).  The signed-update value is one value; Marshal
		// and Bytes on it return identical results "every time", i.e. for as long as the caller holds it - also after the
		// caller went on with the OTHER things it holds: the descriptor struct that SignEFIVariable returned next to the
		// value (inspected, re-stamped, reused as the receiver of an Unmarshal) and the database object it had signed
		// (the next hash appended, an entry removed, the next update signed from the same object).  None of these is a
		// call on the signed-update value.
		if g := atoi(a["goeson"]); g > 0 {
			var fb bytes.Buffer
			o.upd.Marshal(&fb)
			first := append([]byte{}, o.upd.Bytes()...)
			if !bytes.Equal(fb.Bytes(), first) || h8(first) != ref["upd.Bytes"] {
				diffs = append(diffs, fmt.Sprintf("before the caller goes on: upd.Bytes %s, upd.Marshal %s, first result %s", h8(first), h8(fb.Bytes()), ref["upd.Bytes"]))
			}
			steps := []struct {
				what string
				f    func()
			}{
				{"changed the Time field of the descriptor struct that SignEFIVariable returned next to the value", func() { desc.Time.Year, desc.Time.Second = desc.Time.Year+1, (desc.Time.Second+1)%60 }},
				{"decoded another descriptor into the descriptor struct that SignEFIVariable returned next to the value (Unmarshal)", func() {
					var ob bytes.Buffer
					other := signature.NewEFIVariableAuthentication2()
					other.Marshal(&ob)
					desc.Unmarshal(&ob)
				}},
				{"appended the next hash to the database object that was signed", func() {
					h := make([]byte, 32)
					rng.Read(h)
					o.db.Append(signature.CERT_SHA256_GUID, guidFromWire(o.owners[0]), h)
				}},
				{"signed the next update from the same database object", func() { signature.SignEFIVariable(efivar.Db, o.db, key, cert) }},
				{"removed an entry from the database object that was signed", func() {
					o.db.Remove(signature.CERT_SHA256_GUID, guidFromWire(o.last[0]), o.last[1])
				}},
			}
			for k := range steps {
				st := steps[(k+g)%len(steps)]
				if pan, msg := safely(st.f); pan {
					_ = msg // what the step itself does is not this property's business
					continue
				}
				var b bytes.Buffer
				o.upd.Marshal(&b)
				if got := o.upd.Bytes(); !bytes.Equal(got, first) || !bytes.Equal(b.Bytes(), first) {
					diffs = append(diffs, fmt.Sprintf("the caller went on and %s - no call on the signed-update value - and the value now encodes differently: upd.Bytes %s (%d bytes), upd.Marshal %s (%d bytes), every earlier call %s (%d bytes)", st.what, h8(got), len(got), h8(b.Bytes()), b.Len(), h8(first), len(first)))
					break
				}
			}
		}
		refs := []string{}
		for _, m := range pureMethods {
			refs = append(refs, m+"="+ref[m])
		}
		if len(diffs) > 0 {
			return "ok", "DIFF " + strings.Join(diffs[:min(len(diffs), 5)], " ; ")
		}
		return "ok", "same " + strings.Join(refs, ",")
	}
}

// unpadCertTable returns a copy of a PE image whose attribute certificate table is the 8-aligned tail of the file, with
// the zero padding behind the LAST WIN_CERTIFICATE cut off and the Size of the directory entry lowered accordingly (the
// table still starts on an 8-byte boundary and still ends with the file; signing tools differ in whether they pad the
// last entry). ok is false when there is nothing to cut (no table, or the last entry's length is a multiple of 8).
// The header fields are located by their offsets in the PE format, not through the library.
func unpadCertTable(img []byte) (out []byte, ok bool) {
	le := binary.LittleEndian
	if len(img) < 0x40 {
		return nil, false
	}
	opt := int(le.Uint32(img[0x3c:])) + 24
	if opt+2 > len(img) {
		return nil, false
	}
	dd := opt + 96 + 32
	if le.Uint16(img[opt:]) == 0x20b {
		dd = opt + 112 + 32
	}
	if dd+8 > len(img) {
		return nil, false
	}
	va, size := int(le.Uint32(img[dd:])), int(le.Uint32(img[dd+4:]))
	if size == 0 || va%8 != 0 || va+size != len(img) {
		return nil, false
	}
	for off := va; off+8 <= va+size; {
		n := int(le.Uint32(img[off:]))
		next := off + (n+7)&^7
		if n < 8 || next > va+size {
			return nil, false
		}
		if next == va+size { // the last entry
			pad := next - (off + n)
			if pad == 0 {
				return nil, false
			}
			out = append([]byte{}, img[:len(img)-pad]...)
			le.PutUint32(out[dd+4:], uint32(size-pad))
			return out, true
		}
		off = next
	}
	return nil, false
}

// the worker for C19 is the race-detector build of this binary
func c19Worker(c *Ctx) *Worker {
	race := filepath.Join(c.VerifDir, ".build", "vcheck-race")
	if _, err := os.Stat(race); err != nil {
		c.Note("race_build", "missing: falling back to the plain build (no data-race detection)")
		return c.NewWorker(8 << 20)
	}
	w := &Worker{c: c, env: []string{"GORACE=halt_on_error=1 exitcode=66"}, memKB: 0}
	w.startCmd = func() *exec.Cmd { return exec.Command(race, "worker") }
	w.start()
	c.Note("race_build", "go build -race")
	return w
}

// while non-nil: the worker process on which c19Gen runs a group of small cases one after the other (a worker that dies -
// the race detector halts it at the first report - is replaced by a fresh process by Worker.Do, so a case never meets
// the remains of an earlier one; a -race process takes about a second to start and exit, as long as ten small cases)
var c19Shared *Worker

func c19Eval(c *Ctx, cs Case) {
	w := c19Shared
	if w == nil {
		w = c19Worker(c)
		defer w.Close()
	}
	var img []byte
	if cs.S("path") != "" {
		img, _ = os.ReadFile(filepath.Join(c.RepoDir, cs.S("path")))
	} else {
		s := specOfCase(cs)
		s.CertBodies = nil
		img = buildPE(s).img
	}
	res := w.Do("pure.run", map[string]string{"verif": c.VerifDir, "img": hx(img), "seed": fmt.Sprint(cs.I("seed2")), "nseq": fmt.Sprint(cs.I("nseq")),
		"goroutines": fmt.Sprint(cs.I("goroutines")), "ncalls": fmt.Sprint(cs.I("ncalls")), "reparse": fmt.Sprint(cs.I("reparse")), "decoded": fmt.Sprint(cs.I("decoded")), "dbentries": fmt.Sprint(cs.I("dbentries")), "nsched": fmt.Sprint(cs.I("nsched")), "own": fmt.Sprint(cs.I("own")),
		"dbempty": fmt.Sprint(cs.I("dbempty")), "dbemptypos": fmt.Sprint(cs.I("dbemptypos")), "dbpem": fmt.Sprint(cs.I("dbpem")), "pause": fmt.Sprint(cs.I("pause")), "goeson": fmt.Sprint(cs.I("goeson"))}, 120*time.Second)
	c.Count(cs.Key(), true, fmt.Sprintf("pure/g%d/db%d/img=%s/emptylist=%s/pem-entries=%d/pause=%dms/%s", cs.I("goroutines"), 2+cs.I("dbentries"),
		[]string{"signed-in-place", "reparsed", "reparsed-last-certificate-unpadded"}[cs.I("reparse")%3],
		[]string{"none", "emptied-in-place", "appended-empty"}[cs.I("dbempty")%3]+[]string{"", "/front", "/middle", "/end"}[min(cs.I("dbempty"), 1)*(1+cs.I("dbemptypos")%3)], cs.I("dbpem"), cs.I("pause"), res.Class))
	c.Sample(Case{"goroutines": cs.I("goroutines"), "ncalls": cs.I("ncalls"), "nseq": cs.I("nseq"), "result": clip(res.Out)})
	fail := func(what string) {
		c.Fail(Failure{Kind: "property", What: what, Case: cs, Go: clip(res.Class + " " + res.Out + " " + w.stderr.String())})
	}
	st := w.stderr.String()
	switch {
	case strings.Contains(st, "DATA RACE") || res.Class == "exit" && strings.Contains(res.Out, "DATA RACE"):
		fail("the race detector reported a data race between read-only operations")
	case res.Class != "ok":
		fail("the run did not complete: " + res.Class)
	case strings.HasPrefix(res.Out, "DIFF"):
		fail("a repeated or concurrent read-only call returned a different result than the first call")
	default:
		c.Trace()
		// correspondence with the Lean model: the model's methods are functions of the object, so the
		// single reference value per method is all there is to compare; Hash and Bytes are tied in C01/C03
	}
}

func c19Gen(c *Ctx) {
	ncalls := int64(map[bool]int{false: 25, true: 100}[c.Thorough])
	for i := 0; i < c.N(6, 200) && c.NFailures() < 4; i++ {
		s := genPeSpec(c, i%5 == 4)
		cs := specCase(s)
		cs["op"] = "pure"
		cs["seed2"] = int64(c.Rng.Intn(1 << 30))
		cs["nseq"] = int64(40)
		cs["goroutines"] = int64([]int{2, 4, 8, 16}[i%4])
		cs["ncalls"] = ncalls
		cs["reparse"] = int64(i % 3) // signed in place; re-parsed from its bytes; re-parsed from bytes whose last certificate is not padded
		cs["decoded"] = int64((i / 2) % 2)
		cs["dbentries"] = int64([]int{0, 62, 300, 63, 1000, 126}[i%6]) // SHA-256 list of 2, 64, 302, 65, 1002, 128 entries
		cs["nsched"] = int64(c.P(120, 120))                            // scheduled rounds on freshly parsed copies: 36 pairs x 3 kinds + 12 triples
		cs["own"] = int64(1)
		cs["dbempty"] = int64((i + 1) % 3)        // a list without signatures: emptied in place; appended empty; none
		cs["dbemptypos"] = int64((2*i + i/3) % 3) // in front of, between, behind the other lists
		cs["dbpem"] = int64([]int{0, 1, 0, 2}[i%4])  // every second database also holds one / two X.509 entries whose bytes are PEM text
		cs["goeson"] = int64(1 + i%5)              // at the very end the caller goes on with the descriptor and the database (which step first)
		c19Eval(c, cs)
	}
	c19Eval(c, Case{"op": "pure", "path": "authenticode/testdata/test.pecoff", "seed2": int64(7), "nseq": int64(40), "goroutines": int64(8), "ncalls": ncalls, "reparse": int64(0), "decoded": int64(1), "dbentries": int64(198), "nsched": int64(120), "own": int64(1), "dbpem": int64(1), "goeson": int64(3)})
	// the repository binary once more, re-parsed from bytes whose last certificate is not padded, with the shorter
	// schedule sweep; and small runs (no scheduled rounds) over the product of: kind of the list without signatures x
	// its position x how the other lists came about, the image alternating between the two re-parsed forms
	c19Shared = c19Worker(c)
	defer func() { c19Shared.Close(); c19Shared = nil }()
	c19Eval(c, Case{"op": "pure", "path": "authenticode/testdata/test.pecoff", "seed2": int64(11), "nseq": int64(40), "goroutines": int64(4), "ncalls": ncalls, "reparse": int64(2), "decoded": int64(0), "dbentries": int64(5), "nsched": int64(c.P(40, 120)), "own": int64(1), "dbempty": int64(1), "dbemptypos": int64(1), "dbpem": int64(2), "pause": int64(1200), "goeson": int64(2)})
	for k := 0; k < c.N(12, 48) && c.NFailures() < 4; k++ {
		c19Eval(c, Case{"op": "pure", "path": "authenticode/testdata/test.pecoff", "seed2": int64(100 + k), "nseq": int64(40), "goroutines": int64(2 + k%3), "ncalls": ncalls, "reparse": int64(1 + (k/3)%2), "decoded": int64((k/6 + k) % 2), "dbentries": int64([]int{0, 1, 7, 30}[k%4]),
			"nsched": int64(0), "own": int64(k % 2), "dbempty": int64(1 + k%2), "dbemptypos": int64((k / 2) % 3), "dbpem": int64([]int{0, 1, 2}[(k/2+k)%3]), "goeson": int64(1 + k%5)})
	}
}

func init() {
	register("C19", &PropDef{
		Rule:   "for each of several signed images (generated layouts and a repository binary; parsed-and-signed in place, re-parsed from its bytes, or re-parsed from bytes whose certificate table ends WITHOUT the alignment padding behind its last WIN_CERTIFICATE - the padding cut off and the directory Size lowered, the signer chosen so that the entry's length is no multiple of 8; the table still is the 8-aligned tail of the file), a database (built through Append, or decoded from an independently encoded stream; its SHA-256 list holds 2..1002 hashes in no particular order, followed by a certificate list; in two of three cases it also holds a list WITHOUT signatures - a SHA-256, SHA-1 or X.509 list the caller emptied in place through its own pointer with SignatureList.RemoveBytes / RemoveSignature, or a new empty list added with AppendList - in front of, between or behind the other lists; every second database also holds, in a list of their own, one or two X.509 entries whose stored bytes are PEM TEXT - which Append / AppendBytes never store but the decoder takes as they are and AppendList takes from a caller who filled the list in by hand: part of the decoded stream, or a hand-built list handed to AppendList) and a signed-update value: before any call the caller notes what the objects expose (img.Datadir; db.Lists = the length of the database, the identity and order of the list objects it holds, every field of every list); the database's Bytes and Marshal are the first calls ever made on it (Bytes, Marshal, Bytes, Marshal, a look at db.Lists after each; both must write the same bytes; the two membership queries for the PEM-shaped entry are asked before the first encoding and between the encodings) and SignEFIVariable, which serialises the database it is given, must leave db.Lists as it was; then the 23 read-only methods (image: Hash, Bytes, Open, Signatures, Verify x2; database: Bytes, Marshal, BytesExists x5 incl. a type whose list is not the first, the last entry of the long list and an X.509 entry asked for by PEM text, SigDataExists, Exists x2 incl. a hand-filled list holding that PEM text; signed update: Marshal, Bytes; its decoded descriptor: Marshal, Verify x2; the same descriptor decoded behind an ALL-ZERO and behind an all-ones timestamp - a blob made without a timestamp, a value built as a literal: Marshal) and the two observations img.Datadir and db.Lists are taken once for reference, then 40 times sequentially in random order, then from 2/4/8/16 goroutines (25..100 random calls each) on the SAME objects; then, on FRESHLY parsed copies of the signed image (one copy per round, parsed from the input the image was parsed from, so that the overlapping calls are the first ever made on the object), each method as the first and only call on a copy of its own must agree with one copy asked for everything in turn, and every ordered pair of the six image methods and 12 random triples are run by two / three goroutines under a deterministic interleaving: the copy is parsed through a caller-supplied io.ReaderAt that makes the goroutines take turns at read granularity (sched.go) - a hand-over at every read; the first call held inside its first read until the second has returned; random turns of 0..3 reads - and every call, and every method once more after the round, must return what the call returns alone on a copy parsed from the same bytes (120 rounds per image); then the caller treats what it was handed as its own: it overwrites the slices returned by Hash, Bytes (image, database, signed update) and the certificate data of the entries listed by Signatures, and for each Marshal (signed update, database, descriptor) it marshals into an empty buffer, resets that buffer and reuses it for other data, marshals behind 3 bytes already in the destination, marshals into two buffers and lets each owner append 8 bytes of its own, and overwrites those destinations in place - after each of which the methods of the object must answer as at first, each destination must hold exactly (its old content,) the first encoding (and its owner's trailer); then every method and observation once more; every result must equal the first, the byte slices returned by the first Hash / Bytes / Marshal calls, held throughout, must still read the same at the end, and a second parse of the input of a re-parsed image, only ever serialised, must give the same Bytes() and Datadir as the image that answered all the calls. AT THE VERY END OF EVERY RUN THE CALLER GOES ON with the other things it holds - it changes the Time of, and decodes another descriptor into, the descriptor struct that SignEFIVariable returned next to the signed-update value, appends the next hash to the database object that was signed, signs the next update from that object, removes an entry (five steps, the first one rotating with the case) - none of which is a call on the signed-update value: after every step Marshal and Bytes of the value must return the bytes of every earlier call. Besides the 6 generated images and the repository binary with the full sweep: the repository binary re-parsed without the last padding (40 scheduled rounds) and 12 small runs (no scheduled rounds; 2..4 goroutines) over the product kind of list without signatures x its position x how the other lists came about, the image alternating between the two re-parsed forms; these 13 share one worker process; in one of them the final round of all methods is made after a PAUSE of 1.2 s (the result of a read-only call on an unchanged value is the same whenever the call is made; the long runs spread their calls over several seconds anyway). The worker is the -race build, so any data race aborts the run. Every case is non-trivial; distinct = distinct (image, schedule seed, goroutine count).",
		Assume: []string{"data-race freedom under the Go memory model is a runtime fact: the race detector observes the schedules that happen to occur in the sampled runs"},
		Eval:   c19Eval, Gen: c19Gen,
	})
}
