package main

import (
	"bytes"
	"crypto/ed25519"
	crand "crypto/rand"
	"crypto/x509"
	"crypto/x509/pkix"
	"encoding/asn1"
	"encoding/pem"
	"fmt"
	"math/big"
	mrand "math/rand"
	"strings"
	"time"

	"github.com/foxboron/go-uefi/efi/signature"
)

// universe of the C09 histories
type c09Universe struct {
	types  [][]byte
	owners [][]byte
	data   [][]byte
	ext    [][]byte          // data values for the externally-managed type: two of 1 byte (the only well-formed size), 0, 2 and 32 bytes
	pems   map[string][]byte // hex(pem) -> der
}

// wellSized: the signature data has the one size the specification fixes for this type (no rule for the other types)
func wellSized(t []byte, d []byte) bool {
	switch {
	case bytes.Equal(t, tSHA256):
		return len(d) == 32
	case bytes.Equal(t, tEXT):
		return len(d) == 1 // EFI_CERT_EXTERNAL_MANAGEMENT_GUID: SignatureSize is 16+1, the data is one byte
	}
	return true
}

func newC09Universe(c *Ctx) *c09Universe {
	u := &c09Universe{pems: map[string][]byte{}}
	u.types = [][]byte{tX509, tSHA256, tSHA1, tUnknown, tEXT}
	u.owners = [][]byte{bytes.Repeat([]byte{0x11}, 16), {0x77, 0x50, 0x80, 0xc1, 0x86, 0x4d, 0x42, 0x9e, 0xa5, 0x26, 0x11, 0x22, 0x33, 0x44, 0x55, 0x66}}
	h1 := bytes.Repeat([]byte{0xaa}, 32)
	h2 := make([]byte, 32)
	c.Rng.Read(h2)
	a := makeCert(c.Rng, "cert-A", 3)
	b := makeCert(c.Rng, "cert-B", 3)
	for len(b) != len(a) {
		b = makeCert(c.Rng, "cert-B", 3)
	}
	cc := makeCert(c.Rng, "cert-C", 9)
	// index 10: PEM of cert A behind the text other tools put in front of the block (pem.Decode skips it)
	pre := append([]byte("Bag Attributes\n    friendlyName: cert-A\nsubject=CN = cert-A\n\n"), pemOf(a)...)
	u.data = [][]byte{h1, h2, h1[:31], append(append([]byte{}, h1...), 0x01), a, pemOf(a), b, cc, pemOf(cc), make([]byte, 20), pre}
	// externally-managed entries (F37): SignatureSize is fixed at 16+1, so one byte is the only well-formed
	// data size; an empty value, two bytes and a 32-byte hash are the wrongly-sized ones. Constants: no
	// random number is consumed, the other values of the universe are what they were.
	u.ext = [][]byte{{0x01}, {0x5a}, {}, {0x01, 0x02}, h1}
	// index 11: cert D, whose DER encoding is exactly as long as the PEM text of cert A: a size taken
	// from the wrong form of a certificate then coincides with the size of a list that is really there.
	// (generator of its own, so that the other properties that use this universe see the stream they saw before)
	if d := makeCertOfLen(mrand.New(mrand.NewSource(c.Seed*7919+11)), "cert-D", len(pemOf(a))); d != nil {
		u.data = append(u.data, d)
	}
	for _, d := range u.data {
		if blk, _ := pem.Decode(d); blk != nil {
			u.pems[hx(d)] = blk.Bytes
		}
	}
	return u
}

// makeCertOfLen makes a certificate whose DER encoding has exactly n bytes (nil when none is found):
// the Organization is padded in steps of two bytes (subject and issuer), an opaque extension in steps of one.
func makeCertOfLen(rng *mrand.Rand, cn string, n int) []byte {
	seed := make([]byte, ed25519.SeedSize)
	rng.Read(seed)
	key := ed25519.NewKeyFromSeed(seed)
	serial := big.NewInt(0x40000000 + int64(rng.Intn(0x3fffffff)))
	for org := 0; org < 3; org++ {
		for ext := 0; ext <= n; ext++ {
			tmpl := &x509.Certificate{
				SerialNumber: serial,
				Subject:      pkix.Name{CommonName: cn, Organization: []string{strings.Repeat("x", 3+org)}},
				NotBefore:    time.Unix(1700000000, 0), NotAfter: time.Unix(1900000000, 0),
				ExtraExtensions: []pkix.Extension{{Id: asn1.ObjectIdentifier{1, 3, 6, 1, 4, 1, 55555, 1}, Value: bytes.Repeat([]byte{0x5a}, ext)}},
			}
			der, err := x509.CreateCertificate(crand.Reader, tmpl, tmpl, key.Public(), key)
			if err != nil {
				return nil
			}
			if len(der) == n {
				return der
			}
			if len(der) > n {
				break
			}
		}
	}
	return nil
}

// cloneDb is a deep copy of a database: no list, slice or array is shared with the original
func cloneDb(db *signature.SignatureDatabase) *signature.SignatureDatabase {
	out := signature.NewSignatureDatabase()
	for _, l := range *db {
		cp := *l
		cp.SignatureHeader = append([]byte{}, l.SignatureHeader...)
		cp.Signatures = make([]signature.SignatureData, 0, len(l.Signatures))
		for _, sg := range l.Signatures {
			cp.Signatures = append(cp.Signatures, signature.SignatureData{Owner: sg.Owner, Data: append([]byte{}, sg.Data...)})
		}
		*out = append(*out, &cp)
	}
	return out
}

// heldList is a list the caller handed to AppendList / AppendDatabase and goes on using: the caller's
// pointer, the list's type and the position in the database at which the handed-over list is
// expected (-1 once the database dropped it or was replaced by a decoded one)
type heldList struct {
	sl  *signature.SignatureList
	typ string
	idx int
}

func (u *c09Universe) pemTable() string {
	if len(u.pems) == 0 {
		return "-"
	}
	xs := []string{}
	for p, d := range u.pems {
		xs = append(xs, p+":"+hx(d))
	}
	return strings.Join(xs, ",")
}

func isScheme(t []byte) bool {
	_, ok := signature.ValidEFISignatureSchemes[guidFromWire(t)]
	return ok
}

func containsSig(sigs [][2]string, x [2]string) bool {
	for _, y := range sigs {
		if y == x {
			return true
		}
	}
	return false
}

func containsTriple(abs []triple, x triple) bool {
	for _, y := range abs {
		if y == x {
			return true
		}
	}
	return false
}

// is `after` equal to `before` with exactly one copy of x inserted somewhere?
func insertedOne(before, after []triple, x triple) bool {
	if len(after) != len(before)+1 {
		return false
	}
	for i := 0; i <= len(before); i++ {
		if after[i] != x {
			if i < len(before) && after[i] == before[i] {
				continue
			}
			return false
		}
		// candidate position i
		ok := true
		for j := i; j < len(before); j++ {
			if after[j+1] != before[j] {
				ok = false
				break
			}
		}
		if ok {
			return true
		}
		if i < len(before) && after[i] == before[i] {
			continue
		}
		return false
	}
	return false
}

func sameTriples(a, b []triple) bool {
	if len(a) != len(b) {
		return false
	}
	for i := range a {
		if a[i] != b[i] {
			return false
		}
	}
	return true
}

func absStr(a []triple) string {
	xs := []string{}
	for _, t := range a {
		xs = append(xs, fmt.Sprintf("(%s.. %s.. %d:%s)", t.t[:4], t.o[:4], len(t.d)/2, shortHex(t.d)))
	}
	return "[" + strings.Join(xs, " ") + "]"
}
func shortHex(s string) string {
	if len(s) > 12 {
		return s[:12] + "…"
	}
	return s
}

// c09History runs one history on the real code, the model and the abstract oracle.
// prop selects which oracle failures are reported (C09: all; C07: only "encodes to a well-formed
// stream that decodes to an equal database").
func c09History(c *Ctx, cs Case, prop string) {
	ops := []string{}
	if raw, ok := cs["ops"].([]interface{}); ok {
		for _, o := range raw {
			ops = append(ops, fmt.Sprint(o))
		}
	} else if raw, ok := cs["ops"].([]string); ok {
		ops = raw
	}
	start := cs.S("start")
	pemTab := cs.S("pem")
	db := signature.NewSignatureDatabase()
	if start != "empty" {
		d, err := signature.ReadSignatureDatabase(bytes.NewReader(unhx(start)))
		if err != nil {
			return
		}
		*db = d
	}
	kinds := map[byte]bool{}
	for _, o := range ops {
		kinds[o[0]] = true
	}
	c.Count(cs.Key(), len(ops) >= 2 && len(kinds) >= 2, fmt.Sprintf("history/len%d", (len(ops)+3)/4*4))
	if len(ops) <= 6 {
		c.Sample(cs)
	}
	fail := func(i int, what, goObs, spec, matcher string) {
		c.Fail(Failure{Kind: "property", Matcher: matcher, What: fmt.Sprintf("op %d (%s): %s", i, opShort(ops, i), what), Case: cs, Go: goObs, Spec: spec})
	}
	specOf := func(b []byte) ([]specList, bool) {
		r := c.Drv.Ask("sigdb.spec", hx(b))
		if !strings.HasPrefix(r, "some ") {
			return nil, false
		}
		return parseLists(r[5:]), true
	}
	lists, ok := specOf(db.Bytes())
	if !ok {
		return
	}
	abs := absOf(lists)
	emptyLists := func(ls []specList) int {
		n := 0
		for _, l := range ls {
			if len(l.sigs) == 0 {
				n++
			}
		}
		return n
	}
	nEmpty := emptyLists(lists)
	curLists := lists // the Spec view of the database before the current operation
	prevEnc := db.Bytes() // the encoding of the database before the current operation
	// "observe": "lazy" - the database OBJECT is encoded only where the history says so (operations E and B), as in a
	// program that edits a database several times between two encodings.  The view of the database the oracles and the
	// model comparison need after every operation is then taken from the exported fields of the lists (fieldEnc), which
	// is no call on the object.  (Otherwise every operation is followed by a Bytes() on the object.)
	lazy := cs.S("observe") == "lazy"
	var modelOps []string // the operations the model is asked about: all but the observations B
	var goOuts []string
	appendedEmpty := 0 // signature-less lists handed to AppendList (known finding F20)
	var held []*heldList // the lists handed to AppendList / AppendDatabase so far: the caller still has them
	for i, op := range ops {
		f := strings.Split(op, ",")
		before := abs
		beforeLists := curLists
		var class string
		var answer string
		var otherTypeAnswer, otherType string // Exists asked once more with a certtype that is not the list's type
		var handed *signature.SignatureList // the list this operation hands to the database
		var otherForm *signature.SignatureDatabase
		var otherClass string
		var observed []byte // operation B: what the encoder wrote
		panicked, pmsg := safely(func() {
			switch f[0] {
			case "A":
				if blk, _ := pem.Decode(unhx(f[3])); prop == "C09" && blk != nil && f[1] == hx(tX509) {
					// X.509 data supplied as PEM is stored as DER: the same certificate supplied as DER to
					// a copy of the database (nothing shared) has to end the same way
					otherForm = cloneDb(db)
					otherClass = errClass(otherForm.Append(guidFromWire(unhx(f[1])), guidFromWire(unhx(f[2])), blk.Bytes))
				}
				err := db.Append(guidFromWire(unhx(f[1])), guidFromWire(unhx(f[2])), unhx(f[3]))
				class = errClass(err)
			case "AS":
				// the same append through the other entry point, SignatureDatabase.AppendSignature
				if blk, _ := pem.Decode(unhx(f[3])); prop == "C09" && blk != nil && f[1] == hx(tX509) {
					otherForm = cloneDb(db)
					otherClass = errClass(otherForm.AppendSignature(guidFromWire(unhx(f[1])), &signature.SignatureData{Owner: guidFromWire(unhx(f[2])), Data: blk.Bytes}))
				}
				err := db.AppendSignature(guidFromWire(unhx(f[1])), &signature.SignatureData{Owner: guidFromWire(unhx(f[2])), Data: unhx(f[3])})
				class = errClass(err)
			case "R":
				err := db.Remove(guidFromWire(unhx(f[1])), guidFromWire(unhx(f[2])), unhx(f[3]))
				class = errClass(err)
			case "RS":
				// the same removal through SignatureDatabase.RemoveSignature
				err := db.RemoveSignature(guidFromWire(unhx(f[1])), &signature.SignatureData{Owner: guidFromWire(unhx(f[2])), Data: unhx(f[3])})
				class = errClass(err)
			case "Q":
				answer = fmt.Sprint(db.BytesExists(guidFromWire(unhx(f[1])), guidFromWire(unhx(f[2])), unhx(f[3])))
			case "QS":
				// the same membership query through SignatureDatabase.SigDataExists
				answer = fmt.Sprint(db.SigDataExists(guidFromWire(unhx(f[1])), &signature.SignatureData{Owner: guidFromWire(unhx(f[2])), Data: unhx(f[3])}))
			case "X":
				sl := signature.NewSignatureList(guidFromWire(unhx(f[1])))
				for _, e := range splitSigs(f[2]) {
					sl.AppendBytes(guidFromWire(e[0]), e[1])
				}
				answer = fmt.Sprint(db.Exists(guidFromWire(unhx(f[1])), sl))
				// the same list asked for under another certtype argument (chosen by position): a second query on the same objects
				for k, cands := 0, [][]byte{tX509, tSHA256, tEXT, tSHA1}; k < len(cands); k++ {
					if ot := cands[(k+i)%len(cands)]; hx(ot) != f[1] {
						otherType = hx(ot)
						otherTypeAnswer = fmt.Sprint(db.Exists(guidFromWire(ot), sl))
						break
					}
				}
			case "L":
				sl := signature.NewSignatureList(guidFromWire(unhx(f[1])))
				for _, e := range splitSigs(f[3]) {
					sl.AppendBytes(guidFromWire(e[0]), e[1])
				}
				db.AppendList(sl)
				handed = sl
				class = "ok"
			case "LM":
				sl := signature.NewSignatureList(guidFromWire(unhx(f[1])))
				for _, e := range splitSigs(f[2]) {
					sl.AppendBytes(guidFromWire(e[0]), e[1])
				}
				if len(sl.Signatures) == 0 {
					appendedEmpty++
				}
				db.AppendList(sl)
				handed = sl
				class = "ok"
			case "LH", "DH":
				// AppendList (LH) / AppendDatabase (DH) of a hand-built, well-formed list that carries a
				// SignatureHeader: f = op, type, signature size, header, entries
				hdr, size, es := unhx(f[3]), atoi(f[2]), splitSigs(f[4])
				sl := &signature.SignatureList{
					SignatureType:   guidFromWire(unhx(f[1])),
					ListSize:        uint32(28 + len(hdr) + len(es)*size),
					HeaderSize:      uint32(len(hdr)),
					Size:            uint32(size),
					SignatureHeader: append([]byte{}, hdr...),
				}
				for _, e := range es {
					sl.Signatures = append(sl.Signatures, signature.SignatureData{Owner: guidFromWire(e[0]), Data: append([]byte{}, e[1]...)})
				}
				if f[0] == "LH" {
					db.AppendList(sl)
				} else {
					other := signature.SignatureDatabase{sl}
					db.AppendDatabase(&other)
				}
				handed = sl
				class = "ok"
			case "HA", "HR":
				// the caller goes on editing a list it handed over earlier (list-level AppendBytes /
				// RemoveBytes on the pointer it holds): f = op, ordinal of the handed-over list, entry
				k, es := atoi(f[1]), splitSigs(f[2])
				class = "nolist"
				if k >= len(held) || len(es) != 1 {
					break
				}
				h, o, d := held[k], es[0][0], es[0][1]
				if f[0] == "HR" && h.idx >= 0 && h.idx < len(curLists) && len(curLists[h.idx].sigs) == 1 && curLists[h.idx].sigs[0] == [2]string{hx(o), hx(d)} {
					// would leave a signature-less list inside the database: known finding F20, not repeated here
					class = "skip"
					break
				}
				var err error
				if f[0] == "HA" {
					err = h.sl.AppendBytes(guidFromWire(o), d)
				} else {
					err = h.sl.RemoveBytes(guidFromWire(o), d)
				}
				class = errClass(err)
				if h.idx < 0 {
					class = "detached" // no longer the database's business, whatever the list said
				}
			case "LA":
				// list-level AppendBytes on a list that is part of the database
				i := atoi(f[1])
				class = "err"
				if es := splitSigs(f[2]); i < len(*db) && len(es) == 1 {
					class = errClass((*db)[i].AppendBytes(guidFromWire(es[0][0]), es[0][1]))
				}
			case "E":
				d, err := signature.ReadSignatureDatabase(bytes.NewReader(db.Bytes()))
				class = errClass(err)
				if err == nil {
					*db = d
				}
			case "B":
				// the object is ENCODED and stays what it is (the next operations go on with the same list objects):
				// f = op, entry point (Bytes / Marshal / WriteSignatureDatabase / the lists' own Bytes())
				switch atoi(f[1]) % 4 {
				case 0:
					observed = db.Bytes()
				case 1:
					var mb bytes.Buffer
					db.Marshal(&mb)
					observed = mb.Bytes()
				case 2:
					w := &plainWriter{}
					signature.WriteSignatureDatabase(w, *db)
					observed = w.b
				default:
					for _, l := range *db {
						observed = append(observed, l.Bytes()...)
					}
				}
				if observed == nil {
					observed = []byte{}
				}
				class = "ok"
			}
		})
		if panicked {
			fail(i, "panic: "+pmsg, "panic", "return", "")
			return
		}
		// where the handed-over lists are expected inside the database (the drivers keep the same book)
		switch {
		case handed != nil:
			held = append(held, &heldList{handed, f[1], len(*db) - 1})
		case (f[0] == "R" || f[0] == "RS") && class == "ok":
			for j, l := range curLists { // the first list of this type and size that holds the entry: dropped if that was its only one
				if l.typ == f[1] && l.size == fmt.Sprint(len(unhx(f[3]))+16) && len(l.sigs) > 0 && containsSig(l.sigs, [2]string{f[2], f[3]}) {
					if len(l.sigs) == 1 {
						for _, h := range held {
							if h.idx == j {
								h.idx = -1
							} else if h.idx > j {
								h.idx--
							}
						}
					}
					break
				}
			}
		case f[0] == "E" && class == "ok":
			for _, h := range held {
				h.idx = -1
			}
		}
		if f[0] == "HA" || f[0] == "HR" {
			c.Class("history/held-list-" + f[0] + "-" + class) // distribution only
		}
		if (f[0] == "A" || f[0] == "R" || f[0] == "AS" || f[0] == "RS") && class == "ok" {
			for _, l := range *db { // distribution only: edits that reached a list with a signature header
				if l.HeaderSize > 0 && hx(wireGUID(l.SignatureType)) == f[1] {
					c.Class("history/" + f[0] + "-ok-with-header-list-of-type")
					break
				}
			}
		}
		var enc []byte
		if lazy {
			enc = fieldEnc(*db)
		} else {
			enc = db.Bytes()
		}
		if f[0] != "B" {
			modelOps = append(modelOps, op)
			if answer != "" {
				goOuts = append(goOuts, answer)
			} else {
				goOuts = append(goOuts, class+" "+hx(enc))
			}
		}
		// ---- abstract oracle (from the property statement) ----
		lists, wf := specOf(enc)
		if !wf {
			// F20 (known): a list without signatures keeps SignatureSize 0 (NewSignatureList, or a list
			// emptied by the list-level RemoveBytes) and AppendList stores it as it is. Narrow: the
			// stream is well-formed once exactly those lists are left out.
			matcher := ""
			rest := signature.NewSignatureDatabase()
			empties := 0
			for _, l := range *db {
				if len(l.Signatures) == 0 && l.Size == 0 && l.ListSize == 28 {
					empties++
					continue
				}
				rest.AppendList(l)
			}
			// ... and every such list was put there by an AppendList of a signature-less list in this
			// history (an empty list left behind by Append or Remove is a different violation)
			if _, ok := specOf(rest.Bytes()); ok && empties > 0 && empties == appendedEmpty {
				matcher = "c07.empty_list_size_zero"
			}
			fail(i, "database no longer encodes to a well-formed stream", hx(enc), "Spec.decodeDb = some _", matcher)
			return
		}
		abs = absOf(lists)
		curLists = lists
		if f[0] == "B" {
			// "every database built through the library's own operations encodes to a well-formed stream that decodes
			// to an equal database": what the encoder wrote must decode (Spec codec) to exactly the lists the object
			// holds NOW - whatever was encoded earlier and whatever was done to the database in between
			got := c.Drv.Ask("sigdb.spec", hx(observed))
			if want := "some " + goDbStr(*db); got != want {
				entry := []string{"Bytes()", "Marshal()", "WriteSignatureDatabase", "the lists' own Bytes()"}[atoi(f[1])%4]
				fail(i, "the encoding of the database ("+entry+") does not decode to the database as it is now: the stream holds other lists / entries than the object", clip(got), clip(want), "")
				return
			}
		}
		if prop == "C09" {
			for _, l := range lists {
				seen := map[[2]string]bool{}
				for _, s := range l.sigs {
					if seen[s] {
						fail(i, "a list holds two identical entries", absStr(abs), "no duplicates within a list", "")
					}
					seen[s] = true
				}
			}
			switch f[0] {
			case "A", "AS":
				nd := f[3]
				if f[1] == hx(tX509) {
					if blk, _ := pem.Decode(unhx(f[3])); blk != nil {
						nd = hx(blk.Bytes)
					}
				}
				x := triple{f[1], f[2], nd}
				mustErr := ""
				switch {
				case !isScheme(unhx(f[1])):
					mustErr = "unknown signature type"
				case containsTriple(before, x):
					mustErr = "duplicate entry"
				case f[1] == hx(tSHA256) && len(unhx(nd)) != 32:
					mustErr = "wrongly-sized SHA-256 data"
				case f[1] == hx(tEXT) && len(unhx(nd)) != 1:
					// EFI_CERT_EXTERNAL_MANAGEMENT_GUID: SignatureSize is 16+1 (UEFI 2.8 section 32.4.1); the library's
					// own decoder accepts no other size
					mustErr = "wrongly-sized externally-managed data"
				}
				if mustErr != "" {
					if class != "err" || !sameTriples(before, abs) {
						fail(i, "append of a "+mustErr+" must report an error and change nothing", class+" "+absStr(abs), "err "+absStr(before), "")
					} else if !bytes.Equal(enc, prevEnc) {
						fail(i, "append of a "+mustErr+" reported an error but the database encodes differently than before: an operation that fails changes nothing", hx(enc), hx(prevEnc), "")
					}
				} else if class != "ok" || !insertedOne(before, abs, x) {
					fail(i, "a valid append must add exactly this one entry and keep the others in order", class+" "+absStr(abs), "ok "+absStr(before)+" + "+absStr([]triple{x}), "")
				} else if why := appendTouchedOneList(beforeLists, lists, x); why != "" {
					// ... and "every list's size fields satisfy the equations": the entry goes to the end of ONE list whose
					// type and SignatureSize are the entry's, or into a new list behind all others; every other list - also
					// one without entries, which shows in no entry collection - keeps the fields it had
					fail(i, "a valid append must add the entry at the end of a list of its type and signature size, or as a new list behind all others, and leave every other list (also a list without entries) as it was: "+why, listsStrShort(lists), listsStrShort(beforeLists)+" + "+absStr([]triple{x}), "")
				}
				if otherForm != nil && (otherClass != class || !bytes.Equal(otherForm.Bytes(), enc)) {
					// the encodings differ: compare the entry collections (a different split into lists alone is not held against it)
					if ol, ok := specOf(otherForm.Bytes()); !ok || otherClass != class || !sameTriples(absOf(ol), abs) {
						fail(i, "X.509 data supplied as PEM must be stored as DER: appending the PEM form and appending the DER form of one certificate to the same database end differently",
							"PEM: "+class+" "+absStr(abs), "DER: "+otherClass+" "+absStr(absOf(ol)), "")
					}
				}
			case "R", "RS":
				x := triple{f[1], f[2], f[3]}
				if containsTriple(before, x) {
					if class != "ok" || !insertedOne(abs, before, x) {
						fail(i, "removing a present entry must delete exactly one copy of it", class+" "+absStr(abs), "ok "+absStr(before)+" - "+absStr([]triple{x}), "")
					}
					if emptyLists(lists) > nEmpty {
						fail(i, "a list that became empty was not dropped", goDbStr(*db), "no new empty list", "")
					}
				} else if class != "err" || !sameTriples(before, abs) {
					fail(i, "removing an absent entry must report an error and change nothing", class+" "+absStr(abs), "err "+absStr(before), "")
				} else if !bytes.Equal(enc, prevEnc) {
					fail(i, "removing an absent entry reported an error but the database encodes differently than before (a list was dropped or resized): an operation that fails changes nothing", hx(enc), hx(prevEnc), "")
				}
			case "Q", "QS":
				want := fmt.Sprint(containsTriple(before, triple{f[1], f[2], f[3]}))
				if answer != want {
					fail(i, map[string]string{"Q": "BytesExists", "QS": "SigDataExists"}[f[0]]+" disagrees with the entry collection", answer, want, "")
				}
			case "X":
				all := true
				for _, e := range splitSigs(f[2]) {
					if !containsTriple(before, triple{f[1], hx(e[0]), hx(e[1])}) {
						all = false
					}
				}
				if answer != fmt.Sprint(all) {
					fail(i, "Exists disagrees with the entry collection", answer, fmt.Sprint(all), "")
				}
				if otherTypeAnswer != "" {
					// with a certtype argument that differs from the list's own type the entries asked for are those of the
					// list's type or those of the certtype - the statement does not say which; any other answer is wrong
					allOther := true
					for _, e := range splitSigs(f[2]) {
						if !containsTriple(before, triple{otherType, hx(e[0]), hx(e[1])}) {
							allOther = false
						}
					}
					if otherTypeAnswer != fmt.Sprint(all) && otherTypeAnswer != fmt.Sprint(allOther) {
						fail(i, "Exists with certtype "+otherType[:8]+".. for a list of another type agrees with the entry collection under neither type", otherTypeAnswer, fmt.Sprintf("%v (entries of the list's type) or %v (of the certtype)", all, allOther), "")
					}
				}
			case "L", "LH", "DH":
				exp := append([]triple{}, before...)
				for _, e := range splitSigs(f[len(f)-1]) {
					exp = append(exp, triple{f[1], hx(e[0]), hx(e[1])})
				}
				if !sameTriples(exp, abs) {
					fail(i, "AppendList must add the list's entries at the end", absStr(abs), absStr(exp), "")
				}
				if f[0] != "L" {
					if len(lists) == 0 || lists[len(lists)-1].hdr != f[3] {
						fail(i, "AppendList must keep the list's signature header", goDbStr(*db), f[3], "")
					}
				}
			case "E":
				if !sameTriples(before, abs) {
					fail(i, "encode/decode changed the entry collection", absStr(abs), absStr(before), "")
				}
			case "HA", "HR":
				// whatever the caller does to a list it handed over, the database changes by at most that
				// one entry: all other entries keep content and relative order
				if class == "nolist" || class == "skip" || class == "detached" {
					if !sameTriples(before, abs) {
						fail(i, "an edit of a list that is not (or no longer) part of the database changed the entry collection", class+" "+absStr(abs), absStr(before), "")
					}
					break
				}
				h, e := held[atoi(f[1])], splitSigs(f[2])[0]
				nd := hx(e[1])
				if blk, _ := pem.Decode(e[1]); blk != nil && f[0] == "HA" && h.typ == hx(tX509) {
					nd = hx(blk.Bytes)
				}
				x := triple{h.typ, hx(e[0]), nd}
				switch {
				case sameTriples(before, abs):
				case f[0] == "HA" && class == "ok" && insertedOne(before, abs, x):
				case f[0] == "HR" && class == "ok" && insertedOne(abs, before, x):
				default:
					fail(i, "the caller edited the list it had handed to AppendList: the database may change by that one entry only, all other entries keep content and relative order",
						class+" "+absStr(abs), absStr(before)+" -/+ "+absStr([]triple{x}), "")
				}
			}
			if f[0] != "R" && f[0] != "RS" {
				nEmpty = emptyLists(lists)
			}
		}
		if prop == "C07" && f[0] == "E" {
			// "every database built through the library's own operations encodes to a well-formed stream that
			// decodes to an equal database": when all lists are of the types the decoder handles (X.509,
			// SHA-256, externally-managed) the library's decoder has to accept the stream ...
			allHandled := true
			for _, l := range lists {
				if !(l.typ == hx(tX509) || l.typ == hx(tSHA256) || l.typ == hx(tEXT)) {
					allHandled = false
				}
			}
			if allHandled && class != "ok" {
				what := "a database built through the library's operations does not decode from its own encoding"
				for _, l := range lists {
					switch {
					case l.typ == hx(tEXT) && l.size != "17":
						what += fmt.Sprintf(" (it holds an externally-managed list of signature size %s: the operations let in data that is not one byte)", l.size)
					case l.typ == hx(tSHA256) && l.size != "48":
						what += fmt.Sprintf(" (it holds a SHA-256 list of signature size %s)", l.size)
					}
				}
				fail(i, what, class+" "+goDbStr(*db), "ok", "")
			}
			// ... and what it decodes to is an equal database: the same lists, so the same encoding
			if class == "ok" && !bytes.Equal(enc, prevEnc) {
				fail(i, "the database decoded from the encoding of a built database is not equal to it (it encodes differently)", hx(enc), hx(prevEnc), "")
			}
		}
		prevEnc = enc
	}
	// ---- correspondence with the Lean model, op by op ----
	c.Trace()
	if len(modelOps) == 0 {
		return
	}
	m := c.Drv.Ask("sigdb.ops", pemTab, start, strings.Join(modelOps, ";"))
	c.GenTie(cs, "sigdb.ops (Append / Remove / queries / AppendList / encode-decode)", m, "gen.sigdb.ops", pemTab, start, strings.Join(modelOps, ";"))
	if m != strings.Join(goOuts, "/") {
		mo := strings.Split(m, "/")
		for i := range goOuts {
			if i >= len(mo) || mo[i] != goOuts[i] {
				mm := "(missing)"
				if i < len(mo) {
					mm = mo[i]
				}
				c.Fail(Failure{Kind: "tie", What: fmt.Sprintf("sigdb.ops disagrees at op %d (%s)", i, opShort(modelOps, i)), Case: cs, Model: mm, Go: goOuts[i]})
				break
			}
		}
	}
}

func opShort(ops []string, i int) string {
	if i >= len(ops) {
		return "?"
	}
	o := ops[i]
	if len(o) > 60 {
		return o[:60] + "…"
	}
	return o
}

func errClass(err error) string {
	if err != nil {
		return "err"
	}
	return "ok"
}

func splitSigs(s string) [][2][]byte {
	var out [][2][]byte
	if s == "" || s == "-" {
		return nil
	}
	for _, e := range strings.Split(s, "+") {
		od := strings.Split(e, ":")
		if len(od) == 2 {
			out = append(out, [2][]byte{unhx(od[0]), unhx(od[1])})
		}
	}
	return out
}

// random history over the universe
func genHistory(c *Ctx, u *c09Universe, maxLen int) Case {
	n := 1 + c.Rng.Intn(maxLen)
	pick := func(xs [][]byte) []byte { return xs[c.Rng.Intn(len(xs))] }
	// bias towards a small sub-universe so that duplicates and removals of present entries happen
	var recent [][3][]byte
	ops := []string{}
	// the lists handed to AppendList / AppendDatabase so far, in order (the ordinal the HA / HR operations use)
	type handedList struct {
		t       []byte
		entries [][2][]byte
	}
	var handed []*handedList
	hand := func(t []byte, es []string) {
		h := &handedList{t: t}
		for _, e := range splitSigs(strings.Join(es, "+")) {
			if der, isPem := u.pems[hx(e[1])]; isPem {
				e[1] = der
			}
			h.entries = append(h.entries, e)
		}
		handed = append(handed, h)
	}
	for i := 0; i < n; i++ {
		t, o, d := pick(u.types), pick(u.owners), pick(u.data)
		if c.Rng.Intn(3) != 0 { // type-appropriate data most of the time
			switch {
			case bytes.Equal(t, tSHA256):
				d = u.data[c.Rng.Intn(4)]
			case bytes.Equal(t, tX509):
				d = u.data[[]int{4, 5, 6, 7, 8, 10, len(u.data) - 1}[c.Rng.Intn(7)]]
			case bytes.Equal(t, tEXT):
				// one byte (two values) most of the time; 0, 2 and 32 bytes are the wrongly-sized ones
				d = u.ext[[]int{0, 0, 1, 1, 2, 3, 4}[c.Rng.Intn(7)]]
			}
		}
		if len(recent) > 0 && c.Rng.Intn(2) == 0 {
			r := recent[c.Rng.Intn(len(recent))]
			t, o, d = r[0], r[1], r[2]
			if c.Rng.Intn(4) == 0 { // same data, other form (PEM <-> DER)
				if der, ok := u.pems[hx(d)]; ok && c.Rng.Intn(2) == 0 {
					d = der
				} else { // or another textual form of the same certificate
					der, isPem := u.pems[hx(d)]
					if !isPem {
						der = d
					}
					var forms [][]byte
					for _, x := range u.data {
						if dd, ok := u.pems[hx(x)]; ok && bytes.Equal(dd, der) && !bytes.Equal(x, d) {
							forms = append(forms, x)
						}
					}
					if len(forms) > 0 {
						d = forms[c.Rng.Intn(len(forms))]
					}
				}
			}
		}
		// every third append / removal / query goes through the library's other entry point of the same
		// operation (AppendSignature / RemoveSignature / SigDataExists); chosen by position, so that no
		// random number is consumed and the histories are otherwise the ones generated before
		via := ""
		if (i+n)%3 == 0 {
			via = "S"
		}
		switch k := c.Rng.Intn(24); {
		case k < 8:
			ops = append(ops, fmt.Sprintf("A%s,%s,%s,%s", via, hx(t), hx(o), hx(d)))
			recent = append(recent, [3][]byte{t, o, d})
		case k < 12:
			ops = append(ops, fmt.Sprintf("R%s,%s,%s,%s", via, hx(t), hx(o), hx(d)))
		case k < 16:
			ops = append(ops, fmt.Sprintf("Q%s,%s,%s,%s", via, hx(t), hx(o), hx(d)))
		case k < 17:
			m := 1 + c.Rng.Intn(2)
			es := []string{}
			for j := 0; j < m; j++ {
				// all entries of the probe list have one size: lengths are compared on the stored (DER) form
				der := func(x []byte) []byte {
					if y, isPem := u.pems[hx(x)]; isPem {
						return y
					}
					return x
				}
				dd := der(d)
				if j > 0 && len(recent) > 0 {
					r := recent[c.Rng.Intn(len(recent))]
					if len(der(r[2])) == len(dd) {
						dd = der(r[2])
					}
				}
				es = append(es, hx(o)+":"+hx(dd))
			}
			if !wellSized(t, d) {
				continue // the probe list is built through AppendBytes, which refuses such data
			}
			ops = append(ops, fmt.Sprintf("X,%s,%s", hx(t), strings.Join(es, "+")))
		case k < 18:
			// AppendList of a fresh well-formed non-empty list of a handled type
			lt := [][]byte{tX509, tSHA256, tEXT}[c.Rng.Intn(3)]
			var dd []byte
			if bytes.Equal(lt, tSHA256) {
				dd = u.data[c.Rng.Intn(2)]
			} else if bytes.Equal(lt, tEXT) {
				dd = u.ext[c.Rng.Intn(2)]
			} else {
				dd = [][]byte{u.data[4], u.data[6], u.data[7]}[c.Rng.Intn(3)]
			}
			es := []string{hx(o) + ":" + hx(dd)}
			if c.Rng.Intn(2) == 0 {
				o2 := u.owners[0]
				if bytes.Equal(o, o2) {
					o2 = u.owners[1]
				}
				es = append(es, hx(o2)+":"+hx(dd))
			}
			ops = append(ops, fmt.Sprintf("L,%s,%d,%s", hx(lt), len(dd)+16, strings.Join(es, "+")))
			hand(lt, es)
			recent = append(recent, [3][]byte{lt, o, dd})
		case k >= 21:
			// the caller goes on using a list it handed over: list-level AppendBytes / RemoveBytes on its
			// own pointer, interleaved with the database-level operations around it
			if len(handed) == 0 || c.Rng.Intn(4) == 0 {
				// hand over a list of two to four entries of one size first (all built through AppendBytes)
				lt := [][]byte{tX509, tSHA256, tEXT}[c.Rng.Intn(3)]
				pool := [][]byte{u.data[0], u.data[1]}
				if bytes.Equal(lt, tX509) {
					pool = [][]byte{u.data[4], u.data[6]}
				} else if bytes.Equal(lt, tEXT) {
					pool = [][]byte{u.ext[0], u.ext[1]}
				}
				var es []string
				m := 2 + c.Rng.Intn(3)
				for _, j := range c.Rng.Perm(4)[:m] {
					es = append(es, hx(u.owners[j%2])+":"+hx(pool[j/2]))
					recent = append(recent, [3][]byte{lt, u.owners[j%2], pool[j/2]})
				}
				ops = append(ops, fmt.Sprintf("L,%s,%d,%s", hx(lt), len(pool[0])+16, strings.Join(es, "+")))
				hand(lt, es)
				break
			}
			hk := c.Rng.Intn(len(handed))
			h := handed[hk]
			if c.Rng.Intn(2) == 0 {
				// remove: mostly an entry the list was given, sometimes whatever came up
				ho, hd := o, d
				if len(h.entries) > 0 && c.Rng.Intn(5) != 0 {
					e := h.entries[c.Rng.Intn(len(h.entries))]
					ho, hd = e[0], e[1]
				}
				ops = append(ops, fmt.Sprintf("HR,%d,%s:%s", hk, hx(ho), hx(hd)))
			} else {
				// append: mostly data of the size the list holds (in any textual form), sometimes whatever came up
				ho, hd := o, d
				if len(h.entries) > 0 && c.Rng.Intn(5) != 0 {
					var fit [][]byte
					if bytes.Equal(h.t, tEXT) {
						// the caller appends to the externally-managed list it handed over: the well-formed size and the others
						hd = u.ext[c.Rng.Intn(len(u.ext))]
					}
					for _, x := range u.data {
						der, isPem := u.pems[hx(x)]
						if !isPem {
							der = x
						}
						if len(der) == len(h.entries[0][1]) && (!isPem || bytes.Equal(h.t, tX509)) {
							fit = append(fit, x)
						}
					}
					if len(fit) > 0 {
						hd = fit[c.Rng.Intn(len(fit))]
					}
				}
				ops = append(ops, fmt.Sprintf("HA,%d,%s:%s", hk, hx(ho), hx(hd)))
				der, isPem := u.pems[hx(hd)]
				if !isPem || !bytes.Equal(h.t, tX509) {
					der = hd
				}
				h.entries = append(h.entries, [2][]byte{ho, der})
				recent = append(recent, [3][]byte{h.t, ho, der})
			}
		case k < 19:
			ops = append(ops, "E")
		case k == 20:
			// AppendList / AppendDatabase of a hand-built list that carries a non-empty SignatureHeader
			// (HeaderSize > 0). Only types that the specification defines but the decoder does not
			// implement can hold one, so such a list never comes out of ReadSignatureDatabase or
			// NewSignatureList. Later operations are steered towards it: its own entry (duplicate
			// append, remove) and new entries of the same type and size (database Append lands in it).
			// ... and so can a list of a type the library does not know at all: AppendList / AppendDatabase
			// take it as it is, and it is part of the entry collection like any other list
			lt := [][]byte{tSHA1, tSHA384, tUnknown, tUnknown2}[c.Rng.Intn(4)]
			dd := d
			if der, isPem := u.pems[hx(dd)]; isPem {
				dd = der
			}
			o2 := u.owners[0]
			if bytes.Equal(o, o2) {
				o2 = u.owners[1]
			}
			es := []string{hx(o) + ":" + hx(dd)}
			recent = append(recent, [3][]byte{lt, o, dd})
			for _, x := range u.data {
				if len(x) == len(dd) && !bytes.Equal(x, dd) {
					if c.Rng.Intn(2) == 0 {
						es = append(es, hx(o)+":"+hx(x))
					}
					recent = append(recent, [3][]byte{lt, o2, x})
					break
				}
			}
			if c.Rng.Intn(3) == 0 {
				es = append(es, hx(o2)+":"+hx(dd))
			}
			recent = append(recent, [3][]byte{lt, o2, dd})
			ops = append(ops, fmt.Sprintf("%s,%s,%d,%s,%s", []string{"LH", "DH"}[c.Rng.Intn(2)], hx(lt), len(dd)+16, hx(randBytes(c, 1+c.Rng.Intn(12))), strings.Join(es, "+")))
			hand(lt, es)
		default:
			// a list built through the list-level API with certificates of two different lengths
			if r := c.Rng.Intn(6); r == 5 {
				// AppendList of a list nothing was appended to (known finding F20)
				ops = append(ops, fmt.Sprintf("LM,%s,-", hx([][]byte{tSHA256, tX509}[c.Rng.Intn(2)])))
				hand(nil, nil)
			} else if r < 2 {
				ops = append(ops, fmt.Sprintf("LM,%s,%s", hx(tX509), hx(u.owners[0])+":"+hx(u.data[4])+"+"+hx(u.owners[1])+":"+hx(u.data[7])))
				hand(tX509, []string{hx(u.owners[0]) + ":" + hx(u.data[4])})
			} else if r == 2 {
				// ... with one certificate in several of its textual forms (DER, PEM, PEM behind text) and others:
				// the list-level AppendBytes has to recognise the duplicate whatever form it arrives in
				forms := [][]byte{u.data[4], u.data[5], u.data[10], u.data[7], u.data[8], u.data[6]}
				var es []string
				for k := 2 + c.Rng.Intn(3); k > 0; k-- {
					es = append(es, hx(u.owners[c.Rng.Intn(2)])+":"+hx(forms[c.Rng.Intn(len(forms))]))
				}
				ops = append(ops, fmt.Sprintf("LM,%s,%s", hx(tX509), strings.Join(es, "+")))
				hand(tX509, es)
			} else if r == 3 {
				// an externally-managed list built through the list-level API from data of the well-formed size
				// (one byte) and of other sizes, in any order: what AppendBytes lets in is what the database holds
				var es []string
				for k := 1 + c.Rng.Intn(3); k > 0; k-- {
					es = append(es, hx(u.owners[c.Rng.Intn(2)])+":"+hx(u.ext[c.Rng.Intn(len(u.ext))]))
				}
				ops = append(ops, fmt.Sprintf("LM,%s,%s", hx(tEXT), strings.Join(es, "+")))
				hand(tEXT, nil) // which of them the list took depends on the code under test: the book keeps the type only
			} else {
				ops = append(ops, "E")
			}
		}
	}
	start := "empty"
	if c.Rng.Intn(3) == 0 {
		// a decoded start: 1-3 well-formed lists without duplicates inside a list
		var b []byte
		for k := 0; k < 1+c.Rng.Intn(3); k++ {
			if c.Rng.Intn(5) == 0 {
				sigs := [][2][]byte{{u.owners[0], u.ext[c.Rng.Intn(2)]}}
				if c.Rng.Intn(2) == 0 {
					sigs = append(sigs, [2][]byte{u.owners[1], u.ext[c.Rng.Intn(2)]})
				}
				b = append(b, encodeList(tEXT, nil, 17, sigs)...)
			} else if c.Rng.Intn(2) == 0 {
				sigs := [][2][]byte{{u.owners[0], u.data[c.Rng.Intn(2)]}}
				if c.Rng.Intn(2) == 0 {
					sigs = append(sigs, [2][]byte{u.owners[1], u.data[c.Rng.Intn(2)]})
				}
				b = append(b, encodeList(tSHA256, nil, 48, sigs)...)
			} else {
				cert := [][]byte{u.data[4], u.data[6], u.data[7]}[c.Rng.Intn(3)]
				b = append(b, encodeList(tX509, nil, len(cert)+16, [][2][]byte{{u.owners[c.Rng.Intn(2)], cert}})...)
			}
		}
		start = hx(b)
	}
	opsI := make([]interface{}, len(ops))
	for i, o := range ops {
		opsI[i] = o
	}
	return Case{"op": "history", "pem": u.pemTable(), "start": start, "ops": opsI}
}

// failure signature used to decide that a shrunk history still shows "the same" failure
func failSig(f Failure) string {
	w := f.What
	if i := strings.Index(w, "): "); i >= 0 {
		w = w[i+3:]
	}
	return f.Kind + "|" + w
}

// historyShrunk evaluates a history; if it fails, the failing history is minimised by deleting
// operations (re-querying the Go code and the model at every step) before it is recorded.
func historyShrunk(c *Ctx, cs Case, prop string) {
	n0 := c.NFailures()
	c09History(c, cs, prop)
	if c.NFailures() == n0 {
		return
	}
	c.mu.Lock()
	first := c.failures[n0]
	c.mu.Unlock()
	sig := failSig(first)
	cur := cs
	best := []Failure{first}
	opsOf := func(x Case) []interface{} { o, _ := x["ops"].([]interface{}); return o }
	for changed := true; changed; {
		changed = false
		ops := opsOf(cur)
		for i := len(ops) - 1; i >= 0 && len(ops) > 1; i-- {
			cand := Case{"op": "history", "pem": cur["pem"], "start": cur["start"]}
			if ob, ok := cur["observe"]; ok {
				cand["observe"] = ob
			}
			no := append(append([]interface{}{}, ops[:i]...), ops[i+1:]...)
			cand["ops"] = no
			fs := c.Probe(func(p *Ctx) { c09History(p, cand, prop) })
			for _, f := range fs {
				if failSig(f) == sig {
					cur, ops, best, changed = cand, no, []Failure{f}, true
					break
				}
			}
		}
		if cur.S("start") != "empty" {
			cand := Case{"op": "history", "pem": cur["pem"], "start": "empty", "ops": cur["ops"]}
			if ob, ok := cur["observe"]; ok {
				cand["observe"] = ob
			}
			fs := c.Probe(func(p *Ctx) { c09History(p, cand, prop) })
			for _, f := range fs {
				if failSig(f) == sig {
					cur, best, changed = cand, []Failure{f}, true
					break
				}
			}
		}
	}
	c.ReplaceFailuresFrom(n0, best)
}

func c09Eval(c *Ctx, cs Case) { historyShrunk(c, cs, "C09") }

// genEmptyListHistory: databases that hold a list WITHOUT entries whose SignatureSize is not zero. The
// library's own Append / Remove never leave such a list behind, but the decoder accepts it (ListSize 28, any
// valid SignatureSize) and AppendList takes it from a caller, so "starting from a decoded database" and
// "append-list" of the quantifier reach it. In the entry-collection view such a list holds nothing: every
// operation has to look past it. The list sits in front of, between, or behind the lists that hold the
// entries (of the same type and size, so that it "fits" every append / remove / query of that type), the
// history then removes and queries entries that are present and that are absent, appends into it, encodes and
// decodes, and goes on with a random history.
func genEmptyListHistory(c *Ctx, u *c09Universe, i int, maxLen int) Case {
	h := genHistory(c, u, maxLen)
	var t []byte
	var vals [][]byte
	switch i % 3 {
	case 0:
		t, vals = tSHA256, [][]byte{u.data[0], u.data[1]}
	case 1:
		t, vals = tX509, [][]byte{u.data[4], u.data[6]} // certificates of one length
	default:
		t, vals = tEXT, [][]byte{u.ext[0], u.ext[1]}
	}
	size := len(vals[0]) + 16
	o0, o1 := u.owners[0], u.owners[1]
	sigs := [][2][]byte{{o0, vals[0]}}
	if i/3%2 == 1 {
		sigs = append(sigs, [2][]byte{o1, vals[1]})
	}
	full := encodeList(t, nil, size, sigs)
	empty := encodeList(t, nil, size, nil)
	other := encodeList(tX509, nil, 16+len(u.data[7]), nil) // a signature-less list of another size (and, for two of the types, another type)
	cat := func(xs ...[]byte) string {
		var b []byte
		for _, x := range xs {
			b = append(b, x...)
		}
		return hx(b)
	}
	entry := func(o, d []byte) string { return fmt.Sprintf("%s,%s,%s", hx(t), hx(o), hx(d)) }
	present, absent := entry(o0, vals[0]), entry(o0, vals[1])
	var pre []interface{}
	start := "empty"
	layout := i / 6 % 6
	switch layout {
	case 0:
		start = cat(empty, full)
	case 1:
		start = cat(empty, empty, full)
	case 2:
		start = cat(other, empty, full)
	case 3:
		start = cat(full, empty)
	case 4:
		start = cat(empty)
	default:
		// the same through AppendList: a caller hands over a well-formed list without entries (ListSize 28, the
		// type's SignatureSize), then the list that holds the entries
		es := []string{}
		for _, sg := range sigs {
			es = append(es, hx(sg[0])+":"+hx(sg[1]))
		}
		pre = append(pre, fmt.Sprintf("LH,%s,%d,-,-", hx(t), size), fmt.Sprintf("L,%s,%d,%s", hx(t), size, strings.Join(es, "+")))
	}
	switch i / 36 % 4 {
	case 0:
		pre = append(pre, "R,"+absent, "Q,"+present, "R,"+present, "Q,"+present, "E")
	case 1:
		pre = append(pre, "R,"+present, "QS,"+present, "RS,"+absent, "E")
	case 2:
		pre = append(pre, "RS,"+absent, "E", "RS,"+present, "Q,"+present)
	default:
		pre = append(pre, "A,"+absent, "Q,"+absent, "R,"+present, "R,"+present, "Q,"+absent)
	}
	ops := pre
	for _, o := range h["ops"].([]interface{}) {
		if so := fmt.Sprint(o); layout == 5 && (strings.HasPrefix(so, "HA,") || strings.HasPrefix(so, "HR,")) {
			continue // the ordinals of the held-list operations count the lists the random part handed over itself
		}
		ops = append(ops, o)
	}
	return Case{"op": "history", "pem": h["pem"], "start": start, "ops": ops}
}

func sameSpecList(a, b specList) bool {
	if a.typ != b.typ || a.listSize != b.listSize || a.hdrSize != b.hdrSize || a.size != b.size || a.hdr != b.hdr || len(a.sigs) != len(b.sigs) {
		return false
	}
	for i := range a.sigs {
		if a.sigs[i] != b.sigs[i] {
			return false
		}
	}
	return true
}

func listsStrShort(ls []specList) string {
	xs := []string{}
	for _, l := range ls {
		es := []string{}
		for _, sg := range l.sigs {
			es = append(es, sg[0][:4]+"..:"+shortHex(sg[1]))
		}
		xs = append(xs, fmt.Sprintf("{%s.. ListSize=%s HeaderSize=%s SignatureSize=%s [%s]}", l.typ[:4], l.listSize, l.hdrSize, l.size, strings.Join(es, " ")))
	}
	return "[" + strings.Join(xs, " ") + "]"
}

// appendTouchedOneList: is `after` the list sequence `before` with entry x (stored form) added at the end of exactly one
// list of x's type and signature size, or with one new header-less list holding just x behind all others? "" if so.
func appendTouchedOneList(before, after []specList, x triple) string {
	size := fmt.Sprint(len(x.d)/2 + 16)
	if x.d == "-" {
		size = "16"
	}
	entry := [2]string{x.o, x.d}
	switch len(after) {
	case len(before) + 1:
		for j := range before {
			if !sameSpecList(before[j], after[j]) {
				return fmt.Sprintf("a new list was added and list %d changed as well", j)
			}
		}
		n := after[len(after)-1]
		if n.typ != x.t || n.size != size || n.hdrSize != "0" || len(n.sigs) != 1 || n.sigs[0] != entry {
			return "the list added at the end is not a header-less list of the entry's type and size holding just the entry"
		}
		return ""
	case len(before):
		changed := -1
		for j := range before {
			if !sameSpecList(before[j], after[j]) {
				if changed >= 0 {
					return fmt.Sprintf("lists %d and %d both changed", changed, j)
				}
				changed = j
			}
		}
		if changed < 0 {
			return "no list changed"
		}
		b, a := before[changed], after[changed]
		if b.typ != x.t || b.size != size {
			return fmt.Sprintf("the entry (signature size %s) went into list %d, which had SignatureSize %s", size, changed, b.size)
		}
		if a.typ != b.typ || a.size != b.size || a.hdrSize != b.hdrSize || a.hdr != b.hdr || len(a.sigs) != len(b.sigs)+1 || a.sigs[len(b.sigs)] != entry {
			return fmt.Sprintf("list %d did not change by the entry at its end alone", changed)
		}
		for k := range b.sigs {
			if a.sigs[k] != b.sigs[k] {
				return fmt.Sprintf("list %d: an older entry changed", changed)
			}
		}
		return ""
	}
	return fmt.Sprintf("%d lists before, %d after", len(before), len(after))
}

// genMultiListHistory: databases that hold TWO OR MORE LISTS OF ONE TYPE AND SIGNATURE SIZE, and the list-valued
// membership query Exists on them. Append alone keeps one list per type and size, but a decoded database (a dbx
// holds many SHA-256 lists) and AppendList / AppendDatabase (which never merge) give several; in the entry-collection
// view it does not matter in which list an entry lives. Four entries of one type (2 owners x 2 values of one size) are
// split over two lists - decoded from the start stream (next to each other, or with a list of another type between
// them), handed over by two AppendList calls, or a decoded list plus an AppendList - one of the four possibly left
// out; the history then asks Exists for lists whose entries live in DIFFERENT database lists (in both orders), in the
// first list only, in the second list only, for a list with an absent entry, for a list WITHOUT entries (of this type
// and of a type no database list has: every one of its zero entries is present), encodes and decodes, asks again,
// removes an entry and asks for a list that holds it, and goes on with a random history.
func genMultiListHistory(c *Ctx, u *c09Universe, i int, maxLen int) Case {
	h := genHistory(c, u, maxLen)
	var t []byte
	var vals [][]byte
	switch i % 3 {
	case 0:
		t, vals = tSHA256, [][]byte{u.data[0], u.data[1]}
	case 1:
		t, vals = tX509, [][]byte{u.data[4], u.data[6]} // certificates of one length
	default:
		t, vals = tEXT, [][]byte{u.ext[0], u.ext[1]}
	}
	size := len(vals[0]) + 16
	all := [][2][]byte{{u.owners[0], vals[0]}, {u.owners[1], vals[0]}, {u.owners[0], vals[1]}, {u.owners[1], vals[1]}}
	c.Rng.Shuffle(len(all), func(a, b int) { all[a], all[b] = all[b], all[a] })
	k := 1 + c.Rng.Intn(2)         // entries of the first list
	m := k + 1 + c.Rng.Intn(4-k-1+1) // entries of both lists together (k+1 .. 4)
	if m > 4 {
		m = 4
	}
	l1, l2, absent := all[:k], all[k:m], all[m:]
	es := func(xs ...[2][]byte) string {
		if len(xs) == 0 {
			return "-"
		}
		out := []string{}
		for _, x := range xs {
			out = append(out, hx(x[0])+":"+hx(x[1]))
		}
		return strings.Join(out, "+")
	}
	lop := func(l [][2][]byte) string { return fmt.Sprintf("L,%s,%d,%s", hx(t), size, es(l...)) }
	otherT, otherV := tSHA256, u.data[1]
	if bytes.Equal(t, tSHA256) {
		otherT, otherV = tX509, u.data[7]
	}
	other := encodeList(otherT, nil, len(otherV)+16, [][2][]byte{{u.owners[1], otherV}})
	start := "empty"
	var pre []interface{}
	usedL := false
	switch i / 3 % 4 {
	case 0:
		start = hx(append(encodeList(t, nil, size, l1), encodeList(t, nil, size, l2)...))
	case 1:
		start = hx(append(append(encodeList(t, nil, size, l1), other...), encodeList(t, nil, size, l2)...))
	case 2:
		pre = append(pre, lop(l1), lop(l2))
		usedL = true
	default:
		start = hx(encodeList(t, nil, size, l1))
		pre = append(pre, lop(l2))
		usedL = true
	}
	x := func(xs ...[2][]byte) string { return fmt.Sprintf("X,%s,%s", hx(t), es(xs...)) }
	noListType := tSHA1
	span, spanRev := x(l1[len(l1)-1], l2[0]), x(l2[len(l2)-1], l1[0])
	everything := x(append(append([][2][]byte{}, l2...), l1...)...)
	pre = append(pre, span, x(l2...), x(l1...), spanRev, everything, x(), fmt.Sprintf("X,%s,-", hx(noListType)))
	if len(absent) > 0 {
		pre = append(pre, x(l1[0], absent[0]), x(absent[0], l2[0]), x(absent...))
	}
	rm := l1[len(l1)-1]
	switch i / 12 % 3 {
	case 0:
		pre = append(pre, "E", span, everything)
	case 1:
		pre = append(pre, fmt.Sprintf("R,%s,%s,%s", hx(t), hx(rm[0]), hx(rm[1])), span, x(l2...), spanRev)
	default:
		pre = append(pre, fmt.Sprintf("A,%s,%s,%s", hx(otherT), hx(u.owners[0]), hx(otherV)), span, "E", spanRev, x(l2[len(l2)-1]))
	}
	ops := pre
	for _, o := range h["ops"].([]interface{}) {
		if so := fmt.Sprint(o); usedL && (strings.HasPrefix(so, "HA,") || strings.HasPrefix(so, "HR,")) {
			continue // the ordinals of the held-list operations count the lists the random part handed over itself
		}
		ops = append(ops, o)
	}
	return Case{"op": "history", "pem": h["pem"], "start": start, "ops": ops}
}

// genUnfitEmptyHistory: a list WITHOUT entries of the entry's type whose SignatureSize is NOT the entry's size, standing
// in front of other lists - decoded from the start stream (the decoder accepts ListSize 28 with any SignatureSize of at
// least 16 for X.509) or handed over by AppendList as a hand-built list (X.509, SHA-1). It holds nothing and fits
// nothing: an append of that type has to go past it - into the later list of its size (behind that list's entries), into
// a later list without entries that does fit, or into a new list at the end - and must leave it as it was; an append
// whose size IS the empty list's size lands in it. Entries of another type stand between the empty list and the fitting
// one in a part of the histories, so that a misplaced entry also shows in the ORDER of the entry collection after the
// next encode-decode; queries, a removal and a random history follow.
func genUnfitEmptyHistory(c *Ctx, u *c09Universe, i int, maxLen int) Case {
	h := genHistory(c, u, maxLen)
	o0, o1 := u.owners[0], u.owners[1]
	a, b, cc := u.data[4], u.data[6], u.data[7] // |a| = |b| != |cc|
	ent := func(t, o, d []byte) string { return fmt.Sprintf("%s,%s,%s", hx(t), hx(o), hx(d)) }
	cat := func(xs ...[]byte) string {
		var o []byte
		for _, x := range xs {
			o = append(o, x...)
		}
		return hx(o)
	}
	unfit := encodeList(tX509, nil, 16+len(cc), nil) // sized for certificate C
	tiny := encodeList(tX509, nil, 16+1, nil)
	fitEmpty := encodeList(tX509, nil, 16+len(a), nil)
	full := encodeList(tX509, nil, 16+len(a), [][2][]byte{{o0, a}})
	sha := encodeList(tSHA256, nil, 48, [][2][]byte{{o1, u.data[0]}})
	start := "empty"
	var pre []interface{}
	usedL := false
	app := []string{"A,", "AS,"}[i/8%2]
	switch i % 8 {
	case 0:
		start = cat(unfit, full)
		pre = append(pre, app+ent(tX509, o1, b))
	case 1:
		start = cat(unfit, sha, full)
		pre = append(pre, app+ent(tX509, o1, b))
	case 2:
		start = cat(unfit)
		pre = append(pre, app+ent(tX509, o0, a), app+ent(tSHA256, o0, u.data[1]), app+ent(tX509, o1, b))
	case 3:
		start = cat(tiny, unfit, sha, fitEmpty, full)
		pre = append(pre, app+ent(tX509, o1, b))
	case 4:
		start = cat(sha, unfit)
		pre = append(pre, app+ent(tX509, o0, a))
	case 5:
		// the same through AppendList: the caller hands over a hand-built list without entries, then entries arrive
		pre = append(pre, fmt.Sprintf("LH,%s,%d,-,-", hx(tX509), 16+len(cc)), app+ent(tSHA256, o0, u.data[0]), app+ent(tX509, o0, a), app+ent(tX509, o1, b))
		usedL = true
	case 6:
		pre = append(pre, fmt.Sprintf("LH,%s,%d,-,-", hx(tSHA1), 16+32), app+ent(tX509, o0, a), app+ent(tSHA1, o0, u.data[9]), app+ent(tSHA1, o1, u.data[9]))
		usedL = true
	default:
		start = cat(unfit, full)
		pre = append(pre, fmt.Sprintf("LH,%s,%d,-,-", hx(tX509), 16+1), app+ent(tX509, o1, b))
		usedL = true
	}
	pre = append(pre, "Q,"+ent(tX509, o1, b), "E")
	switch i / 16 % 3 {
	case 0:
		pre = append(pre, app+ent(tX509, o0, cc), "E") // an entry of the empty list's own size
	case 1:
		pre = append(pre, "R,"+ent(tX509, o0, a), app+ent(tX509, o0, b), "E")
	default:
		pre = append(pre, app+ent(tX509, o0, u.data[5]), "Q,"+ent(tX509, o0, a)) // the PEM form of certificate A
	}
	ops := pre
	for _, o := range h["ops"].([]interface{}) {
		if so := fmt.Sprint(o); usedL && (strings.HasPrefix(so, "HA,") || strings.HasPrefix(so, "HR,")) {
			continue
		}
		ops = append(ops, o)
	}
	return Case{"op": "history", "pem": h["pem"], "start": start, "ops": ops}
}

func c09Gen(c *Ctx) {
	u := newC09Universe(c)
	for i := 0; i < c.N(3000, 100000); i++ {
		historyShrunk(c, genHistory(c, u, c.P(12, 40)), "C09")
		if c.NFailures() >= 8 {
			break
		}
	}
	// a generator of its own, so that the histories above stay what they were
	sub := &Ctx{Rng: mrand.New(mrand.NewSource(c.Seed*49979687 + 13 + int64(c.Shard)*1000003)), Thorough: c.Thorough}
	for i := 0; i < c.N(288, 10000) && c.NFailures() < 8; i++ {
		historyShrunk(c, genEmptyListHistory(sub, u, i, c.P(6, 20)), "C09")
	}
	// generators of their own again
	sub2 := &Ctx{Rng: mrand.New(mrand.NewSource(c.Seed*32452867 + 29 + int64(c.Shard)*1000003)), Thorough: c.Thorough}
	for i := 0; i < c.N(144, 6000) && c.NFailures() < 8; i++ {
		historyShrunk(c, genMultiListHistory(sub2, u, i, c.P(5, 16)), "C09")
	}
	sub3 := &Ctx{Rng: mrand.New(mrand.NewSource(c.Seed*49979711 + 31 + int64(c.Shard)*1000003)), Thorough: c.Thorough}
	for i := 0; i < c.N(144, 6000) && c.NFailures() < 8; i++ {
		historyShrunk(c, genUnfitEmptyHistory(sub3, u, i, c.P(5, 16)), "C09")
	}
}

func init() {
	register("C09", &PropDef{
		Rule:   "random histories of append / remove / BytesExists / Exists (every third append, removal and membership query enters through the library's other name for the operation: SignatureDatabase.AppendSignature, RemoveSignature, SigDataExists - same oracle, and for PEM appends the same PEM-vs-DER comparison through that entry point; model driver ops AS / RS / QS, translated-code driver: the translated AppendSignature / RemoveSignature / SigDataExists) / AppendList / AppendList and AppendDatabase of a hand-built list with a 1..12-byte SignatureHeader (HeaderSize > 0; types SHA1 / SHA384, which only a caller can build, and two GUIDs that are no signature type at all - a list of a type unknown to the library can only enter this way, is part of the entry collection like any other, and must answer the queries and give up its entries to remove; later appends and removes are steered into that list) / HELD-LIST operations (the caller keeps the pointer of every list it handed to AppendList / AppendDatabase and goes on editing it through the list-level AppendBytes / RemoveBytes - lists of two to four equal-sized entries are handed over for this - interleaved with the database-level operations; in the library the database's list is that very list, which the oracle, the model driver and the translated-code driver follow with a book of positions; an edit may change the database by that one entry only, a list the database dropped or that a decode replaced must not change it at all; a RemoveBytes that would leave a signature-less list inside the database is skipped: known finding F20) / encode-decode over types {X509, SHA256, externally-managed (EFI_CERT_EXTERNAL_MANAGEMENT_GUID, whose signature size the specification fixes at 16+1), SHA1 (valid, undecodable), unknown GUID} x 2 owners x {two hashes, 31- and 33-byte strings, cert A DER/PEM/PEM behind a text preamble, cert B (|B|=|A|), cert C DER/PEM (|C|!=|A|), 20 bytes, cert D whose DER length equals the length of the PEM text of cert A; for the externally-managed type two one-byte values (the only well-formed size) and values of 0, 2 and 32 bytes}, started from empty or from a decoded well-formed stream (X.509, SHA-256 and externally-managed lists); WRONGLY-SIZED appends (F37): SHA-256 data that is not 32 bytes and externally-managed data that is not one byte must report an error and change nothing, through Append and AppendSignature alike; externally-managed lists are also handed over by AppendList (well-formed, and built through the list-level AppendBytes from values of all five sizes) and edited by their holder; operands are biased towards recently used triples. LISTS WITHOUT ENTRIES THAT CARRY A SIGNATURE SIZE (288 further histories, generator of their own): the database holds a signature-less list of the entry's type and size (ListSize 28, SignatureSize 48 / certificate size / 17) - decoded from the start stream in front of (once, twice, behind a signature-less list of another size), behind or instead of the list that holds the entries, or handed over by AppendList as a hand-built list followed by the list with the entries; the history then removes (Remove and RemoveSignature) an entry that is absent and one that is present, queries both, appends into the empty list, encodes and decodes, and continues with a random history - in the entry-collection view such a list holds nothing, so every operation has to look past it. SEVERAL LISTS OF ONE TYPE AND SIZE, AND THE LIST-VALUED QUERY (144 further histories, generator of their own): four entries of one type (SHA-256 / X.509 certificates of one length / externally-managed; 2 owners x 2 values) are split over TWO database lists of that type and size - decoded from the start stream next to each other or with a list of another type between them, handed over by two AppendList calls, or one decoded and one handed over - possibly leaving one of the four out; SignatureDatabase.Exists is then asked for lists whose entries live in DIFFERENT database lists (both orders), in the first list only, in the second only, for all entries, for lists with an absent entry, and for a list WITHOUT entries (of that type, and of a type no database list has: each of its zero entries is present), again after an encode-decode, after a removal of one of the entries and after an append of another type, followed by a random history; oracle as for every Exists: true exactly when every entry of the queried list is in the entry collection, in whichever list. Every Exists query of every history is repeated with a certtype argument that is not the queried list's type (rotating): the answer must agree with the entry collection under the list's type or under the certtype (the statement does not say which). LISTS WITHOUT ENTRIES THAT DO NOT FIT (144 further histories): a signature-less list of the entry's TYPE but of ANOTHER SignatureSize (X.509 sized for a certificate of another length, or 16+1; decoded from the start stream in front of the list that holds the entries, in front of a SHA-256 list and that list, alone, behind a SHA-256 list, or together with a fitting signature-less list; or hand-built and handed to AppendList - X.509 and SHA-1) stands in front of other lists and entries of that type are appended (Append / AppendSignature; DER and PEM), among them one of exactly the empty list's size, then queried, encoded and decoded, removed, and a random history follows. LIST-LEVEL ORACLE ON EVERY SUCCESSFUL APPEND of every history (from the size equations of the statement, on the Spec-decoded lists before and after): the entry is added at the end of exactly ONE list whose type and SignatureSize are the entry's, or as a new header-less list holding just it behind all others; every other list - also a list without entries, which shows in no entry collection - keeps type, sizes, header and entries. Every append / removal that must fail is also required to leave the ENCODING as it was (an operation that reports an error changes nothing, not even a list without entries). Every append of an X.509 certificate in PEM form is repeated with the DER form on a deep copy of the database: error class and entry collection have to be the same (PEM is stored as DER, whatever lists are present). Non-trivial: at least two operations of at least two kinds; distinct = distinct histories.",
		Assume: []string{"lists handed to AppendList / AppendDatabase are fresh, well-formed (ListSize = 28 + HeaderSize + n*SignatureSize, HeaderSize = len(SignatureHeader)) and duplicate-free (slice aliasing between two databases is outside the model; the caller's pointer to a handed-over list is inside it since the held-list operations); an empty one reproduces known finding F20", "a decoded start database has no duplicate entry inside a list"},
		Eval:   c09Eval,
		Gen:    c09Gen,
	})
}
