package main

// a small lenient DER tree used to build structural mutations of signature blobs

type derNode struct {
	tag      byte
	kids     []*derNode // constructed
	leaf     []byte     // primitive
	compound bool
}

func parseDER(b []byte) ([]*derNode, bool) {
	var out []*derNode
	for len(b) > 0 {
		if len(b) < 2 {
			return nil, false
		}
		tag := b[0]
		l := int(b[1])
		hl := 2
		if l&0x80 != 0 {
			n := l & 0x7f
			if n == 0 || n > 4 || len(b) < 2+n {
				return nil, false
			}
			l = 0
			for i := 0; i < n; i++ {
				l = l<<8 | int(b[2+i])
			}
			hl = 2 + n
		}
		if len(b) < hl+l {
			return nil, false
		}
		body := b[hl : hl+l]
		n := &derNode{tag: tag}
		if tag&0x20 != 0 {
			kids, ok := parseDER(body)
			if ok {
				n.kids, n.compound = kids, true
			} else {
				n.leaf = append([]byte{}, body...)
			}
		} else {
			n.leaf = append([]byte{}, body...)
		}
		out = append(out, n)
		b = b[hl+l:]
	}
	return out, true
}

func (n *derNode) encode() []byte {
	var body []byte
	if n.compound {
		for _, k := range n.kids {
			body = append(body, k.encode()...)
		}
	} else {
		body = n.leaf
	}
	return append(append([]byte{n.tag}, derLen(len(body))...), body...)
}

func (n *derNode) clone() *derNode {
	c := &derNode{tag: n.tag, compound: n.compound, leaf: append([]byte{}, n.leaf...)}
	for _, k := range n.kids {
		c.kids = append(c.kids, k.clone())
	}
	return c
}

// all nodes in pre-order with their parents
func (n *derNode) walk(parent *derNode, f func(n, parent *derNode)) {
	f(n, parent)
	for _, k := range n.kids {
		k.walk(n, f)
	}
}
